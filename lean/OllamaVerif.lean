import OllamaVerif.Model.Bytes
import OllamaVerif.Model.Gguf
