/-
  Parsers/printers shared by the GGUF oracles (C05, C10). Commands:
    gguf-enc <pinned 0|1> <nkv> {keyhex tag payload}* <nt> {namehex kind <ndims> dims* datahex}*
        -> ok <hex> | panic:<site>
    gguf-dec <maxArray> <budget|-> <hex>
        -> ok <summary> | err:eof | err:invalid | panic:<site> | alloc:<site>
-/
import OllamaVerif.Model.Gguf
import Oracle.Util
namespace Oracle.Lib.GgufShow
open OllamaVerif OllamaVerif.Gguf Oracle

def pKVal : TP KVal := do
  let tag ← tok
  match tag with
  | "u32" => return .u32 (← nat)
  | "f32" => return .f32 (← nat)
  | "bool" => return .bool ((← nat) != 0)
  | "str" => return .str (← hex)
  | "ai32" => return .ai32 (← listOf nat)
  | "au32" => return .au32 (← listOf nat)
  | "af32" => return .af32 (← listOf nat)
  | "astr" => return .astr (← listOf hex)
  | _ => failure

def pKV : TP (Bytes × KVal) := do
  let k ← hex
  let v ← pKVal
  pure (k, v)

def pTIn : TP TIn := do
  let name ← hex
  let kind ← nat
  let shape ← listOf nat
  let data ← hex
  pure ⟨name, kind, shape, data⟩

def showErr : Err → String
  | .eof => "err:eof"
  | .ueof => "err:ueof"
  | .invalid _ => "err:invalid"
  | .panic s => s!"panic:{s}"
  | .alloc s _ => s!"alloc:{s}"

def tagName (t : Nat) : String :=
  match t with
  | 0 => "u8" | 1 => "i8" | 2 => "u16" | 3 => "i16" | 4 => "u32" | 5 => "i32" | 6 => "f32"
  | 7 => "bool" | 8 => "str" | 10 => "u64" | 11 => "i64" | 12 => "f64" | _ => "?"

def showElem (t : Nat) : Elem → String
  | .scalar raw => s!"{tagName t}:{raw}"
  | .str s => s!"str:{hexOrDash s}"

def showVal : Val → String
  | .scalar t raw => s!"{tagName t}:{raw}"
  | .str s => s!"str:{hexOrDash s}"
  | .arr _ size none => s!"arr:{size}:nil"
  | .arr t size (some es) => s!"arr:{size}:[{joinWith "," (es.map (showElem t))}]"

def showKVs (kvs : List (Bytes × Val)) : String :=
  let strs := kvs.map fun (k, v) => s!"{hexOrDash k}={showVal v}"
  joinWith ";" (strs.toArray.qsort (· < ·)).toList

def showT (t : TInfo) : String :=
  s!"{hexOrDash t.name},{t.kind},{joinWith "x" (t.shape.map toString)},{t.offset}"

def showDecoded (d : Decoded) : String :=
  s!"ok v={d.version} kv=[{showKVs d.kvs}] t=[{joinWith ";" (d.tensors.map showT)}] to={d.tensorOffset} end={d.endOffset}"

end Oracle.Lib.GgufShow
