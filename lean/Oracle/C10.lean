/-
  Oracle commands for C10 (stub: owns no commands yet).
-/
import Oracle.Util
namespace Oracle.C10
open Oracle

def handle (toks : List String) : Option String :=
  match toks with
  | _ => none

end Oracle.C10

def main (_ : List String) : IO Unit := Oracle.runMain Oracle.C10.handle
