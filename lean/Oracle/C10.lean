/-
  Oracle commands for C10 (decoder safety):
    gguf-safe <maxArray> <budget> <hex>
        -> the decoder model's outcome class with per-allocation budget B:
           ok <summary> | err:eof | err:invalid | panic:<site> | alloc
           or `gray` when the outcome under budget B and under 16·B differ (an allocation request
           in the zone where the implementation's measured total may fall either side).
    gguf-layers <maxSeek> <hex>
        -> what POST /api/create makes of an uploaded file: `err` | `loop` | `death` | `ok sizes=<n1,n2,…> media=<m|a|p,…>` (one model layer per
           GGUF found back to back in the file, with the bytes each layer gets)
    gguf-from <maxSeek> <hex> / gguf-show <maxSeek> <hex>
        -> what POST /api/create {"from"} / POST /api/show (verbose) answer for an installed model whose weights are the file:
           `ok` | `err` | `death`
-/
import OllamaVerif.Model.Gguf
import OllamaVerif.Model.GgufApi
import Oracle.Util
import Oracle.Lib.GgufShow
namespace Oracle.C10
open OllamaVerif OllamaVerif.Gguf Oracle Oracle.Lib.GgufShow

def showSafe : Except Err Decoded → String
  | .ok d => showDecoded d
  | .error (.alloc _ _) => "alloc"
  | .error e => showErr e

def handle (toks : List String) : Option String :=
  match toks with
  | "gguf-safe" :: rest =>
    runTP (do
      let maxA ← int
      let budget ← nat
      let bs ← hex
      let a := showSafe (decode bs maxA (some budget))
      let b := showSafe (decode bs maxA (some (16 * budget)))
      pure (if a == b then a else "gray")) rest
  | "gguf-layers" :: rest =>
    -- server/create.go ggufLayers on an uploaded file: `loop` (does not terminate), `err`, or the byte sizes of the layers
    runTP (do
      let maxSeek ← nat           -- the file system's largest seekable offset, measured by the driver
      let bs ← hex
      pure (match createUpload bs none Guards.tree maxSeek with
        | none => "loop"
        | some (.error (.panic _)) => "death"
        | some (.error _) => "err"
        | some (.ok ls) => "ok sizes=" ++ joinWith "," (ls.map fun l => toString l.size)
            ++ " media=" ++ joinWith "," (ls.map fun l => if l.media = 1 then "a" else if l.media = 2 then "p" else "m"))) rest
  | "gguf-from" :: rest =>
    -- POST /api/create {"from": m} on an installed model whose single model layer is the file
    runTP (do
      let maxSeek ← nat
      let bs ← hex
      pure (match createFrom [bs] none Guards.tree maxSeek with
        | .error (.panic _) => "death"
        | .error _ => "err"
        | .ok _ => "ok")) rest
  | "gguf-show" :: rest =>
    -- POST /api/show (verbose) on an installed model whose weights are the file
    runTP (do
      let maxSeek ← nat
      let bs ← hex
      pure (match showModel bs true none Guards.tree maxSeek with
        | .error (.panic _) => "death"
        | .error _ => "err"
        | .ok _ => "ok")) rest
  | _ => none

end Oracle.C10

def main (_ : List String) : IO Unit := Oracle.runMain Oracle.C10.handle
