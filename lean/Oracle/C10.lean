/-
  Oracle commands for C10 (decoder safety):
    gguf-safe <maxArray> <budget> <hex>
        -> the decoder model's outcome class with per-allocation budget B:
           ok <summary> | err:eof | err:invalid | panic:<site> | alloc
           or `gray` when the outcome under budget B and under 16·B differ (an allocation request
           in the zone where the implementation's measured total may fall either side).
-/
import OllamaVerif.Model.Gguf
import Oracle.Util
import Oracle.Lib.GgufShow
namespace Oracle.C10
open OllamaVerif OllamaVerif.Gguf Oracle Oracle.Lib.GgufShow

def showSafe : Except Err Decoded → String
  | .ok d => showDecoded d
  | .error (.alloc _ _) => "alloc"
  | .error e => showErr e

def handle (toks : List String) : Option String :=
  match toks with
  | "gguf-safe" :: rest =>
    runTP (do
      let maxA ← int
      let budget ← nat
      let bs ← hex
      let a := showSafe (decode bs maxA (some budget))
      let b := showSafe (decode bs maxA (some (16 * budget)))
      pure (if a == b then a else "gray")) rest
  | _ => none

end Oracle.C10

def main (_ : List String) : IO Unit := Oracle.runMain Oracle.C10.handle
