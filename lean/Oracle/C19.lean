/-
  Oracle commands for C19 (stub: owns no commands yet).
-/
import Oracle.Util
namespace Oracle.C19
open Oracle

def handle (toks : List String) : Option String :=
  match toks with
  | _ => none

end Oracle.C19

def main (_ : List String) : IO Unit := Oracle.runMain Oracle.C19.handle
