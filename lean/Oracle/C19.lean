/-
  Oracle commands for C19 (chatPrompt):
    chat <variant: bit0 = F4 repaired, bit1 = legacy-loop (F4b) repaired> <mllama 0|1> <proj 0|1|2> <limit> <style> <tokmode>
         <L> {<role s|u|a|t|o> <contenthex> <nimgs> {<src> <ok 0|1>}*}*
         <ncosts> <cost>*
      cost[i] (0 ≤ i < L-1) = tokens of the REAL template+tokenizer on system(i) ++ msgs[i:]
      (what the loop would measure at iteration i); the model's loop uses this vector.
      style 0/1/2/3 = the harness templates, which the oracle also renders itself
      (prompt string, and a cross-check of the cost vector); style ≥ 4 = a template the oracle
      does not know (prompt reported as `?`).
      -> panic:empty | err:too-many-images | err:preprocess
       | ok q=<tokenizer calls> imgs=<id:src:pre,…|-> msgs=<hex;…> prompt=<hex|?> costs=<ok|BAD@i|?>
         (msgs = contents of ALL messages after the call: chatPrompt rewrites msgs[n:] in place)
-/
import OllamaVerif.Model.Prompt
import Oracle.Util
namespace Oracle.C19
open OllamaVerif OllamaVerif.Prompt Oracle

def pRole : TP Role := do
  let t ← tok
  match t with
  | "s" => pure .system
  | "u" => pure .user
  | "a" => pure .assistant
  | "t" => pure .tool
  | "o" => pure .other
  | _ => failure

def pImg : TP Img := do
  let src ← nat
  let ok ← nat
  pure ⟨src, ok != 0⟩

def pMsg : TP Msg := do
  let r ← pRole
  let c ← hex
  let imgs ← listOf pImg
  pure ⟨r, splitImg c, imgs⟩

def showImgs (l : List ImgOut) : String :=
  if l.isEmpty then "-" else
    joinWith "," (l.map fun o => s!"{o.id}:{o.src}:{if o.pre then 1 else 0}")

def firstBad (given mine : List Nat) (i : Nat) : Option Nat :=
  match given, mine with
  | [], [] => none
  | g :: gs, m :: ms => if g = m then firstBad gs ms (i+1) else some i
  | _, _ => some i

def handle (toks : List String) : Option String :=
  match toks with
  | "chat" :: rest =>
    runTP (do
      let fixed ← nat
      let mllama ← nat
      let proj ← nat
      let limit ← int
      let style ← nat
      let mode ← nat
      let msgs ← listOf pMsg
      let costs ← listOf nat
      let cfg : Cfg := ⟨fixed % 2 != 0, mllama != 0, proj, limit⟩
      let cost : Nat → Nat := fun i => costs.getD i 0
      let rend : List Msg → Bytes := fun l => render (fixed / 2 % 2 != 0) style (l.map toRMsg)
      pure (match chatPrompt cfg cost msgs with
        | .panicEmpty => "panic:empty"
        | .errTooMany => "err:too-many-images"
        | .errPreprocess => "err:preprocess"
        | .ok q n sys ret imgs =>
          let all := msgs.take n ++ ret
          let ms := joinWith ";" (all.map fun m => hexOrDash (renderPieces m.content))
          let prompt := if style ≤ 3 then hexOrDash (rend (sys ++ ret)) else "?"
          let chk :=
            if style ≤ 3 then
              let mine := (List.range (msgs.length - 1)).map
                (costOfRender (fun l => tokenCount mode (rend l)) msgs)
              match firstBad costs mine 0 with
              | none => "ok"
              | some i => s!"BAD@{i}"
            else "?"
          s!"ok q={q} imgs={showImgs imgs} msgs={ms} prompt={prompt} costs={chk}")) rest
  | _ => none

end Oracle.C19

def main (_ : List String) : IO Unit := Oracle.runMain Oracle.C19.handle
