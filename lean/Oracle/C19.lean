/-
  Oracle commands for C19 (chatPrompt + template.Execute + the runner's tag resolution):

    chat <variant> <mllama 0|1> <proj 0|1|2> <limit> <tokmode> <srchex> <tmpl> <ntools> <toolsJSONhex>
         <L> {<role s|u|a|t|o> <contenthex> <nimgs> {<src> <ok 0|1>}*}*
         <ncosts> <cost>*
      variant = f4fixed + 2*lmode + 8*efix + 16*f5fixed   (variant of the tree under test, probed by the driver;
                f5fixed: every incoming content goes through `sanitizeBytes` first)
      tmpl    = X                      (template outside the modelled subset: opaque)
              | T <nodes>              (the parse tree the REAL template.Parse produced)
        nodes = <n> node*
        node  = T <hex> | A expr | I expr nodes <hasElse 0|1> nodes | R expr nodes <hasElse> nodes
        expr  = f <Field> | v <Field> | s <hex> | eq e e | ne e e | not e | and e e | or e e
      cost[i] (0 ≤ i < L-1) = tokens of the REAL template+tokenizer on system(i) ++ msgs[i:],
                or E (Execute returned an error) / P (Execute panicked) / K (the tokenizer
                returned an error; at most one)
      The generic model runs on the real cost vector; for a non-opaque template the model also
      executes the template itself (prompt string, cross-check of the cost vector, and of the
      generic run).
      -> panic:empty | err:too-many-images | err:preprocess | err:template | err:tokenize | panic:template-cut
       | ok q=<tokenizer calls> imgs=<id:src:pre,…|-> msgs=<hex;…> prompt=<hex|?> costs=<ok|BAD@i|?>
            tok=<byte lengths of the strings given to the tokenizer, in call order|-|?>
         (toolsJSON = api.Tools.String() of the request's tools: part of every candidate render and of the final one)
         (msgs = contents of ALL messages after the call: chatPrompt rewrites msgs[n:] in place)

    resolve <prompthex> <nimgs> {<id>}*
      runner `inputs`: the `[img-N]` matches of the prompt bytes, and for each the position of
      the first image whose ID is N
      -> ok <pos,…|-> | err:invalid-image-index

    hchat <variant> <default num_ctx> <model PARAMETER num_ctx|-> <request num_ctx|-> <numParallel>
          <srchex> <tmpl> <ntools> <toolsJSONhex> <sysHex> <nModel> {msg}* <nReq> {msg}*
      POST /api/chat end to end (real ChatHandler, real Scheduler incl. its load path, mock runner whose
      tokenizer is strings.Fields): the model's MESSAGEs, SYSTEM, TEMPLATE and num_ctx PARAMETER, the
      request's messages and num_ctx option, the number of parallel slots the scheduler loaded with
      -> load | ok loaded=<NumCtx the runner was loaded with> imgs=<…> prompt=<hex>
         (prompt/imgs = what the handler passes to Completion) | err…

    ochat <same head as hchat … <sysHex> <nModel> {msg}*> <nReq> {<role> S <contenthex> | <role> P <nparts> {T <hex> | I <src> <ok>}*}*
      POST /v1/chat/completions (OpenAI-compatible entry): openai.ChatMiddleware's `fromChatRequest` (every part of a
      content array becomes its own message) followed by ChatHandler -> as hchat

    handler <sysHex> <nModel> {msg}* <nReq> {msg}*        (msg as above)
      ChatHandler's conversation: -> <role>:<contenthex>;…
-/
import OllamaVerif.Model.Prompt
import Oracle.Util
namespace Oracle.C19
open OllamaVerif OllamaVerif.Prompt Oracle

def pRole : TP Role := do
  let t ← tok
  match t with
  | "s" => pure .system
  | "u" => pure .user
  | "a" => pure .assistant
  | "t" => pure .tool
  | "o" => pure .other
  | _ => failure

def pImg : TP Img := do
  let src ← nat
  let ok ← nat
  pure ⟨src, ok != 0⟩

def pMsgS (san : Bool) : TP Msg := do
  let r ← pRole
  let c ← hex
  let imgs ← listOf pImg
  pure ⟨r, splitImg (if san then sanitizeBytes c else c), imgs⟩

def pMsg : TP Msg := pMsgS false

def pOPart (san : Bool) : TP OPart := do
  let t ← tok
  match t with
  | "T" => do let c ← hex; return .text (splitImg (if san then sanitizeBytes c else c))
  | "I" => return .image (← pImg)
  | _ => failure

def pOMsg (san : Bool) : TP OMsg := do
  let r ← pRole
  let t ← tok
  match t with
  | "S" => do let c ← hex; return ⟨r, .str (splitImg (if san then sanitizeBytes c else c))⟩
  | "P" => return ⟨r, .parts (← listOf (pOPart san))⟩
  | _ => failure

def pFld : TP Fld := do
  let t ← tok
  pure (match t with
    | "System" => .system
    | "Prompt" => .prompt
    | "Response" => .response
    | "Messages" => .messages
    | "Role" => .role
    | "Content" => .content
    | "Tools" => .tools
    | _ => .other)

/-- recursive-descent parsers with fuel (the number of tokens bounds the depth) -/
def pExpr : Nat → TP Expr
  | 0 => failure
  | fuel+1 => do
    let t ← tok
    match t with
    | "f" => return .field (← pFld)
    | "v" => return .root (← pFld)
    | "s" => return .str (← hex)
    | "eq" => do let a ← pExpr fuel; let b ← pExpr fuel; return .eq a b
    | "ne" => do let a ← pExpr fuel; let b ← pExpr fuel; return .ne a b
    | "not" => do let a ← pExpr fuel; return .not a
    | "and" => do let a ← pExpr fuel; let b ← pExpr fuel; return .and a b
    | "or" => do let a ← pExpr fuel; let b ← pExpr fuel; return .or a b
    | _ => failure

mutual
def pNode : Nat → TP Node
  | 0 => failure
  | fuel+1 => do
    let t ← tok
    match t with
    | "T" => return .text (← hex)
    | "A" => return .action (← pExpr fuel)
    | "I" => do
      let c ← pExpr fuel
      let th ← pNodes fuel
      let he ← nat
      let el ← pNodes fuel
      return .ite c th (he != 0) el
    | "R" => do
      let c ← pExpr fuel
      let th ← pNodes fuel
      let he ← nat
      let el ← pNodes fuel
      return .range c th (he != 0) el
    | _ => failure
def pNodes : Nat → TP (List Node)
  | 0 => failure
  | fuel+1 => do
    let n ← nat
    pNodeRep fuel n
def pNodeRep : Nat → Nat → TP (List Node)
  | 0, _ => failure
  | _, 0 => pure []
  | fuel+1, k+1 => do
    let a ← pNode fuel
    let as ← pNodeRep fuel k
    pure (a :: as)
end

def pTmpl (fuel : Nat) : TP (Option (List Node)) := do
  let t ← tok
  match t with
  | "X" => pure none
  | "T" => return some (← pNodes fuel)
  | _ => failure

/-- a cost token: a number, `E` (error) or `P` (panic) -/
inductive CostTok | n (k : Nat) | e | p | k
  deriving DecidableEq

def pCost : TP CostTok := do
  let t ← tok
  match t with
  | "E" => pure .e
  | "P" => pure .p
  | "K" => pure .k
  | _ => match t.toNat? with
    | some k => pure (.n k)
    | none => failure

def showImgs (l : List ImgOut) : String :=
  if l.isEmpty then "-" else
    joinWith "," (l.map fun o => s!"{o.id}:{o.src}:{if o.pre then 1 else 0}")

def firstBad (given mine : List CostTok) (i : Nat) : Option Nat :=
  match given, mine with
  | [], [] => none
  | g :: gs, m :: ms => if g = m then firstBad gs ms (i+1) else some i
  | _, _ => some i

def showErr : XErr → String
  | .exec => "err:template"
  | .panicCut => "panic:template-cut"
  | .unsupported => "unsupported"

def roleTok : Role → String
  | .system => "s" | .user => "u" | .assistant => "a" | .tool => "t" | .other => "o"

def handle (toks : List String) : Option String :=
  match toks with
  | "chat" :: rest =>
    runTP (do
      let variant ← nat
      let mllama ← nat
      let proj ← nat
      let limit ← int
      let mode ← nat
      let _src ← tok      -- template source (for replay); the model executes the parsed tree
      let tmpl ← pTmpl rest.length
      let ntools ← nat
      let toolsJson ← hex
      let tools : ToolsV := ⟨toolsJson, ntools != 0⟩
      let msgs ← listOf (pMsgS (variant / 16 % 2 != 0))
      let costs ← listOf pCost
      let cfg : Cfg := ⟨variant % 2 != 0, mllama != 0, proj, limit⟩
      let tv : TVar := ⟨variant / 2 % 4, variant / 8 % 2 != 0⟩
      let cost : Nat → Nat := fun i => match costs[i]? with | some (.n k) => k | _ => 0
      let bad : Nat → Bool := fun i => match costs[i]? with
        | some .e => true | some .p => true | some .k => true | _ => false
      let tokFail : Option Nat := costs.findIdx? (· = CostTok.k)
      let generic := chatPrompt cfg cost bad msgs
      pure (match generic with
        | .panicEmpty => "panic:empty"
        | .errTooMany => "err:too-many-images"
        | .errPreprocess => "err:preprocess"
        | .execFail i => (match costs[i]? with
            | some .p => "panic:template-cut" | some .k => "err:tokenize" | _ => "err:template")
        | .ok q n sys ret imgs =>
          let all := msgs.take n ++ ret
          let ms := joinWith ";" (all.map fun m => hexOrDash (renderPieces m.content))
          match tmpl with
          | none => s!"ok q={q} imgs={showImgs imgs} msgs={ms} prompt=? costs=? tok=?"
          | some t =>
            let mine := (List.range (msgs.length - 1)).map fun i =>
              match renderAt tv t msgs tools i with
              | .ok b => if tokFail = some i then CostTok.k else CostTok.n (tokenCount mode b)
              | .err .panicCut => CostTok.p
              | .err _ => CostTok.e
            let chk := match firstBad costs mine 0 with
              | none => "ok"
              | some i => s!"BAD@{i}"
            -- byte lengths of the strings the tokenizer is called with, in call order
            let L := msgs.length
            let toks := (List.range q).map fun k =>
              match renderAt tv t msgs tools (L - 2 - k) with
              | .ok b => toString b.length
              | .err _ => "E"
            let tokS := if toks.isEmpty then "-" else joinWith "," toks
            match chatPromptT cfg tv t mode msgs tokFail tools with
            | .ok q' n' _ _ imgs' p =>
              if q' = q ∧ n' = n ∧ imgs' = imgs then
                s!"ok q={q} imgs={showImgs imgs} msgs={ms} prompt={hexOrDash p} costs={chk} tok={tokS}"
              else s!"ok q={q} imgs={showImgs imgs} msgs={ms} prompt=TEMPLATE-MODEL-DISAGREES costs={chk} tok={tokS}"
            | .tmplErr e => showErr e
            | .tokErr => "err:tokenize"
            | _ => "template-model-disagrees")) rest
  | "resolve" :: rest =>
    runTP (do
      let prompt ← hex
      let ids ← listOf nat
      let tags := scanTags prompt 0
      let imgs : List ImgOut := ids.map fun i => ⟨i, 0, false⟩
      pure (match resolveTags imgs tags with
        | none => "err:invalid-image-index"
        | some _ =>
          let pos := tags.map fun k => (imgs.findIdx? (fun o => o.id = k)).getD 0
          if pos.isEmpty then "ok -" else s!"ok {joinWith "," (pos.map toString)}")) rest
  | "hchat" :: rest =>
    runTP (do
      let variant ← nat
      let dflt ← int
      let mp ← tok
      let ro ← tok
      let par ← nat
      let _src ← tok
      let tmpl ← pTmpl rest.length
      let ntools ← nat
      let toolsJson ← hex
      let tools : ToolsV := ⟨toolsJson, ntools != 0⟩
      let san := variant / 16 % 2 != 0
      let sys0 ← hex
      let sys := if san then sanitizeBytes sys0 else sys0
      let mm ← listOf (pMsgS san)
      let req ← listOf (pMsgS san)
      let optInt : String → Option Int := fun s => if s == "-" then none else s.toInt?
      let tv : TVar := ⟨variant / 2 % 4, variant / 8 % 2 != 0⟩
      let lim := requestNumCtx dflt (optInt mp) (optInt ro)
      pure (match req, tmpl with
        | [], _ => "load"
        | _, none => "opaque"
        | _, some t =>
          let loaded := s!"loaded={runnerNumCtx lim par}"
          match chatHandler (variant % 2 != 0) false tv t dflt (optInt mp) (optInt ro) par mm sys req tools with
          | .panicEmpty => "panic:empty"
          | .errTooMany => "err:too-many-images"
          | .errPreprocess => "err:preprocess"
          | .tmplErr e => showErr e
          | .tokErr => "err:tokenize"
          | .ok _ _ _ _ imgs p => s!"ok {loaded} imgs={showImgs imgs} prompt={hexOrDash p}")) rest
  | "ochat" :: rest =>
    runTP (do
      let variant ← nat
      let dflt ← int
      let mp ← tok
      let ro ← tok
      let par ← nat
      let _src ← tok
      let tmpl ← pTmpl rest.length
      let ntools ← nat
      let toolsJson ← hex
      let tools : ToolsV := ⟨toolsJson, ntools != 0⟩
      let san := variant / 16 % 2 != 0
      let sys0 ← hex
      let sys := if san then sanitizeBytes sys0 else sys0
      let mm ← listOf (pMsgS san)
      let oreq ← listOf (pOMsg san)
      let req := fromOpenAI oreq
      let optInt : String → Option Int := fun s => if s == "-" then none else s.toInt?
      let tv : TVar := ⟨variant / 2 % 4, variant / 8 % 2 != 0⟩
      let lim := requestNumCtx dflt (optInt mp) (optInt ro)
      pure (match req, tmpl with
        | [], _ => "load"
        | _, none => "opaque"
        | _, some t =>
          let loaded := s!"loaded={runnerNumCtx lim par}"
          match chatHandler (variant % 2 != 0) false tv t dflt (optInt mp) (optInt ro) par mm sys req tools with
          | .panicEmpty => "panic:empty"
          | .errTooMany => "err:too-many-images"
          | .errPreprocess => "err:preprocess"
          | .tmplErr e => showErr e
          | .tokErr => "err:tokenize"
          | .ok _ _ _ _ imgs p => s!"ok {loaded} imgs={showImgs imgs} prompt={hexOrDash p}")) rest
  | "handler" :: rest =>
    runTP (do
      let sys ← hex
      let mm ← listOf pMsg
      let req ← listOf pMsg
      let out := handlerMsgs mm sys req
      pure (joinWith ";" (out.map fun m => s!"{roleTok m.role}:{hexOrDash (renderPieces m.content)}"))) rest
  | _ => none

end Oracle.C19

def main (_ : List String) : IO Unit := Oracle.runMain Oracle.C19.handle
