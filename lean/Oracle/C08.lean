/-
  Oracle commands for C08 (stub: owns no commands yet).
-/
import Oracle.Util
namespace Oracle.C08
open Oracle

def handle (toks : List String) : Option String :=
  match toks with
  | _ => none

end Oracle.C08

def main (_ : List String) : IO Unit := Oracle.runMain Oracle.C08.handle
