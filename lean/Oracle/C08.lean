/-
  Oracle commands for C08 (blob cache).  `hash` of the model is instantiated with SHA-256.

    hist <Link variant 0|1|2> <nops> op*   -> r1;r2;… | blobs | manifests     (final disk)
        variant 0 = pinned in-place Link, 1 = temp+rename (fix 834f6be9a), 2 = 1 + zero-length refusal (C08-F8-zero.patch)
        op = put <d> <size> <script> | import <size> <script> | get <d> | link <name> <d>
           | unlink <name> | resolve <name> | chunk <d> <size> <start> <stop> <cd> <script>
        script = <nchunks> <hex>* (eof|err)
    crash put <init> <d> <size> <script> <kind> <n>
    crash import <init> <size> <script> <kind> <n>
    crash chunk <init> <size> <start> <stop> <cd> <script> <kind> <n>
    crash link <variant 1|2> <manifest init> <blob file> <d> <kind> <n>      (state = the MANIFEST file)
                                           -> killed <state> | survived <state> <res>
        init/state = absent | <hex> | - ; kind = open|write|trunc|rename|unlink ; n = 1-based occurrence killed at entry
    conc <init> <d> <size> <nw> script* <nev> (s<i>|d<i>)*
                                           -> state after each event, `,`-joined | result per writer
        s<i> = writer i runs from its stat to its first Read (stat + open, or the same-size return);
        d<i> = writer i is handed its next source item and runs to its next Read / return.
    trace put <init> <d> <size> <script>   -> the model's effects as length effects: o<trunc> w<off>:<n> t<n> r<n> u  (| -)
    trace chunk <init> <size> <start> <stop> <cd> <script>
    shape <size> <len0> <n> eff*           -> true|false   (`noEarlyFull` evaluated on a REAL syscall trace)
    sha <hex>                              -> <hex digest>
    histl <Link variant> <strict 0|1> <refuse 0|1> <lim> <nops> op*   -> like hist, with Resolve's read limit `lim`
        (strict = C08-F28.patch) and negative-size Puts (refuse = C08-F29.patch); further ops:
        putneg <d> <script> | edit <name> <hex> | session <d> <size> <nputs> (<start> <stop> <cd> <script>)*
    readsum <strict> <lim> <hex>           -> <data read> <digest> | err:toolarge      (readAndSum on a file holding <hex>)
-/
import OllamaVerif.Model.BlobCache
import OllamaVerif.Model.Sha256
import Oracle.Util
namespace Oracle.C08
open OllamaVerif OllamaVerif.BlobCache Oracle

def H : Bytes → Digest := Sha256.sha256

def pScript : TP Script := do
  let chunks ← listOf hex
  let f ← tok
  match f with
  | "eof" => pure ⟨chunks, .eof⟩
  | "err" => pure ⟨chunks, .err⟩
  | _ => failure

def pOp : TP Op := do
  let t ← tok
  match t with
  | "put" => do let d ← hex; let size ← nat; let s ← pScript; pure (.put d size s)
  | "import" => do let size ← nat; let s ← pScript; pure (.importB size s)
  | "get" => do let d ← hex; pure (.get d)
  | "link" => do let n ← hex; let d ← hex; pure (.link n d)
  | "linkr" => do let n ← hex; let d ← hex; pure (.linkR n d)
  | "unlink" => do let n ← hex; pure (.unlink n)
  | "resolve" => do let n ← hex; pure (.resolve n)
  | "chunk" => do
    let d ← hex; let size ← nat; let a ← nat; let b ← nat; let cd ← hex; let s ← pScript
    pure (.chunk d size a b cd s)
  | "putneg" => do let d ← hex; let s ← pScript; pure (.putNeg d s)
  | "edit" => do let n ← hex; let b ← hex; pure (.edit n b)
  | "session" => do
    let d ← hex; let size ← nat
    let puts ← listOf (do let a ← nat; let b ← nat; let cd ← hex; let s ← pScript; pure (CPut.mk a b cd s))
    pure (.session d size puts)
  | _ => failure

def showRes : Res → String
  | .ok => "ok"
  | .underfoot => "err:underfoot"
  | .exceeds => "err:exceeds"
  | .srcErr => "err:src"
  | .short => "err:short"
  | .notExist => "err:notexist"
  | .invalidName => "err:invalidname"
  | .invalidDigest => "err:invaliddigest"
  | .sizeMismatch => "err:sizemismatch"
  | .tooLarge => "err:toolarge"
  | .negSize => "err:negsize"

def showOut : Out → String
  | .res r => showRes r
  | .digest d => s!"dig:{hexOrDash d}"
  | .entry n => s!"entry:{n}"
  | .unlinked b => s!"unlinked:{b}"
  | .pair r none => s!"{showRes r}/nohook"
  | .pair r (some (some dg, _)) => s!"{showRes r}/dig:{hexOrDash dg}"
  | .pair r (some (none, e)) => s!"{showRes r}/{showRes e}"
  | .many rs => if rs.isEmpty then "none" else joinWith "+" (rs.map showRes)

def showSt : FileSt → String
  | none => "absent"
  | some f => hexOrDash f

def pSt : TP FileSt := do
  let t ← tok
  if t == "absent" then pure none
  else match unhex t with
    | some b => pure (some b)
    | none => failure

def opDigests : Op → List Digest
  | .put d _ _ => [d]
  | .get d => [d]
  | .link _ d => [d]
  | .linkR _ d => [d]
  | .chunk d _ _ _ _ _ => [d]
  | .putNeg d _ => [d]
  | .session d _ _ => [d]
  | _ => []

def outDigests : Out → List Digest
  | .digest d => [d]
  | .pair _ (some (some d, _)) => [d]
  | _ => []

def showPath (p : MPath) : String := joinWith "/" (p.map hexOrDash)

def histOut (ops : List Op) (r : Disk × List Out) : String :=
  let keys := (ops.flatMap opDigests ++ r.2.flatMap outDigests).map hexOf
  let keys := (keys.toArray.qsort (· < ·)).toList.eraseDups
  let blobs := keys.filterMap fun kx =>
    match unhex kx with
    | some d => match r.1.blob d with
      | some f => some s!"{kx.take 8}={hexOrDash f}"
      | none => none
    | none => none
  let mans := r.1.mans.map fun e => s!"{showPath e.1}={hexOrDash e.2}"
  s!"{joinWith ";" (r.2.map showOut)} | {joinWith "," blobs} | {joinWith "," mans}"

def histCmd (fixed zc : Bool) (ops : List Op) : String :=
  histOut ops (runOps H fixed zc ops Disk.empty)

/-- the same with `Resolve`'s read limit and the negative-size `Put` at the variants found in the tree -/
def histLCmd (fixed zc strict refuse : Bool) (lim : Nat) (ops : List Op) : String :=
  histOut ops (runOpsL H fixed zc strict refuse lim ops Disk.empty)

def pKind : TP EffKind := do
  let t ← tok
  match t with
  | "open" => pure .openK
  | "write" => pure .writeK
  | "trunc" => pure .truncK
  | "rename" => pure .renameK
  | "unlink" => pure .unlinkK
  | _ => failure

def crashOut (init : FileSt) (er : List Eff × Res) (kd : EffKind) (n : Nat) : String :=
  match prefixBefore kd n er.1 with
  | some p => s!"killed {showSt (run p init)}"
  | none => s!"survived {showSt (run er.1 init)} {showRes er.2}"

def pEv : TP (Bool × Nat) := do
  let t ← tok
  match t.toList with
  | 's' :: ds => match (String.ofList ds).toNat? with
    | some i => pure (true, i)
    | none => failure
  | 'd' :: ds => match (String.ofList ds).toNat? with
    | some i => pure (false, i)
    | none => failure
  | _ => failure

/-- run writer `i` with model steps until `stop` holds of its state (bounded by `fuel`) -/
def stepsUntil (d : Digest) (size : Nat) (i : Nat) (stop : W → Bool) : Nat → Sys → Sys
  | 0, s => s
  | fuel + 1, s =>
    match s.ws[i]? with
    | none => s
    | some w => if stop w then s else stepsUntil d size i stop fuel (execEv H d size s (.step i))

def isPwriteHead : W → Bool
  | .running (.pwrite _ _ :: _) _ => true
  | _ => false

def isDone : W → Bool
  | .done _ => true
  | _ => false

/-- the granularity at which the Go driver can schedule real writers (it controls only their `Read`s) -/
def macroEv (d : Digest) (size : Nat) (s : Sys) (ev : Bool × Nat) : Sys :=
  let i := ev.2
  if ev.1 then
    -- start: stat, then everything up to the first Read (= before the first pwrite), or return
    let s1 := execEv H d size s (.step i)
    match s1.ws[i]? with
    | some (.running (.openCreate _ :: _) _) => execEv H d size s1 (.step i)
    | _ => s1
  else
    match s.ws[i]? with
    | some w =>
      if isPwriteHead w then execEv H d size s (.step i)
      else stepsUntil d size i isDone 8 s
    | none => s

def showW : W → String
  | .init _ => "init"
  | .running _ _ => "running"
  | .done r => showRes r
  | .dead => "dead"

def concCmd (init : FileSt) (d : Digest) (size : Nat) (scripts : List Script) (evs : List (Bool × Nat)) : String :=
  let s0 : Sys := ⟨init, scripts.map W.init⟩
  let (states, sEnd) := evs.foldl (fun (acc : List String × Sys) ev =>
    let s' := macroEv d size acc.2 ev
    (acc.1 ++ [showSt s'.file], s')) ([], s0)
  s!"{joinWith "," states} | {joinWith "," (sEnd.ws.map showW)}"

def showSizeEff : SizeEff → Option String
  | .openS t => some s!"o{if t then 1 else 0}"
  | .writeS off n => some s!"w{off}:{n}"
  | .truncS n => some s!"t{n}"
  | .replaceS n => some s!"r{n}"
  | .removeS => some "u"
  | .otherS => none

def pSizeEff : TP SizeEff := do
  let t ← tok
  match t.toList with
  | ['o', '0'] => pure (.openS false)
  | ['o', '1'] => pure (.openS true)
  | ['u'] => pure .removeS
  | 't' :: ds => match (String.ofList ds).toNat? with
    | some n => pure (.truncS n)
    | none => failure
  | 'r' :: ds => match (String.ofList ds).toNat? with
    | some n => pure (.replaceS n)
    | none => failure
  | 'w' :: ds =>
    match (String.ofList ds).splitOn ":" with
    | [a, b] => match a.toNat?, b.toNat? with
      | some off, some n => pure (.writeS off n)
      | _, _ => failure
    | _ => failure
  | _ => failure

def traceOut (es : List Eff) : String :=
  let l := (es.map Eff.toSize).filterMap showSizeEff
  if l.isEmpty then "-" else joinWith " " l

def handle (toks : List String) : Option String :=
  match toks with
  | "hist" :: rest =>
    runTP (do
      let fixed ← nat
      let ops ← listOf pOp
      pure (histCmd (fixed != 0) (fixed == 2) ops)) rest
  | "histl" :: rest =>
    runTP (do
      let fixed ← nat; let strict ← nat; let refuse ← nat; let lim ← nat
      let ops ← listOf pOp
      pure (histLCmd (fixed != 0) (fixed == 2) (strict != 0) (refuse != 0) lim ops)) rest
  | "readsum" :: rest =>
    runTP (do
      let strict ← nat; let lim ← nat; let f ← hex
      pure (match readAndSum H (strict != 0) lim f with
        | none => "err:toolarge"
        | some (data, dg) => s!"{hexOrDash data} {hexOf dg}")) rest
  | "crash" :: "put" :: rest =>
    runTP (do
      let init ← pSt; let d ← hex; let size ← nat; let s ← pScript; let kd ← pKind; let n ← nat
      pure (crashOut init (copyNamedEffs H init d size s) kd n)) rest
  | "crash" :: "import" :: rest =>
    runTP (do
      let init ← pSt; let size ← nat; let s ← pScript; let kd ← pKind; let n ← nat
      let r := importEffs H size s
      pure (crashOut init ((r.1.map (·.2)).getD [], r.2) kd n)) rest
  | "crash" :: "chunk" :: rest =>
    runTP (do
      let init ← pSt; let size ← nat; let a ← nat; let b ← nat; let cd ← hex; let s ← pScript
      let kd ← pKind; let n ← nat
      pure (crashOut init (chunkEffs H init size a b cd s) kd n)) rest
  | "crash" :: "link" :: rest =>
    runTP (do
      let variant ← nat; let man ← pSt; let blob ← pSt; let d ← hex; let kd ← pKind; let n ← nat
      pure (crashOut man (linkFileEffs H (variant == 2) man blob d) kd n)) rest
  | "trace" :: "put" :: rest =>
    runTP (do
      let init ← pSt; let d ← hex; let size ← nat; let s ← pScript
      pure (traceOut (copyNamedEffs H init d size s).1)) rest
  | "trace" :: "chunk" :: rest =>
    runTP (do
      let init ← pSt; let size ← nat; let a ← nat; let b ← nat; let cd ← hex; let s ← pScript
      pure (traceOut (chunkEffs H init size a b cd s).1)) rest
  | "shape" :: rest =>
    runTP (do
      let size ← nat; let len0 ← nat
      let es ← listOf pSizeEff
      pure (toString (noEarlyFull size len0 0 es))) rest
  | "conc" :: rest =>
    runTP (do
      let init ← pSt; let d ← hex; let size ← nat
      let scripts ← listOf pScript
      let evs ← listOf pEv
      pure (concCmd init d size scripts evs)) rest
  | "sha" :: rest =>
    runTP (do let b ← hex; pure (hexOf (H b))) rest
  | _ => none

end Oracle.C08

def main (_ : List String) : IO Unit := Oracle.runMain Oracle.C08.handle
