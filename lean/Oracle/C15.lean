/-
  Oracle commands for C15 (stub: owns no commands yet).
-/
import Oracle.Util
namespace Oracle.C15
open Oracle

def handle (toks : List String) : Option String :=
  match toks with
  | _ => none

end Oracle.C15

def main (_ : List String) : IO Unit := Oracle.runMain Oracle.C15.handle
