/-
  Oracle commands for C15: the lockset / stale-pointer RULE of Model/Lockset.lean evaluated on a
  fact table given on the line (the translator's self-test stream sends random tables and its
  own answer; the check compares them exactly).

    rule <n> {site cls kind <nl> {lockcls self}* thread single init racy atomic
              <np> pre* <nq> post* <nh> hb* use live valid}*n  <nc> cleared*  <Gcls> <Scls>
        -> v {cls,site,site}* s {cls,site}* b {cls}*
-/
import OllamaVerif.Model.Lockset
import Oracle.Util
namespace Oracle.C15
open Oracle OllamaVerif.Lockset

def pBool : TP Bool := do
  let n ← nat
  pure (n != 0)

def pKind : TP Kind := do
  let n ← nat
  match n with
  | 0 => pure .read | 1 => pure .write | 2 => pure .mapRead | 3 => pure .mapIter
  | 4 => pure .mapInsert | 5 => pure .mapDelete | _ => failure

def pLock : TP LockRef := do
  let c ← nat
  let s ← pBool
  pure ⟨c, s⟩

def pAccess : TP Access := do
  let site ← nat
  let cls ← nat
  let kind ← pKind
  let locks ← listOf pLock
  let thread ← nat
  let single ← pBool
  let init ← pBool
  let racy ← pBool
  let atomic ← pBool
  let pre ← listOf nat
  let post ← listOf nat
  let hb ← listOf nat
  let use ← pBool
  let live ← pBool
  let valid ← pBool
  pure { site, cls, kind, locks, thread, single, init, racy, atomic, pre, post, hb, use, live, valid }

def handle (toks : List String) : Option String :=
  match toks with
  | "rule" :: rest =>
    runTP (do
      let facts ← listOf pAccess
      let cleared ← listOf nat
      let g ← nat
      let s ← nat
      let vs := (violatingPairs facts).map (fun p => s!" {p.1},{p.2.1},{p.2.2}")
      let st := (staleReads facts cleared 1 ⟨g, false⟩ ⟨s, true⟩).map (fun p => s!" {p.1},{p.2}")
      let bad := ((badClasses facts).toArray.qsort (· < ·)).toList.map (fun c => s!" {c}")
      pure ("v" ++ String.join vs ++ " s" ++ String.join st ++ " b" ++ String.join bad)) rest
  | _ => none

end Oracle.C15

def main (_ : List String) : IO Unit := Oracle.runMain Oracle.C15.handle
