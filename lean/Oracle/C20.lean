/-
  Oracle commands for C20 (tokenizers).

    bpe <add> <addBOS> <bos> <addEOS> <eos> <texthex>
        <nsp> {<lithex> <runes> <id>}*                 specials (in SpecialVocabulary order) occurring in the text
        <nfr> {<fraghex> <np> {<piecehex>}*}*          the real pre-tokenizer's split of every text fragment
        <nv>  {<runes> <id>}*                          vocabulary entries for the substrings of the mapped pieces
        <nm>  {<runesL> <runesR> <rank>}*              merge-table entries for adjacent substrings
        -> ids=<i,j,..|-> dec=<hex|->   |  err:nosplit
    spm <add> <addBOS> <bos> <addEOS> <eos> <textrunes>
        <nsp> {<runes> <id>}*
        <nv>  {<runes> <id> <scorekey>}*
        -> ids=<..> dec=<hex|-|err>

  <runes> = dot-separated decimal code points, `-` = empty.
  The BPE variant flag (pinned 0x7e / repaired 0x7f) is NOT an input: it comes from the byte table
  regenerated from the working tree (Generated/C20_ByteMap.lean).
-/
import OllamaVerif.Model.Tokenizer
import OllamaVerif.Generated.C20_ByteMap
import Oracle.Util
namespace Oracle.C20
open Oracle OllamaVerif OllamaVerif.Tok

def runes : TP Str := do
  let t ← tok
  if t == "-" then pure [] else
  let parts := t.splitOn "."
  let ns := parts.filterMap String.toNat?
  if ns.length == parts.length then pure ns else failure

def bytes : TP Str := do
  let b ← hex
  pure (b.map UInt8.toNat)

def bool : TP Bool := do
  let n ← nat
  pure (n != 0)

def pAdd : TP AddCfg := do
  let a ← bool
  let ab ← bool
  let bos ← nat
  let ae ← bool
  let eos ← nat
  pure ⟨a, ab, bos, ae, eos⟩

def lookup {β} (l : List (Str × β)) (k : Str) : Option β :=
  match l.find? (fun e => e.1 == k) with
  | some e => some e.2
  | none => none

def mkVocab (ents : List (Str × Nat × Int)) (merges : List (Str × Str × Nat)) : Vocab where
  tokId s := (lookup ents s).map (·.1)
  tokStr id := match ents.find? (fun e => e.2.1 == id) with
    | some e => e.1
    | none => []
  rank l r := match merges.find? (fun e => e.1 == l && e.2.1 == r) with
    | some e => some e.2.2
    | none => none
  score id := match ents.find? (fun e => e.2.1 == id) with
    | some e => e.2.2
    | none => 0
  size := 0

def showIds (ids : List Nat) : String :=
  if ids.isEmpty then "-" else joinWith "," (ids.map toString)

def showBytes (bs : Str) : String := hexOrDash (bs.map UInt8.ofNat)

def pBpe : TP String := do
  let add ← pAdd
  let text ← bytes
  let specials ← listOf (do
    let lit ← bytes
    let rs ← runes
    let id ← nat
    pure (⟨lit, rs, id⟩ : Special))
  let splits ← listOf (do
    let fr ← bytes
    let ps ← listOf bytes
    pure (fr, ps))
  let ents ← listOf (do
    let rs ← runes
    let id ← nat
    pure (rs, id, (0 : Int)))
  let merges ← listOf (do
    let l ← runes
    let r ← runes
    let rk ← nat
    pure (l, r, rk))
  -- the special tokens' own strings are vocabulary entries too (needed by Decode)
  let ents := ents ++ specials.map fun sp => (sp.runes, sp.id, (0 : Int))
  let V := mkVocab ents merges
  let frs := fragments specials text
  let missing := frs.any fun fr => match fr with
    | .text s => (lookup splits s).isNone
    | .special _ => false
  if missing then pure "err:nosplit" else
  let split : Str → List Str := fun s => (lookup splits s).getD []
  let ids := bpeEncode OllamaVerif.Generated.C20.pinned V split specials add text
  pure s!"ids={showIds ids} dec={showBytes (bpeDecode V ids)}"

def pSpm : TP String := do
  let add ← pAdd
  let text ← runes
  let specials ← listOf (do
    let rs ← runes
    let id ← nat
    pure (⟨rs, rs, id⟩ : Special))
  let ents ← listOf (do
    let rs ← runes
    let id ← nat
    let sc ← int
    pure (rs, id, sc))
  let ents := ents ++ specials.map fun sp => (sp.runes, sp.id, (0 : Int))
  let V := mkVocab ents []
  let ids := spmEncode V specials add text
  let dec := match spmDecode V ids with
    | some bs => showBytes bs
    | none => "err"
  pure s!"ids={showIds ids} dec={dec}"

def handle (toks : List String) : Option String :=
  match toks with
  | "bpe" :: rest => runTP pBpe rest
  | "spm" :: rest => runTP pSpm rest
  | _ => none

end Oracle.C20

def main (_ : List String) : IO Unit := Oracle.runMain Oracle.C20.handle
