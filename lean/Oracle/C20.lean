/-
  Oracle commands for C20 (stub: owns no commands yet).
-/
import Oracle.Util
namespace Oracle.C20
open Oracle

def handle (toks : List String) : Option String :=
  match toks with
  | _ => none

end Oracle.C20

def main (_ : List String) : IO Unit := Oracle.runMain Oracle.C20.handle
