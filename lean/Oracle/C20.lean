/-
  Oracle commands for C20 (tokenizers).

    bpe <add> <addBOS> <bos> <addEOS> <eos> <texthex>
        <nsp> {<lithex> <runes> <id>}*                 specials (in SpecialVocabulary order) occurring in the text
        <nfr> {<fraghex> <np> {<piecehex>}*}*          the real pre-tokenizer's split of every text fragment
        <nv>  {<runes> <id>}*                          vocabulary entries for the substrings of the mapped pieces
        <nm>  {<runesL> <runesR> <rank>}*              merge-table entries for adjacent substrings
        -> ids=<i,j,..|-> dec=<hex|->   |  err:nosplit
    spm <add> <addBOS> <bos> <addEOS> <eos> <textrunes>
        <nsp> {<runes> <id>}*
        <nv>  {<runes> <id> <scorekey>}*
        -> ids=<..> dec=<hex|-|err>

  <runes> = dot-separated decimal code points, `-` = empty.
    vocab <nv> {<runes>}* <nt> {<type>}* <nm> {<runes>}* <nq> {<runes>}* <nmq> {<runesL> <runesR>}*
        the concrete Vocabulary (Model/TokenizerVocab.lean): SpecialVocabulary with the ids Encode looks up,
        Encode of every query, Merge of every query pair, Decode of every id
        -> sp=<runes:id;..|-|panic> enc=<id,..|-> mrg=<rank,..|-> dec=<runes;..|->
    bpecov / spmcov <same input as bpe / spm>
        -> the branches of the model this case goes through (space-separated flags; see `covBpe`, `covSpm`);
           used by the check for the fail-closed branch coverage of the correspondence run, not compared with the code

  The BPE variant flag (pinned 0x7e / repaired 0x7f) is NOT an input: it comes from the byte table
  regenerated from the working tree (Generated/C20_ByteMap.lean).
-/
import OllamaVerif.Model.Tokenizer
import OllamaVerif.Model.TokenizerVocab
import OllamaVerif.Generated.C20_ByteMap
import Oracle.Util
namespace Oracle.C20
open Oracle OllamaVerif OllamaVerif.Tok

def runes : TP Str := do
  let t ← tok
  if t == "-" then pure [] else
  let parts := t.splitOn "."
  let ns := parts.filterMap String.toNat?
  if ns.length == parts.length then pure ns else failure

def bytes : TP Str := do
  let b ← hex
  pure (b.map UInt8.toNat)

def bool : TP Bool := do
  let n ← nat
  pure (n != 0)

def pAdd : TP AddCfg := do
  let a ← bool
  let ab ← bool
  let bos ← nat
  let ae ← bool
  let eos ← nat
  pure ⟨a, ab, bos, ae, eos⟩

def lookup {β} (l : List (Str × β)) (k : Str) : Option β :=
  match l.find? (fun e => e.1 == k) with
  | some e => some e.2
  | none => none

def mkVocab (ents : List (Str × Nat × Int)) (merges : List (Str × Str × Nat)) : Vocab where
  tokId s := (lookup ents s).map (·.1)
  tokStr id := match ents.find? (fun e => e.2.1 == id) with
    | some e => e.1
    | none => []
  rank l r := match merges.find? (fun e => e.1 == l && e.2.1 == r) with
    | some e => some e.2.2
    | none => none
  score id := match ents.find? (fun e => e.2.1 == id) with
    | some e => e.2.2
    | none => 0
  size := 0

def showIds (ids : List Nat) : String :=
  if ids.isEmpty then "-" else joinWith "," (ids.map toString)

def showBytes (bs : Str) : String := hexOrDash (bs.map UInt8.ofNat)

structure BpeIn where
  add : AddCfg
  text : Str
  specials : List Special
  splits : List (Str × List Str)
  V : Vocab

def pBpeIn : TP BpeIn := do
  let add ← pAdd
  let text ← bytes
  let specials ← listOf (do
    let lit ← bytes
    let rs ← runes
    let id ← nat
    pure (⟨lit, rs, id⟩ : Special))
  let splits ← listOf (do
    let fr ← bytes
    let ps ← listOf bytes
    pure (fr, ps))
  let ents ← listOf (do
    let rs ← runes
    let id ← nat
    pure (rs, id, (0 : Int)))
  let merges ← listOf (do
    let l ← runes
    let r ← runes
    let rk ← nat
    pure (l, r, rk))
  -- the special tokens' own strings are vocabulary entries too (needed by Decode)
  let ents := ents ++ specials.map fun sp => (sp.runes, sp.id, (0 : Int))
  pure ⟨add, text, specials, splits, mkVocab ents merges⟩

def BpeIn.missing (x : BpeIn) : Bool :=
  (fragments x.specials x.text).any fun fr => match fr with
    | .text s => (lookup x.splits s).isNone
    | .special _ => false

def BpeIn.split (x : BpeIn) : Str → List Str := fun s => (lookup x.splits s).getD []

def pBpe : TP String := do
  let x ← pBpeIn
  if x.missing then pure "err:nosplit" else
  let ids := bpeEncode OllamaVerif.Generated.C20.pinned x.V x.split x.specials x.add x.text
  pure s!"ids={showIds ids} dec={showBytes (bpeDecode x.V ids)}"

/-! ### branch coverage of the model (commands `bpecov`, `spmcov`) -/

/-- why a popped candidate was discarded (`bpe`: value test + token test; SPM: size test).  `rej_nonadjacent`
    means both ends are live and pass the code's own test but are not neighbours: the linked-list invariant the
    model's `joinAt` relies on would be broken (must never be seen). -/
def whyRejected (V : Vocab) (bpe : Bool) (ps : List Part) (c : Cand) : String :=
  match getPart ps c.a, getPart ps c.b with
  | some l, some r =>
    if bpe then
      (if l.runes ++ r.runes != c.value then "rej_stale" else if (V.tokId c.value).isNone then "rej_nontoken"
       else "rej_nonadjacent")
    else (if (utf8s l.runes).length + (utf8s r.runes).length != c.size then "rej_stale" else "rej_nonadjacent")
  | _, _ => "rej_dead"

/-- `mergeLoop` with the same step functions, recording what happens to every popped candidate -/
def mergeLoopCov (cfg : Cfg) (why : List Part → Cand → String) (n : Nat) :
    Nat → List Part → Array Cand → List String → List Part × List String
  | 0, ps, h, fl => (ps, if h.size > 0 then "fuel_exhausted" :: fl else fl)
  | f+1, ps, h, fl =>
    match heapPop cfg.less h with
    | none => (ps, fl)
    | some (c, h) =>
      match joinAt (cfg.ok c) ps c.a c.b with
      | some ps' =>
        let h := match prevStart ps' c.a with
          | some p => pushCand cfg ps' h p c.a
          | none => h
        let nx := nextStart ps' c.a n
        let h := if nx < n then pushCand cfg ps' h c.a nx else h
        mergeLoopCov cfg why n f ps' h ("merge_ok" :: fl)
      | none => mergeLoopCov cfg why n f ps h (why ps c :: fl)

def mergeAllCov (cfg : Cfg) (why : List Part → Cand → String) (rs : Str) : List String :=
  let ps := initParts rs 0
  let r := mergeLoopCov cfg why rs.length (3 * rs.length + 3) ps (initHeap cfg ps ps #[]) []
  -- the instrumented copy must compute what the model computes
  if r.1.map (·.runes) == (mergeAll cfg rs).map (·.runes) then r.2 else "cov_copy_diverged" :: r.2

def dedup (l : List String) : List String :=
  l.foldl (fun acc x => if acc.contains x then acc else acc ++ [x]) []

def fragFlags (frs : List Frag) : List String :=
  let isSp : Frag → Bool := fun fr => match fr with | .special _ => true | .text _ => false
  let nsp := (frs.filter isSp).length
  (if nsp == 0 then ["frag_no_special"] else []) ++
  (if nsp ≥ 2 then ["frag_specials_ge2"] else []) ++
  (match frs.head? with | some fr => if isSp fr then ["frag_special_first"] else [] | none => []) ++
  (match frs.getLast? with | some fr => if isSp fr && frs.length > 1 then ["frag_special_last"] else [] | none => []) ++
  (if nsp ≥ 1 && frs.any (fun fr => !isSp fr) then ["frag_special_and_text"] else []) ++
  ((frs.zip frs.tail).flatMap fun (a, b) => if isSp a && isSp b then ["frag_special_adjacent"] else [])

def addFlags (c : AddCfg) (ids : List Nat) : List String :=
  if c.addSpecial && ids.isEmpty then ["add_requested_empty"] else
  if c.addSpecial then (if c.addBOS then ["bos_added"] else []) ++ (if c.addEOS then ["eos_added"] else [])
  else ["add_not_requested"]

def encFlag (pinned : Bool) (b : Nat) : String :=
  if b = 0xad then "enc_ad" else if b ≤ 0x20 then "enc_low"
  else if (if pinned then 0x7e else 0x7f) ≤ b ∧ b ≤ 0xa0 then "enc_mid" else "enc_plain"

def decFlag (r : Nat) : String :=
  if r = 0x100 then "dec_skip_0x100" else if r = 0x143 then "dec_0x143"
  else if 0x100 < r ∧ r ≤ 0x120 then "dec_low" else if 0x120 < r ∧ r ≤ 0x142 then "dec_mid"
  else if r < 256 then "dec_plain" else "dec_truncated_rune"

def covBpe (x : BpeIn) : List String :=
  let pinned := OllamaVerif.Generated.C20.pinned
  let frs := fragments x.specials x.text
  let pieces := frs.flatMap fun fr => match fr with | .text s => x.split s | .special _ => []
  let pf := pieces.flatMap fun piece =>
    let mapped := piece.map (encByte pinned)
    piece.map (encFlag pinned) ++
    match x.V.tokId mapped with
    | some _ => ["piece_shortcut"]
    | none =>
      "piece_merge_loop" :: (mergeAllCov (bpeCfg x.V) (whyRejected x.V true) mapped ++
        ((mergeAll (bpeCfg x.V) mapped).flatMap fun p => if (x.V.tokId p.runes).isNone then ["part_dropped"] else []))
  let ids0 := frs.flatMap (bpeFrag pinned x.V x.split)
  let ids := addSpecials x.add ids0
  dedup (fragFlags frs ++ pf ++ addFlags x.add ids0 ++ ids.flatMap fun id => (x.V.tokStr id).map decFlag)

def pBpeCov : TP String := do
  let x ← pBpeIn
  if x.missing then pure "err:nosplit" else pure (joinWith " " (covBpe x))

structure SpmIn where
  add : AddCfg
  text : Str
  specials : List Special
  V : Vocab

def pSpmIn : TP SpmIn := do
  let add ← pAdd
  let text ← runes
  let specials ← listOf (do
    let rs ← runes
    let id ← nat
    pure (⟨rs, rs, id⟩ : Special))
  let ents ← listOf (do
    let rs ← runes
    let id ← nat
    let sc ← int
    pure (rs, id, sc))
  let ents := ents ++ specials.map fun sp => (sp.runes, sp.id, (0 : Int))
  pure ⟨add, text, specials, mkVocab ents []⟩

def pSpm : TP String := do
  let x ← pSpmIn
  let ids := spmEncode x.V x.specials x.add x.text
  let dec := match spmDecode x.V ids with
    | some bs => showBytes bs
    | none => "err"
  pure s!"ids={showIds ids} dec={dec}"

def covSpm (x : SpmIn) : List String :=
  let V := x.V
  let frs := fragments x.specials x.text
  let tf := frs.flatMap fun fr => match fr with
    | .special _ => []
    | .text s =>
      let text := s.map spaceToSep
      (if s.contains 32 then ["sep_replaced"] else []) ++
      match V.tokId text with
      | some _ => ["text_shortcut"]
      | none =>
        "text_merge_loop" :: (mergeAllCov (spmCfg V) (whyRejected V false) text ++
          ((mergeAll (spmCfg V) text).flatMap fun p =>
            match V.tokId p.runes with
            | some _ => ["part_token"]
            | none => "byte_fallback" :: ((utf8s p.runes).flatMap fun b =>
                if (V.tokId (byteTok b)).isNone then ["byte_token_missing"] else [])))
  let ids0 := frs.flatMap (spmFrag V)
  let ids := addSpecials x.add ids0
  let df := ids.map fun id =>
    match parseByteTok (utf8s ((V.tokStr id).map sepToSpace)) with
    | none => if (V.tokStr id).contains sepRune then "dec_sep_to_space" else "dec_verbatim"
    | some none => "dec_parse_error"
    | some (some _) => "dec_byte_token"
  dedup (fragFlags frs ++ tf ++ addFlags x.add ids0 ++ df)

def pSpmCov : TP String := do
  let x ← pSpmIn
  pure (joinWith " " (covSpm x))

def showRunes (rs : Str) : String :=
  if rs.isEmpty then "-" else joinWith "." (rs.map toString)

def orDash (sep : String) (l : List String) : String := if l.isEmpty then "-" else joinWith sep l

def pVocab : TP String := do
  let values ← listOf runes
  let types ← listOf nat
  let merges ← listOf runes
  let qs ← listOf runes
  let mqs ← listOf (do
    let l ← runes
    let r ← runes
    pure (l, r))
  let D : VocabData := ⟨values, types, [], merges⟩
  let V := D.vocab
  -- variant flag regenerated from the tree: does SpecialVocabulary() skip an empty CONTROL token?
  let skip := OllamaVerif.Generated.C20.specialVocabSkipsEmpty
  let sp := match D.specialStrings skip with
    | none => "panic"
    | some _ => orDash ";" ((D.specials skip (fun x => x)).map fun (q : Special) => s!"{showRunes q.runes}:{q.id}")
  let showOpt : Option Nat → String := fun o => match o with | some i => toString i | none => "-1"
  let enc := orDash "," (qs.map fun q => showOpt (V.tokId q))
  let mrg := orDash "," (mqs.map fun (l, r) => showOpt (V.rank l r))
  let dec := orDash ";" ((List.range V.size).map fun i => showRunes (V.tokStr i))
  pure s!"sp={sp} enc={enc} mrg={mrg} dec={dec}"

def handle (toks : List String) : Option String :=
  match toks with
  | "bpe" :: rest => runTP pBpe rest
  | "spm" :: rest => runTP pSpm rest
  | "bpecov" :: rest => runTP pBpeCov rest
  | "spmcov" :: rest => runTP pSpmCov rest
  | "vocab" :: rest => runTP pVocab rest
  | _ => none

end Oracle.C20

def main (_ : List String) : IO Unit := Oracle.runMain Oracle.C20.handle
