/-
  Oracle commands for C02 (stub: owns no commands yet).
-/
import Oracle.Util
namespace Oracle.C02
open Oracle

def handle (toks : List String) : Option String :=
  match toks with
  | _ => none

end Oracle.C02

def main (_ : List String) : IO Unit := Oracle.runMain Oracle.C02.handle
