/-
  Oracle commands for C14 (stub: owns no commands yet).
-/
import Oracle.Util
namespace Oracle.C14
open Oracle

def handle (toks : List String) : Option String :=
  match toks with
  | _ => none

end Oracle.C14

def main (_ : List String) : IO Unit := Oracle.runMain Oracle.C14.handle
