/-
  Oracle commands for C14 (stop strings + UTF-8 streaming):
    find <pinned 0|1> <seq> <n> <stop>*    -> none | some <stop>
    suffix <seq> <n> <stop>*               -> true | false
    trunc <n> <piece>* <stop>              -> <n> <piece>* <0|1>
    incomplete <s>                         -> true | false
    valid <s>                              -> true | false
    flush <n> <piece>*                     -> none | some <chunk>
    loop <pinned 0|1> <limit> <n> <stop>* <m> <ev>* -> <reason> np=<k> out=<n> <chunk>* pend=<n> <piece>*
        ev = E (end of sequence) | <piece>
    cachelen <pinned> <promptLen> <limit> <n> <stop>* <m> <ev>*  -> none | <len(seq.cache.Inputs) at removal>
    loopsched <pinned> <cap> <k> {<tokens> <reads>}*k <tail> <limit> <n> <stop>* <m> <ev>*
        -> <reason> np=<k> recv=<n> <chunk>* buf=<n> <chunk>* pend=<n> <piece>* forced=<n>
        the reader takes <reads> chunks after each of the next <tokens> tokens, then <tail> per token
    handler <pinned> <promptLen> <calls> <limit> <n> <stop>* <m> <ev>*
        -> status=200 {| content=<chunk>}* [| done=true done_reason=<0|1> eval_count=<k> prompt_eval_count=<p>]
        the JSON lines the completion handler has written after <calls> calls of processBatch (0 = until the end)
  Byte strings are hex, `-` is the empty string.
-/
import OllamaVerif.Model.Stop
import Oracle.Util
namespace Oracle.C14
open OllamaVerif OllamaVerif.Stop Oracle

def showList (l : List Bytes) : String :=
  joinWith " " (toString l.length :: l.map hexOrDash)

def showBool (b : Bool) : String := if b then "true" else "false"

def pEv : TP Ev := do
  let t ← tok
  if t == "E" then pure .eos
  else match unhex t with
    | some b => pure (.piece b)
    | none => failure

def handle (toks : List String) : Option String :=
  match toks with
  | "find" :: rest =>
    runTP (do
      let pinned ← nat
      let s ← hex
      let stops ← listOf hex
      pure (match findStopV (pinned != 0) s stops with
        | none => "none"
        | some st => s!"some {hexOrDash st}")) rest
  | "suffix" :: rest =>
    runTP (do
      let s ← hex
      let stops ← listOf hex
      pure (showBool (containsStopSuffix s stops))) rest
  | "trunc" :: rest =>
    runTP (do
      let ps ← listOf hex
      let stop ← hex
      let r := truncateStop ps stop
      pure s!"{showList r.1} {if r.2 then 1 else 0}") rest
  | "incomplete" :: rest =>
    runTP (do
      let s ← hex
      pure (showBool (incompleteUnicode s))) rest
  | "valid" :: rest =>
    runTP (do
      let s ← hex
      pure (showBool (validUtf8 s))) rest
  | "flush" :: rest =>
    runTP (do
      let ps ← listOf hex
      pure (match flushChunk ps with
        | none => "none"
        | some c => s!"some {hexOrDash c}")) rest
  | "loop" :: rest =>
    runTP (do
      let pinned ← nat
      let limit ← int
      let stops ← listOf hex
      let evs ← listOf pEv
      let st := run (pinned != 0) limit stops init evs
      let reason := match st.done with
        | none => "running"
        | some .stop => "stop"
        | some .length => "length"
      pure s!"{reason} np={st.numPredicted} out={showList st.out} pend={showList st.pending}") rest
  | "cachelen" :: rest =>
    runTP (do
      let pinned ← nat
      let promptLen ← nat
      let limit ← int
      let stops ← listOf hex
      let evs ← listOf pEv
      pure (match cacheLenRun (pinned != 0) limit stops promptLen init evs with
        | none => "none"
        | some n => s!"{n}")) rest
  | "loopsched" :: rest =>
    runTP (do
      let pinned ← nat
      let cap ← nat
      let phases ← listOf (do let a ← nat; let b ← nat; pure (a, b))
      let tail ← nat
      let limit ← int
      let stops ← listOf hex
      let evs ← listOf pEv
      let sched := phases.flatMap fun (a, b) => List.replicate a b
      let (st, c) := runSched (pinned != 0) limit stops cap tail init {} sched evs
      let reason := match st.done with
        | none => "running"
        | some .stop => "stop"
        | some .length => "length"
      pure s!"{reason} np={st.numPredicted} recv={showList c.recv} buf={showList c.buf} pend={showList st.pending} forced={c.forced}") rest
  | "handler" :: rest =>
    runTP (do
      let pinned ← nat
      let promptLen ← nat
      let calls ← nat
      let limit ← int
      let stops ← listOf hex
      let evs ← listOf pEv
      let f := if calls == 0 then run (pinned != 0) limit stops init evs
               else runN (pinned != 0) limit stops calls init evs
      let showLine : Line → String
        | .content c => s!"| content={hexOrDash c}"
        | .final r p e => s!"| done=true done_reason={match r with | .stop => 0 | .length => 1} eval_count={e} prompt_eval_count={p}"
      pure (joinWith " " ("status=200" :: (handlerLines promptLen f).map showLine))) rest
  | _ => none

end Oracle.C14

def main (_ : List String) : IO Unit := Oracle.runMain Oracle.C14.handle
