/-
  Oracle commands for C07 (runner prompt cache):
    hist <resetEnd> <parallel> <ctx> <batch> <multi> <canShift> <vocab> <eosMod> <stopEarliest> <crCounted> <window|0> <cells> <n> <event>*
      event := req <keep> <numPredict> <nstops> <stop>* <nprompt> <tok>*
             | step <adopt>            adopt := - | e | loc.pos.tok.dpos.s+s,...   (layout observed after a defrag)
             | busy <nprompt> <tok>*
        -> the observations after every event, ` | `-separated (same text as the Go driver prints)
    llhist <parallel> <ctx> <multi> <canShift> <n> {load <cachePrompt> <n> tok* | dec <slot> <n> tok* | shift <slot> <keep> | cut <slot> <k> | rel <slot>}*
    ll-longest <nslots> {<inUse> <lastUsed> <n> tok*}* <nprompt> tok*     (llamarunner pure functions)
    ll-best    <now> <nslots> {...}* <nprompt> tok*
    ll-discard <numCtx> <inputLen> <numKeep>
-/
import OllamaVerif.Model.Runner
import Oracle.Util
namespace Oracle.C07
open Oracle OllamaVerif.Runner

def showToks (xs : List Nat) : String :=
  if xs.isEmpty then "-" else joinWith "," (xs.map toString)

def showStr (s : Str) : String := String.ofList s

def showCells (cells : List Cell) : String :=
  let occ := (cells.zipIdx).filter fun (c, _) => !c.seqs.isEmpty
  if occ.isEmpty then "e"
  else joinWith "," (occ.map fun (c, i) =>
    s!"{i}.{c.pos}.{c.tok}.{c.dpos}.{joinWith "+" ((c.seqs.toArray.qsort (· < ·)).toList.map toString)}")

def showState (sv : Server) : String :=
  let slots := sv.cache.slots.map fun s =>
    s!"S{s.id}:{if s.inUse then 1 else 0}:{s.lastUsed}:{showToks s.inputs};"
  let seqs := (sv.seqs.zipIdx).map fun (q, i) =>
    match q with
    | none => s!"Q{i}:nil;"
    | some sq =>
      let pr := sq.pendingResp.flatten
      s!"Q{i}:{(getSlot sv.cache.slots sq.slot).id}:{showToks sq.inputs}:{showToks sq.pending}:{sq.numPredicted}:{if pr.isEmpty then "-" else showStr pr};"
  String.join slots ++ s!"n{sv.nextSeq};" ++ String.join seqs ++ "K" ++ showCells sv.cache.cells

def showStep (n : Nat) (o : StepObs) : String :=
  let b := joinWith " " (o.batch.map fun t => s!"{t.tok}@{t.pos}/{t.seq}")
  let outs := joinWith " " (o.outs.map fun (s, t) => s!"{s}:{t}")
  let rs := (List.range n).flatMap fun i => (o.resps.filter (·.1 == i)).map fun (_, s) => s!"{i}:{showStr s}"
  let ds := (List.range n).flatMap fun i => (o.dones.filter (·.1 == i)).map fun (_, r) => s!"{i}:{r}"
  s!"step:B[{b}]O[{outs}]R[{joinWith " " rs}]D[{joinWith " " ds}]"

/-- format what `OllamaVerif.Runner.runEvent` (Model/Runner.lean) reports -/
def showEv : EvOut → String
  | .reqErrNewSeq => "req:err:newseq"
  | .reqErrNoIndex => "req:err:noindex"
  | .reqErrLoad => "req:err:load"
  | .reqOk i sid rest => s!"req:ok,i={i},slot={sid},rest={rest}"
  | .busyPanic => "busy:panic"
  | .busyErr => "busy:err"
  | .busyOk => "busy:ok"
  | .idle => "step:idle"
  | .badHint => "step:bad-hint"
  | .stepErr => "step:err"
  | .stepOk n o => showStep n o

def runHist (sv : Server) : List Event → Nat → List String → List String
  | [], _, acc => acc.reverse
  | e :: es, now, acc =>
    match runEvent sv now e with
    | (o, none) => (showEv o :: acc).reverse
    | (o, some sv') => runHist sv' es (now + 1) ((showEv o ++ " {" ++ showState sv' ++ "}") :: acc)

/-! parsing -/

def pStr : TP Str := do
  let t ← tok
  pure t.toList

def splitNat (s : String) (sep : Char) : Option (List Nat) :=
  (s.splitOn (String.singleton sep)).mapM fun x => x.toNat?

def pCell (s : String) : Option (Nat × Cell) :=
  match s.splitOn "." with
  | [loc, pos, tk, dpos, seqs] => do
    let loc ← loc.toNat?
    let pos ← pos.toInt?
    let tk ← tk.toNat?
    let dpos ← dpos.toInt?
    let seqs ← splitNat seqs '+'
    pure (loc, ⟨pos, seqs, tk, dpos⟩)
  | _ => none

def pAdopt (cap : Nat) : TP (Option (List Cell)) := do
  let t ← tok
  if t == "-" then pure none
  else if t == "e" then pure (some (List.replicate cap Cell.free))
  else
    match (t.splitOn ",").mapM pCell with
    | none => failure
    | some cs => pure (some (cs.foldl (fun acc (loc, c) => acc.set loc c) (List.replicate cap Cell.free)))

def pEvent (cap : Nat) : TP Event := do
  let k ← tok
  match k with
  | "req" =>
    let keep ← int
    let np ← int
    let stops ← listOf pStr
    let prompt ← listOf nat
    pure (.req keep np stops prompt)
  | "busy" => return .busy (← listOf nat)
  | "step" => return .step (← pAdopt cap)
  | _ => failure

def pSlot (i : Nat) : TP Slot := do
  let u ← nat
  let lu ← nat
  let ins ← listOf nat
  pure ⟨i, ins, u != 0, lu⟩

def pSlots : TP (List Slot) := do
  let n ← nat
  let rec go (k i : Nat) : TP (List Slot) :=
    match k with
    | 0 => pure []
    | k + 1 => do
      let s ← pSlot i
      let r ← go k (i + 1)
      pure (s :: r)
  go n 0

/-! llamarunner record histories -/

def showSlots (c : Cache) : String :=
  String.join (c.slots.map fun s => s!"S{s.id}:{if s.inUse then 1 else 0}:{s.lastUsed}:{showToks s.inputs};")

def runLL (c : Cache) (now : Nat) : LLEvent → String × Cache
  | .load cp prompt =>
    match llLoad c prompt now cp with
    | .error .nilDeref => ("load:panic", c)
    | .error _ => ("load:err", c)
    | .ok (c', i, rest) => (s!"load:ok,slot={(getSlot c'.slots i).id},rest={rest.length}", c')
  | .dec i toks =>
    ("dec", { c with slots := setSlot c.slots i fun s => { s with inputs := s.inputs ++ toks } })
  | .shift i keep =>
    match llShift c i keep with
    | .errKeep => ("shift:errkeep", c)
    | .ok c' => ("shift:ok", c')
    | .reprocess c' ins => (s!"shift:reproc,{showToks ins}", c')
  | .cut i k =>
    ("cut", { c with slots := setSlot c.slots i fun s => { s with inputs := s.inputs.take k, inUse := false } })
  | .rel i => ("rel", { c with slots := setSlot c.slots i fun s => { s with inUse := false } })

def runLLHist (c : Cache) : List LLEvent → Nat → List String → List String
  | [], _, acc => acc.reverse
  | e :: es, now, acc =>
    let (o, c') := runLL c now e
    runLLHist c' es (now + 1) ((o ++ " {" ++ showSlots c' ++ "}") :: acc)

def pLLEvent : TP LLEvent := do
  let k ← tok
  match k with
  | "load" =>
    let cp ← nat
    return .load (cp != 0) (← listOf nat)
  | "dec" =>
    let i ← nat
    return .dec i (← listOf nat)
  | "shift" =>
    let i ← nat
    return .shift i (← nat)
  | "cut" =>
    let i ← nat
    return .cut i (← nat)
  | "rel" => return .rel (← nat)
  | _ => failure

def showFind : Except Fail (Nat × Nat) → String
  | .ok (i, n) => s!"ok {i} {n}"
  | .error .noSlots => "err:noslots"
  | .error _ => "panic"

def handle (toks : List String) : Option String :=
  match toks with
  | "hist" :: rest =>
    runTP (do
      let resetEnd ← int
      let parallel ← nat
      let ctx ← nat
      let batch ← nat
      let multi ← nat
      let canShift ← nat
      let vocab ← nat
      let eosMod ← nat
      let stopEarliest ← nat
      let crCounted ← nat
      let w ← nat
      let window := if w == 0 then none else some w
      let cap ← nat            -- number of cells of the real cache (Causal.Init)
      -- the variant of Init's sizing the tree has; an unknown size makes every observation differ
      let psb := cap != capacityV false parallel ctx batch window
      if cap != capacityV psb parallel ctx batch window then failure
      let evs ← listOf (pEvent cap)
      let sv := { mkServer resetEnd parallel ctx batch (multi != 0) (canShift != 0) vocab eosMod window psb with
                  stopEarliest := stopEarliest != 0, crCounted := crCounted != 0 }
      pure (joinWith " | " (runHist sv evs 1 []))) rest
  | "llhist" :: rest =>
    runTP (do
      let parallel ← nat
      let ctx ← nat
      let multi ← nat
      let canShift ← nat
      let evs ← listOf pLLEvent
      let c : Cache := { numCtx := ctx, multiUser := multi != 0, canShift := canShift != 0, resetEnd := -1,
                         slots := (List.range parallel).map fun i => ⟨i, [], false, 0⟩, cells := [] }
      pure (joinWith " | " (runLLHist c evs 1 []))) rest
  | "ll-longest" :: rest =>
    runTP (do
      let slots ← pSlots
      let prompt ← listOf nat
      pure (showFind (findLongest slots prompt))) rest
  | "ll-best" :: rest =>
    runTP (do
      let now ← nat
      let slots ← pSlots
      let prompt ← listOf nat
      let c : Cache := { numCtx := 1, multiUser := true, canShift := true, resetEnd := -1, slots := slots, cells := [] }
      pure (match findBest c prompt now with
        | .ok (c', i, n) => s!"ok {i} {n} [{joinWith ";" (c'.slots.map fun s => showToks s.inputs)}]"
        | .error .noSlots => "err:noslots"
        | .error _ => "panic")) rest
  | ["ll-discard", a, b, c] => do
    let numCtx ← a.toNat?
    let inputLen ← b.toNat?
    let keep ← c.toNat?
    pure (toString (shiftDiscard numCtx inputLen keep))
  | _ => none

end Oracle.C07

def main (_ : List String) : IO Unit := Oracle.runMain Oracle.C07.handle
