/-
  Oracle commands for C07 (stub: owns no commands yet).
-/
import Oracle.Util
namespace Oracle.C07
open Oracle

def handle (toks : List String) : Option String :=
  match toks with
  | _ => none

end Oracle.C07

def main (_ : List String) : IO Unit := Oracle.runMain Oracle.C07.handle
