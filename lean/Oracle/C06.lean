/-
  Oracle commands for C06 (KV cache):
    kv-x <history>  -> per op, joined by " | ": the exposed entries of every batch token
                       (pos.id.shift, sorted) and the abstraction `abs` of the state
    kv-l <history>  -> per op: cell layout, rows, ranges, current placement  (sub-correspondence C06.layout)
  <history> = variant W maxSeq capacity maxBatch cachePad batchPad hasShift permV maskF16 maxNodes nops op*
  op = F n (seq pos id)*n | C src dst len | R seq begin end | Q seq pos | E k idx*k | V n (seq pos id)*n (reserve pass)
-/
import OllamaVerif.Model.Causal
import Oracle.Util
namespace Oracle.C06
open Oracle OllamaVerif.KV OllamaVerif.Causal

inductive Op where
  | fwd (toks : List (Tok × Nat))
  | cp (src dst : Nat) (len : Int)
  | rm (seq : Nat) (b e : Int)
  | q (seq : Nat) (pos : Int)
  | sc (ex : List Nat)
  | rsv (toks : List (Tok × Nat))

def pOp : TP Op := do
  let k ← tok
  match k with
  | "F" =>
    let n ← nat
    let toks ← rep n (do
      let s ← nat; let p ← int; let id ← nat
      pure ((⟨s, p⟩ : Tok), id))
    return .fwd toks
  | "C" => return .cp (← nat) (← nat) (← int)
  | "R" => return .rm (← nat) (← int) (← int)
  | "Q" => return .q (← nat) (← int)
  | "E" => return .sc (← listOf nat)
  | "V" =>
    let n ← nat
    let toks ← rep n (do
      let s ← nat; let p ← int; let id ← nat
      pure ((⟨s, p⟩ : Tok), id))
    return .rsv toks
  | _ => failure

def pWindow : TP (Option Int) := do
  let t ← tok
  if t == "inf" then pure none else
  match t.toInt? with
  | some n => pure (some n)
  | none => failure

def lexLt : List Int → List Int → Bool
  | [], [] => false
  | [], _ :: _ => true
  | _ :: _, [] => false
  | a :: as, b :: bs => if a < b then true else if a > b then false else lexLt as bs

def insertKey (k : List Int) : List (List Int) → List (List Int)
  | [] => [k]
  | x :: xs => if lexLt k x then k :: x :: xs else x :: insertKey k xs

def sortKeys (ks : List (List Int)) : List (List Int) := ks.foldl (fun acc k => insertKey k acc) []

def showKeys (ks : List (List Int)) : String :=
  "[" ++ joinWith "," ((sortKeys ks).map (fun k => joinWith "." (k.map toString))) ++ "]"

def sortNat (l : List Nat) : List Nat := (l.toArray.qsort (· < ·)).toList

def absKeys (c : Cache) : List (List Int) :=
  (c.cells.zip c.rows).filterMap (fun (cell, row) =>
    if cell.seqs = [] then none
    else some ([cell.pos, (row.id : Int), row.shift] ++ (sortNat cell.seqs).map (fun (s : Nat) => (s : Int))))

def showNat (n : Nat) : String := if n = maxInt then "M" else toString n

def enumFrom {α} : Nat → List α → List (Nat × α)
  | _, [] => []
  | i, x :: xs => (i, x) :: enumFrom (i + 1) xs

def showLayout (c : Cache) (seqIds : List Nat) (fwdOk : Bool) : String :=
  let cells := (enumFrom 0 c.cells).filterMap (fun (i, cell) =>
    if cell.seqs ≠ [] ∨ cell.pos ≠ 0 then
      some s!"{i}:{cell.pos}:{joinWith "+" (cell.seqs.map toString)}" else none)
  let rows := (enumFrom 0 c.rows).filterMap (fun (i, r) =>
    if r.id ≠ 0 ∨ r.shift ≠ 0 then some s!"{i}:{r.id}:{r.shift}" else none)
  let ranges := seqIds.filterMap (fun s => (c.ranges s).map (fun r => s!"{s}:{showNat r.min}:{showNat r.max}"))
  let cur := if fwdOk then s!" cur={c.curLoc}:{showNat c.curRange.min}:{showNat c.curRange.max}" else ""
  s!"cells={joinWith "," cells} rows={joinWith "," rows} ranges={joinWith "," ranges}{cur}"

/-- per token of the current batch: `:[pos.id.shift,...]` of the locations its mask row exposes -/
def showExposed (c : Cache) : String :=
  String.join ((enumFrom 0 c.curBatch).map (fun (i, t) => ":" ++ showKeys ((exposedAt c i t).map (fun j =>
    let cell := c.cells.getD j Cell.empty
    let row := c.rows.getD j default
    [cell.pos, (row.id : Int), row.shift]))))

structure Acc where
  c : Cache
  xs : List String   -- reversed
  ls : List String
  dead : Bool
  /-- inside an accepted forward pass (the last op other than SetCausal was an accepted forward) -/
  cur : Bool := false

def stepOp (seqIds : List Nat) (a0 : Acc) (op : Op) : Acc :=
  if a0.dead then a0 else
  let a : Acc := match op with | .sc _ => a0 | _ => { a0 with cur := false }
  match op with
  | .fwd toks =>
    let b := toks.map (·.1)
    match startForward a.c b with
    | (_, .panic) => { a with xs := "panic" :: a.xs, ls := "panic" :: a.ls, dead := true }
    | (c1, .full) =>
      { a with c := c1, xs := s!"F:err:full;abs={showKeys (absKeys c1)}" :: a.xs, ls := showLayout c1 seqIds false :: a.ls }
    | (c1, .ok) =>
      let c2 := put c1 (toks.map (·.2))
      { a with cur := true, c := c2, xs := s!"F:ok{showExposed c2};abs={showKeys (absKeys c2)}" :: a.xs,
               ls := showLayout c2 seqIds true :: a.ls }
  | .cp src dst len =>
    let c1 := OllamaVerif.Causal.copyPrefix a.c src dst len
    { a with c := c1, xs := s!"C;abs={showKeys (absKeys c1)}" :: a.xs, ls := showLayout c1 seqIds false :: a.ls }
  | .rm seq b e =>
    let (c1, r) := OllamaVerif.Causal.removeV a.c seq b e
    let rs := match r with | .ok => "ok" | .shared => "err:shared" | .notsup => "err:notsup"
    { a with c := c1, xs := s!"R:{rs};abs={showKeys (absKeys c1)}" :: a.xs, ls := showLayout c1 seqIds false :: a.ls }
  | .q seq pos =>
    let r := canResume a.c seq pos
    { a with xs := s!"Q:{r};abs={showKeys (absKeys a.c)}" :: a.xs, ls := showLayout a.c seqIds false :: a.ls }
  | .sc ex =>
    let c1 := setCausal a.c ex
    if a.cur then
      { a with c := c1, xs := s!"E{showExposed c1};abs={showKeys (absKeys c1)}" :: a.xs, ls := showLayout c1 seqIds true :: a.ls }
    else
      { a with c := c1, xs := s!"E:stale;abs={showKeys (absKeys c1)}" :: a.xs, ls := showLayout c1 seqIds false :: a.ls }
  | .rsv toks =>
    -- reserve pass: observed through Get only when layer tensors exist
    let c1 := startReserve a.c (toks.map (·.1))
    let x := if c1.hasLayers then showExposed c1 else ":nolayers"
    { a with c := c1, xs := s!"V{x};abs={showKeys (absKeys c1)}" :: a.xs, ls := showLayout c1 seqIds true :: a.ls }

def opSeqs : Op → List Nat
  | .fwd toks => toks.map (·.1.seq)
  | .rsv toks => toks.map (·.1.seq)
  | .cp s d _ => [s, d]
  | .rm s _ _ => [s]
  | .q s _ => [s]
  | .sc _ => []

def pHistory : TP (Cache × List Op) := do
  let vbits ← nat
  let w ← pWindow
  let maxSeq ← nat; let capacity ← nat; let maxBatch ← nat
  let cpad ← nat; let bpad ← nat
  let hasShift ← nat
  let _permV ← nat; let _maskF16 ← nat; let _maxNodes ← nat
  let ops ← listOf pOp
  let v : Variant := { fixDefrag := vbits % 2 = 1, fixResume := (vbits / 2) % 2 = 1, fixDiv := (vbits / 4) % 2 = 1, perSeqBatch := (vbits / 8) % 2 = 1, atomicRemove := (vbits / 16) % 2 = 1, atomicWrapperRemove := (vbits / 32) % 2 = 1 }
  pure (init v w maxSeq capacity maxBatch cpad bpad (hasShift != 0), ops)

def runHistory (layout : Bool) (c : Cache) (ops : List Op) : String :=
  let seqIds := sortNat ((ops.flatMap opSeqs).eraseDups)
  let a := ops.foldl (stepOp seqIds) ⟨c, [], [], false, false⟩
  joinWith " | " (if layout then a.ls.reverse else a.xs.reverse)

/-! wrapper histories: `kw-x|kw-l <order> <history>`; order 1 = [SWA, causal], 2 = [causal, SWA] -/

structure WAcc where
  cs : List Cache
  xs : List String
  ls : List String
  dead : Bool
  cur : Bool := false

def wStepOp (seqIds : List Nat) (a0 : WAcc) (op : Op) : WAcc :=
  if a0.dead then a0 else
  let a : WAcc := match op with | .sc _ => a0 | _ => { a0 with cur := false }
  let absS := fun (c : Cache) => s!"abs={showKeys (absKeys c)}"
  let fin := fun (cs : List Cache) (res : String) (details : List String) (fwdOk : Bool) =>
    let xs := (cs.zip details).map (fun (c, d) => s!"{d};{absS c}")
    { a with cs := cs, xs := (res ++ " # " ++ joinWith " # " xs) :: a.xs,
             ls := joinWith " # " (cs.map (fun c => showLayout c seqIds fwdOk)) :: a.ls }
  match op with
  | .fwd toks =>
    let b := toks.map (·.1)
    match wStart a.cs b with
    | (_, .panic) => { a with xs := "panic" :: a.xs, ls := "panic" :: a.ls, dead := true }
    | (cs1, .full) => fin cs1 "F:err:full" (cs1.map (fun _ => "")) false
    | (cs1, .ok) =>
      let cs2 := wPut cs1 (toks.map (·.2))
      { fin cs2 "F:ok" (cs2.map showExposed) true with cur := true }
  | .cp src dst len =>
    let cs1 := wCopyPrefix a.cs src dst len
    fin cs1 "C" (cs1.map (fun _ => "")) false
  | .rm seq b e =>
    let (cs1, r) := wRemoveV a.cs seq b e
    let rs := match r with | .ok => "ok" | .shared => "err:shared" | .notsup => "err:notsup"
    fin cs1 s!"R:{rs}" (cs1.map (fun _ => "")) false
  | .q seq pos =>
    fin a.cs s!"Q:{wCanResume a.cs seq pos}" (a.cs.map (fun _ => "")) false
  | .sc ex =>
    let cs1 := wSetCausal a.cs ex
    if a.cur then fin cs1 "E" (cs1.map showExposed) true
    else fin cs1 "E:stale" (cs1.map (fun _ => "")) false
  | .rsv toks =>
    let cs1 := wStartReserve a.cs (toks.map (·.1))
    fin cs1 "V" (cs1.map (fun c => if c.hasLayers then showExposed c else ":nolayers")) true

def pWHistory : TP (List Cache × List Op) := do
  let order ← nat
  let vbits ← nat
  let w ← pWindow
  let maxSeq ← nat; let capacity ← nat; let maxBatch ← nat
  let cpad ← nat; let bpad ← nat
  let hasShift ← nat
  let _permV ← nat; let _maskF16 ← nat; let _maxNodes ← nat
  let ops ← listOf pOp
  let v : Variant := { fixDefrag := vbits % 2 = 1, fixResume := (vbits / 2) % 2 = 1, fixDiv := (vbits / 4) % 2 = 1, perSeqBatch := (vbits / 8) % 2 = 1, atomicRemove := (vbits / 16) % 2 = 1, atomicWrapperRemove := (vbits / 32) % 2 = 1 }
  let swa := init v w maxSeq capacity maxBatch cpad bpad (hasShift != 0)
  let full := init v none maxSeq capacity maxBatch cpad bpad (hasShift != 0)
  pure (if order = 2 then [full, swa] else [swa, full], ops)

def runWHistory (layout : Bool) (cs : List Cache) (ops : List Op) : String :=
  let seqIds := sortNat ((ops.flatMap opSeqs).eraseDups)
  let a := ops.foldl (wStepOp seqIds) ⟨cs, [], [], false, false⟩
  joinWith " | " (if layout then a.ls.reverse else a.xs.reverse)

/-! encoder histories: `enc <permV> <nops> (S n base idx reserve | P id | R b e)*` -/

def pEOp : TP (List EOp) := do
  let k ← tok
  match k with
  | "S" =>
    let _n ← nat; let base ← int; let idx ← int; let r ← nat
    return [.start (some (base + idx)) (r != 0)]
  | "P" => let id ← nat; return [.put 0 id, .put 1 id]   -- the driver Puts every layer
  | "R" => return [.remove (← int) (← int)]
  | _ => failure

def runEnc (ops : List (List EOp)) : String :=
  let step := fun (acc : Enc × List String) (op : List EOp) =>
    let s := op.foldl encStep acc.1
    (s, s!"cached={s.cached} pos={s.encPos} l0={(s.get 0).getD 0} l1={(s.get 1).getD 0}" :: acc.2)
  joinWith " | " (ops.foldl step ({}, [])).2.reverse

def handle (toks : List String) : Option String :=
  match toks with
  | "kv-x" :: rest => runTP (do let (c, ops) ← pHistory; pure (runHistory false c ops)) rest
  | "kv-l" :: rest => runTP (do let (c, ops) ← pHistory; pure (runHistory true c ops)) rest
  | "enc" :: rest => runTP (do let _permV ← nat; let ops ← listOf pEOp; pure (runEnc ops)) rest
  | "kw-x" :: rest => runTP (do let (cs, ops) ← pWHistory; pure (runWHistory false cs ops)) rest
  | "kw-l" :: rest => runTP (do let (cs, ops) ← pWHistory; pure (runWHistory true cs ops)) rest
  | _ => none

end Oracle.C06

def main (_ : List String) : IO Unit := Oracle.runMain Oracle.C06.handle
