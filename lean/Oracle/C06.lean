/-
  Oracle commands for C06 (stub: owns no commands yet).
-/
import Oracle.Util
namespace Oracle.C06
open Oracle

def handle (toks : List String) : Option String :=
  match toks with
  | _ => none

end Oracle.C06

def main (_ : List String) : IO Unit := Oracle.runMain Oracle.C06.handle
