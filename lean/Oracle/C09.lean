/-
  Oracle commands for C09 (registry client).  Digests are written as the hex of their pre-image
  (`D := Bytes`, `H := id`).

    pull <thr> <limit|-1> <linkShortcut 0|1> <verifyBeforeLink 0|1> <stagedChunks 0|1> <nattempts> {attempt}*
      attempt := <name> ( manerr <cls> | man <id> <dataLen> <nlayers> {<dig> <size>}* <hascfg 0|1> [<dig> <size>] )
                 <nplans> {plan}* <nsteps> {step}*
      plan    := pfail | plist <n> {<dig> <start> <len>}*
      step    := cancel | timeout | rel <k> redirect | rel <k> fail <cls> | rel <k> body <npieces> {<hex>}* <eof|err|stall>
      -> per attempt "<outcome> n=<waiting requests before each step> link=<manifest id|none> files=<hex,...> stage=<hex,...>", joined by " | "
    push <nlayers> {<npost> {<status> <loc 0|1>}* <nput> {<status> <loc>}*}* <nsched> {k}* <nman> {<status> <loc>}*
      (per layer the answers to the physical requests of the POST exchange and of the upload PUT exchange, then
       which goroutine's request arrives next, then the answers of the manifest PUT exchange)
      -> "<events L<i>[p|u]:<METHOD>:<status> … M:<METHOD>:<status>> res=<ok|err>" | bad-schedule
    pullcov <same arguments as pull>
      -> the branch tags of the model's run of that history (Model/RegistryCov.lean `historyTags`), space separated;
         used by the check to count which branches of the model the generator reached
    pushm <cfgToo 0|1> <hasCfg 0|1> <nblobs> {scripts as for push; the last one is the config's when hasCfg} <nsched> {k}* <nman> {..}
      (Registry.Push of a manifest with a config blob; cfgToo: the tree offers the config to the registry (F30 repaired))
      -> as push
    pushcov / pushmcov / legacycov <same arguments as push / pushm / legacy>
      -> branch tags of the push models (Model/RegistryCov.lean `pushTags`, `legacyTags`), space separated
    csparse <hex of a chunksums response body>   (Model/RegistryChunksums.lean `parseBody`)
      -> "<digest hex>:<start>:<end> … end=<clean|invalidDigest|missingRange|invalidRange>"
    hpull <thr> <limit|-1> <linkShortcut> <verify> <staged> <nattempts> {attempt}*   (Local.handlePull's loop; the
      scripts are consumed one per Pull; when they run out while the loop still retries, the client goes away)
      -> "res=<ok|err:cls|clientGone> success=<true|false> attempts=<k> link=<manifest id|none>"
    canretry <ok|cls>  -> 1 | 0   (the model's `canRetry`)
    shared <strict> <headB resps> (ans <resps> | transport | ownercancel) <cancelB 0|1> <npatchTries> {<resps>}* <ncommitTries> {<resps>}* <manA resps> <manB resps>
      (two legacy pushes sharing one upload: B joins while A's session POST is outstanding)
      -> "A: <events> res=<ok|err> | B: <events> res=<ok|err> | T: <events of the one transfer> | hang=<-|A|B|AB>"
         (which push does not return until its context is ended from outside)
    legacy <strict 0|1> <nlayers> {<head resps> <post resps> <npatchTries> {<resps>}* <ncommitTries> {<resps>}*}* <manifest resps>
      (<resps> := <n> {<status> <loc 0|1>}*: the answers to the physical requests of one exchange)
      -> "<events L<i>[h|p|a|c]:<METHOD>:<status> … M:<METHOD>:<status>> res=<ok|err>"
-/
import OllamaVerif.Model.Registry
import OllamaVerif.Model.RegistryCov
import OllamaVerif.Model.RegistryChunksums
import Oracle.Util
namespace Oracle.C09
open OllamaVerif OllamaVerif.Registry Oracle

abbrev Dg := Bytes

def pCls : TP ErrClass := do
  match (← tok) with
  | "status4xx" => pure .status4xx
  | "status5xx" => pure .status5xx
  | "notFound" => pure .notFound
  | "transport" => pure .transport
  | "canceled" => pure .canceled
  | "eof" => pure .eof
  | "readErr" => pure .readErr
  | "digest" => pure .digest
  | "incomplete" => pure .incomplete
  | "invalidManifest" => pure .invalidManifest
  | "deadline" => pure .deadline
  | _ => failure

def showCls : ErrClass → String
  | .status4xx => "status4xx" | .status5xx => "status5xx" | .notFound => "notFound"
  | .transport => "transport" | .canceled => "canceled" | .eof => "eof" | .readErr => "readErr"
  | .digest => "digest" | .incomplete => "incomplete" | .invalidManifest => "invalidManifest"
  | .deadline => "deadline"

def showOutcome : Outcome → String
  | .ok => "ok"
  | .err e => "err:" ++ showCls e
  | .stuck => "stuck"

def pLayer : TP (Layer Dg) := do
  let d ← hex
  let s ← nat
  pure ⟨d, s⟩

def pMan : TP (Except ErrClass (Manifest Dg)) := do
  match (← tok) with
  | "manerr" => return .error (← pCls)
  | "man" =>
    let id ← nat
    let dl ← nat
    let ls ← listOf pLayer
    let hc ← nat
    let cfg ← if hc != 0 then (do let l ← pLayer; pure (some l)) else pure none
    return .ok ⟨id, dl, ls, cfg⟩
  | _ => failure

def pCS : TP (CS Dg) := do
  let d ← hex
  let s ← nat
  let n ← nat
  pure ⟨d, s, n⟩

def pPlan : TP (PlanResp Dg) := do
  match (← tok) with
  | "pfail" => pure .fail
  | "plist" => return .list (← listOf pCS)
  | _ => failure

def pEnd : TP BodyEnd := do
  match (← tok) with
  | "eof" => pure .eof
  | "err" => pure .err
  | "stall" => pure .stall
  | _ => failure

def pStep : TP Step := do
  match (← tok) with
  | "cancel" => pure .cancel
  | "timeout" => pure .timeout
  | "rel" =>
    let k ← nat
    match (← tok) with
    | "fail" => return .release k (.fail (← pCls))
    | "redirect" => return .release k .redirect
    | "body" =>
      let ps ← listOf hex
      let e ← pEnd
      return .release k (.body ps e)
    | _ => failure
  | _ => failure

def pAttempt : TP (Attempt Dg) := do
  let name ← nat
  let man ← pMan
  let plans ← listOf pPlan
  let steps ← listOf pStep
  pure ⟨name, man, plans, steps⟩

/-- number of waiting chunk requests before each step -/
def waiting (verify : Variant) (limit : Option Nat) : Run Dg → List Step → List Nat
  | _, [] => []
  | st, s :: ss =>
    st.inflight.length :: (match step id verify limit st s with
      | none => []
      | some st' => waiting verify limit st' ss)

def showAttempt (cfg : Cfg) (c : Cache Dg) (a : Attempt Dg) : String × Cache Dg :=
  let r := pull id cfg c a
  let (ns, layers) := match a.man with
    | .error _ => ([], [])
    | .ok m => (if m.layers.isEmpty then [] else waiting cfg.variant cfg.limit (startRun cfg c m a.plans) a.steps, m.all)
  let link := match r.1.links a.name with
    | some m => toString m.id
    | none => "none"
  let files := layers.map fun l => hexOrDash ((r.1.files l.digest).getD [])
  let stage := layers.map fun l => hexOrDash ((r.1.staging l.digest).getD [])
  (s!"{showOutcome r.2} n={joinWith "." (ns.map toString)} link={link} files={joinWith "," files} stage={joinWith "," stage}", r.1)

def showHistory (cfg : Cfg) : Cache Dg → List (Attempt Dg) → List String
  | _, [] => []
  | c, a :: as =>
    let r := showAttempt cfg c a
    r.1 :: showHistory cfg r.2 as

def pResp : TP Resp := do
  let st ← nat
  let l ← nat
  pure ⟨st, l != 0⟩

def pUp : TP UpScript := do
  let po ← listOf pResp
  let pu ← listOf pResp
  pure ⟨po, pu⟩

def pm (b : Bool) : String := if b then "+" else "-"

def showMethod : Method → String
  | .get => "GET" | .head => "HEAD" | .post => "POST" | .put => "PUT" | .patch => "PATCH"

def showPushEv : PushEv → String
  | .req i up m st => s!"L{i}{if up then "u" else "p"}:{showMethod m}:{st}"
  | .man m st => s!"M:{showMethod m}:{st}"

def kindLetter (k : Nat) : String :=
  match k with
  | 0 => "h" | 1 => "p" | 2 => "a" | _ => "c"

def showLegEv : LegEv → String
  | .req i k m st => s!"L{i}{kindLetter k}:{showMethod m}:{st}"
  | .man m st => s!"M:{showMethod m}:{st}"

def pBool : TP Bool := do
  let n ← nat
  pure (n != 0)

def pLegacy : TP LegacyLayer := do
  let h ← listOf pResp
  let p ← listOf pResp
  let pa ← listOf (listOf pResp)
  let co ← listOf (listOf pResp)
  pure ⟨h, p, pa, co⟩

def handle (toks : List String) : Option String :=
  match toks with
  | "pull" :: rest =>
    runTP (do
      let thr ← nat
      let lim ← int
      let sc ← pBool
      let vf ← pBool
      let sg ← pBool
      let as ← listOf pAttempt
      let cfg : Cfg := ⟨thr, if lim < 0 then none else some lim.toNat, sc, vf, sg⟩
      pure (joinWith " | " (showHistory cfg Cache.empty as))) rest
  | "pullcov" :: rest =>
    runTP (do
      let thr ← nat
      let lim ← int
      let sc ← pBool
      let vf ← pBool
      let sg ← pBool
      let as ← listOf pAttempt
      let cfg : Cfg := ⟨thr, if lim < 0 then none else some lim.toNat, sc, vf, sg⟩
      pure (joinWith " " (historyTags id cfg Cache.empty as))) rest
  | "hpull" :: rest =>
    runTP (do
      let thr ← nat
      let lim ← int
      let sc ← pBool
      let vf ← pBool
      let sg ← pBool
      let as ← listOf pAttempt
      let cfg : Cfg := ⟨thr, if lim < 0 then none else some lim.toNat, sc, vf, sg⟩
      let r := handlePull id cfg Cache.empty as
      let k := handlePullAttempts id cfg Cache.empty as
      let res := match r.2 with
        | none => "clientGone"
        | some o => showOutcome o
      let name := match as with
        | a :: _ => a.name
        | [] => 0
      let link := match r.1.links name with
        | some m => toString m.id
        | none => "none"
      pure s!"res={res} success={handlerSaysSuccess r.2} attempts={k} link={link}") rest
  | "push" :: rest =>
    runTP (do
      let ups ← listOf pUp
      let sched ← listOf nat
      let man ← listOf pResp
      pure (match pushTrace ups sched man with
        | none => "bad-schedule"
        | some (tr, ok) => s!"{joinWith " " (tr.map showPushEv)} res={if ok then "ok" else "err"}")) rest
  | "pushm" :: rest =>
    runTP (do
      let cfgToo ← pBool
      let hasCfg ← pBool
      let ups ← listOf pUp
      let sched ← listOf nat
      let man ← listOf pResp
      -- the manifest: one dummy layer per script; the last one is the config when `hasCfg`
      let nl := if hasCfg then ups.length - 1 else ups.length
      let layers : List (Layer Dg) := (List.range nl).map fun i => ⟨[UInt8.ofNat i], 0⟩
      let m : Manifest Dg := ⟨0, 0, layers, if hasCfg then some ⟨[UInt8.ofNat nl], 0⟩ else none⟩
      pure (match pushManifest cfgToo m ups sched man with
        | none => "bad-schedule"
        | some (tr, ok) => s!"{joinWith " " (tr.map showPushEv)} res={if ok then "ok" else "err"}")) rest
  | "pushcov" :: rest =>
    runTP (do
      let ups ← listOf pUp
      let _ ← listOf nat
      let man ← listOf pResp
      pure (joinWith " " (pushTags ups man))) rest
  | "pushmcov" :: rest =>
    runTP (do
      let cfgToo ← pBool
      let hasCfg ← pBool
      let ups ← listOf pUp
      let _ ← listOf nat
      let man ← listOf pResp
      let n := if hasCfg && !cfgToo then ups.length - 1 else ups.length
      pure (joinWith " " (pushTags (ups.take n) man))) rest
  | "legacycov" :: rest =>
    runTP (do
      let strict ← pBool
      let ls ← listOf pLegacy
      let man ← listOf pResp
      pure (joinWith " " (legacyTags strict ls man))) rest
  | ["csparse", body] =>
    runTP (do
      let b ← hex
      let r := OllamaVerif.Registry.Chunksums.parseBody b
      let ending := match r.2 with
        | .clean => "clean" | .invalidDigest => "invalidDigest" | .missingRange => "missingRange"
        | .invalidRange => "invalidRange"
      let es := r.1.map fun (d, s, e) => s!"{hexOrDash d}:{s}:{e}"
      pure s!"{joinWith " " es} end={ending}") [body]
  | ["canretry", "ok"] => some (if canRetry .ok then "1" else "0")
  | "canretry" :: rest =>
    runTP (do
      let e ← pCls
      pure (if canRetry (.err e) then "1" else "0")) rest
  | "shared" :: rest =>
    runTP (do
      let strict ← pBool
      let headB ← listOf pResp
      let post ← (do
        match (← tok) with
        | "ans" => return PostEnd.answered (← listOf pResp)
        | "transport" => pure PostEnd.transport
        | "ownercancel" => pure PostEnd.ownerCancelled
        | _ => failure)
      let cancelB ← pBool
      let pa ← listOf (listOf pResp)
      let co ← listOf (listOf pResp)
      let manA ← listOf pResp
      let manB ← listOf pResp
      let r := sharedPush strict ⟨headB, post, cancelB, pa, co, manA, manB⟩
      let sh := fun (l : List LegEv) => joinWith " " (l.map showLegEv)
      let okS := fun (b : Bool) => if b then "ok" else "err"
      pure s!"A: {sh r.logA} res={okS r.okA} | B: {sh r.logB} res={okS r.okB} | T: {sh r.logT} | hang={if r.hangB then "B" else "-"}") rest
  | "legacy" :: rest =>
    runTP (do
      let strict ← pBool
      let ls ← listOf pLegacy
      let man ← listOf pResp
      let r := legacyPush strict ls man
      pure s!"{joinWith " " (r.1.map showLegEv)} res={if r.2 then "ok" else "err"}") rest
  | _ => none

end Oracle.C09

def main (_ : List String) : IO Unit := Oracle.runMain Oracle.C09.handle
