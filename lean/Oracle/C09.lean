/-
  Oracle commands for C09 (stub: owns no commands yet).
-/
import Oracle.Util
namespace Oracle.C09
open Oracle

def handle (toks : List String) : Option String :=
  match toks with
  | _ => none

end Oracle.C09

def main (_ : List String) : IO Unit := Oracle.runMain Oracle.C09.handle
