/-
  Oracle commands for C13 (names, digests, store paths).  All byte strings in hex ("-" = empty).
    mname <s>                 -> bare=h,ns,m,t full=h,ns,m,t valid=b str=<hex> fp=<hex|!> disp=<hex> dbare=<hex>
    mpath <s>                 -> h,ns,m,t                         (model.ParseNameFromFilepath)
    nname <n1fixed 0|1> <s>   -> p=h,ns,m,t valid=b fq=b str=.. merged=h,ns,m,t mfq=b mstr=..
    vpart <M|N> <kind> <s>    -> 0|1                              (isValidPart of either package)
    mp <root> <s>             -> f=scheme,reg,ns,repo,tag path=<hex|!> full=<hex> short=<hex> nsrepo=<hex>
    blobs <root> <s>          -> ok <hex> mk=<hex> | err mk=!     (server.GetBlobsPath + the directory its MkdirAll creates)
    canon <s>                 -> <hex>                            (server.canonicalDigest)
    enum <n> <rel>*           -> h,ns,m,t=<opened rel>;...         (server.Manifests over the depth-4 regular files, input order)
    hname <root> <s>          -> ok <hex> | invalid   (parse step of a name-taking handler → the manifest path GetModel opens)
    nfold <a> <b>             -> 0|1     (model.ParseName(a).EqualFold(model.ParseNameBare(b)); a must be a valid name)
    copy <src> <dst>          -> accepted | refused               (guard of server.CopyModel on model.ParseName of both)
    p2n <s>                   -> <hex>                            (blob.pathToName = what DiskCache.Links yields)
    digest <s>                -> ok <sum> <String()> | err        (blob.ParseDigest)
    getfile <dir> <sum>       -> <hex>
    n2p <s>                   -> ok <hex> | err                   (blob.nameToPath)
    mfpath <dir> <n> <link>* <name> -> ok <hex> | err             (DiskCache.manifestPath)
    hist <n> <link>* <k> {R|L|U|W|X <arg>}*  -> per cache call "<relpath|!><+|->" joined by ",", then disk=<listing>
                                 (history on one DiskCache; W/X = foreign create/remove of manifests/a/b/c/d)
    snd <s>                   -> <name> <digest>                  (blob.splitNameDigest)
    resolve <dir> <n> <link>* <s> -> digest <sum> | manifest <hex> | invalid   (addressing part of DiskCache.Resolve)
    fold <asciiA> <l>         -> 0|1                              (strings.EqualFold, ASCII left operand)
    ext <s>                   -> ok <scheme> h,ns,m,t <sum> | err:scheme|err:digest|err:name
    split <s>                 -> <scheme> <name> <digest>
    clean <s>                 -> <hex>
    join <n> <s>*             -> <hex>
-/
import OllamaVerif.Model.Names
import Oracle.Util
namespace Oracle.C13
open OllamaVerif OllamaVerif.Names Oracle

def b01 (b : Bool) : String := if b then "1" else "0"

def showName (n : Name) : String :=
  s!"{hexOrDash n.host},{hexOrDash n.ns},{hexOrDash n.model},{hexOrDash n.tag}"

def showOpt : Option Bytes → String
  | some p => s!"ok {hexOrDash p}"
  | none => "err"

def pHOp : TP HOp := do
  let c ← tok
  let a ← hex
  match c with
  | "R" => pure (.resolve a)
  | "L" => pure (.link a)
  | "U" => pure (.unlink a)
  | "W" => pure (.fwrite a)
  | "X" => pure (.fremove a)
  | _ => failure

def handle (toks : List String) : Option String :=
  match toks with
  | "mname" :: rest =>
    runTP (do
      let s ← hex
      let bare := parseNameBare s
      let full := parseName s
      let fp := match filepathM full with | some p => hexOrDash p | none => "!"
      pure s!"bare={showName bare} full={showName full} valid={b01 (isFQM full)} str={hexOrDash (toStr full)} fp={fp} disp={hexOrDash (displayShortest full)} dbare={hexOrDash (displayShortest bare)}") rest
  | "mpath" :: rest =>
    runTP (do
      let s ← hex
      pure (showName (parseNameFromFilepath s))) rest
  | "nname" :: rest =>
    runTP (do
      let fixed ← nat
      let s ← hex
      let n := parseN s
      let m := merge n defaultMask
      pure s!"p={showName n} valid={b01 (isValidNv (fixed != 0) n)} fq={b01 (isFQN n)} str={hexOrDash (toStr n)} merged={showName m} mfq={b01 (isFQN m)} mstr={hexOrDash (toStr m)}") rest
  | "vpart" :: pkg :: rest =>
    runTP (do
      let k ← nat
      let s ← hex
      pure (b01 (if pkg == "M" then validPartM (Kind.ofIdx k) s else validPartN (Kind.ofIdx k) s))) rest
  | "mp" :: rest =>
    runTP (do
      let root ← hex
      let s ← hex
      let mp := parseModelPath s
      let p := match mpManifestPath root mp with | some p => hexOrDash p | none => "!"
      pure s!"f={hexOrDash mp.scheme},{hexOrDash mp.registry},{hexOrDash mp.ns},{hexOrDash mp.repo},{hexOrDash mp.tag} path={p} full={hexOrDash mp.fullTagname} short={hexOrDash mp.shortTagname} nsrepo={hexOrDash mp.namespaceRepository}") rest
  | "blobs" :: rest =>
    runTP (do
      let root ← hex
      let s ← hex
      let mk := match getBlobsMkdir root s with | some d => hexOrDash d | none => "!"
      pure s!"{showOpt (getBlobsPath root s)} mk={mk}") rest
  | "canon" :: rest =>
    runTP (do
      let s ← hex
      pure (hexOrDash (canonicalDigest s))) rest
  | "enum" :: rest =>
    runTP (do
      let rels ← listOf hex
      let shown := (manifestsEnum rels).map fun (n, p) => s!"{showName n}={hexOrDash p}"
      pure (if shown.isEmpty then "-" else joinWith ";" shown)) rest
  | "hname" :: rest =>
    runTP (do
      let root ← hex
      let s ← hex
      pure (match handlerName root s with | some p => s!"ok {hexOrDash p}" | none => "invalid")) rest
  | "nfold" :: rest =>
    runTP (do
      let a ← hex
      let b ← hex
      pure (b01 (nameEqualFold (parseName a) (parseNameBare b)))) rest
  | "copy" :: rest =>
    runTP (do
      let a ← hex
      let b ← hex
      pure (if copyAccepted (parseName a) (parseName b) then "accepted" else "refused")) rest
  | "p2n" :: rest =>
    runTP (do
      let s ← hex
      pure (hexOrDash (pathToName s))) rest
  | "digest" :: rest =>
    runTP (do
      let s ← hex
      pure (match parseDigest s with
        | some sum => s!"ok {hexOrDash sum} {hexOrDash (digestString sum)}"
        | none => "err")) rest
  | "getfile" :: rest =>
    runTP (do
      let dir ← hex
      let sum ← hex
      pure (hexOrDash (getFile dir sum))) rest
  | "n2p" :: rest =>
    runTP (do
      let s ← hex
      pure (showOpt (nameToPath s))) rest
  | "mfpath" :: rest =>
    runTP (do
      let dir ← hex
      let links ← listOf hex
      let s ← hex
      pure (showOpt (manifestPath dir links s))) rest
  | "hist" :: rest =>
    runTP (do
      let init ← listOf hex
      let ops ← listOf pHOp
      let (disk, outs) := runH (init.foldl (fun d l => insertLink l d) []) ops
      let shown := outs.filterMap fun o => o.map fun r =>
        (match r.path with | some p => hexOrDash p | none => "!") ++ (if r.existed then "+" else "-")
      pure s!"{joinWith "," shown} disk={joinWith "," (disk.map hexOrDash)}") rest
  | "snd" :: rest =>
    runTP (do
      let s ← hex
      let (a, b) := splitNameDigest s
      pure s!"{hexOrDash a} {hexOrDash b}") rest
  | "resolve" :: rest =>
    runTP (do
      let dir ← hex
      let links ← listOf hex
      let s ← hex
      pure (match cacheResolve dir links s with
        | .digest d => s!"digest {hexOrDash d}"
        | .manifest p => s!"manifest {hexOrDash p}"
        | .invalid => "invalid")) rest
  | "fold" :: rest =>
    runTP (do
      let a ← hex
      let l ← hex
      pure (b01 (equalFold a l))) rest
  | "ext" :: rest =>
    runTP (do
      let s ← hex
      pure (match parseNameExtended defaultMask s with
        | .ok (scheme, n, d) => s!"ok {hexOrDash scheme} {showName n} {hexOrDash d}"
        | .error .scheme => "err:scheme"
        | .error .digest => "err:digest"
        | .error .name => "err:name")) rest
  | "split" :: rest =>
    runTP (do
      let s ← hex
      let (a, b, c) := splitExtended s
      pure s!"{hexOrDash a} {hexOrDash b} {hexOrDash c}") rest
  | "clean" :: rest =>
    runTP (do
      let s ← hex
      pure (hexOrDash (clean s))) rest
  | "join" :: rest =>
    runTP (do
      let ps ← listOf hex
      pure (hexOrDash (pathJoin ps))) rest
  | _ => none

end Oracle.C13

def main (_ : List String) : IO Unit := Oracle.runMain Oracle.C13.handle
