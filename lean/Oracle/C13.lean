/-
  Oracle commands for C13 (stub: owns no commands yet).
-/
import Oracle.Util
namespace Oracle.C13
open Oracle

def handle (toks : List String) : Option String :=
  match toks with
  | _ => none

end Oracle.C13

def main (_ : List String) : IO Unit := Oracle.runMain Oracle.C13.handle
