/-
  Oracle commands for C01 (stub: owns no commands yet).
-/
import Oracle.Util
namespace Oracle.C01
open Oracle

def handle (toks : List String) : Option String :=
  match toks with
  | _ => none

end Oracle.C01

def main (_ : List String) : IO Unit := Oracle.runMain Oracle.C01.handle
