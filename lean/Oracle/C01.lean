/-
  Oracle for the scheduler (C01 / C02 / C11): trace conformance.
    sched-trace <variant: good|pinned> <maxRunners> <maxQueue> <defaultSession> <cpu 0|1> <ngpus> | <ev> ; <obs> | <ev> ; <obs> ...
      -> ok                                   the model can reproduce every observation
       | diverge <k> <n-states-before> model=<one reachable observation>   first event (0-based) it cannot
       | bad-op
  After each environment event the oracle computes every state reachable by internal actions
  (τ-closure; after `advance` also the time-driven actions), keeps the quiescent ones, and filters
  by the observation the real scheduler produced (NFA simulation).  Validation only — the theorems
  are in Properties/C01.lean, C02.lean, C11.lean.  Protocol: notes/SCHED_PROTOCOL.md.
-/
import OllamaVerif.Model.Sched
import OllamaVerif.Model.SchedChan
import Oracle.Util
import Std.Data.HashSet
namespace Oracle.C01
open OllamaVerif.Sched OllamaVerif.SchedChan Oracle

def showList (xs : List String) : String := if xs.isEmpty then "-" else joinWith "," xs

def showObs (s : State) : String :=
  let ls := (s.loaded.toArray.qsort (fun a b => a.1 < b.1)).toList.map fun (m, r) => s!"{m}:{r}"
  let rs := (List.range s.nRunners).map fun r =>
    let x := s.runners r
    let rc := if x.wrapped then "W" else toString x.refCount
    s!"{r}:{rc}:{if x.closed then 1 else 0}:{x.closeCount}"
  let qs := (List.range s.nReqs).map fun q =>
    let x := s.reqs q
    let what := match x.gotRunner, x.gotErr with
      | some r, false => s!"R{r}"
      | none, true => "E"
      | some _, true => "B"
      | none, false => "-"
    s!"{q}:{x.replies}:{what}"
  s!"L={showList ls} R={showList rs} Q={showList qs}"

/-- full canonical key of a state (for de-duplication) -/
def key (s : State) : String :=
  let rs := (List.range s.nRunners).map fun r => toString (repr (s.runners r))
  let qs := (List.range s.nReqs).map fun q => toString (repr (s.reqs q))
  -- helper-goroutine pools are multisets: sort them so that permutations are one state
  let srt (l : List Nat) : List Nat := (l.toArray.qsort (· < ·)).toList
  let ld := (s.loaded.toArray.qsort (fun a b => a.1 < b.1)).toList
  s!"{rs}|{qs}|{ld}|{s.pendingQ}|{s.finishedQ}|{s.expiredQ}|{s.unloadedQ}|{repr s.ppc}|{repr s.cpc}|{srt s.finishWaiters}|{srt s.requeuers}|{srt s.delayed}|{srt s.loaders}|{srt s.timerCbs}|{srt s.unloaders}|{srt s.unloadCalls}|{s.maxRunners}"

def fits (cpu : Bool) (ngpus : Nat) : List Fit :=
  [true, false].flatMap fun a => [true, false].flatMap fun b => [true, false].map fun c =>
    { cpu := cpu, ngpus := ngpus, cpuFits := a, fitsFull := b, someBusy := c }

def internalActs (cpu : Bool) (ngpus : Nat) (s : State) : List Act :=
  [.pTake, .pDrainUnloaded, .pNeedsReload, .pUse, .pExpire, .pWaitUnload, .pLoad true, .pLoad false,
   .cTakeFinished, .cFin, .cTakeExpired, .cExp, .cVram]
  ++ (match s.ppc with | .eval _ => (fits cpu ngpus).map Act.pLookup | _ => [])
  ++ s.finishWaiters.map Act.finishSend
  ++ s.timerCbs.map Act.timerCb
  ++ s.unloaders.map Act.unloadRun
  ++ s.unloadCalls.eraseDups.map Act.unloadBind

def timeActs (s : State) : List Act :=
  s.requeuers.map Act.requeue ++ s.delayed.map Act.delayedRequeue
  ++ ((List.range s.nRunners).filter (fun r => (s.runners r).timerArmed)).map Act.timerFire
  ++ (match s.ppc with | .pinging _ r => [Act.pingDone r false] | _ => [])   -- needsReload's 10 s Ping timeout

def succs (v : Variant) (acts : List Act) (s : State) : List State := acts.filterMap (step v s)

/-- BFS closure with a work-list; `fuel` bounds the number of expansions -/
partial def closure (v : Variant) (cpu : Bool) (ngpus : Nat) (time : Bool)
    (work : List State) (seen : Std.HashSet String) (acc : List State) (fuel : Nat) : List State :=
  match fuel, work with
  | 0, _ => []          -- budget exhausted: the caller reports `budget`, never a verdict
  | _, [] => acc
  | fuel+1, s :: rest =>
    let acts := internalActs cpu ngpus s ++ (if time then timeActs s else [])
    let (work', seen') := (succs v acts s).foldl (fun (w, sn) s' =>
      let k := key s'
      if sn.contains k then (w, sn) else (s' :: w, sn.insert k)) (rest, seen)
    closure v cpu ngpus time work' seen' (s :: acc) fuel

def quiescent (v : Variant) (cpu : Bool) (ngpus : Nat) (s : State) : Bool :=
  (succs v (internalActs cpu ngpus s) s).isEmpty

def dedup (ss : List State) : List State :=
  (ss.foldl (fun (acc, sn) s => let k := key s; if sn.contains k then (acc, sn) else (s :: acc, sn.insert k))
    (([] : List State), ({} : Std.HashSet String))).1

inductive Ev
  | act (a : Act)
  | advance
  | nop

def pSess : TP (Option Nat) := do
  let t ← tok
  match t with
  | "-" => pure none
  | "0" => pure (some 0)
  | "S" => pure (some 1)
  | "L" => pure (some 2)
  | _ => failure

def parseEv : List String → Option Ev
  | ["submit", m, o, se] => do
    let m ← m.toNat?; let o ← o.toNat?
    let se ← (runTP pSess [se])
    pure (.act (.submit m o se))
  | ["submitr", m, o, se] => do    -- the requester is the real Server.scheduleRunner: same scheduler action
    let m ← m.toNat?; let o ← o.toNat?
    let se ← (runTP pSess [se])
    pure (.act (.submit m o se))
  | ["done", q] => do pure (.act (.done (← q.toNat?)))
  | ["loaddone", r, ok] => do pure (.act (.loadDone (← r.toNat?) (ok != "0")))
  | ["ping", r, "2"] => do pure (.act (.setPingBlock (← r.toNat?)))     -- Ping parks until `pingdone`
  | ["ping", r, "3"] => do pure (.act (.setPingOpen (← r.toNat?)))      -- … and lets go of refMu while parked
  | ["ping", r, ok] => do pure (.act (.setPing (← r.toNat?) (ok != "0")))
  | ["pingdone", r, ok] => do pure (.act (.pingDone (← r.toNat?) (ok != "0")))
  | ["unload", m] => do pure (.act (.explicitUnload (← m.toNat?)))
  | ["advance", _] => some .advance
  | ["failstart", _, _] => some .nop
  -- environment of the trace that the model leaves free (Fit answers) or does not time (Close)
  | ["parallel", _] => some .nop
  | ["gpumem", _] => some .nop
  | ["sysmem", _] => some .nop           -- scripted free system memory for cpu configurations (a Fit answer's input)
  | ["closedelay", _] => some .nop
  | ["closefail", _, _] => some .nop     -- the mock's Close returns an error from now on: the scheduler ignores it
  | ["envspell", _] => some .nop         -- spelling of the OLLAMA_* values the driver writes (first event only); values = header
  | _ => none

/-- split a token list on a separator token -/
def splitOn (sep : String) (toks : List String) : List (List String) :=
  let (cur, acc) := toks.foldl (fun (cur, acc) t => if t == sep then ([], cur.reverse :: acc) else (t :: cur, acc)) (([] : List String), ([] : List (List String)))
  (cur.reverse :: acc).reverse

def runTrace (v : Variant) (cpu : Bool) (ngpus : Nat) (s0 : State) (steps : List (List String)) : String :=
  let rec go (k : Nat) (cur : List State) : List (List String) → String
    | [] => "ok"
    | st :: rest =>
      match splitOn ";" st with
      | [evToks, obsToks] =>
        match parseEv evToks with
        | none => "bad-op"
        | some ev =>
          let obs := joinWith " " obsToks
          let (starts, time) := match ev with
            | .act a => (cur.filterMap (fun s => step v s a), false)
            | .advance => (cur, true)
            | .nop => (cur, false)
          let seen := starts.foldl (fun sn s => sn.insert (key s)) ({} : Std.HashSet String)
          let all := closure v cpu ngpus time starts seen [] 12000
          if all.isEmpty && !starts.isEmpty then s!"budget {k}" else
          let quiet := dedup (all.filter (quiescent v cpu ngpus))
          -- The real scheduler is quiescent when every goroutine is parked; a goroutine can be parked
          -- on a MUTEX (updateFreeSpace and expireRunner wait for a loading runner's refMu while
          -- holding loadedMu, which stalls both loops), which the region-level model does not block
          -- on.  The real state is then a reachable but non-quiescent state of the model, so the
          -- conformance relation is plain reachability (trace inclusion), not quiescent-state equality.
          -- Only a load in flight holds a mutex for long, so non-quiescent states are admitted only
          -- while some runner's refMu is held by its load goroutine.
          let loading (s : State) : Bool := (List.range s.nRunners).any (fun r => (s.runners r).locked)
          -- A Close() that takes (fake) time: the expired handler has taken the event and sits in llama.Close(), nothing
          -- is changed yet (closeCount counts Close calls that RETURNED).  That is the model state cpc = .exp r with
          -- cExp enabled; everybody who needs loadedMu / refMu waits, so it is not quiescent in the model.
          let closing (s : State) : Bool := match s.cpc with
            | .exp r => (s.runners r).isZero && !(s.runners r).locked
            | _ => false
          let matching := dedup (all.filter (fun s => showObs s == obs && (loading s || closing s || quiescent v cpu ngpus s)))
          if matching.isEmpty then
            let ex := match quiet.head? with | some s => showObs s | none => "<no quiescent state>"
            let others := ((all.map showObs).eraseDups.take 6)
            -- diagnosis: a state with the observed projection exists but was not admitted: which internal actions it still enables
            let why := match (all.filter (fun s => showObs s == obs)).head? with
              | some s => " same-projection-but-enabled=" ++ toString (((internalActs cpu ngpus s).filter (fun a => (step v s a).isSome)).map (fun a => toString (repr a)))
              | none => ""
            s!"diverge {k} {cur.length} model={ex} reachable={others}{why}"
          else go (k+1) matching rest
      | _ => "bad-op"
  go 0 [s0] steps

/-! ### bounded model (Model/SchedChan.lean): can the model WEDGE along a script on which the real scheduler wedged?
    sched-wedge <variant> <expiredOrderFixed 0|1> <idleDrains 0|1> <maxRunners> <maxQueue> <defaultSession> <cpu> <ngpus> | <ev> ; <obs> | ...
      -> wedge                 some state of the bounded model reachable along the script (same observations) has goroutines
                               parked inside a region and no internal action enabled
       | no-wedge <n>          the script can be followed (n final states) but none of them is wedged
       | diverge <k> | budget <k> | bad-op -/

def keyB (b : BState) : String := key b.base ++ "#" ++ toString (repr b.parked)

def actsB (cpu : Bool) (ngpus : Nat) (time : Bool) (b : BState) : List Act :=
  internalActs cpu ngpus b.base ++ (if time then timeActs b.base else []) ++ b.parked.map (·.act)

partial def closureB (v : Variant) (c : Cfg) (cpu : Bool) (ngpus : Nat) (time : Bool)
    (work : List BState) (seen : Std.HashSet String) (acc : List BState) (fuel : Nat) : List BState :=
  match fuel, work with
  | 0, _ => []
  | _, [] => acc
  | fuel+1, b :: rest =>
    let (work', seen') := ((actsB cpu ngpus time b).filterMap (stepB v c b)).foldl (fun (w, sn) b' =>
      let k := keyB b'
      if sn.contains k then (w, sn) else (b' :: w, sn.insert k)) (rest, seen)
    closureB v c cpu ngpus time work' seen' (b :: acc) fuel

def wedgedB (v : Variant) (c : Cfg) (cpu : Bool) (ngpus : Nat) (b : BState) : Bool :=
  !b.parked.isEmpty && ((actsB cpu ngpus true b).filterMap (stepB v c b)).isEmpty

def runWedge (v : Variant) (c : Cfg) (cpu : Bool) (ngpus : Nat) (b0 : BState) (steps : List (List String)) : String :=
  let rec go (k : Nat) (cur : List BState) : List (List String) → String
    | [] => if cur.any (wedgedB v c cpu ngpus) then "wedge" else s!"no-wedge {cur.length}"
    | st :: rest =>
      match splitOn ";" st with
      | [evToks, obsToks] =>
        match parseEv evToks with
        | none => "bad-op"
        | some ev =>
          let obs := joinWith " " obsToks
          let (starts, time) := match ev with
            | .act a => (cur.filterMap (fun b => stepB v c b a), false)
            | .advance => (cur, true)
            | .nop => (cur, false)
          let seen := starts.foldl (fun sn b => sn.insert (keyB b)) ({} : Std.HashSet String)
          let all := closureB v c cpu ngpus time starts seen [] 12000
          if all.isEmpty && !starts.isEmpty then s!"budget {k}" else
          let matching := all.filter (fun b => showObs b.base == obs)
          if matching.isEmpty then s!"diverge {k}" else go (k+1) matching rest
      | _ => "bad-op"
  go 0 [b0] steps

def handle (toks : List String) : Option String :=
  match toks with
  | "sched-trace" :: vname :: mr :: mq :: ds :: cpu :: ng :: "|" :: rest => do
    let v ← (if vname == "good" then some Variant.good else if vname == "pinned" then some Variant.pinned else none)
    let mr ← mr.toNat?; let mq ← mq.toNat?; let ds ← ds.toNat?; let ng ← ng.toNat?
    pure (runTrace v (cpu != "0") ng (init mr mq ds) (splitOn "|" rest))
  | "sched-wedge" :: vname :: eo :: idr :: mr :: mq :: ds :: cpu :: ng :: "|" :: rest => do
    let v ← (if vname == "good" then some Variant.good else if vname == "pinned" then some Variant.pinned else none)
    let mr ← mr.toNat?; let mq ← mq.toNat?; let ds ← ds.toNat?; let ng ← ng.toNat?
    pure (runWedge v ⟨eo != "0", idr != "0"⟩ (cpu != "0") ng (initB mr mq ds) (splitOn "|" rest))
  | "victim" :: _n :: rest =>
    -- findRunnerToUnload as a function of the loaded set: triples <model id> <uint64 keep-alive> <refCount>
    let rec rows : List String → Option (List (Nat × Nat × Nat))
      | [] => some []
      | a :: b :: c :: tl => do
        let a ← a.toNat?; let b ← b.toNat?; let c ← c.toNat?
        let r ← rows tl
        pure ((a, b, c) :: r)
      | _ => none
    do
      let rs ← rows rest
      let s : State := { nRunners := rs.length,
                         runners := fun i => match rs[i]? with
                           | some (m, d, c) => { model := m, session := d, refCount := c }
                           | none => {},
                         loaded := (List.range rs.length).filterMap fun i => (rs[i]?).map fun (m, _, _) => (m, i) }
      pure (match findVictim s with
        | some r => toString (s.runners r).model
        | none => "none")
  | _ => none

end Oracle.C01

def main (_ : List String) : IO Unit := Oracle.runMain Oracle.C01.handle
