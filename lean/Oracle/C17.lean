/-
  Oracle commands for C17 (stub: owns no commands yet).
-/
import Oracle.Util
namespace Oracle.C17
open Oracle

def handle (toks : List String) : Option String :=
  match toks with
  | _ => none

end Oracle.C17

def main (_ : List String) : IO Unit := Oracle.runMain Oracle.C17.handle
