/-
  Oracle commands for C17 (streaming / non-streaming / OpenAI-compatible responses).

    run <variant> <ep> <stream 0|1> <raw 0|1> <tools 0|1> <usage 0|1> <hist 0|1> <promptLen> <empty 0|1> <keepalive0 0|1> <notoolsupport 0|1> <class> <name> <full> <fault> <end> <chunks> <parse> <climit> <lens>
      empty  : generate: prompt ""; chat: no messages;  keepalive0: keep_alive 0;  notoolsupport: tools requested from a model whose template has none
      class  : other | cap | cancel | queue | notexist   (class of the scheduler's error when fault = load)
      name / full : the model name as spelled in the request / its canonical form (hex)
      variant: bit 0 = F17a/b repaired (ChatHandler tools), bit 1 = F17c repaired (openai stream errors),
               bit 2 = F17b alone (non-stream call numbering), bit 3 = F17d repaired (run without done -> error),
               bit 4 = F17e repaired (api.Client returns the scanner's error), bit 5 = F17f repaired (C17-F17f.patch)
      hist   : generate: the request supplies `context`; chat: the conversation has more than one message
      fault  : none | load:<hex> | detok:<hex> | tok:<hex>   (runner method failing outside Completion)
      ep     : gen | chat | oachat | oacmpl | cgen | cchat
      end    : ok | err:<hex>                         (return value of Completion)
      chunks : <n> {contenthex done reason pec ec}*   (what the runner hands to the callback)
      parse  : <n> {keyhex <k> {namehex argshex}*}*   (observed values of the real parseToolCalls)
      climit : the client's scanner limit; lens : <n> {len}* wire length of every line handed to api.Client (0 0 for raw views)
      byte strings on input: `-` | seg{+seg}, seg = hex | z<count>x<hexunit>; on output: hex, or #<len>:<fnv1a64> beyond 1024 bytes
    -> <status> <event>*            (raw HTTP view)   |   <msg>* ; <ok | err:<hex>>   (api.Client view)
-/
import OllamaVerif.Model.Stream
import Oracle.Util
namespace Oracle.C17
open OllamaVerif OllamaVerif.Stream Oracle

/-- FNV-1a (64 bit) of a byte string -/
def fnv (bs : Bytes) : UInt64 :=
  bs.foldl (fun h b => (h ^^^ b.toUInt64) * 1099511628211) 14695981039346656037

/-- output rendering of a byte string: hex, or `#<length>:<fnv>` beyond 1024 bytes (the driver
    renders the same way) -/
def hexL (bs : Bytes) : String :=
  if bs.length > 1024 then s!"#{bs.length}:{(fnv bs).toNat}" else hexOrDash bs

/-- compact input encoding of a byte string: `-` | segment{+segment}, segment = hex | z<count>x<hex>
    (the hex unit repeated count times) -/
def unseg (t : String) : Option Bytes :=
  if t.startsWith "z" then
    match (t.drop 1).toString.splitOn "x" with
    | [n, h] => match n.toNat?, unhex h with
      | some k, some u => some (List.replicate k u).flatten
      | _, _ => none
    | _ => none
  else unhex t

def cbytes : TP Bytes := do
  let t ← tok
  if t == "-" then pure []
  else match (t.splitOn "+").mapM unseg with
    | some parts => pure parts.flatten
    | none => failure

def pChunk : TP Chunk := do
  let content ← cbytes
  let done ← nat
  let reason ← nat
  let pec ← nat
  let ec ← nat
  pure ⟨content, done != 0, reason, pec, ec⟩

def pCall : TP Call := do
  let name ← hex
  let args ← cbytes
  pure ⟨name, args, 0⟩

def pEntry : TP (Bytes × List Call) := do
  let k ← cbytes
  let cs ← listOf pCall
  pure (k, cs)

def pEnd : TP End := do
  let t ← tok
  if t == "ok" then pure .ok
  else match t.splitOn ":" with
    | ["err", h] => match unhex h with
      | some b => pure (.err b)
      | none => failure
    | _ => failure

/-- table lookup; a key the harness did not supply yields a poison call so that L1 flags it -/
def lookup (tbl : List (Bytes × List Call)) (s : Bytes) : List Call :=
  match tbl.find? (·.1 == s) with
  | some (_, cs) => cs
  | none => [⟨[0xff], [0xff], 999⟩]

def b01 (b : Bool) : String := if b then "1" else "0"
def optHex : Option Bytes → String
  | none => "-"
  | some b => hexL b

def showInfo (m : Info) : String :=
  s!"m{b01 m.named}:d{b01 m.done}:{hexL m.reason}:{m.pec}:{m.ec}"

def showCalls (cs : List Call) : String :=
  if cs.isEmpty then "-" else joinWith "," (cs.map fun c => s!"{hexL c.name}/{hexL c.args}/{c.index}")

def showGen (m : GenMsg) : String :=
  let ctx := match m.ctx with | none => "-" | some n => toString n
  s!"g:{hexL m.resp}:{showInfo m.info}:{ctx}"

def showChat (m : ChatMsg) : String :=
  s!"c:{hexL m.content}:{showCalls m.calls}:{showInfo m.info}"

def showItem {α : Type} (f : α → String) : Item α → String
  | .msg m => f m
  | .err e => s!"e:{hexL e}"

def showUsage (u : Usage) : String := s!"{u.prompt}/{u.completion}/{u.total}"

def showOa : OaEv → String
  | .chunk c cs f => s!"k:{hexL c}:{showCalls cs}:{optHex f}"
  | .usage u => s!"u:{showUsage u}"
  | .done => "D"
  | .chat n c cs f u => s!"K:m{b01 n}:{hexL c}:{showCalls cs}:{optHex f}:{showUsage u}"
  | .tchunk t f u => s!"t:{hexL t}:{optHex f}:{match u with | none => "-" | some u => showUsage u}"
  | .text t f u => s!"T:{hexL t}:{optHex f}:{showUsage u}"
  | .error e => s!"E:{hexL e}"

def line (status : Nat) (evs : List String) : String :=
  joinWith " " (toString status :: evs)

def showOnce {α : Type} (f : α → String) : Except Bytes α → String
  | .ok m => line 200 [f m]
  | .error e => line 500 [s!"e:{hexL e}"]

def oaStatus : OaEv → Nat
  | .error _ => 500
  | _ => 200

def showClient {α : Type} (f : α → String) (v : List α × Option Bytes) : String :=
  joinWith " " (v.1.map f ++ [";", match v.2 with | none => "ok" | some e => s!"err:{hexL e}"])

def onceAsItems {α : Type} : Except Bytes α → List (Item α)
  | .ok m => [.msg m]
  | .error e => [.err e]

def pFault : TP Fault := do
  let t ← tok
  if t == "none" then pure .none
  else match t.splitOn ":" with
    | [k, h] => match unhex h with
      | some b => if k == "load" then pure (.load b) else if k == "detok" then pure (.detok b)
                  else if k == "tok" then pure (.tok b) else failure
      | none => failure
    | _ => failure

def pClass : TP SchedErr := do
  let t ← tok
  if t == "other" then pure .other else if t == "cap" then pure .capabilities else if t == "cancel" then pure .canceled
  else if t == "queue" then pure .maxQueue else if t == "notexist" then pure .notExist else failure

def showReply {α : Type} (f : α → String) : Reply α → String
  | .fail s m => line s [s!"e:{hexL m}"]
  | .body m => line 200 [f m]
  | .stream items => line 200 (items.map (showItem f))

def showOaR (r : Nat × List OaEv) : String := line r.1 (r.2.map showOa)

def showStreamH {α : Type} (f : α → String) : Except Bytes (List (Item α)) → String
  | .ok items => line 200 (items.map (showItem f))
  | .error e => line 500 [s!"e:{hexL e}"]

def showOaStreamH : Except Bytes (List OaEv) → String
  | .ok evs => line 200 (evs.map showOa)
  | .error e => line 500 [showOa (.error e)]

def streamAsItems {α : Type} : Except Bytes (List (Item α)) → List (Item α)
  | .ok items => items
  | .error e => [.err e]

def pRLine : TP RLine := do
  let t ← tok
  if t == "blank" then pure .blank
  else if t == "bad" then pure .bad
  else if t == "r" then do
    let b ← hex
    let d ← nat
    let r ← nat
    let p ← nat
    let e ← nat
    pure (.resp ⟨b, d != 0, r, p, e⟩)
  else failure

def showCb (c : Chunk) : String := s!"{hexOrDash c.content}/{b01 c.done}/{c.reason}/{c.pec}/{c.ec}"

def optTok {α : Type} (p : String → Option α) : TP (Option α) := do
  let t ← tok
  if t == "?" then pure none else match p t with
    | some v => pure (some v)
    | none => failure

def pPItem : TP PItem := do
  let t ← tok
  if t == "p" then do
    let st ← hex
    pure (.progress st)
  else if t == "e" then do
    let m ← optTok (fun t => if t == "-" then some [] else unhex t)
    let st ← optTok String.toNat?
    pure (.err m st)
  else if t == "o" then pure .other
  else failure

def handle (toks : List String) : Option String :=
  match toks with
  | "progress" :: rest =>
    -- progress <n> {p <statushex> | e <msghex|?> <status|?> | o}*  ->  200 success | <status> e:<hex>   (waitForStream)
    runTP (do
      let items ← listOf pPItem
      pure (match waitForStreamM items with
        | .success => "200 success"
        | .error st m => s!"{st} e:{hexOrDash m}")) rest
  | "completion" :: rest =>
    -- completion <httpFail 0|1> <clean|broken> <n> {blank | bad | r <contenthex> <done> <reason> <pec> <ec>}*
    --   -> {contenthex/done/reason/pec/ec}* <nil|err>     (what llmServer.Completion hands to the callback, and its return)
    runTP (do
      let hf := (← nat) != 0
      let t ← tok
      let be ← (if t == "clean" then pure BodyEnd.clean else if t == "broken" then pure BodyEnd.broken else failure)
      let ls ← listOf pRLine
      let r := completionCall [] hf ls be
      pure (joinWith " " (r.1.map showCb ++ [match r.2 with | .ok => "nil" | .err _ => "err"]))) rest
  | "run" :: rest =>
    runTP (do
      let variant ← nat
      let v : Variant := { toolsStream := variant % 2 == 1,
                           toolsIndex := variant % 2 == 1 || variant / 4 % 2 == 1,
                           oaErr := variant / 2 % 2 == 1,
                           incomplete := variant / 8 % 2 == 1 }
      let ep ← tok
      let stream := (← nat) != 0
      let raw := (← nat) != 0
      let tools := (← nat) != 0
      let usage := (← nat) != 0
      let hasCtx := (← nat) != 0
      let pl ← nat
      let empty := (← nat) != 0
      let ka0 := (← nat) != 0
      let nts := (← nat) != 0
      let cls ← pClass
      let name ← hex
      let full ← hex
      let q : ReqShape := { empty := empty, keepAlive0 := ka0, noToolSupport := nts, name := name, full := full, cls := cls }
      let f ← pFault
      let e ← pEnd
      let cs ← listOf pChunk
      let tbl ← listOf pEntry
      let parse := lookup tbl
      -- api.Client view only: the scanner limit and the wire length of every line the client was given
      let climit ← nat
      let lens ← listOf nat
      let fixC := variant / 16 % 2 == 1
      let fixF := variant / 32 % 2 == 1
      let withLens {α : Type} (items : List (Item α)) : List (Item α × Nat) :=
        items.zip (lens ++ List.replicate items.length 0)
      match ep with
      | "gen" => pure (showReply showGen (generateR v stream q f raw hasCtx pl cs e))
      | "chat" => pure (showReply showChat (chatR v stream q f parse tools hasCtx cs e))
      | "oachat" => pure (showOaR (oaChatRF fixF v stream usage (chatR v stream q f parse tools hasCtx cs e)))
      | "oacmpl" => pure (showOaR (oaCmplR v stream usage (generateR v stream q f false hasCtx pl cs e)))
      | "cgen" => pure (showClient showGen (clientViewL climit fixC (withLens (generateR v stream q f raw hasCtx pl cs e).lines)))
      | "cchat" => pure (showClient showChat (clientViewL climit fixC (withLens (chatR v stream q f parse tools hasCtx cs e).lines)))
      | _ => failure) rest
  | _ => none

end Oracle.C17

def main (_ : List String) : IO Unit := Oracle.runMain Oracle.C17.handle
