/-
  Oracle for C04 (model store).  STATEFUL: the oracle carries the model store of the current history.

    reset                                                   -> ok          (empty store)
    variant <fixAlias 0|1> <fixResolve 0|1> <fixReturn 0|1> <fixKeep 0|1> <fixPullName 0|1>
                                                            -> ok          (what the driver's probes found)
    meta <contenthex> <archhex> <mtypehex> <ftypehex> <autoTemplate hex|~> <autoParams hex|~> [M|A|J]
                                                            -> ok          (what the real decoder / template.Named reported)
    upload <c|d> <hex> <contenthex> ## <obs>
    create <name4> from <name4> | files <k> {<c|d> <hex>}*   then
           <tmplhex|~> <0|1> <syshex|~> <nl> {<licensehex>}* <np> {<keyhex> <valhex>}* <stream|nostream>
           [msgs <k> {<rolehex> <contenthex>}*] [fromreg <k> {<media> <contenthex> <servedhex|=>}* C <cfghex> <servedhex|=>] ## <obs>
    copy <name4> <name4> ## <obs>
    delete <name4> ## <obs>
    prune ## <obs>
    noprune <0|1> ## <obs>                (the driver sets / clears OLLAMA_NOPRUNE; envconfig reads it at every call)
    pull <name4> missing | <k> {<media code> <contenthex> <servedhex|=>}* C <cfgcontenthex> <servedhex|=> ## <obs>
                                          (POST /api/pull from an in-memory registry; served = what it returns)
    plant <name4> <name4> ## <obs>        (not an API op: legacy / un-canonicalised manifest)
    corrupt <name4> ## <obs>              (not an API op: torn manifest)
    dashify <name4> ## <obs>              (not an API op: model-layer digests respelled sha256-<hex>)
    litter <filenamehex> <contenthex> ## <obs>   (not an API op: a file of that name appears in blobs/)
    show <name4> ## <status>              (does not change the state)

  `<name4>` = host ns model tag.  `<obs>` is the canonical observation of result + store the driver made on
  the real code.  Go map iteration order makes some operations nondeterministic: the oracle computes the SET
  of outcomes (over all orders); if the driver's observation is in the set it is echoed and the oracle
  continues from that outcome, otherwise the first outcome is printed (an L1 disagreement).
-/
import OllamaVerif.Model.Store
import OllamaVerif.Model.Sha256
import Oracle.Util
namespace Oracle.C04
open OllamaVerif OllamaVerif.Store Oracle

def bstr (b : Bytes) : String := String.ofList (b.map (fun x => Char.ofNat x.toNat))

def pName : TP Name := do
  let h ← tok
  let n ← tok
  let m ← tok
  let t ← tok
  pure ⟨h, n, m, t⟩

def pDigest : TP Digest := do
  let f ← tok
  let h ← tok
  match f with
  | "c" => pure ⟨.colon, h⟩
  | "d" => pure ⟨.dash, h⟩
  | _ => failure

def pOptBytes : TP (Option Bytes) := do
  let t ← tok
  if t == "~" then pure none else
  match unhex t with
  | some b => pure (some b)
  | none => failure

def pKV : TP (String × String) := do
  let k ← hex
  let v ← hex
  pure (bstr k, bstr v)

def pCreate : TP CreateReq := do
  let name ← pName
  let kind ← tok
  let (src, files) ← (match kind with
    | "from" => do
      let f ← pName
      pure (some f, [])
    | "files" => do
      let fs ← listOf pDigest
      pure (none, fs)
    | _ => failure : TP (Option Name × List Digest))
  let tmpl ← pOptBytes
  let tok1 ← nat
  let sys ← pOptBytes
  let lics ← listOf hex
  let params ← listOf pKV
  let _mode ← tok   -- stream | nostream: which response path the driver used; the store effect is the same
  -- optional suffix `msgs <k> {<rolehex> <contenthex>}*`
  let rest ← get
  let messages ← (match rest with
    | "msgs" :: _ => do
      let _ ← tok
      listOf pKV
    | _ => pure [] : TP (List (String × String)))
  pure { name, src, files, template := tmpl.map (fun t => (t, tok1 != 0)), system := sys, licenses := lics, params,
         messages }

/-- what the registry serves for the FROM name of a create (suffix `fromreg <k> {layer}* <config>`) -/
abbrev FromReg := Option (Manifest × List (String × Bytes))

def showName (n : Name) : String := s!"{n.host}/{n.ns}/{n.model}:{n.tag}"

def mediaCode : Media → String
  | .model => "M" | .projector => "J" | .adapter => "A" | .template => "T" | .system => "S"
  | .params => "P" | .license => "L" | .messages => "G" | .config => "C"

def showLayer (l : Layer) : String := s!"{mediaCode l.media}@{l.digest.str}@{l.size}"

def showMFile : MFile → String
  | .corrupt => "corrupt"
  | .readable m => "|".intercalate ((m.config :: m.layers).map showLayer)

def sortStrs (l : List String) : List String := (l.toArray.qsort (· < ·)).toList

def obs (res : List String) (st : Store) : String :=
  let ls := sortStrs ((listed st).map showName)
  let ms := sortStrs (st.mans.map (fun (n, f) => s!"{showName n}={showMFile f}"))
  let bs := sortStrs (st.blobs.map (fun (k, c) => s!"{k}:{c.length}") ++
    st.junk.map (fun (n, c) => s!"?{n.str}:{c.length}"))
  let ts := sortStrs ((st.dirs.map (fun d => "/".intercalate d ++ "/")).eraseDups ++
    st.strays.map (fun p => "?" ++ "/".intercalate p))
  s!"r={"+".intercalate res};l={",".intercalate ls};m={",".intercalate ms};b={",".intercalate bs};t={",".intercalate ts}"

structure OState where
  st : Store
  metas : List (String × Meta)
  v : Variant
  /-- OLLAMA_NOPRUNE at this point of the history (`noprune 0|1`; `reset` clears it) -/
  noPrune : Bool := false
  /-- (N4) `CreateHandler` resolves the FROM name with `getExistingName` before `parseFromModel` (probed) -/
  fixFrom : Bool := false

def sha (c : Bytes) : String := hexOf (Sha256.sha256 c)

def envOf (metas : List (String × Meta)) (v : Variant) (noPrune : Bool := false) : Env :=
  { hash := sha, gguf := fun c => aget metas (sha c), v := v, noPrune := noPrune }

/-- all results of `getExistingName` (one, when the repaired version is under test) -/
def resolveAll (env : Env) (st : Store) (n : Name) : List Name :=
  if env.v.fixResolve then [getExistingNameFixed st.readableNames n] else resolutions st.readableNames n

/-- all outcomes of a state-changing operation -/
def outcomes (env : Env) (st : Store) (fixFrom : Bool := false) : Op → List (Store × List String)
  | .create r =>
    let names := resolveAll env st r.name
    let frevs := if r.src.isNone && r.files.length ≥ 2 then [false, true] else [false]
    -- (N4 repaired) the FROM name goes through `getExistingName` too before `parseFromModel` sees it
    let reqs : List CreateReq := match r.src with
      | some f => if fixFrom then (resolveAll env st f).map (fun sn => { r with src := some sn }) else [r]
      | none => [r]
    names.flatMap (fun nm => reqs.flatMap (fun r' => frevs.map (fun fr => createAt env st r' nm fr)))
  | .copy s d =>
    (resolveAll env st s).flatMap (fun s' =>
      (resolveAll env st d).map (fun d' => copyAt st s' d'))
  | .delete n => (resolveAll env st n).map (fun t => deleteAt env st t)
  | .pull n reg served => (resolveAll env st n).map (fun t => pullAt env st (pullTarget env t) reg served)
  | op => [step env st op ⟨[], [], false⟩]

def mediaOfCode : String → Option Media
  | "M" => some .model | "J" => some .projector | "A" => some .adapter | "T" => some .template
  | "S" => some .system | "P" => some .params | "L" => some .license | "G" => some .messages
  | "C" => some .config | _ => none

/-- one registry layer: media code, honest content, served bytes (`=` : the honest content) -/
def pRegLayer : TP (Media × Bytes × Bytes) := do
  let mc ← tok
  let c ← hex
  let sv ← tok
  match mediaOfCode mc with
  | none => failure
  | some m =>
    if sv == "=" then pure (m, c, c) else
    match unhex sv with
    | some b => pure (m, c, b)
    | none => failure

def pPull : TP Op := do
  let n ← pName
  let k ← tok
  if k == "missing" then pure (.pull n none []) else
  match k.toNat? with
  | none => failure
  | some cnt => do
    let ls ← rep cnt pRegLayer
    let cfg ← pRegLayer
    let lay (x : Media × Bytes × Bytes) : Layer := ⟨x.1, ⟨.colon, sha x.2.1⟩, x.2.1.length⟩
    let served := (ls ++ [cfg]).map (fun x => (sha x.2.1, x.2.2))
    pure (.pull n (some ⟨lay cfg, ls.map lay⟩) served)

/-- the optional suffix `fromreg <k> {<media> <contenthex> <servedhex|=>}* C <cfghex> <servedhex|=>` of a create -/
def pFromReg : TP FromReg := do
  let rest ← get
  match rest with
  | "fromreg" :: _ => do
    let _ ← tok
    let cnt ← nat
    let ls ← rep cnt pRegLayer
    let cfg ← pRegLayer
    let lay (x : Media × Bytes × Bytes) : Layer := ⟨x.1, ⟨.colon, sha x.2.1⟩, x.2.1.length⟩
    pure (some (⟨lay cfg, ls.map lay⟩, (ls ++ [cfg]).map (fun x => (sha x.2.1, x.2.2))))
  | _ => pure none

/-- `create … from F` when the registry answer for F is scripted: `CreateHandler` resolves the TARGET name first
    (and reads the manifest it will replace), then `parseFromModel` looks for F's manifest — under the name as
    written in the request (pinned, finding N4) or as `getExistingName` resolves it (repaired) — and, when that
    file does not exist, runs `PullModel` on that name (its own `success` status is one more `s`), reads the
    manifest back and goes on as for a local FROM.  Composition of the model's `pullAt` and `createAt`; the
    driver never generates F fold-equal to the target. -/
def createFromOutcomes (env : Env) (fixFrom : Bool) (st : Store) (r : CreateReq) (f : Name)
    (reg : Manifest × List (String × Bytes)) : List (Store × List String) :=
  let names := resolveAll env st r.name
  let srcs := if fixFrom then resolveAll env st f else [f]
  names.flatMap (fun nm => srcs.map (fun sn => createFromPull env st r nm sn reg.1 reg.2))

def pOp : TP Op := do
  let k ← tok
  match k with
  | "upload" => do
    let d ← pDigest
    let c ← hex
    pure (.upload d c)
  | "create" => do
    let r ← pCreate
    pure (.create r)
  | "copy" => do
    let s ← pName
    let d ← pName
    pure (.copy s d)
  | "delete" => do
    let n ← pName
    pure (.delete n)
  | "prune" => pure .prune
  | "pull" => pPull
  | "plant" => do
    let s ← pName
    let d ← pName
    pure (.plant s d)
  | "corrupt" => do
    let n ← pName
    pure (.corrupt n)
  | "dashify" => do
    let n ← pName
    pure (.dashify n)
  | "litterman" => do
    let k ← nat
    let ps ← rep k hex
    pure (.litterMan (ps.map bstr))
  | "litter" => do
    let nb ← hex
    let c ← hex
    let name := bstr nb
    let pre := String.ofList (name.toList.take 7)
    let rest := String.ofList (name.toList.drop 7)
    if pre == "sha256-" && isHex64 rest then pure (.litterBlob rest c)
    else if pre == "sha256:" then pure (.litter (.colon rest) c)
    else pure (.litter (.plain name) c)
  | _ => failure

def splitObs (toks : List String) : List String × String :=
  match toks.span (· ≠ "##") with
  | (a, _ :: o :: _) => (a, o)
  | (a, _) => (a, "")

def handle (s : OState) (toks : List String) : OState × String :=
  match toks with
  | ["reset"] => ({ s with st := Store.empty, noPrune := false }, "ok")
  | "noprune" :: x :: rest =>
    -- the driver set / cleared OLLAMA_NOPRUNE: nothing in the store changes
    let s' := { s with noPrune := x == "1" }
    let o := (splitObs rest).2
    let mine := obs ["ok"] s.st
    (s', if mine == o then o else mine)
  | ["variant", a, b, c, d, e] => ({ s with v := ⟨a == "1", b == "1", c == "1", d == "1", e == "1"⟩ }, "ok")
  | ["variant", a, b, c, d, e, f] =>
    ({ s with v := ⟨a == "1", b == "1", c == "1", d == "1", e == "1"⟩, fixFrom := f == "1" }, "ok")
  | "meta" :: rest =>
    match runTP (do
      let c ← hex
      let a ← hex
      let m ← hex
      let f ← hex
      let aT ← pOptBytes
      let aP ← pOptBytes
      -- optional: the media type ggufLayers gives the layer (M | A adapter | J projector)
      let more ← get
      let kind : Media := match more with
        | "A" :: _ => .adapter
        | "J" :: _ => .projector
        | _ => .model
      if !more.isEmpty then
        let _ ← tok
      pure (c, Meta.mk (bstr a) (bstr m) (bstr f) (aT.map (fun t => (t, aP))) kind)) rest with
    | some (c, mt) => ({ s with metas := aset s.metas (sha c) mt }, "ok")
    | none => (s, "bad-op")
  | "show" :: rest =>
    let (a, o) := splitObs rest
    match runTP pName a with
    | some n =>
      let env := envOf s.metas s.v s.noPrune
      let outs := ((resolveAll env s.st n).map (fun t => showAt env s.st t)).eraseDups
      if outs.contains o then (s, o) else (s, outs.headD "none")
    | none => (s, "bad-op")
  | _ =>
    let (a, o) := splitObs toks
    match runTP (do
        let op ← pOp
        let fr ← pFromReg
        pure (op, fr)) a with
    | some (op, fr) =>
      let env := envOf s.metas s.v s.noPrune
      let outs := match op, fr with
        | .create r, some reg =>
          match r.src with
          | some f => createFromOutcomes env s.fixFrom s.st r f reg
          | none => outcomes env s.st s.fixFrom op
        | _, _ => outcomes env s.st s.fixFrom op
      match outs.find? (fun (st', res) => obs res st' == o) with
      | some (st', _) => ({ s with st := st' }, o)
      | none =>
        match outs with
        | (st', res) :: _ => ({ s with st := st' }, obs res st')
        | [] => (s, "no-outcome")
    | none => (s, "bad-op")

partial def loop (h : IO.FS.Stream) (out : IO.FS.Stream) (s : OState) : IO Unit := do
  let line ← h.getLine
  if line.isEmpty then return ()
  let line := line.trimAsciiEnd.toString
  let (s', r) := handle s (tokens line)
  out.putStrLn r
  loop h out s'

end Oracle.C04

def main (_ : List String) : IO Unit := do
  let stdin ← IO.getStdin
  let stdout ← IO.getStdout
  Oracle.C04.loop stdin stdout ⟨OllamaVerif.Store.Store.empty, [], OllamaVerif.Store.Variant.pinned, false, false⟩
