/-
  Oracle commands for C04 (stub: owns no commands yet).
-/
import Oracle.Util
namespace Oracle.C04
open Oracle

def handle (toks : List String) : Option String :=
  match toks with
  | _ => none

end Oracle.C04

def main (_ : List String) : IO Unit := Oracle.runMain Oracle.C04.handle
