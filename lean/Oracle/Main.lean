import Oracle.Util
import Oracle.C05

/-- dispatch table: each property module returns `none` for commands it does not own -/
def handlers : List (List String → Option String) := [
  Oracle.C05.handle
]

def dispatch (toks : List String) : String :=
  match handlers.findSome? (fun h => h toks) with
  | some s => s
  | none => "bad-op"

def main (_ : List String) : IO Unit := do
  let stdin ← IO.getStdin
  let stdout ← IO.getStdout
  Oracle.loop stdin stdout dispatch
