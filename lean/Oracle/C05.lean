/-
  Oracle commands for C05 (GGUF codec):
    gguf-enc <variant> <nkv> {keyhex tag payload}* <nt> {namehex kind <ndims> dims* datahex}*
        -> ok <hex> | err:invalid | panic:<site>
        variant bit 0: pinned offset accumulator (F1); bit 1: the writer validates general.alignment (F1c repaired) —
        bit 1 is PROBED on the real writer by the driver on every run
    gguf-dec <maxArray> <budget|-> <hex>
        -> ok <summary> | err:eof | err:invalid | panic:<site> | alloc:<site>
    gguf-dec-at <maxArray> <start> <hex>
        -> the same for a decode that starts at file offset <start> of the given bytes
-/
import OllamaVerif.Model.Gguf
import Oracle.Util
import Oracle.Lib.GgufShow
namespace Oracle.C05
open OllamaVerif OllamaVerif.Gguf Oracle Oracle.Lib.GgufShow

def handle (toks : List String) : Option String :=
  match toks with
  | "gguf-enc" :: rest =>
    runTP (do
      let variant ← nat
      let kvs ← listOf pKV
      let ts ← listOf pTIn
      pure (match encode (variant % 2 != 0) kvs ts (variant / 2 % 2 != 0) with
        | .ok bs => s!"ok {hexOrDash bs}"
        | .error e => showErr e)) rest
  | "gguf-dec" :: rest =>
    runTP (do
      let maxA ← int
      let b ← tok
      let budget := if b == "-" then none else b.toNat?
      let bs ← hex
      pure (match decode bs maxA budget with
        | .ok d => showDecoded d
        | .error e => showErr e)) rest
  | "gguf-dec-at" :: rest =>
    -- Decode with the reader standing at file offset <start> (the second and later models of an upload:
    -- positions and alignment padding are absolute file offsets)
    runTP (do
      let maxA ← int
      let start ← nat
      let bs ← hex
      pure (match decodeFrom ⟨bs.drop start, start⟩ maxA none with
        | .ok d => showDecoded d
        | .error e => showErr e)) rest
  | _ => none

end Oracle.C05

def main (_ : List String) : IO Unit := Oracle.runMain Oracle.C05.handle
