/-
  Oracle commands for C18 (sampler).  Floats travel as decimal IEEE-754 single bit patterns
  (`nan` for any NaN).  `F*` = count-prefixed list of floats, `E` = count-prefixed list of
  `<argbits> <expbits>` pairs: the values `float32(math.Exp(float64(arg)))` Go produced.

    greedy F*                                  -> <id> | panic:<site>
    topk <k> F*                                -> <ids,> c=<0|1>     (c: IsTopK contract of the output)
    temp <t> F*                                -> <bits,>
    softmax F* E                               -> <bits,>
    topp <p> F*                                -> <kept>
    minp <p> F*                                -> <kept> | panic:<site>
    pick <r> F*                                -> <idx-id> <cumbits> | err:nan | panic:<site>
    newsampler <t> <k> <p> <mp>                -> <t> <k> <p> <mp>
    newrng <seed>                              -> nil | seeded          (the sentinel -1 leaves rng nil)
    rng <seed> <n>                             -> <24-bit numerators,>
    hist <fix> <t> <k> <p> <mp> <seed> <ncalls> {F*}^ncalls E
         -> <result of call 1>;<result of call 2>;...   (requested parameters; generator threaded by the model)
    ghist <fix> <t> <k> <p> <mp> <seed> <ncalls> {F* <nacc> <id>*}^ncalls E
         -> <result d=<numbers drawn>>;...   (grammar path; accepted id sets probed from the real grammar)
    (<fix> is a bit mask: 1 = F18 max-shift (in /repo), 2 = proposed F18c greedy all--Inf error)
    sample <fix> <pre> <t> <k> <p> <mp> <r> <n> {<id> <bits>}* E
         -> ok <id> kt=.. kp=.. km=.. c=.. | err:<class> ... | panic:<site> ...
-/
import OllamaVerif.Model.Sampler
import OllamaVerif.Proofs.SamplerNaN
import Oracle.Util
import Std.Data.HashMap
namespace Oracle.C18
open OllamaVerif OllamaVerif.Sampler Oracle

def nanF : Float32 := Float32.ofBits 0x7FC00000

def pF : TP Float32 := do
  let t ← tok
  if t == "nan" then pure nanF else
  match t.toNat? with
  | some n => pure (Float32.ofBits n.toUInt32)
  | none => failure

def showF (x : Float32) : String := if x.isNaN then "nan" else toString x.toBits.toNat

def key (x : Float32) : UInt32 := if x.isNaN then 0x7FC00000 else x.toBits

def pExp : TP (Std.HashMap UInt32 Float32) := do
  let n ← nat
  let mut m : Std.HashMap UInt32 Float32 := {}
  for _ in [0:n] do
    let a ← pF
    let e ← pF
    m := m.insert (key a) e
  pure m

/-- IEEE single precision; `exp` is the table of values Go computed (NaN if absent) -/
def f32Ops (tbl : Std.HashMap UInt32 Float32) : Ops Float32 where
  lt a b := decide (a < b)
  le a b := decide (a ≤ b)
  beq a b := a == b
  isNaN a := a.isNaN
  add a b := a + b
  sub a b := a - b
  mul a b := a * b
  div a b := a / b
  exp a := if a.isNaN then nanF else (tbl[key a]?).getD nanF
  zero := Float32.ofBits 0
  one := Float32.ofBits 0x3F800000
  negInf := Float32.ofBits 0xFF800000
  posInf := Float32.ofBits 0x7F800000
  tempFloor := Float32.ofBits 0x33D6BF95   -- float32(1e-7)

def noExp : Ops Float32 := f32Ops {}

def toks (vs : List Float32) : List (Tok Float32) := mkTokens vs

def showErr : Err → String
  | .noLogits => "err:nologits"
  | .nanSum => "err:nan"
  | .allNegInf => "err:allneginf"
  | .panic s => s!"panic:{s}"

def showIds (l : List (Tok Float32)) : String := joinWith "," (l.map fun t => toString t.id)
def showVals (l : List Float32) : String := joinWith "," (l.map showF)

/-- decision procedure for the `IsTopK` contract: `out` is descending, has the right length, is a
    sub-multiset of `ts` (by id and bit pattern) and no left-over element exceeds a kept one -/
def removeFirst (t : Tok Float32) : List (Tok Float32) → Option (List (Tok Float32))
  | [] => none
  | x :: xs => if x.id == t.id && key x.val == key t.val then some xs
               else (removeFirst t xs).map (x :: ·)

def isTopKB (o : Ops Float32) (k : Int) (ts out : List (Tok Float32)) : Bool :=
  let want := if k ≥ ts.length ∨ k ≤ 0 then ts.length else k.toNat
  out.length == want && isDesc o (out.map (·.val)) &&
  (match out.foldl (fun acc t => acc.bind (removeFirst t)) (some ts) with
   | none => false
   | some rest =>
     match out.getLast? with
     | none => rest.isEmpty
     | some m => rest.all (fun x => !o.lt m.val x.val))

/-- FNV-1a style digest of a list of floats (bit patterns; NaN canonical): the `sample` op reports it
    for the probabilities after softmax, so that L1 covers their bit patterns also when the stage
    ops are not emitted (large vocabularies) -/
def hashVals (vs : List Float32) : Nat :=
  (vs.foldl (fun (h : UInt32) v => (h ^^^ key v) * 16777619) 2166136261).toNat

def pTokList : TP (List (Tok Float32)) := do
  let n ← nat
  rep n (do let id ← nat; let v ← pF; pure (⟨id, v⟩ : Tok Float32))

/-- the stage-by-stage summary of one `sample` call -/
def sampleSummary (o : Ops Float32) (fix pre : Bool) (P : Params Float32) (r : Float32)
    (ts : List (Tok Float32)) : String :=
  if ts.isEmpty then "err:nologits" else
  if o.beq P.temp o.zero then
    match sampleCore o fix P r ts with
    | .ok t => s!"ok {t.id} c=greedy"
    | .error e => showErr e ++ " c=greedy"
  else
    let L := if pre then ts else topK o P.topK ts
    match (if fix then shiftMax o L else .ok L) with
    | .error e => showErr e ++ s!" kt={L.length}"
    | .ok L1 =>
    let S := temperature o P.temp L1
    let probs := softmax o S
    let fp := topP o P.topP probs
    let res := afterTopK o fix P r L
    let km := match minP o P.minP fp with | .ok f => toString f.length | .error _ => "panic"
    let sv := S.map (·.val)
    let pv := probs.map (·.val)
    let c :=
      if !guardOK o sv then "guard" else
      let flags :=
        (if fix && !scaleOK o (L.map (·.val)) (L1.map (·.val)) then ["shift"] else []) ++
        (if scaleOK o (L1.map (·.val)) sv then [] else ["scale"]) ++
        (if softmaxOK o sv pv then [] else ["softmax"]) ++
        (match minP o P.minP fp with
         | .ok f =>
           let C := (cumsum o o.zero f).map (·.val)
           (if f.isEmpty then ["empty"] else []) ++
           (if isAsc o C then [] else ["cum"]) ++
           (match C.getLast? with
            | some tot => if o.le (o.mul r tot) tot then [] else ["r"]
            | none => [])
         | .error _ => ["empty"]) ++
        (if runGood o P r L1 && L1.all (fun t => !o.isNaN t.val) then [] else ["nan"]) ++
        (if massFinite o P L1 then [] else ["mass"])
      if flags.isEmpty then "ok" else "bad:" ++ joinWith "," flags
    let head := match res with
      | .ok t => s!"ok {t.id}"
      | .error e => showErr e
    s!"{head} kt={L.length} kp={fp.length} km={km} c={c} h={hashVals pv}"

def handle (toks' : List String) : Option String :=
  match toks' with
  | "greedy" :: rest =>
    runTP (do
      let vs ← listOf pF
      pure (match greedy noExp (toks vs) with
        | .ok t => toString t.id
        | .error e => showErr e)) rest
  | "topk" :: rest =>
    runTP (do
      let k ← int
      let vs ← listOf pF
      let out := topK noExp k (toks vs)
      pure s!"{showIds out} c={if isTopKB noExp k (toks vs) out then 1 else 0}") rest
  | "temp" :: rest =>
    runTP (do
      let t ← pF
      let vs ← listOf pF
      pure (showVals (scaleVals noExp t vs))) rest
  | "softmax" :: rest =>
    runTP (do
      let vs ← listOf pF
      let tbl ← pExp
      pure (showVals (softmaxVals (f32Ops tbl) vs))) rest
  | "topp" :: rest =>
    runTP (do
      let p ← pF
      let vs ← listOf pF
      pure (toString (topP noExp p (toks vs)).length)) rest
  | "minp" :: rest =>
    runTP (do
      let p ← pF
      let vs ← listOf pF
      pure (match minP noExp p (toks vs) with
        | .ok f => toString f.length
        | .error e => showErr e)) rest
  | "pick" :: rest =>
    runTP (do
      let r ← pF
      let vs ← listOf pF
      pure (match pick noExp r (toks vs) with
        | .ok t => s!"{t.id} {showF t.val}"
        | .error e => showErr e)) rest
  | "newsampler" :: rest =>
    runTP (do
      let t ← pF
      let k ← int
      let p ← pF
      let mp ← pF
      let P := newParams noExp t k p mp
      pure s!"{showF P.temp} {P.topK} {showF P.topP} {showF P.minP}") rest
  | "newrng" :: rest =>
    runTP (do
      let seed ← int
      pure (match newRng seed with
        | none => "nil"
        | some _ => "seeded")) rest
  | "rng" :: rest =>
    runTP (do
      let seed ← int
      let n ← nat
      pure (joinWith "," ((pcgStream n (pcgOfSeed seed)).map toString))) rest
  | "hist" :: rest =>
    runTP (do
      let fix ← nat
      let t ← pF
      let k ← int
      let p ← pF
      let mp ← pF
      let seed ← int
      let nc ← nat
      let calls ← rep nc (listOf pF)
      let tbl ← pExp
      let o := f32Ops tbl
      let P := { newParams o t k p mp with greedyErr := fix / 2 % 2 != 0 }
      let toF : Nat → Float32 := fun n => Float32.ofNat n / Float32.ofNat 16777216
      let rs := sampleHist o toF (fix % 2 != 0) P (pcgOfSeed seed) calls
      pure (joinWith ";" (rs.map fun r => match r with
        | .ok id => s!"ok {id}"
        | .error e => showErr e))) rest
  | "ghist" :: rest =>
    runTP (do
      let fix ← nat
      let t ← pF
      let k ← int
      let p ← pF
      let mp ← pF
      let seed ← int
      let nc ← nat
      let calls ← rep nc (do let l ← listOf pF; let a ← listOf nat; pure (l, a))
      let tbl ← pExp
      let o := f32Ops tbl
      let P := { newParams o t k p mp with greedyErr := fix / 2 % 2 != 0 }
      let toF : Nat → Float32 := fun n => Float32.ofNat n / Float32.ofNat 16777216
      let rs := sampleHistG o toF (fix % 2 != 0) P (pcgOfSeed seed) calls
      pure (joinWith ";" (rs.map fun (r, d) => match r with
        | .ok id => s!"ok {id} d={d}"
        | .error e => showErr e ++ s!" d={d}"))) rest
  | "sample" :: rest =>
    runTP (do
      let fix ← nat
      let pre ← nat
      let t ← pF
      let k ← int
      let p ← pF
      let mp ← pF
      let r ← pF
      let ts ← pTokList
      let tbl ← pExp
      pure (sampleSummary (f32Ops tbl) (fix % 2 != 0) (pre != 0) ⟨t, k, p, mp, fix / 2 % 2 != 0⟩ r ts)) rest
  | _ => none

end Oracle.C18

def main (_ : List String) : IO Unit := Oracle.runMain Oracle.C18.handle
