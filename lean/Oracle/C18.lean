/-
  Oracle commands for C18 (stub: owns no commands yet).
-/
import Oracle.Util
namespace Oracle.C18
open Oracle

def handle (toks : List String) : Option String :=
  match toks with
  | _ => none

end Oracle.C18

def main (_ : List String) : IO Unit := Oracle.runMain Oracle.C18.handle
