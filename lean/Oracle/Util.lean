/-
  Line-protocol helpers for the oracle: a token-stream parser (`TP`), the stdin loop.
-/
import OllamaVerif.Model.Bytes
namespace Oracle
open OllamaVerif

abbrev TP := StateT (List String) Option

def tok : TP String := fun s => match s with
  | [] => none
  | t :: ts => some (t, ts)

def nat : TP Nat := do
  let t ← tok
  match t.toNat? with
  | some n => pure n
  | none => failure

def int : TP Int := do
  let t ← tok
  match t.toInt? with
  | some n => pure n
  | none => failure

def hex : TP Bytes := do
  let t ← tok
  match unhex t with
  | some b => pure b
  | none => failure

def expect (s : String) : TP Unit := do
  let t ← tok
  if t == s then pure () else failure

def rep {α} (n : Nat) (p : TP α) : TP (List α) :=
  match n with
  | 0 => pure []
  | n+1 => do
    let a ← p
    let as ← rep n p
    pure (a :: as)

/-- count-prefixed list -/
def listOf {α} (p : TP α) : TP (List α) := do
  let n ← nat
  rep n p

def eoi : TP Unit := fun s => match s with
  | [] => some ((), [])
  | _ => none

def runTP {α} (p : TP α) (toks : List String) : Option α :=
  match (do let a ← p; eoi; pure a : TP α) toks with
  | some (a, _) => some a
  | none => none

def tokens (line : String) : List String :=
  (line.splitOn " ").filter (· ≠ "")

def joinWith (sep : String) (l : List String) : String := sep.intercalate l

partial def loop (h : IO.FS.Stream) (out : IO.FS.Stream) (f : List String → String) : IO Unit := do
  let line ← h.getLine
  if line.isEmpty then return ()
  let line := line.trimAsciiEnd.toString
  out.putStrLn (f (tokens line))
  loop h out f

/-- entry point of a per-property oracle executable -/
def runMain (handle : List String → Option String) : IO Unit := do
  let stdin ← IO.getStdin
  let stdout ← IO.getStdout
  loop stdin stdout (fun toks => (handle toks).getD "bad-op")

end Oracle
