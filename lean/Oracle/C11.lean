/-
  Oracle commands for C11 (stub: owns no commands yet).
-/
import Oracle.Util
namespace Oracle.C11
open Oracle

def handle (toks : List String) : Option String :=
  match toks with
  | _ => none

end Oracle.C11

def main (_ : List String) : IO Unit := Oracle.runMain Oracle.C11.handle
