/-
  Oracle commands for C12 (stub: owns no commands yet).
-/
import Oracle.Util
namespace Oracle.C12
open Oracle

def handle (toks : List String) : Option String :=
  match toks with
  | _ => none

end Oracle.C12

def main (_ : List String) : IO Unit := Oracle.runMain Oracle.C12.handle
