/-
  Oracle commands for C12 (crash model of the model store).

    effects <store> <hashes> <chunk> <am> <ap> <np> <op>  → the operation's effect list + outcome
      (<am>/<ap> = 1: the tree writes manifests / part records atomically — detected by the driver from the real trace)
    crash <k> <store> <hashes> <chunk> <op>    → the store after the first k effects
    restart <store>                            → the store after the start-up sequence
    restarted <k> <job>                        → the store after crash k and the start-up sequence
    rerun <k> <store> <hashes> <chunk> <op>    → outcome of op on restart(crash k) and the readable manifests after it

  <store>  := <n> (<path> <content>)*
  <path>   := B:<hex64> | T:<k> | P:<hex64> | R:<hex64>:<n> | M:<name>
  <content>:= raw:<hex|-> | man:<cfgdigest>/<size>[,<digest>/<size>]* | rec:<n>/<off>/<size>/<completed>
  <hashes> := <n> (<hex> <digest>)*           (the sha256 of every byte string the op may hash)
  <op>     := upload <digest> <hex> | create <name> <nups> (<digest> <hex>)* <file> <ndatas> <hex>* <cfghex>
            | copy <src> <dst> | delete <name> | pull <name> <man-content> <nblobs> (<digest> <hex>)*
-/
import Oracle.Util
import OllamaVerif.Model.StoreCrash
namespace Oracle.C12
open Oracle OllamaVerif OllamaVerif.StoreCrash

def parsePath (s : String) : Option Path :=
  let body := (s.drop 2).toString
  if s.startsWith "B:" then some (.blob body)
  else if s.startsWith "P:" then some (.pfile body)
  else if s.startsWith "M:" then some (.man body)
  else if s.startsWith "X:" then some (.other body)
  else if s.startsWith "T:" then body.toNat?.map .temp
  else if s.startsWith "R:" then
    match body.splitOn ":" with
    | [d, n] => n.toNat?.map (.part d)
    | _ => none
  else none

def parseLayer (s : String) : Option Layer :=
  match s.splitOn "/" with
  | [d, n] => n.toNat?.map (fun k => ⟨d, k⟩)
  | _ => none

def parseMan (body : String) : Option Man :=
  match (body.splitOn ",").mapM parseLayer with
  | some (cfg :: layers) => some ⟨layers, cfg⟩
  | _ => none

def parseContent (s : String) : Option Content :=
  let body := (s.drop 4).toString
  if s.startsWith "raw:" then (unhex body).map .raw
  else if s.startsWith "man:" then (parseMan body).map .man
  else if s.startsWith "rec:" then
    match (body.splitOn "/").mapM String.toNat? with
    | some [n, off, size, completed] => some (.prec ⟨n, off, size, completed⟩)
    | _ => none
  else none

def pPath : TP Path := do
  let t ← tok
  match parsePath t with
  | some p => pure p
  | none => failure

def pContent : TP Content := do
  let t ← tok
  match parseContent t with
  | some c => pure c
  | none => failure

def pStore : TP Store := listOf (do let p ← pPath; let c ← pContent; pure (p, c))

def pHashes : TP (List (Bytes × Digest)) := listOf (do let b ← hex; let d ← tok; pure (b, d))

def chunksAux (k : Nat) : Nat → Bytes → List Bytes
  | 0, _ => []
  | fuel+1, bs => if bs.isEmpty then [] else bs.take k :: chunksAux k fuel (bs.drop k)

def chunksOf (k : Nat) (bs : Bytes) : List Bytes := chunksAux (max k 1) bs.length bs

def insertSorted (x : String) : List String → List String
  | [] => [x]
  | y :: ys => if x < y then x :: y :: ys else if x = y then y :: ys else y :: insertSorted x ys

def sortDedup (l : List String) : List String := l.foldr insertSorted []

def mkEnv (hs : List (Bytes × Digest)) (k : Nat) (am ap np : Bool) : Env :=
  { hash := fun bs => match hs.find? (fun e => e.1 == bs) with
      | some e => e.2
      | none => "?" ++ hexOrDash bs
    chunk := chunksOf k
    ord := sortDedup
    atomicMan := am
    atomicPart := ap
    noPrune := np }

def pBlob : TP (Digest × Bytes) := do let d ← tok; let b ← hex; pure (d, b)

def pOp : TP Op := do
  let kind ← tok
  match kind with
  | "upload" => do let d ← tok; let b ← hex; pure (.upload 0 d b)
  | "create" => do
    let n ← tok
    let ups ← listOf pBlob
    let file ← tok
    let datas ← listOf hex
    let cfg ← hex
    pure (.create n ups file datas cfg)
  | "copy" => do let a ← tok; let b ← tok; pure (.copy a b)
  | "delete" => do let n ← tok; pure (.delete n)
  | "pull" => do
    let n ← tok
    let mc ← pContent
    let blobs ← listOf pBlob
    match mc with
    | .man m => pure (.pull (fun d => (blobs.find? (fun e => e.1 == d)).map (·.2)) n m)
    | _ => failure
  | _ => failure

/-! printing -/

def showPathWith (temp : Nat → String) : Path → String
  | .blob d => "B:" ++ d
  | .temp k => "T:" ++ temp k
  | .pfile d => "P:" ++ d
  | .part d n => "R:" ++ d ++ ":" ++ toString n
  | .man n => "M:" ++ n
  | .other x => "X:" ++ x

def showLayer (l : Layer) : String := l.digest ++ "/" ++ toString l.size

def showContent : Content → String
  | .raw bs => "raw:" ++ hexOrDash bs
  | .man m => "man:" ++ ",".intercalate ((m.config :: m.layers).map showLayer)
  | .prec r => s!"rec:{r.n}/{r.off}/{r.size}/{r.completed}"

def effPaths : Effect → List Path
  | .mk p | .touch p | .app p _ | .pw p _ _ | .ftr p _ | .put p _ | .chmod p | .rm p => [p]
  | .cp a b | .mv a b => [a, b]

/-- temp ids in order of first appearance (the driver numbers the random CreateTemp names so) -/
def tempOrder (es : List Effect) : List Nat :=
  (es.flatMap effPaths).foldl (fun acc p => match p with
    | .temp k => if acc.contains k then acc else acc ++ [k]
    | _ => acc) []

def showEffect (sp : Path → String) : Effect → String
  | .mk p => "mk " ++ sp p
  | .touch p => "touch " ++ sp p
  | .app p bs => "app " ++ sp p ++ " " ++ hexOrDash bs
  | .pw p off bs => s!"pw {sp p} {off} {hexOrDash bs}"
  | .ftr p n => s!"ftr {sp p} {n}"
  | .put p c => "put " ++ sp p ++ " " ++ showContent c
  | .cp a b => "cp " ++ sp a ++ " " ++ sp b
  | .mv a b => "mv " ++ sp a ++ " " ++ sp b
  | .chmod p => "chmod " ++ sp p
  | .rm p => "rm " ++ sp p

def showRes (r : Res) : String :=
  let order := tempOrder r.effs
  let sp := showPathWith (fun k => toString (order.idxOf k))
  " ; ".intercalate (r.effs.map (showEffect sp)) ++ (if r.ok then " | ok" else " | fail")

/-- live bindings only (first match wins), sorted, temps anonymous -/
def showStore (st : Store) : String :=
  let keys := (st.map (·.1)).eraseDups
  let items := keys.filterMap (fun p => (get st p).map (fun c => showPathWith (fun _ => "*") p ++ "=" ++ showContent c))
  " ".intercalate (items.foldr (fun x acc => insertKeepDup x acc) [])
where
  insertKeepDup (x : String) : List String → List String
    | [] => [x]
    | y :: ys => if x ≤ y then x :: y :: ys else y :: insertKeepDup x ys

def showReadable (st : Store) : String :=
  let items := (manNames st).eraseDups.filterMap (fun n => (readable st n).map (fun m => n ++ "=" ++ showContent (.man m)))
  " ".intercalate (sortDedup items)

structure Job where
  st : Store
  env : Env
  op : Op

def pJob : TP Job := do
  let st ← pStore
  let hs ← pHashes
  let k ← nat
  let am ← nat
  let ap ← nat
  let np ← nat
  let op ← pOp
  pure ⟨st, mkEnv hs k (am != 0) (ap != 0) (np != 0), op⟩

def handle (toks : List String) : Option String :=
  match toks with
  | "effects" :: rest => do
    let j ← runTP pJob rest
    pure (showRes (j.op.exec j.env j.st))
  | "crash" :: k :: rest => do
    let k ← k.toNat?
    let j ← runTP pJob rest
    pure (showStore (run ((j.op.exec j.env j.st).effs.take k) j.st))
  | "restart" :: rest => do
    let st ← runTP pStore rest
    pure (showStore (restart st))
  | "restarted" :: k :: rest => do
    let k ← k.toNat?
    let j ← runTP pJob rest
    pure (showStore (restartWith j.env (run ((j.op.exec j.env j.st).effs.take k) j.st)))
  | "rerun" :: k :: rest => do
    let k ← k.toNat?
    let j ← runTP pJob rest
    let st1 := restartWith j.env (run ((j.op.exec j.env j.st).effs.take k) j.st)
    let r := j.op.exec j.env st1
    pure ((if r.ok then "ok " else "fail ") ++ showReadable (run r.effs st1))
  | _ => none

end Oracle.C12

def main (_ : List String) : IO Unit := Oracle.runMain Oracle.C12.handle
