/-
  Oracle commands for C12 (crash model of the model store).

    effects <store> <hashes> <chunk> <am> <ap> <np> <op>  → the operation's effect list + outcome
      (<am>/<ap> = 1: the tree writes manifests / part records atomically — detected by the driver from the real trace)
    crash <k> <store> <hashes> <chunk> <op>    → the store after the first k effects
    restart <store>                            → the store after the start-up sequence
    restarted <k> <job>                        → the store after crash k and the start-up sequence
    rerun <k> <store> <hashes> <chunk> <op>    → outcome of op on restart(crash k) and the readable manifests after it
    cov <job>                                  → the branch of the MODEL taken at each decision point of the op (coverage tags)
    covrestart <k> <job>                       → which way the start-up sequence goes on the state after crash k

  <store>  := <n> (<path> <content>)*
  <path>   := B:<hex64> | T:<k> | P:<hex64> | R:<hex64>:<n> | M:<name>
  <content>:= raw:<hex|-> | man:<cfgdigest>/<size>[,<digest>/<size>]* | rec:<n>/<off>/<size>/<completed>
  <hashes> := <n> (<hex> <digest>)*           (the sha256 of every byte string the op may hash)
  <op>     := upload <digest> <hex> | create <name> <nups> (<digest> <hex>)* <file> <ndatas> <hex>* <cfghex>
            | copy <src> <dst> | delete <name> | pull <name> <man-content> <nblobs> (<digest> <hex>)*
-/
import Oracle.Util
import OllamaVerif.Model.StoreCrash
namespace Oracle.C12
open Oracle OllamaVerif OllamaVerif.StoreCrash

def parsePath (s : String) : Option Path :=
  let body := (s.drop 2).toString
  if s.startsWith "B:" then some (.blob body)
  else if s.startsWith "P:" then some (.pfile body)
  else if s.startsWith "M:" then some (.man body)
  else if s.startsWith "X:" then some (.other body)
  else if s.startsWith "T:" then body.toNat?.map .temp
  else if s.startsWith "R:" then
    match body.splitOn ":" with
    | [d, n] => n.toNat?.map (.part d)
    | _ => none
  else none

def parseLayer (s : String) : Option Layer :=
  match s.splitOn "/" with
  | [d, n] => n.toNat?.map (fun k => ⟨d, k⟩)
  | _ => none

def parseMan (body : String) : Option Man :=
  match (body.splitOn ",").mapM parseLayer with
  | some (cfg :: layers) => some ⟨layers, cfg⟩
  | _ => none

def parseContent (s : String) : Option Content :=
  let body := (s.drop 4).toString
  if s.startsWith "raw:" then (unhex body).map .raw
  else if s.startsWith "man:" then (parseMan body).map .man
  else if s.startsWith "rec:" then
    match (body.splitOn "/").mapM String.toNat? with
    | some [n, off, size, completed] => some (.prec ⟨n, off, size, completed⟩)
    | _ => none
  else none

def pPath : TP Path := do
  let t ← tok
  match parsePath t with
  | some p => pure p
  | none => failure

def pContent : TP Content := do
  let t ← tok
  match parseContent t with
  | some c => pure c
  | none => failure

def pStore : TP Store := listOf (do let p ← pPath; let c ← pContent; pure (p, c))

def pHashes : TP (List (Bytes × Digest)) := listOf (do let b ← hex; let d ← tok; pure (b, d))

def chunksAux (k : Nat) : Nat → Bytes → List Bytes
  | 0, _ => []
  | fuel+1, bs => if bs.isEmpty then [] else bs.take k :: chunksAux k fuel (bs.drop k)

def chunksOf (k : Nat) (bs : Bytes) : List Bytes := chunksAux (max k 1) bs.length bs

def insertSorted (x : String) : List String → List String
  | [] => [x]
  | y :: ys => if x < y then x :: y :: ys else if x = y then y :: ys else y :: insertSorted x ys

def sortDedup (l : List String) : List String := l.foldr insertSorted []

def mkEnv (hs : List (Bytes × Digest)) (k : Nat) (am ap np : Bool) : Env :=
  { hash := fun bs => match hs.find? (fun e => e.1 == bs) with
      | some e => e.2
      | none => "?" ++ hexOrDash bs
    chunk := chunksOf k
    ord := sortDedup
    atomicMan := am
    atomicPart := ap
    noPrune := np }

def pBlob : TP (Digest × Bytes) := do let d ← tok; let b ← hex; pure (d, b)

def pOp : TP Op := do
  let kind ← tok
  match kind with
  | "upload" => do let d ← tok; let b ← hex; pure (.upload 0 d b)
  | "create" => do
    let n ← tok
    let ups ← listOf pBlob
    let file ← tok
    let datas ← listOf hex
    let cfg ← hex
    pure (.create n ups file datas cfg)
  | "copy" => do let a ← tok; let b ← tok; pure (.copy a b)
  | "delete" => do let n ← tok; pure (.delete n)
  | "pull" => do
    let n ← tok
    let mc ← pContent
    let blobs ← listOf pBlob
    match mc with
    | .man m => pure (.pull (fun d => (blobs.find? (fun e => e.1 == d)).map (·.2)) n m)
    | _ => failure
  | _ => failure

/-! printing -/

def showPathWith (temp : Nat → String) : Path → String
  | .blob d => "B:" ++ d
  | .temp k => "T:" ++ temp k
  | .pfile d => "P:" ++ d
  | .part d n => "R:" ++ d ++ ":" ++ toString n
  | .man n => "M:" ++ n
  | .other x => "X:" ++ x

def showLayer (l : Layer) : String := l.digest ++ "/" ++ toString l.size

def showContent : Content → String
  | .raw bs => "raw:" ++ hexOrDash bs
  | .man m => "man:" ++ ",".intercalate ((m.config :: m.layers).map showLayer)
  | .prec r => s!"rec:{r.n}/{r.off}/{r.size}/{r.completed}"

def effPaths : Effect → List Path
  | .mk p | .touch p | .app p _ | .pw p _ _ | .ftr p _ | .put p _ | .chmod p | .rm p => [p]
  | .cp a b | .mv a b => [a, b]

/-- temp ids in order of first appearance (the driver numbers the random CreateTemp names so) -/
def tempOrder (es : List Effect) : List Nat :=
  (es.flatMap effPaths).foldl (fun acc p => match p with
    | .temp k => if acc.contains k then acc else acc ++ [k]
    | _ => acc) []

def showEffect (sp : Path → String) : Effect → String
  | .mk p => "mk " ++ sp p
  | .touch p => "touch " ++ sp p
  | .app p bs => "app " ++ sp p ++ " " ++ hexOrDash bs
  | .pw p off bs => s!"pw {sp p} {off} {hexOrDash bs}"
  | .ftr p n => s!"ftr {sp p} {n}"
  | .put p c => "put " ++ sp p ++ " " ++ showContent c
  | .cp a b => "cp " ++ sp a ++ " " ++ sp b
  | .mv a b => "mv " ++ sp a ++ " " ++ sp b
  | .chmod p => "chmod " ++ sp p
  | .rm p => "rm " ++ sp p

def showRes (r : Res) : String :=
  let order := tempOrder r.effs
  let sp := showPathWith (fun k => toString (order.idxOf k))
  " ; ".intercalate (r.effs.map (showEffect sp)) ++ (if r.ok then " | ok" else " | fail")

/-- live bindings only (first match wins), sorted, temps anonymous -/
def showStore (st : Store) : String :=
  let keys := (st.map (·.1)).eraseDups
  let items := keys.filterMap (fun p => (get st p).map (fun c => showPathWith (fun _ => "*") p ++ "=" ++ showContent c))
  " ".intercalate (items.foldr (fun x acc => insertKeepDup x acc) [])
where
  insertKeepDup (x : String) : List String → List String
    | [] => [x]
    | y :: ys => if x ≤ y then x :: y :: ys else y :: insertKeepDup x ys

def showReadable (st : Store) : String :=
  let items := (manNames st).eraseDups.filterMap (fun n => (readable st n).map (fun m => n ++ "=" ++ showContent (.man m)))
  " ".intercalate (sortDedup items)

structure Job where
  st : Store
  env : Env
  op : Op

def pJob : TP Job := do
  let st ← pStore
  let hs ← pHashes
  let k ← nat
  let am ← nat
  let ap ← nat
  let np ← nat
  let op ← pOp
  pure ⟨st, mkEnv hs k (am != 0) (ap != 0) (np != 0), op⟩

/-! ## branch coverage of the model (round 7)

`cov <job>` names the branch the MODEL takes at every decision point of the operation, walking the
operation with the model's own functions against the evolving store; the check counts the tags over
all L1 `effects` lines and fails closed when a branch the theorems speak about is never exercised. -/

def covNewLayer (env : Env) (pieces : List Bytes) (st : Store) : String :=
  if present st (.blob (env.hash pieces.flatten)) then "nl.existing" else "nl.new"

def covRemove : List Digest → Store → List String
  | [], _ => []
  | d :: rest, st =>
    (if referenced st d then "lr.referenced" else if !present st (.blob d) then "lr.absent" else "lr.rm") ::
      covRemove rest (run (layerRemove d st).effs st)

def covUploads (env : Env) : Nat → List (Digest × Bytes) → Store → List String
  | _, [], _ => []
  | k, (d, body) :: rest, st =>
    (if present st (.blob d) then ["upload.present"] else ["upload.absent", covNewLayer env (env.chunk body) st]) ++
      covUploads env (k + 1) rest (run (upload env k d body st).effs st)

def covNewLayers (env : Env) : Nat → List Bytes → Store → List String
  | _, [], _ => []
  | k, x :: rest, st => covNewLayer env [x] st :: covNewLayers env (k + 1) rest (run (newLayer env k [x] st).effs st)

def covDownloads (env : Env) (reg : Digest → Option Bytes) : Nat → List Digest → Store → List String
  | _, [], _ => []
  | k, d :: rest, st =>
    if present st (.blob d) then "dl.cachehit" :: covDownloads env reg (k + 2) rest st
    else match reg d with
      | none => ["dl.404"]
      | some data =>
        let tag := match get st (.part d 0) with
          | some (.prec r) =>
            if r.completed = r.size then "dl.resume-complete"
            else if r.completed = 0 then "dl.resume-zero" else "dl.resume-mid"
          | some _ => "dl.torn-record"
          | none => if data.length = 0 then "dl.empty" else "dl.fresh"
        let junk := match get st (.part d 0), get st (.pfile d) with
          | none, some _ => ["dl.junk-partial"]
          | _, _ => []
        let a := download env k d data st
        let av := a.andThen st (verify1 env d)
        [tag] ++ junk ++ (if a.ok && !av.ok then ["dl.verify-mismatch"] else []) ++
          (if av.ok then covDownloads env reg (k + 2) rest (run av.effs st) else [])

def covOp (env : Env) (op : Op) (st : Store) : List String :=
  let r := op.exec env st
  let variant := (if env.atomicMan then "var.atomic-man" else "var.inplace-man") ::
    (if env.noPrune then ["cfg.noprune"] else ["cfg.prune"])
  let body := match op with
    | .upload _ d body =>
      if present st (.blob d) then ["upload.present"] else ["upload.absent", covNewLayer env (env.chunk body) st]
    | .create n ups file datas cfg =>
      let st1 := run (uploads env 0 ups st).effs st
      let old := readable st1 n
      covUploads env 0 ups st ++
      (if !present st1 (.blob file) then ["create.nofile"] else
        let st2 := run (newLayers env ups.length (datas ++ [cfg]) st1).effs st1
        let st3 := run (writeManifest env (ups.length + datas.length + 1) n (createMan env file datas cfg st2)).effs st2
        covNewLayers env ups.length (datas ++ [cfg]) st1 ++
        (match old, get st1 (.man n) with
          | some m, _ => "create.replace" :: (if env.noPrune then ["cleanup.skipped-noprune"] else covRemove (m.all.map Layer.digest) st3)
          | none, some _ => ["create.over-torn"]
          | none, none => ["create.new"]))
    | .copy src dst =>
      if src = dst then ["copy.self"] else
      match get st (.man src) with
      | none => ["copy.nosrc"]
      | some c => [match c with | .man _ => "copy.src-readable" | _ => "copy.src-torn",
                   if present st (.man dst) then "copy.over" else "copy.new"]
    | .delete n =>
      match readable st n with
      | none => [if present st (.man n) then "delete.torn" else "delete.missing"]
      | some m => "delete.ok" :: covRemove (m.all.map Layer.digest) (run [Effect.rm (.man n)] st)
    | .pull reg n m =>
      let want := m.all.map Layer.digest
      let dl := covDownloads env reg 0 want st
      let old := readable st n
      dl ++ [match old, get st (.man n) with
        | some _, _ => "pull.replace"
        | none, some _ => "pull.over-torn"
        | none, none => "pull.new"] ++
      (if r.ok then
        (match old with
         | some o =>
           let cand := (o.all.map Layer.digest).filter (fun d => !want.contains d)
           if cand.isEmpty then ["pullclean.nothing"] else
           if env.noPrune then ["pullclean.skipped-noprune"] else
           if (r.effs.any (fun e => match e with | .rm (.blob _) => true | _ => false)) then ["pullclean.rm"] else ["pullclean.kept"]
         | none => [])
       else [])
  variant ++ body ++ [if r.ok then "op.ok" else "op.fail"]

/-- which way the start-up sequence goes on the state after crash `k` -/
def covRestart (env : Env) (st : Store) : List String :=
  [if env.noPrune then "restart.noprune" else if allReadable st then "restart.prune" else "restart.gate-skipped"] ++
  (if (st.any (fun e => match e.1 with | .pfile _ | .part _ _ => true | _ => false)) then ["crashstate.debris"] else []) ++
  (if (st.any (fun e => match e.1 with | .temp _ => true | _ => false)) then ["crashstate.temp"] else [])

def handle (toks : List String) : Option String :=
  match toks with
  | "effects" :: rest => do
    let j ← runTP pJob rest
    pure (showRes (j.op.exec j.env j.st))
  | "crash" :: k :: rest => do
    let k ← k.toNat?
    let j ← runTP pJob rest
    pure (showStore (run ((j.op.exec j.env j.st).effs.take k) j.st))
  | "restart" :: rest => do
    let st ← runTP pStore rest
    pure (showStore (restart st))
  | "restarted" :: k :: rest => do
    let k ← k.toNat?
    let j ← runTP pJob rest
    pure (showStore (restartWith j.env (run ((j.op.exec j.env j.st).effs.take k) j.st)))
  | "rerun" :: k :: rest => do
    let k ← k.toNat?
    let j ← runTP pJob rest
    let st1 := restartWith j.env (run ((j.op.exec j.env j.st).effs.take k) j.st)
    let r := j.op.exec j.env st1
    pure ((if r.ok then "ok " else "fail ") ++ showReadable (run r.effs st1))
  | "cov" :: rest => do
    let j ← runTP pJob rest
    pure (" ".intercalate (covOp j.env j.op j.st))
  | "covrestart" :: k :: rest => do
    let k ← k.toNat?
    let j ← runTP pJob rest
    pure (" ".intercalate (covRestart j.env (run ((j.op.exec j.env j.st).effs.take k) j.st)))
  | _ => none

end Oracle.C12

def main (_ : List String) : IO Unit := Oracle.runMain Oracle.C12.handle
