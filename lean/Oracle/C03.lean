/-
  Oracle commands for C03 (stub: owns no commands yet).
-/
import Oracle.Util
namespace Oracle.C03
open Oracle

def handle (toks : List String) : Option String :=
  match toks with
  | _ => none

end Oracle.C03

def main (_ : List String) : IO Unit := Oracle.runMain Oracle.C03.handle
