/-
  Oracle commands for C03 (legacy pull path).

    challenge <fixed 0|1> <hdrhex>
        -> ok <realmhex> <servicehex> <scopehex> | panic
    plan <nparts> <min> <max> <total>
        -> <n> off/size ...
    pull cfg <nparts> <min> <max> <retries> <variant bit mask> <noprune>
         univ <n> {dig}  blobs <n> {dig content}  partials <n> {dig <data|none> <np> {off size done}}
         manifests <n> {name <corrupt | m MANIFEST>}  name <name>  realm <hex>
         reg MANIFEST content <n> {dig content}  attempts <k> {ATTEMPT}
        -> one observation per attempt, joined by " || "
    MANIFEST := <nl> {DREF size} DREF size      DREF := e | b | <64 hex>
    ATTEMPT  := ms <n> {REPLY} tok <n> {0|1} ls <n> {dig head <n> {REPLY} direct <n> {REPLY} chunks <np> {<n> {CHUNK}}}
                cancel <none | start | verifying k | writing>      (the caller cancels at that progress callback)
    REPLY    := pass <served|badjson | n | redirect|redirect200|noloc|noloc307|noloc301|badstatus[301|303|308]|badloc|redirectdead>
                | neterr | unauth <hex> | notfound | status | follow
    CHUNK    := neterr | body <honest|full|junk hex|flip i> <cut: -|n> <eof|ueof|reset|stall>

  `hash` of the model is instantiated with SHA-256 (implemented here, not in the model).
-/
import OllamaVerif.Model.Pull
import Oracle.Util
namespace Oracle.C03
open OllamaVerif OllamaVerif.Pull Oracle

/-! SHA-256 (FIPS 180-4) -/
def shaK : Array UInt32 := #[
  0x428a2f98, 0x71374491, 0xb5c0fbcf, 0xe9b5dba5, 0x3956c25b, 0x59f111f1, 0x923f82a4, 0xab1c5ed5,
  0xd807aa98, 0x12835b01, 0x243185be, 0x550c7dc3, 0x72be5d74, 0x80deb1fe, 0x9bdc06a7, 0xc19bf174,
  0xe49b69c1, 0xefbe4786, 0x0fc19dc6, 0x240ca1cc, 0x2de92c6f, 0x4a7484aa, 0x5cb0a9dc, 0x76f988da,
  0x983e5152, 0xa831c66d, 0xb00327c8, 0xbf597fc7, 0xc6e00bf3, 0xd5a79147, 0x06ca6351, 0x14292967,
  0x27b70a85, 0x2e1b2138, 0x4d2c6dfc, 0x53380d13, 0x650a7354, 0x766a0abb, 0x81c2c92e, 0x92722c85,
  0xa2bfe8a1, 0xa81a664b, 0xc24b8b70, 0xc76c51a3, 0xd192e819, 0xd6990624, 0xf40e3585, 0x106aa070,
  0x19a4c116, 0x1e376c08, 0x2748774c, 0x34b0bcb5, 0x391c0cb3, 0x4ed8aa4a, 0x5b9cca4f, 0x682e6ff3,
  0x748f82ee, 0x78a5636f, 0x84c87814, 0x8cc70208, 0x90befffa, 0xa4506ceb, 0xbef9a3f7, 0xc67178f2]

def rotr (x : UInt32) (n : UInt32) : UInt32 := (x >>> n) ||| (x <<< (32 - n))

def shaPad (msg : ByteArray) : ByteArray := Id.run do
  let len := msg.size
  let mut m := msg.push 0x80
  while m.size % 64 != 56 do
    m := m.push 0
  let bits := len * 8
  for i in [0:8] do
    m := m.push (UInt8.ofNat (bits >>> (8 * (7 - i))))
  return m

def shaBlock (h : Array UInt32) (m : ByteArray) (base : Nat) : Array UInt32 := Id.run do
  let mut w : Array UInt32 := Array.mkEmpty 64
  for t in [0:16] do
    let b0 := (m.get! (base + 4 * t)).toUInt32
    let b1 := (m.get! (base + 4 * t + 1)).toUInt32
    let b2 := (m.get! (base + 4 * t + 2)).toUInt32
    let b3 := (m.get! (base + 4 * t + 3)).toUInt32
    w := w.push ((b0 <<< 24) ||| (b1 <<< 16) ||| (b2 <<< 8) ||| b3)
  for t in [16:64] do
    let w15 := w[t - 15]!
    let w2 := w[t - 2]!
    let s0 := rotr w15 7 ^^^ rotr w15 18 ^^^ (w15 >>> 3)
    let s1 := rotr w2 17 ^^^ rotr w2 19 ^^^ (w2 >>> 10)
    w := w.push (w[t - 16]! + s0 + w[t - 7]! + s1)
  let mut a := h[0]!
  let mut b := h[1]!
  let mut c := h[2]!
  let mut d := h[3]!
  let mut e := h[4]!
  let mut f := h[5]!
  let mut g := h[6]!
  let mut hh := h[7]!
  for t in [0:64] do
    let s1 := rotr e 6 ^^^ rotr e 11 ^^^ rotr e 25
    let ch := (e &&& f) ^^^ ((~~~ e) &&& g)
    let t1 := hh + s1 + ch + shaK[t]! + w[t]!
    let s0 := rotr a 2 ^^^ rotr a 13 ^^^ rotr a 22
    let mj := (a &&& b) ^^^ (a &&& c) ^^^ (b &&& c)
    let t2 := s0 + mj
    hh := g; g := f; f := e; e := d + t1; d := c; c := b; b := a; a := t1 + t2
  return #[h[0]! + a, h[1]! + b, h[2]! + c, h[3]! + d, h[4]! + e, h[5]! + f, h[6]! + g, h[7]! + hh]

def sha256 (msg : Bytes) : Bytes := Id.run do
  let m := shaPad (ByteArray.mk msg.toArray)
  let mut h : Array UInt32 := #[0x6a09e667, 0xbb67ae85, 0x3c6ef372, 0xa54ff53a, 0x510e527f, 0x9b05688c, 0x1f83d9ab, 0x5be0cd19]
  for i in [0:m.size / 64] do
    h := shaBlock h m (64 * i)
  let mut out : Array UInt8 := #[]
  for x in h do
    out := out.push (x >>> 24).toUInt8
    out := out.push (x >>> 16).toUInt8
    out := out.push (x >>> 8).toUInt8
    out := out.push x.toUInt8
  return out.toList

/-! parsers -/
def pDRef : TP DRef := do
  let t ← tok
  match t with
  | "e" => pure .empty
  | "b" => pure .bad
  | _ => match unhex t with
    | some b => pure (.ok b)
    | none => failure

/-- `<ref>[@<media type index>] <size>` -/
def pLayer : TP Layer := do
  let t ← tok
  let (r, mt) := match t.splitOn "@" with
    | [r, k] => (r, k.toNat?.getD 0)
    | _ => (t, 0)
  let d ← (match r with
    | "e" => pure DRef.empty
    | "b" => pure DRef.bad
    | _ => match unhex r with
      | some b => pure (DRef.ok b)
      | none => failure : TP DRef)
  let s ← nat
  pure ⟨d, s, mt⟩

def pManifest : TP Manifest := do
  let ls ← listOf pLayer
  let c ← pLayer
  pure ⟨ls, c⟩

def pReply {α} (p : TP α) : TP (Reply α) := do
  let t ← tok
  match t with
  | "pass" => return .pass (← p)
  | "neterr" => return .neterr
  | "unauth" => return .unauth (← hex)
  | "notfound" => return .notfound
  | "status" => return .status
  | "statusbig" => return .status     -- a 5xx with a 10 MB body
  | "follow" => return .follow
  | _ => failure

def pMBody : TP MBody := do
  let t ← tok
  -- "badjson-<shape>": a 200 whose body is not a manifest for encoding/json (wrong JSON shape, wrong types, bad
  -- encoding …); the shape only matters to the driver
  if t == "served" then pure .served
  else if t.startsWith "badjson" then pure .badjson
  else failure

def pDir : TP DirRep := do
  let t ← tok
  match t with
  | "redirect" => pure .redirect
  | "redirect200" => pure .redirect200
  | "noloc" => pure .noloc          -- 200 without Location
  | "noloc307" => pure .noloc       -- 307 without Location
  | "noloc301" => pure .badstatusNoLoc   -- 301 without Location: handed back, not a 307/200
  | "badstatus" => pure .badstatus  -- 302 to another host
  | "badstatus301" => pure .badstatus
  | "badstatus303" => pure .badstatus
  | "badstatus308" => pure .badstatus
  | "badloc" => pure .badloc        -- 307 with a Location that does not parse
  | "redirectdead" => pure .redirectDead
  | _ => failure

def pChunk : TP ChunkReply := do
  let t ← tok
  match t with
  | "neterr" => pure .neterr
  | "body" =>
    let s ← tok
    let src ← (match s with
      | "honest" => pure Src.honest
      | "full" => pure Src.full
      | "junk" => do return Src.junk (← hex)
      | "flip" => do return Src.flip (← nat)
      | _ => failure : TP Src)
    let c ← tok
    let cut ← (if c == "-" then pure none else match c.toNat? with
      | some n => pure (some n)
      | none => failure : TP (Option Nat))
    let e ← tok
    let en ← (match e with
      | "eof" => pure End.eof
      | "ueof" => pure End.ueof
      | "reset" => pure End.reset
      | "stall" => pure End.stall
      | "cancel" => pure End.cancel
      | _ => failure : TP End)
    pure (.body src cut en)
  | _ => failure

def pLScript : TP (Digest × LScript) := do
  let d ← hex
  expect "head"
  -- HEAD `pass n`: Content-Length n; `0absent`, `0neg`, `0nan`, `0empty` are realisations of b.Total = 0 (no header, a
  -- negative, a non-numeric, an empty value: strconv.ParseInt's result is dropped / nothing is planned for them)
  let h ← listOf (pReply (do
    let t ← tok
    match t.toNat? with
    | some n => pure n
    | none => if t.startsWith "0" then pure 0 else failure))
  expect "direct"
  let di ← listOf (pReply pDir)
  expect "chunks"
  let cs ← listOf (listOf pChunk)
  pure (d, ⟨h, di, cs⟩)

def pAttemptR : TP (Scripts × Option Manifest) := do
  expect "ms"
  let ms ← listOf (pReply pMBody)
  expect "tok"
  let ts ← listOf (do let n ← nat; pure (n != 0))
  expect "ls"
  let ls ← listOf pLScript
  expect "cancel"
  let c ← tok
  let cp ← (match c with
    | "none" => pure none
    | "start" => pure (some CancelPoint.atStart)
    | "writing" => pure (some CancelPoint.writing)
    | "verifying" => do return some (CancelPoint.verifying (← nat))
    | _ => failure : TP (Option CancelPoint))
  -- driver-only realisation details (replay): the JSON shape of each scripted token answer, and whether the 401 at
  -- the head of the manifest script is produced by a registry that really validates bearer tokens
  expect "tokshape"
  let _ ← listOf tok
  expect "validate"
  let _ ← nat
  -- the manifest the registry serves in THIS attempt, when the tag was re-published since the case's `reg`
  expect "rereg"
  let k ← nat
  let rr ← (if k == 0 then pure none else do return some (← pManifest) : TP (Option Manifest))
  pure (⟨ms, ts, ls, cp⟩, rr)

def pAttempt : TP Scripts := do return (← pAttemptR).1

def pPart : TP Part := do
  let o ← nat
  let s ← nat
  let d ← nat
  pure ⟨o, s, d⟩

def pPartial : TP (Digest × Partial) := do
  let d ← hex
  let t ← tok
  let data ← (if t == "none" then pure none else match unhex t with
    | some b => pure (some b)
    | none => failure : TP (Option Bytes))
  let ps ← listOf pPart
  pure (d, ⟨data, ps⟩)

def pMFile : TP (Name × MFile) := do
  let n ← nat
  let t ← tok
  match t with
  | "corrupt" => pure (n, .corrupt)
  | "m" => do
    let m ← pManifest
    pure (n, .readable m)
  | _ => failure

/-! printing -/
def d12 (d : Digest) : String := ((hexOf d).take 12).toString

def showDRef : DRef → String
  | .empty => "e"
  | .bad => "b"
  | .ok d => d12 d

def showErr : Err → String
  | .manifest => "manifest" | .notfound => "notfound" | .http => "http" | .unauthorized => "unauthorized"
  | .net => "net" | .auth => "auth" | .digestFormat => "digest-format" | .directStatus => "direct-status"
  | .noLocation => "no-location" | .deadline => "deadline" | .maxRetries => "max-retries"
  | .digestMismatch => "digest-mismatch" | .canceled => "canceled"

def showOutcome : Outcome → String
  | .ok _ => "ok"
  | .err e => "err:" ++ showErr e
  | .panic .challenge => "panic:challenge"
  | .panic .emptyDigest => "panic:empty-digest"

def showLayer (l : Layer) : String :=
  s!"{showDRef l.digest}/{l.size}" ++ (if l.media == 0 then "" else s!"@{l.media}")

def showManifest (m : Manifest) : String :=
  s!"l({joinWith "," (m.layers.map showLayer)})c({showLayer m.config})"

def showStore (univ : List Digest) (st : Store) : String :=
  let blobs := univ.filterMap fun d => (st.blobs d).map fun c => s!"{d12 d}:{hexOrDash c}"
  let parts := univ.filterMap fun d =>
    let pa := st.partials d
    if pa.data.isNone && pa.parts.isEmpty then none
    else
      let data := match pa.data with
        | none => "none"
        | some b => hexOrDash b
      some s!"{d12 d}:{data}:[{joinWith "," (pa.parts.map fun p => s!"{p.off}/{p.size}/{p.done}")}]"
  let mans := (List.range 4).filterMap fun n => (lookupM n st.manifests).map fun mf =>
    match mf with
    | .corrupt => s!"{n}:corrupt"
    | .readable m => s!"{n}:{showManifest m}"
  s!"blobs=[{joinWith "," blobs}] partials=[{joinWith ";" parts}] manifests=[{joinWith ";" mans}]"

def showNet (n : Net) : String :=
  let d := if n.dStar then "*" else toString n.nd
  s!"req=m{n.nm},h{n.nh},d{d},c{n.nc},t{n.nt}"

def ofAssoc {β} (dflt : β) (l : List (Digest × β)) : Digest → β :=
  fun d => match l.find? (fun kv => kv.1 == d) with
    | some kv => kv.2
    | none => dflt

/-- the history of the case: every attempt pulls `name`; the registry serves the case's manifest unless the
    attempt carries its own (re-published tag); blobs and realm are the case's -/
def stepsOf (name : Name) (reg : Registry) (atts : List (Scripts × Option Manifest)) : List HStep :=
  atts.map fun (sc, rr) => ⟨name, { reg with manifest := rr.getD reg.manifest }, sc⟩

def runAttempts (cfg : Cfg) (univ : List Digest) (steps : List HStep) (st : Store) : List String :=
  (runHistory cfg sha256 steps st).map fun (o, st', log) =>
    s!"{showOutcome o} {showNet log.net} {showStore univ st'}"

def pPull : TP String := do
  expect "cfg"
  let np ← nat
  let mn ← nat
  let mx ← nat
  let rt ← nat
  let fx ← nat
  let npn ← nat
  -- variant bit mask: 1 = getValue bounds check, 2 = "" digest rejected, 4 = skipVerify keeps the first
  -- answer, 8 = fresh layers verified right after their download
  let cfg : Cfg := { nparts := np, minSize := mn, maxSize := mx, retries := rt, noPrune := npn != 0,
                     fixedChallenge := fx % 2 == 1, fixedEmpty := fx / 2 % 2 == 1,
                     fixedDup := fx / 4 % 2 == 1, verifyEarly := fx / 8 % 2 == 1,
                     verifyBeforeRename := fx / 16 % 2 == 1 }
  expect "univ"
  let univ ← listOf hex
  expect "blobs"
  let blobs ← listOf (do let d ← hex; let c ← hex; pure (d, c))
  expect "partials"
  let partials ← listOf pPartial
  expect "manifests"
  let mans ← listOf pMFile
  expect "name"
  let name ← nat
  expect "realm"
  let realm ← hex
  expect "reg"
  let m ← pManifest
  expect "content"
  let content ← listOf (do let d ← hex; let c ← hex; pure (d, c))
  expect "attempts"
  let atts ← listOf pAttemptR
  expect "raw"      -- driver-only: the JSON shape in which the manifest `reg` is served
  let _ ← tok
  let st : Store := { blobs := ofAssoc none (blobs.map fun (d, c) => (d, some c)),
                      partials := ofAssoc Partial.none partials, manifests := mans }
  let reg : Registry := ⟨m, content, realm⟩
  pure (joinWith " || " (runAttempts cfg univ (stepsOf name reg atts) st))

/-- pull2 <during|duringCancelB|duringCancelA|atVerify> cfg … (as pull) … x <dig> nameA <n> nameB <n> realm <hex>
    regA MANIFEST regB MANIFEST content <n> {dig content} A ATTEMPT B ATTEMPT  ->  <outcome A> <outcome B> <store> -/
def pPull2 : TP String := do
  let md ← tok
  let mode ← (match md with
    | "during" => pure JoinMode.during
    | "duringCancelB" => pure JoinMode.duringCancelB
    | "duringCancelA" => pure JoinMode.duringCancelA
    | "atVerify" => pure JoinMode.atVerify
    | _ => failure : TP JoinMode)
  expect "cfg"
  let np ← nat
  let mn ← nat
  let mx ← nat
  let rt ← nat
  let fx ← nat
  let npn ← nat
  let cfg : Cfg := { nparts := np, minSize := mn, maxSize := mx, retries := rt, noPrune := npn != 0,
                     fixedChallenge := fx % 2 == 1, fixedEmpty := fx / 2 % 2 == 1,
                     fixedDup := fx / 4 % 2 == 1, verifyEarly := fx / 8 % 2 == 1,
                     verifyBeforeRename := fx / 16 % 2 == 1 }
  expect "univ"
  let univ ← listOf hex
  expect "blobs"
  let blobs ← listOf (do let d ← hex; let c ← hex; pure (d, c))
  expect "partials"
  let partials ← listOf pPartial
  expect "manifests"
  let mans ← listOf pMFile
  expect "x"
  let x ← hex
  expect "nameA"
  let nameA ← nat
  expect "nameB"
  let nameB ← nat
  expect "realm"
  let realm ← hex
  expect "regA"
  let mA ← pManifest
  expect "regB"
  let mB ← pManifest
  expect "content"
  let content ← listOf (do let d ← hex; let c ← hex; pure (d, c))
  expect "A"
  let scA ← pAttempt
  expect "B"
  let scB ← pAttempt
  let st : Store := { blobs := ofAssoc none (blobs.map fun (d, c) => (d, some c)),
                      partials := ofAssoc Partial.none partials, manifests := mans }
  let (oA, oB, st') := pull2 cfg sha256 mode x nameA ⟨mA, content, realm⟩ scA nameB ⟨mB, content, realm⟩ scB st
  pure s!"{showOutcome oA} {showOutcome oB} {showStore univ st'}"

def handle (toks : List String) : Option String :=
  match toks with
  | "challenge" :: rest =>
    runTP (do
      let fx ← nat
      let h ← hex
      pure (match parseChallenge (fx != 0) h with
        | none => "panic"
        | some c => s!"ok {hexOrDash c.realm} {hexOrDash c.service} {hexOrDash c.scope}")) rest
  | "plan" :: rest =>
    runTP (do
      let np ← nat
      let mn ← nat
      let mx ← nat
      let total ← nat
      let ps := plan { nparts := np, minSize := mn, maxSize := mx, retries := 0 } total
      pure (joinWith " " (toString ps.length :: ps.map fun p => s!"{p.off}/{p.size}"))) rest
  | "resumereq" :: rest =>
    -- what a resumed download does with these records against an honest CDN:
    -- b.Parts order (Glob), b.Total, and the Range of every part that is not complete (by N)
    runTP (do
      let ps ← listOf pPart
      let g := globParts ps
      let order := g.map fun (i, _) => toString i
      let total := (g.map (·.2.size)).sum
      let reqs := (indexFrom 0 ps).filterMap fun (i, p) =>
        if p.done = p.size then none else some s!"{i}:{p.off + p.done}-{p.off + p.size - 1}"
      pure s!"order={joinWith "," order} total={total} req={joinWith ";" reqs}") rest
  | "bigstate" :: rest =>
    -- records left by a fresh attempt on a <total>-byte blob whose part N ends as: ok (complete),
    -- fail (nothing recorded), half k (k bytes recorded)
    runTP (do
      let np ← nat
      let mn ← nat
      let mx ← nat
      let total ← nat
      let modes ← listOf (do
        let t ← tok
        match t with
        | "ok" => pure (some none)
        | "fail" => pure none
        | "half" => do let k ← nat; pure (some (some k))
        | _ => failure : TP (Option (Option Nat)))
      let ps := plan { nparts := np, minSize := mn, maxSize := mx, retries := 0 } total
      let recs := (ps.zip modes).map fun (p, m) =>
        let done := match m with
          | none => 0
          | some none => p.size
          | some (some k) => k
        s!"{p.off}/{p.size}/{done}"
      pure s!"{ps.length} {joinWith "," recs}") rest
  | "sha256" :: rest =>
    runTP (do
      let b ← hex
      pure (hexOf (sha256 b))) rest
  | "pull" :: rest => runTP pPull rest
  | "pull2" :: rest => runTP pPull2 rest
  | _ => none

end Oracle.C03

def main (_ : List String) : IO Unit := Oracle.runMain Oracle.C03.handle
