/-
  Oracle commands for C16 (stub: owns no commands yet).
-/
import Oracle.Util
namespace Oracle.C16
open Oracle

def handle (toks : List String) : Option String :=
  match toks with
  | _ => none

end Oracle.C16

def main (_ : List String) : IO Unit := Oracle.runMain Oracle.C16.handle
