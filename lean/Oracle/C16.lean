/-
  Oracle commands for C16 (memory estimator):
    c16 <variant 0=pinned|1=fix C16-W1> <numGPU> <overhead> <nproj> {pw pg}* <vw> <vg> <blk0|-> <nblocks> {w|- kv}*
        <gp> <gf> <gqa> <onorm|-> <out|-> <temb|-> <ngpus> {keyclass idclass lib free min}*
      -> fit=<0|1>,<vram> | <estimate of ByLibrary group 1> | <estimate of group 2> ...   (the model groups)
    where <estimate> = L=.. G=.. V=.. T=.. S=<a,b,..|-> Z=<a,b,..|-> kv=.. mw=.. mo=.. gf=.. gp=.. pw=.. pg=.. B=<EstimatedVRAMByGPU of each GPU of the group>
    c16pick <spread 0|1> <numParallel> <defaultParallel> <n> {p <common>}* <ngpus> {keyclass idclass lib free min}*
      -> nil | ids=<returned GPU id classes in order> p=<*numParallel>     (pickBestFullFitByLibrary;
         <common> = the c16 arguments from <variant> to <temb|->, derived for parallelism p)
    c16part <common> <ngpus> {keyclass idclass lib free min}*
      -> ids=<returned GPU id classes in order>                           (pickBestPartialFitByLibrary)
    c16free <ngpus> {key idk total free}* <nrunners> {nil | <n> {idk est}*}*
      -> f1,f2,...   (FreeMemory of every GPU after Scheduler.updateFreeSpace)
    c16graph <arch> <ctx> <batch> <numParallel> <kvct 0=f16|1=q8_0|2=q4_0> <blocks> <emb> <heads> <headsKV> <klen|-> <vlen|->
             <vocab> <ffn_gate_exps size|-> <ff> <ffn_gate.0 Shape[1]|-> <ncross> {i}* <ropeFreqs> <sliding> <qkvBias|->
      -> kv=<a,b,..|-> gp=<partialOffload> gf=<fullOffload>                 (GGML.GraphSize)
    c16cpu <OLLAMA_NUM_PARALLEL> <mllama 0|1> <embed 0|1> <defaultParallel> <n> {p <common>}* <free> <min> <nrunners>
      -> load ids=0 free=<free> p=<numParallel> | evict                      (the CPU branch of Scheduler.processPending)
    c16proj <mllama 0|1> <n> {tensor size}* <image> <patch> <channels> <tiles> <emb> <heads> <class_embd 0|1>
      -> w=<weights> g=<graphSize> | panic                                   (llm.projectorMemoryRequirements)
    c16vision <mllama 0|1> <gemma3|mistral3 0|1> <vision.block_count> <n> {size of the v / v.* tensors}* <image> ... <class_embd 0|1>
      -> w=<weights> g=<graphSize>                                           (GGML.VisionGraphSize)
    c16load <spread 0|1> <OLLAMA_NUM_PARALLEL> <mllama 0|1> <embed 0|1> <defaultParallel> <n> {p <common>}*
            <ngpus> {keyclass idclass lib free min lkey total}* <nrunners> {<loading 0|1> <n> {id}* <m> {size}*}*
      -> load ids=<ids> free=<adjusted frees> p=<numParallel> | evict | delay
         (the GPU branch of Scheduler.processPending for a model that is not loaded)
-/
import OllamaVerif.Model.Memory
import Oracle.Util
namespace Oracle.C16
open Oracle OllamaVerif.Memory

def optNat : TP (Option Nat) := do
  let t ← tok
  if t == "-" then pure none
  else match t.toNat? with
    | some n => pure (some n)
    | none => failure

def pLib : TP Lib := do
  let t ← tok
  match t with
  | "cpu" => pure .cpu
  | "metal" => pure .metal
  | _ => pure .other

def pGpu : TP Gpu := do
  let f ← nat
  let m ← nat
  pure ⟨f, m⟩

def pFGpu : TP FGpu := do
  let k ← nat
  let i ← nat
  let l ← pLib
  let g ← pGpu
  pure ⟨k, i, l, g⟩

def pPair : TP (Nat × Nat) := do
  let a ← nat
  let b ← nat
  pure (a, b)

def pBlock : TP (Option Nat × Nat) := do
  let w ← optNat
  let kv ← nat
  pure (w, kv)

def pSGpu : TP SGpu := do
  let k ← nat
  let i ← nat
  let t ← nat
  let f ← nat
  pure ⟨k, i, t, f⟩

def pRunner : TP Runner := do
  let t ← tok
  if t == "nil" then pure none
  else match t.toNat? with
    | some n => do
      let l ← rep n pPair
      pure (some l)
    | none => failure

def pIGpu : TP IGpu := do
  let f ← pFGpu
  let lk ← nat
  let t ← nat
  pure ⟨f, lk, t⟩

def pLRunner : TP LRunner := do
  let ld ← nat
  let ids ← listOf nat
  let sizes ← listOf nat
  pure ⟨ld != 0, ids, sizes⟩

def pArch : TP Arch := do
  let t ← tok
  pure (match t with
    | "llama" => .llama
    | "mllama" => .mllama
    | "gemma" => .gemma
    | "gemma2" => .gemma
    | "gemma3" => .gemma3
    | "command-r" => .commandR
    | "qwen2" => .qwen2
    | "phi2" => .phi2
    | "stablelm" => .stablelm
    | "deepseek2" => .deepseek2
    | "chatglm" => .chatglm
    | _ => .other)

def commaOrDash (l : List Nat) : String :=
  if l.isEmpty then "-" else joinWith "," (l.map toString)

def showEst (e : Est) : String :=
  let s := match e.split with
    | none => "-"
    | some l => commaOrDash l
  s!"L={e.layers} G={e.graph} V={e.vram} T={e.total} S={s} Z={commaOrDash e.sizes} kv={e.kv} mw={e.memWeights} mo={e.memOut} gf={e.gF} gp={e.gP} pw={e.projW} pg={e.projG}"

/-- `<variant> <numGPU> <overhead> <nproj> {pw pg}* <vw> <vg> <blk0|-> <nblocks> {w|- kv}* <gp> <gf> <gqa>
    <onorm|-> <out|-> <temb|->` -/
def pCommon : TP Inp := do
  let variant ← nat
  let numGPU ← int
  let overhead ← nat
  let projs ← listOf pPair
  let vw ← nat
  let vg ← nat
  let blk0 ← optNat
  let blocks ← listOf pBlock
  let gp ← nat
  let gf ← nat
  let gqa ← nat
  let onorm ← optNat
  let out ← optNat
  let temb ← optNat
  pure { lib := .other, gpus := [], overhead := overhead, projs := projs, vision := (vw, vg),
         blk0 := blk0, blocks := blocks, graphPartial := gp, graphFull := gf, gqa := gqa,
         outNorm := onorm, output := out, tokenEmbd := temb, numGPU := numGPU,
         ovSafe := variant != 0 }

def pTry : TP (Nat × Inp) := do
  let p ← nat
  let c ← pCommon
  pure (p, c)

def showIds (l : List FGpu) : String := commaOrDash (l.map (·.idk))

def handle (toks : List String) : Option String :=
  match toks with
  | "c16" :: rest =>
    runTP (do
      let common ← pCommon
      let all ← listOf pFGpu
      let fit := predictFitAll common all
      let ests := (byLibrary all).map fun g =>
        let e := estimate { common with lib := g.lib, gpus := g.gpus }
        let ids := g.members.map (·.idk)
        showEst e ++ " B=" ++ commaOrDash (ids.map (vramByGPU ids e.sizes))
      let f := if fit.1 then "1" else "0"
      pure (joinWith " | " (s!"fit={f},{fit.2}" :: ests))) rest
  | "c16free" :: rest =>
    runTP (do
      let gpus ← listOf pSGpu
      let runners ← listOf pRunner
      pure (commaOrDash (updateFree gpus runners))) rest
  | "c16pick" :: rest =>
    runTP (do
      let spread ← nat
      let np ← int
      let dp ← nat
      let commons ← listOf pTry
      let all ← listOf pFGpu
      let dflt : Inp := match commons with
        | (_, c) :: _ => c
        | [] => { lib := .other, gpus := [], overhead := 0, projs := [], vision := (0, 0), blk0 := none,
                  blocks := [], graphPartial := 0, graphFull := 0, gqa := 0, outNorm := none,
                  output := none, tokenEmbd := none, numGPU := 0 }
      let commonOf : Nat → Inp := fun p => match commons.lookup p with
        | some c => c
        | none => dflt
      pure (match pickFull commonOf np dp (spread != 0) all with
        | none => "nil"
        | some (l, p) => s!"ids={showIds l} p={p}")) rest
  | "c16graph" :: rest =>
    runTP (do
      let arch ← pArch
      let ctx ← nat
      let batch ← nat
      let p ← nat
      let kvct ← nat
      let blocks ← nat
      let emb ← nat
      let heads ← nat
      let headsKV ← nat
      let klen ← optNat
      let vlen ← optNat
      let vocab ← nat
      let exps ← optNat
      let ff ← nat
      let g1 ← optNat
      let cross ← listOf nat
      let rope ← nat
      let sliding ← nat
      let qb ← optNat
      let m : GMeta := { arch := arch, blocks := blocks, embedding := emb, heads := heads, headsKV := headsKV,
                         keyLen := klen, valLen := vlen, vocab := vocab, ffnGateExps := exps, ff := ff,
                         ffnGate1 := g1, cross := cross, ropeFreqs := rope, sliding := sliding, qkvBias := qb }
      let r := graphSize m ctx batch p kvct
      pure s!"kv={commaOrDash r.1} gp={r.2.1} gf={r.2.2}") rest
  | "c16cpu" :: rest =>
    runTP (do
      let np0 ← int
      let mllama ← nat
      let embed ← nat
      let dp ← nat
      let commons ← listOf pTry
      let free ← nat
      let mn ← nat
      let nr ← nat
      let dflt : Inp := match commons with
        | (_, c) :: _ => c
        | [] => { lib := .other, gpus := [], overhead := 0, projs := [], vision := (0, 0), blk0 := none,
                  blocks := [], graphPartial := 0, graphFull := 0, gqa := 0, outNorm := none,
                  output := none, tokenEmbd := none, numGPU := 0 }
      let commonOf : Nat → Inp := fun p => match commons.lookup p with
        | some c => c
        | none => dflt
      let np := effParallel np0 (mllama != 0) (embed != 0)
      pure (match cpuDecision commonOf np dp ⟨0, 0, .cpu, ⟨free, mn⟩⟩ nr with
        | .load _ l p => s!"load ids={showIds l} free={commaOrDash (l.map fun (x : FGpu) => x.gpu.free)} p={p}"
        | .evict => "evict"
        | .delay => "delay")) rest
  | "c16proj" :: rest =>
    runTP (do
      let ml ← nat
      let sizes ← listOf nat
      let im ← nat
      let pa ← nat
      let ch ← nat
      let ti ← nat
      let em ← nat
      let he ← nat
      let cl ← nat
      let m : VMeta := { mllama := ml != 0, gemmaLike := false, visionBlocks := 0, tensorSizes := sizes, imageSize := im,
                         patchSize := pa, numChannels := ch, maxNumTiles := ti, embeddingLength := em, headCount := he,
                         classEmbd := cl != 0 }
      pure (match projReq m with
        | none => "panic"
        | some (w, g) => s!"w={w} g={g}")) rest
  | "c16vision" :: rest =>
    runTP (do
      let ml ← nat
      let gl ← nat
      let vb ← nat
      let sizes ← listOf nat
      let im ← nat
      let pa ← nat
      let ch ← nat
      let ti ← nat
      let em ← nat
      let he ← nat
      let cl ← nat
      let m : VMeta := { mllama := ml != 0, gemmaLike := gl != 0, visionBlocks := vb, tensorSizes := sizes, imageSize := im,
                         patchSize := pa, numChannels := ch, maxNumTiles := ti, embeddingLength := em, headCount := he,
                         classEmbd := cl != 0 }
      let r := visionGraphSize m
      pure s!"w={r.1} g={r.2}") rest
  | "c16load" :: rest =>
    runTP (do
      let spread ← nat
      let np0 ← int
      let mllama ← nat
      let embed ← nat
      let dp ← nat
      let commons ← listOf pTry
      let inv ← listOf pIGpu
      let runners ← listOf pLRunner
      let dflt : Inp := match commons with
        | (_, c) :: _ => c
        | [] => { lib := .other, gpus := [], overhead := 0, projs := [], vision := (0, 0), blk0 := none,
                  blocks := [], graphPartial := 0, graphFull := 0, gqa := 0, outNorm := none,
                  output := none, tokenEmbd := none, numGPU := 0 }
      let commonOf : Nat → Inp := fun p => match commons.lookup p with
        | some c => c
        | none => dflt
      let np := effParallel np0 (mllama != 0) (embed != 0)
      let d := match loadDecision commonOf np dp (spread != 0) inv runners with
        | .load _ l p =>
          s!"load ids={showIds l} free={commaOrDash (l.map fun (x : FGpu) => x.gpu.free)} p={p}"
        | .evict => "evict"
        | .delay => "delay"
      pure d) rest
  | "c16part" :: rest =>
    runTP (do
      let common ← pCommon
      let all ← listOf pFGpu
      pure s!"ids={showIds (pickPartial common all)}") rest
  | _ => none

end Oracle.C16

def main (_ : List String) : IO Unit := Oracle.runMain Oracle.C16.handle
