/-
  C06 — location-free specification of a causal KV cache.

  The state is just the list of entries that were stored and not removed.  Every entry remembers
  which sequences own it (prefix sharing), its current position, the identity of the data that was
  stored for it and the total position shift that has been applied to it since (RoPE re-shift).
  There are no cache locations at all in this file.
-/
namespace OllamaVerif.KV

/-- `math.MaxInt32`: the "no end" sentinel of `Remove` (cache.go: "Set endIndex to math.MaxInt32 to
    remove everything starting at beginIndex"). -/
def maxInt32 : Int := 2147483647

structure Entry where
  seqs : List Nat
  pos : Int
  id : Nat
  shift : Int
deriving DecidableEq, Repr

abbrev Spec := List Entry

structure Tok where
  seq : Nat
  pos : Int
deriving DecidableEq, Repr

/-- inside the sliding window of a query at position `p` (`none` = no window).  The comparison is the
    one of `buildMask`: an entry is masked iff `pos < p - W`, so the window holds `W+1` positions. -/
def inWindow (W : Option Int) (pos p : Int) : Bool :=
  match W with
  | none => true
  | some w => !(decide (pos < p - w))

/-- what a token of sequence `seq` at position `p` may attend to -/
def vis (W : Option Int) (seq : Nat) (p : Int) (e : Entry) : Bool :=
  decide (seq ∈ e.seqs) && !(decide (e.pos > p)) && inWindow W e.pos p

def visible (W : Option Int) (s : Spec) (seq : Nat) (p : Int) : List Entry :=
  s.filter (vis W seq p)

/-- visibility for a pass with `CausalOptions.Except`: a token whose batch index is excepted
    (`enabled = false`) is not restricted to positions ≤ its own; sequence and the lower window bound
    still apply -/
def visE (enabled : Bool) (W : Option Int) (seq : Nat) (p : Int) (e : Entry) : Bool :=
  decide (seq ∈ e.seqs) && !(enabled && decide (e.pos > p)) && inWindow W e.pos p

def visibleE (enabled : Bool) (W : Option Int) (s : Spec) (seq : Nat) (p : Int) : List Entry :=
  s.filter (visE enabled W seq p)

/-- store a batch: one fresh entry per token, owned by the token's sequence, shift 0 -/
def store (s : Spec) (batch : List (Tok × Nat)) : Spec :=
  s ++ batch.map (fun t => ⟨[t.1.seq], t.1.pos, t.2, 0⟩)

/-- `CopyPrefix(src, dst, len)`: `dst` forgets everything and then shares `src`'s entries below `len` -/
def cpSeqs (src dst : Nat) (len : Int) (pos : Int) (seqs : List Nat) : List Nat :=
  let s' := seqs.filter (· ≠ dst)
  if src ∈ s' ∧ pos < len then s' ++ [dst] else s'

def cpEntry (src dst : Nat) (len : Int) (e : Entry) : Option Entry :=
  let s' := cpSeqs src dst len e.pos e.seqs
  if s' = [] then none else some { e with seqs := s' }

def copyPrefix (s : Spec) (src dst : Nat) (len : Int) : Spec :=
  s.filterMap (cpEntry src dst len)

/-- position offset of `Remove(seq, b, e)` -/
def rmOffset (b e : Int) : Int := if e = maxInt32 then 0 else b - e

/-- `Remove(seq, b, e)` on one entry (the caller has checked that no shared entry must shift) -/
def rmEntry (seq : Nat) (b e : Int) (x : Entry) : Option Entry :=
  if seq ∈ x.seqs then
    if b ≤ x.pos ∧ x.pos < e then
      let s' := x.seqs.filter (· ≠ seq)
      if s' = [] then none else some { x with seqs := s' }
    else if x.pos ≥ e then
      some { x with pos := x.pos + rmOffset b e, shift := x.shift + rmOffset b e }
    else some x
  else some x

/-- some sequence other than `seq` owns it too -/
def sharedOther (seq : Nat) (seqs : List Nat) : Bool := seqs.any (· ≠ seq)

/-- an entry that would have to shift although another sequence still owns it -/
def mustRefuse (seq : Nat) (b e : Int) (x : Entry) : Bool :=
  decide (seq ∈ x.seqs) && !(decide (b ≤ x.pos ∧ x.pos < e)) && decide (x.pos ≥ e) && sharedOther seq x.seqs

/-- `Remove`: `none` = refused (a shared entry would have to shift) -/
def remove (s : Spec) (seq : Nat) (b e : Int) : Option Spec :=
  if s.any (mustRefuse seq b e) then none else some (s.filterMap (rmEntry seq b e))

/-- lowest position of `seq` in a batch -/
def lowest (b : List Tok) (seq : Nat) : Option Int :=
  b.foldl (fun acc t => if t.seq = seq then
      (match acc with | none => some t.pos | some p => some (if t.pos < p then t.pos else p)) else acc) none

/-- window eviction for one sequence: entries of `seq` below `thr` are forgotten by `seq` -/
def evictEntry (seq : Nat) (thr : Int) (x : Entry) : Option Entry :=
  if seq ∈ x.seqs ∧ x.pos < thr then
    let s' := x.seqs.filter (· ≠ seq)
    if s' = [] then none else some { x with seqs := s' }
  else some x

def evict (s : Spec) (seq : Nat) (thr : Int) : Spec := s.filterMap (evictEntry seq thr)

/-- highest position of `seq` (−1 if none), as `CanResume` computes it -/
def lastPos (s : Spec) (seq : Nat) : Int :=
  s.foldl (fun acc x => if seq ∈ x.seqs then max acc x.pos else acc) (-1)

end OllamaVerif.KV
