-- REGENERATED on every run by vlib/checks/c17.py from /repo's working tree. Do not edit.
import OllamaVerif.Model.Bytes
namespace OllamaVerif.Generated.C17
/-- (i, bytes of llm.DoneReason(i).String()) as returned by the real method -/
def reasonTable : List (Nat × OllamaVerif.Bytes) := [(0, [115, 116, 111, 112]), (1, [108, 101, 110, 103, 116, 104]), (2, []), (3, []), (4, []), (5, []), (6, []), (7, [])]
end OllamaVerif.Generated.C17
