-- REGENERATED on every run by vlib/checks/c17.py from /repo's working tree. Do not edit.
import OllamaVerif.Model.Bytes
namespace OllamaVerif.Generated.C17
/-- (i, bytes of llm.DoneReason(i).String()) as returned by the real method -/
def reasonTable : List (Nat × OllamaVerif.Bytes) := [(0, [115, 116, 111, 112]), (1, [108, 101, 110, 103, 116, 104]), (2, []), (3, []), (4, []), (5, []), (6, []), (7, [])]
/-- server.errIncompleteResponse.Error() as evaluated in the tree under test -/
def incompleteMsg : OllamaVerif.Bytes := [109, 111, 100, 101, 108, 32, 114, 117, 110, 110, 101, 114, 32, 115, 116, 111, 112, 112, 101, 100, 32, 119, 105, 116, 104, 111, 117, 116, 32, 99, 111, 109, 112, 108, 101, 116, 105, 110, 103, 32, 116, 104, 101, 32, 114, 101, 115, 112, 111, 110, 115, 101]
/-- bufio.ErrTooLong.Error() of the toolchain the tree is built with -/
def tooLongMsg : OllamaVerif.Bytes := [98, 117, 102, 105, 111, 46, 83, 99, 97, 110, 110, 101, 114, 58, 32, 116, 111, 107, 101, 110, 32, 116, 111, 111, 32, 108, 111, 110, 103]
end OllamaVerif.Generated.C17
