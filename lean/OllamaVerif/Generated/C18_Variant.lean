-- REGENERATED on every run by vlib/checks/c18.py from the driver's probe of the tree under test (c18ProbeFix). Do not edit.
namespace OllamaVerif.Generated.C18
/-- the tree shifts by the largest logit before scaling (F18 repaired, e3725cd97) -/
def fixShift : Bool := true
/-- the tree's greedy branch reports "all logits are -Inf" (F18c repaired, 4a8f8bf0b) -/
def fixGreedyErr : Bool := true
end OllamaVerif.Generated.C18
