-- REGENERATED on every run by vlib/checks/c12.py from the working tree under test. Do not edit.
namespace OllamaVerif.Generated.C12
/-- func Serve (server/routes.go), helpers it calls walked as if inlined: (call, inside a go statement / function
literal / defer, guards = the conditions under which the call is reached, outermost first, each normalised to
`noprune-off:` / `noprune-on:` / `cond:` + its source text) for every call of the start-up store repair and of the
call that starts serving, in source order -/
def serveCalls : List (String × Bool × List String) := [
  ("fixBlobs", false, []),
  ("envconfig.NoPrune", false, []),
  ("Manifests", false, ["noprune-off: if !envconfig.NoPrune()"]),
  ("PruneLayers", false, ["noprune-off: if !envconfig.NoPrune()", "cond: else-of _, err := Manifests(false); err != nil"]),
  ("PruneDirectory", false, ["noprune-off: if !envconfig.NoPrune()", "cond: else-of _, err := Manifests(false); err != nil"]),
  ("srvr.Serve", false, [])]
end OllamaVerif.Generated.C12
