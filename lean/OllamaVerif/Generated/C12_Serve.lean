-- REGENERATED on every run by vlib/checks/c12.py from the working tree under test. Do not edit.
namespace OllamaVerif.Generated.C12
/-- func Serve (server/routes.go): (call, inside a go statement / function literal / defer, conditions of the
enclosing ifs) for every call of the start-up store repair and of the call that starts serving, in source order -/
def serveCalls : List (String × Bool × String) := [
  ("fixBlobs", false, ""),
  ("envconfig.NoPrune", false, ""),
  ("Manifests", false, "if !envconfig.NoPrune()"),
  ("PruneLayers", false, "if !envconfig.NoPrune() && else-of _, err := Manifests(false); err != nil"),
  ("PruneDirectory", false, "if !envconfig.NoPrune() && else-of _, err := Manifests(false); err != nil"),
  ("srvr.Serve", false, "")]
end OllamaVerif.Generated.C12
