-- REGENERATED on every run by vlib/checks/c09.py from /repo's working tree (probes of the real code). Do not edit.
namespace OllamaVerif.Generated.C09
/-- Pull re-hashes every layer before Link -/
def treeVerify : Bool := true
/-- Chunked assembles into a staging file (F10d repaired) -/
def treeStaged : Bool := false
/-- Link keeps an existing link of the same length (F8 of C08) -/
def treeLinkShortcut : Bool := false
/-- Registry.Push offers the config blob (F30 repaired) -/
def treePushConfig : Bool := true
/-- the legacy push call sites insist on a 2xx (F18 repaired) -/
def treeStrict : Bool := false
end OllamaVerif.Generated.C09
