-- REGENERATED on every run by vlib/checks/sched_common.py (harness/cmd/schedfacts) from /repo's sched.go.
import OllamaVerif.Model.Sched
namespace OllamaVerif.Generated.C01
open OllamaVerif.Sched
/-- extractor output: deletes=1 guardedDeletes=1; guardDelete=true; recheckGrant=true; deletesElsewhere=0 -/
def treeVariant : Variant := ⟨true, true⟩
def deletesElsewhere : Nat := 0
end OllamaVerif.Generated.C01
