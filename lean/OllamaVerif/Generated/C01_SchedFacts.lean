-- REGENERATED on every run by vlib/checks/sched_common.py (harness/cmd/schedfacts) from /repo's sched.go.
import OllamaVerif.Model.Sched
namespace OllamaVerif.Generated.C01
open OllamaVerif.Sched
/-- extractor output: deletes=1 guardedDeletes=1; guardDelete=true; recheckGrant=true; deletesElsewhere=0; expiredCaseFound=true; expiredAtomic=true; unloadUnderLoadedMu=true; evictBlockFound=true; evictAtomic=true; enqueueNonBlocking=true; waitUnloadPure=true -/
def treeVariant : Variant := ⟨true, true⟩
def deletesElsewhere : Nat := 0
/-- the expired handler tests refCount and unloads in ONE critical section of refMu (no check-then-act window) -/
def expiredAtomic : Bool := true
/-- unload() and the delete from `loaded` happen while loadedMu is held (the model's atomic `cExp` region) -/
def unloadUnderLoadedMu : Bool := true
/-- processPending marks its eviction victim (sessionDuration = 0) and tests whether it is idle in ONE critical
    section of the victim's refMu (the model's atomic `pExpire` region) -/
def evictAtomic : Bool := true
/-- GetRunner enqueues with a non-blocking send (`select … default: ErrMaxQueue`): the model's `submit` never blocks -/
def enqueueNonBlocking : Bool := true
/-- the `<-s.unloadedCh` arms of processPending only log and continue (`pDrainUnloaded` / `pWaitUnload` change nothing else) -/
def waitUnloadPure : Bool := true
end OllamaVerif.Generated.C01
