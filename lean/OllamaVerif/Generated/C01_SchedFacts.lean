-- REGENERATED on every run by vlib/checks/sched_common.py (harness/cmd/schedfacts + behavioural probe) from /repo's sched.go.
import OllamaVerif.Model.SchedChan
namespace OllamaVerif.Generated.C01
open OllamaVerif.Sched
/-- extractor output: deletes=1 guardedDeletes=1 bareDeletes=0; guardDeleteAst=guarded; recheckInUse=present callerRetries=present; recheckGrantAst=present; deletesElsewhere=0; expiredCaseFound=true; expiredAtomic=true; unloadUnderLoadedMu=true; evictBlockFound=true; evictAtomic=true; enqueueNonBlocking=true; waitUnloadPure=true; unloadedChRecvArms=2; cap_pendingReqCh=envconfigMaxQueue; cap_finishedReqCh=envconfigMaxQueue; cap_expiredCh=envconfigMaxQueue; cap_unloadedCh=envconfigMaxQueue; expiredOrderFixed=true; idleDrains=true; unloadClosesOnce=true; sendSites=expiredCh:,expiredCh:loadedMu+refMu,expiredCh:refMu,finishedReqCh:,pendingReqCh:,unloadedCh:; inlinedHelpers= -/
def extractorOutput : Unit := ()
/-- the variant of the model the tree implements: each flag = (the real scheduler stays inside the property on the
    F12a resp. F12b witness schedules) AND (go/ast does not find an unguarded delete resp. a missing re-check);
    probe ran=True guardDelete=True recheckGrant=True; go/ast guardDelete=guarded recheckGrant=present -/
def treeVariant : Variant := ⟨true, true⟩
def deletesElsewhere : Nat := 0
/-- the expired handler tests refCount and unloads in ONE critical section of refMu (no check-then-act window) -/
def expiredAtomic : Bool := true
/-- unload() and the delete from `loaded` happen while loadedMu is held (the model's atomic `cExp` region) -/
def unloadUnderLoadedMu : Bool := true
/-- processPending marks its eviction victim (sessionDuration = 0) and tests whether it is idle in ONE critical
    section of the victim's refMu (the model's atomic `pExpire` region) -/
def evictAtomic : Bool := true
/-- GetRunner enqueues with a non-blocking send (`select … default: ErrMaxQueue`): the model's `submit` never blocks -/
def enqueueNonBlocking : Bool := true
/-- the `<-s.unloadedCh` arms of processPending only log and continue (`pDrainUnloaded` / `pWaitUnload` change nothing else) -/
def waitUnloadPure : Bool := true
/-- number of selects of processPending that receive from unloadedCh (the idle select = `pDrainUnloaded`, the
    wait-for-unload select = `pWaitUnload`) -/
def unloadedChRecvArms : Nat := 2
/-- InitScheduler makes all four scheduler channels with capacity envconfig.MaxQueue() (the model's `maxQueue`) -/
def chanCapsAreMaxQueue : Bool := true
/-- the parameters of the bounded model (Model/SchedChan.lean): ⟨the expired case takes loadedMu before refMu, the idle
    select of processPending receives from unloadedCh⟩ -/
def treeCfg : OllamaVerif.SchedChan.Cfg := ⟨true, true⟩
/-- unload() calls Close() only where `llama != nil` is implied and sets llama = nil afterwards; no other Close() site
    except unloadAllRunners (shutdown): a second unload() of a runner is a no-op (the model's `if x.closed` in `cExp`) -/
def unloadClosesOnce : Bool := true
/-- every blocking send on a scheduler channel with the mutexes (textually) held there, as a sorted set -/
def sendSites : List (String × List String) := [("expiredCh", []), ("expiredCh", ["loadedMu", "refMu"]), ("expiredCh", ["refMu"]), ("finishedReqCh", []), ("pendingReqCh", []), ("unloadedCh", [])]
end OllamaVerif.Generated.C01
