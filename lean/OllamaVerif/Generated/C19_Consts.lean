-- REGENERATED on every run by vlib/checks/c19.py from the tree under test. Do not edit.
import OllamaVerif.Model.Prompt
namespace OllamaVerif.Generated.C19
open OllamaVerif OllamaVerif.Prompt
/-! facts obtained by executing the real chatPrompt / template.Execute on probe inputs (c19WriteConsts) -/
def thresholdPlain : Int := 771
def cost0Plain : Nat := 3
def thresholdMllama : Int := 4
def cost0Mllama : Nat := 3
def thresholdMllamaRaw : Int := 4
def cost0MllamaRaw : Nat := 3
def thresholdNilProjector : Int := 3
def cost0NilProjector : Nat := 3
def thresholdEmptyProjector : Int := 771
def cost0EmptyProjector : Nat := 3
def negLimitCalls : Nat := 1
def negLimitKept : Nat := 1
def singleCalls : Nat := 0
def collateProbe : Bytes := [91, 117, 115, 101, 114, 124, 97, 10, 10, 98, 93]
def systemJoinProbe : Bytes := [83, 60, 97, 10, 10, 98, 62, 91, 117, 115, 101, 114, 124, 120, 93]
def legacyJoinProbe : Bytes := [97, 10, 10, 98, 32]
def variantBits : Nat := 13
def f4Probe : Bytes := [83, 89, 83, 32, 104, 105, 32]
def cutElseProbe : Bytes := [104, 105]
def legacyOrderProbe : Bytes := [97, 32, 115, 32, 98, 32, 99, 32, 116, 32]
end OllamaVerif.Generated.C19
