-- REGENERATED on every run by vlib/checks/c08.py from /repo's working tree. Do not edit.
namespace OllamaVerif.Generated.C08
/-- does `DiskCache.Link` in the tree rename a verified temporary file over the link (true), or copy in place
    with copyNamedFile's same-size shortcut (false, finding F8)? -/
def linkFixed : Bool := true
/-- does it refuse a zero-length blob file unless the digest is that of the empty string? -/
def linkZeroCheck : Bool := true
end OllamaVerif.Generated.C08
