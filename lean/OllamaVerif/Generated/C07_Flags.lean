-- REGENERATED on every run by vlib/checks/c07.py from /repo's working tree. Do not edit.
namespace OllamaVerif.Generated.C07
/-- end index of `_ = c.cache.Remove(slot.Id, 0, ·)` in the failure path of ShiftCacheSlot -/
def resetEnd : Int := 2147483647
end OllamaVerif.Generated.C07
