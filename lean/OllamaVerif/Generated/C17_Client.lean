-- REGENERATED on every run by vlib/checks/c17.py from /repo's api/client.go. Do not edit.
namespace OllamaVerif.Generated.C17
/-- the size of the bufio.Scanner buffer of api.Client.stream, in bytes -/
def clientMaxLine : Nat := 512000
end OllamaVerif.Generated.C17
