-- REGENERATED on every run by vlib/checks/c08.py from /repo's working tree. Do not edit.
namespace OllamaVerif.Generated.C08
/-- the limit `Resolve` passes to `readAndSum` (0 = could not be extracted: the Tie theorems fail) -/
def resolveReadLimit : Nat := 1048576
/-- the largest manifest size Link's already-linked test recognises = the limit it passes to `readAndSum` -/
def linkReadLimit : Nat := 1048576
/-- does `readAndSum` refuse a file longer than the limit (proposed_fixes/C08-F28.patch) instead of cutting it? -/
def readStrict : Bool := true
/-- does `copyNamedFile` refuse a negative size (proposed_fixes/C08-F29.patch)? -/
def negRefused : Bool := true
end OllamaVerif.Generated.C08
