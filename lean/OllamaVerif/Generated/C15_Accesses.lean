-- REGENERATED on every run by vlib/checks/c15.py (harness/cmd/lockset) from the working tree. Do not edit.
import OllamaVerif.Model.Lockset
namespace OllamaVerif.Generated.C15
open OllamaVerif.Lockset

def classNames : List String := ["Scheduler.expiredCh", "Scheduler.finishedReqCh", "Scheduler.getCpuFn", "Scheduler.getGpuFn", "Scheduler.loadFn", "Scheduler.loaded", "Scheduler.newServerFn", "Scheduler.pendingReqCh", "Scheduler.reschedDelay", "Scheduler.unloadedCh", "Server.addr", "Server.sched", "blobDownload.CancelFunc", "blobDownload.Completed", "blobDownload.Digest", "blobDownload.Name", "blobDownload.Parts", "blobDownload.Total", "blobDownload.done", "blobDownload.err", "blobDownload.references", "blobDownloadPart.Completed", "blobDownloadPart.N", "blobDownloadPart.Offset", "blobDownloadPart.Size", "blobDownloadPart.blobDownload", "blobDownloadPart.lastUpdated", "blobUpload.CancelFunc", "blobUpload.Completed", "blobUpload.Layer", "blobUpload.Parts", "blobUpload.Total", "blobUpload.done", "blobUpload.err", "blobUpload.file", "blobUpload.nextURL", "blobUpload.references", "blobUploadPart.Hash", "blobUploadPart.N", "blobUploadPart.Offset", "blobUploadPart.Size", "global.blobDownloadManager", "global.blobUploadManager", "global.intermediateBlobs", "runnerRef.Options", "runnerRef.estimatedTotal", "runnerRef.estimatedVRAM", "runnerRef.expireTimer", "runnerRef.expiresAt", "runnerRef.gpus", "runnerRef.llama", "runnerRef.loading", "runnerRef.model", "runnerRef.modelPath", "runnerRef.numParallel", "runnerRef.refCount", "runnerRef.sessionDuration"]
def lockNames : List String := ["Scheduler.loadedMu", "blobDownloadPart.lastUpdatedMu", "runnerRef.refMu"]
def threadNames : List String := ["Scheduler.Run$1", "Scheduler.Run$2", "Scheduler.load$1", "Scheduler.load$1$1", "Scheduler.processCompleted$1", "Scheduler.processCompleted$2", "Scheduler.processPending$1", "Serve$2", "Server.CreateHandler$1", "Server.PullHandler$1", "Server.PushHandler$1", "api", "blobDownload.downloadChunk$1", "blobDownload.downloadChunk$2", "blobDownload.run$2", "blobUpload.Run$1", "go:downloadBlob:download.Run", "go:uploadBlob:upload.Run", "main", "runnerRef.waitForVRAMRecovery$1"]
def siteNames : List String := ["InitScheduler:70", "Scheduler.processPending:295", "Scheduler.processCompleted:342", "Scheduler.expireRunner:848", "Scheduler.processCompleted$1:353", "Scheduler.processCompleted$2:376", "Scheduler.load$1:480", "InitScheduler:69", "Scheduler.processPending:153", "Scheduler.processCompleted:325", "Scheduler.load$1$1:488", "InitScheduler:75", "Scheduler.processPending:167", "InitScheduler:74", "Scheduler.processPending:169", "InitScheduler:78", "Scheduler.processPending:217", "Server.PsHandler:1433", "InitScheduler:72", "Scheduler.processPending:145", "Scheduler.processCompleted:327", "Scheduler.processCompleted:391", "Scheduler.load:469", "Scheduler.load:470", "Scheduler.updateFreeSpace:501", "Scheduler.filterGPUsWithoutLoadingModels:541", "Scheduler.findRunnerToUnload:795", "Scheduler.findRunnerToUnload:796", "Scheduler.unloadAllRunners:827", "Scheduler.expireRunner:838", "InitScheduler:73", "Scheduler.load:441", "InitScheduler:68", "Scheduler.GetRunner:98", "Scheduler.processPending:123", "Scheduler.processPending$1:273", "InitScheduler:76", "Scheduler.processPending$1:272", "InitScheduler:71", "Scheduler.processPending:306", "Scheduler.processCompleted:399", "Server.GenerateRoutes:1206", "Serve:1308", "Server.scheduleRunner:109", "Server.GenerateHandler:167", "Serve:1329", "Serve:1355", "Server.PsHandler:1432", "Server.ChatHandler:1498", "blobDownload.release:432", "downloadBlob:498", "blobDownloadPart.Write:120", "blobDownload.Prepare:142", "blobDownload.Wait:450", "blobDownload.downloadChunk$1:346", "blobDownload.Prepare:178", "blobDownload.run:216", "blobDownload.Wait:447", "blobDownload.run$2:295", "blobDownload.downloadChunk$2:374", "blobDownloadPart.Name:106", "blobDownload.Prepare:128", "blobDownload.run:218", "blobDownload.run:322", "blobDownload.Prepare:143", "blobDownload.run:275", "blobDownload.newPart:391", "blobDownload.newPart:396", "blobDownload.Prepare:141", "blobDownload.Prepare:155", "blobDownload.run:225", "blobDownload.Wait:449", "blobDownload.Prepare:133", "blobDownload.Run:185", "blobDownload.Wait:443", "blobDownload.Run:186", "blobDownload.Wait:444", "blobDownload.acquire:427", "blobDownload.release:431", "blobDownloadPart.MarshalJSON:80", "blobDownloadPart.UnmarshalJSON:94", "blobDownloadPart.StartsAt:111", "blobDownload.run:277", "blobDownload.downloadChunk$1:343", "blobDownload.downloadChunk$1:350", "blobDownload.downloadChunk$2:364", "blobDownloadPart.MarshalJSON:77", "blobDownloadPart.UnmarshalJSON:90", "blobDownloadPart.MarshalJSON:78", "blobDownloadPart.UnmarshalJSON:91", "blobDownloadPart.StopsAt:115", "blobDownloadPart.MarshalJSON:79", "blobDownloadPart.UnmarshalJSON:92", "blobDownload.readPart:412", "blobDownloadPart.Write:122", "blobDownload.downloadChunk$2:369", "blobDownload.downloadChunk$2:377", "blobUpload.release:320", "uploadBlob:398", "blobUpload.Prepare:87", "blobUpload.Wait:340", "progressWriter.Write:365", "progressWriter.Rollback:370", "blobUpload.Prepare:54", "blobUpload.Run:128", "blobUpload.Run:196", "blobUpload.uploadPart:276", "blobUpload.Wait:337", "blobUpload.Run$1:161", "blobUpload.Prepare:107", "blobUpload.Run:145", "blobUpload.Prepare:82", "blobUpload.Wait:339", "blobUpload.Prepare:88", "blobUpload.Run:220", "blobUpload.Wait:343", "blobUpload.Run:132", "blobUpload.Run:175", "blobUpload.Wait:344", "blobUpload.Run:136", "blobUpload.Run:141", "blobUpload.uploadPart:233", "blobUpload.Prepare:120", "blobUpload.Prepare:121", "blobUpload.Run:149", "blobUpload.uploadPart:259", "blobUpload.acquire:315", "blobUpload.release:319", "blobUpload.uploadPart:310", "blobUpload.uploadPart:230", "blobUpload.Prepare:112", "blobUpload.uploadPart:226", "Server.CreateBlobHandler:1038", "Server.CreateBlobHandler:1047", "Scheduler.load:457", "runnerRef.unload:591", "runnerRef.needsReload:605", "runnerRef.needsReload:610", "Server.PsHandler:1446", "Scheduler.load:461", "Server.PsHandler:1447", "Scheduler.load:460", "runnerRef.waitForVRAMRecovery$1:683", "Scheduler.processPending:289", "Scheduler.processPending:290", "Scheduler.processPending:291", "Scheduler.processCompleted:338", "Scheduler.processCompleted:339", "Scheduler.processCompleted:340", "Scheduler.processCompleted:345", "LlmRequest.useLoadedRunner:417", "LlmRequest.useLoadedRunner:418", "LlmRequest.useLoadedRunner:419", "runnerRef.unload:582", "runnerRef.unload:583", "runnerRef.unload:584", "Scheduler.expireRunner:842", "Scheduler.expireRunner:843", "Scheduler.expireRunner:844", "Scheduler.processCompleted$1:349", "Scheduler.processCompleted$1:350", "Scheduler.processCompleted$1:351", "Server.PsHandler:1450", "Scheduler.processCompleted:355", "Scheduler.processCompleted:359", "Scheduler.expireRunner:841", "Scheduler.load:459", "Scheduler.filterGPUsWithoutLoadingModels:543", "runnerRef.unload:592", "runnerRef.waitForVRAMRecovery:649", "Server.scheduleRunner:117", "LlmRequest.useLoadedRunner:411", "Scheduler.load:456", "Scheduler.updateFreeSpace:503", "Scheduler.updateFreeSpace:505", "runnerRef.unload:586", "runnerRef.unload:587", "runnerRef.unload:590", "runnerRef.needsReload:629", "Scheduler.unloadAllRunners:828", "Scheduler.unloadAllRunners:830", "Scheduler.load:462", "Scheduler.filterGPUsWithoutLoadingModels:542", "runnerRef.needsReload:601", "Scheduler.load$1:484", "Server.PsHandler:1434", "Scheduler.load:454", "runnerRef.unload:589", "runnerRef.needsReload:626", "Scheduler.processPending:288", "Scheduler.processPending:301", "Scheduler.processCompleted:337", "Scheduler.processCompleted:357", "Scheduler.processCompleted:365", "Scheduler.processCompleted:371", "Scheduler.load:455", "ByDurationAndName.Less:705", "Scheduler.processCompleted$1:346", "Scheduler.load$1:479", "runnerRef.waitForVRAMRecovery$1:671", "Scheduler.load:465", "runnerRef.needsReload:618", "Scheduler.processCompleted:334", "Scheduler.processCompleted:335", "Scheduler.processCompleted:370", "LlmRequest.useLoadedRunner:416", "Scheduler.load:463", "Scheduler.findRunnerToUnload:812", "Scheduler.expireRunner:847", "Scheduler.load$1:477", "Server.PsHandler:1457", "Scheduler.processPending:293", "Scheduler.processCompleted:336", "LlmRequest.useLoadedRunner:422", "Scheduler.load:458", "ByDurationAndName.Less:699", "Scheduler.expireRunner:846"]
def hbNames : List String := ["-", "holder (C01: no unload while a request holds the runner)", "doneclose (write before close(done), read after <-done)"]

private def mk (site cls : Nat) (kind : Kind) (locks : List LockRef) (thread : Nat) (single init racy atomic : Bool)
    (pre post hb : List Nat) (use live valid : Bool) : Access :=
  { site, cls, kind, locks, thread, single, init, racy, atomic, pre, post, hb, use, live, valid }

def accesses : List Access := [
  mk 0 0 .write [] 18 true true false false [10, 11] [] [] true false false,  -- 0 Scheduler.expiredCh InitScheduler:70 @main
  mk 1 0 .read [] 0 true false false false [] [13] [] true false false,  -- 1 Scheduler.expiredCh Scheduler.processPending:295 @Scheduler.Run$1
  mk 2 0 .read [] 1 true false false false [] [14] [] true false false,  -- 2 Scheduler.expiredCh Scheduler.processCompleted:342 @Scheduler.Run$2
  mk 3 0 .read [⟨0, false⟩] 11 false false false false [] [11] [] true false false,  -- 3 Scheduler.expiredCh Scheduler.expireRunner:848 @api
  mk 4 0 .read [] 4 false false false false [] [14] [] true false false,  -- 4 Scheduler.expiredCh Scheduler.processCompleted$1:353 @Scheduler.processCompleted$1
  mk 5 0 .read [] 5 false false false false [] [14] [] true false false,  -- 5 Scheduler.expiredCh Scheduler.processCompleted$2:376 @Scheduler.processCompleted$2
  mk 6 0 .read [] 2 false false false false [] [13] [] true false false,  -- 6 Scheduler.expiredCh Scheduler.load$1:480 @Scheduler.load$1
  mk 7 1 .write [] 18 true true false false [10, 11] [] [] true false false,  -- 7 Scheduler.finishedReqCh InitScheduler:69 @main
  mk 8 1 .read [] 0 true false false false [] [13] [] true false false,  -- 8 Scheduler.finishedReqCh Scheduler.processPending:153 @Scheduler.Run$1
  mk 9 1 .read [] 1 true false false false [] [14] [] true false false,  -- 9 Scheduler.finishedReqCh Scheduler.processCompleted:325 @Scheduler.Run$2
  mk 10 1 .read [] 3 false false false false [] [13] [] true false false,  -- 10 Scheduler.finishedReqCh Scheduler.load$1$1:488 @Scheduler.load$1$1
  mk 11 2 .write [] 18 true true false false [10, 11] [] [] true false false,  -- 11 Scheduler.getCpuFn InitScheduler:75 @main
  mk 12 2 .read [] 0 true false false false [] [13] [] true false false,  -- 12 Scheduler.getCpuFn Scheduler.processPending:167 @Scheduler.Run$1
  mk 13 3 .write [] 18 true true false false [10, 11] [] [] true false false,  -- 13 Scheduler.getGpuFn InitScheduler:74 @main
  mk 14 3 .read [] 0 true false false false [] [13] [] true false false,  -- 14 Scheduler.getGpuFn Scheduler.processPending:169 @Scheduler.Run$1
  mk 15 4 .write [] 18 true true false false [10, 11] [] [] true false false,  -- 15 Scheduler.loadFn InitScheduler:78 @main
  mk 16 4 .read [] 0 true false false false [] [13] [] true false false,  -- 16 Scheduler.loadFn Scheduler.processPending:217 @Scheduler.Run$1
  mk 17 5 .mapIter [⟨0, false⟩] 11 false false false false [] [11] [] true false false,  -- 17 Scheduler.loaded Server.PsHandler:1433 @api
  mk 18 5 .write [] 18 true true false false [10, 11] [] [] true false false,  -- 18 Scheduler.loaded InitScheduler:72 @main
  mk 19 5 .mapRead [⟨0, false⟩] 0 true false false false [] [13] [] true false false,  -- 19 Scheduler.loaded Scheduler.processPending:145 @Scheduler.Run$1
  mk 20 5 .mapRead [⟨0, false⟩] 1 true false false false [] [14] [] true false false,  -- 20 Scheduler.loaded Scheduler.processCompleted:327 @Scheduler.Run$2
  mk 21 5 .mapDelete [⟨0, false⟩] 1 true false false false [] [14] [] true false false,  -- 21 Scheduler.loaded Scheduler.processCompleted:391 @Scheduler.Run$2
  mk 22 5 .mapInsert [⟨0, false⟩] 0 true false false false [] [13] [] true false false,  -- 22 Scheduler.loaded Scheduler.load:469 @Scheduler.Run$1
  mk 23 5 .mapRead [⟨0, false⟩] 0 true false false false [] [13] [] true false false,  -- 23 Scheduler.loaded Scheduler.load:470 @Scheduler.Run$1
  mk 24 5 .mapIter [⟨0, false⟩] 0 true false false false [] [13] [] true false false,  -- 24 Scheduler.loaded Scheduler.updateFreeSpace:501 @Scheduler.Run$1
  mk 25 5 .mapIter [⟨0, false⟩] 0 true false false false [] [13] [] true false false,  -- 25 Scheduler.loaded Scheduler.filterGPUsWithoutLoadingModels:541 @Scheduler.Run$1
  mk 26 5 .mapRead [⟨0, false⟩] 0 true false false false [] [13] [] true false false,  -- 26 Scheduler.loaded Scheduler.findRunnerToUnload:795 @Scheduler.Run$1
  mk 27 5 .mapIter [⟨0, false⟩] 0 true false false false [] [13] [] true false false,  -- 27 Scheduler.loaded Scheduler.findRunnerToUnload:796 @Scheduler.Run$1
  mk 28 5 .mapIter [⟨0, false⟩] 7 true false false false [] [10] [] true false false,  -- 28 Scheduler.loaded Scheduler.unloadAllRunners:827 @Serve$2
  mk 29 5 .mapRead [⟨0, false⟩] 11 false false false false [] [11] [] true false false,  -- 29 Scheduler.loaded Scheduler.expireRunner:838 @api
  mk 30 6 .write [] 18 true true false false [10, 11] [] [] true false false,  -- 30 Scheduler.newServerFn InitScheduler:73 @main
  mk 31 6 .read [] 0 true false false false [] [13] [] true false false,  -- 31 Scheduler.newServerFn Scheduler.load:441 @Scheduler.Run$1
  mk 32 7 .write [] 18 true true false false [10, 11] [] [] true false false,  -- 32 Scheduler.pendingReqCh InitScheduler:68 @main
  mk 33 7 .read [] 11 false false false false [] [11] [] true false false,  -- 33 Scheduler.pendingReqCh Scheduler.GetRunner:98 @api
  mk 34 7 .read [] 0 true false false false [] [13] [] true false false,  -- 34 Scheduler.pendingReqCh Scheduler.processPending:123 @Scheduler.Run$1
  mk 35 7 .read [] 6 false false false false [] [13] [] true false false,  -- 35 Scheduler.pendingReqCh Scheduler.processPending$1:273 @Scheduler.processPending$1
  mk 36 8 .write [] 18 true true false false [10, 11] [] [] true false false,  -- 36 Scheduler.reschedDelay InitScheduler:76 @main
  mk 37 8 .read [] 6 false false false false [] [13] [] true false false,  -- 37 Scheduler.reschedDelay Scheduler.processPending$1:272 @Scheduler.processPending$1
  mk 38 9 .write [] 18 true true false false [10, 11] [] [] true false false,  -- 38 Scheduler.unloadedCh InitScheduler:71 @main
  mk 39 9 .read [] 0 true false false false [] [13] [] true false false,  -- 39 Scheduler.unloadedCh Scheduler.processPending:306 @Scheduler.Run$1
  mk 40 9 .read [] 1 true false false false [] [14] [] true false false,  -- 40 Scheduler.unloadedCh Scheduler.processCompleted:399 @Scheduler.Run$2
  mk 41 10 .read [] 18 true false false false [10, 11] [] [] true false false,  -- 41 Server.addr Server.GenerateRoutes:1206 @main
  mk 42 10 .write [] 18 true true false false [10, 11] [] [] true false false,  -- 42 Server.addr Serve:1308 @main
  mk 43 11 .read [] 11 false false false false [] [11] [] true false false,  -- 43 Server.sched Server.scheduleRunner:109 @api
  mk 44 11 .read [] 11 false false false false [] [11] [] true false false,  -- 44 Server.sched Server.GenerateHandler:167 @api
  mk 45 11 .write [] 18 true false false false [10, 11] [] [] true false false,  -- 45 Server.sched Serve:1329 @main
  mk 46 11 .read [] 18 true false false false [11] [] [] true false false,  -- 46 Server.sched Serve:1355 @main
  mk 47 11 .read [] 11 false false false false [] [11] [] true false false,  -- 47 Server.sched Server.PsHandler:1432 @api
  mk 17 11 .read [⟨0, false⟩] 11 false false false false [] [11] [] true false false,  -- 48 Server.sched Server.PsHandler:1433 @api
  mk 48 11 .read [] 11 false false false false [] [11] [] true false false,  -- 49 Server.sched Server.ChatHandler:1498 @api
  mk 49 12 .read [] 8 false false false false [] [11] [] true false false,  -- 50 blobDownload.CancelFunc blobDownload.release:432 @Server.CreateHandler$1
  mk 49 12 .read [] 9 false false false false [] [11] [] true false false,  -- 51 blobDownload.CancelFunc blobDownload.release:432 @Server.PullHandler$1
  mk 50 12 .write [] 8 false true false false [5] [11] [] true false false,  -- 52 blobDownload.CancelFunc downloadBlob:498 @Server.CreateHandler$1
  mk 50 12 .write [] 9 false true false false [5] [11] [] true false false,  -- 53 blobDownload.CancelFunc downloadBlob:498 @Server.PullHandler$1
  mk 51 13 .write [] 11 false false false true [] [11] [] true false false,  -- 54 blobDownload.Completed blobDownloadPart.Write:120 @api
  mk 52 13 .write [] 8 false false false true [5] [11] [] true false false,  -- 55 blobDownload.Completed blobDownload.Prepare:142 @Server.CreateHandler$1
  mk 52 13 .write [] 9 false false false true [5] [11] [] true false false,  -- 56 blobDownload.Completed blobDownload.Prepare:142 @Server.PullHandler$1
  mk 53 13 .read [] 8 false false false true [] [11] [] true false false,  -- 57 blobDownload.Completed blobDownload.Wait:450 @Server.CreateHandler$1
  mk 53 13 .read [] 9 false false false true [] [11] [] true false false,  -- 58 blobDownload.Completed blobDownload.Wait:450 @Server.PullHandler$1
  mk 54 13 .write [] 12 false false false true [] [2, 5, 11] [] true false false,  -- 59 blobDownload.Completed blobDownload.downloadChunk$1:346 @blobDownload.downloadChunk$1
  mk 55 14 .read [] 8 false false false false [5] [11] [] true false false,  -- 60 blobDownload.Digest blobDownload.Prepare:178 @Server.CreateHandler$1
  mk 55 14 .read [] 9 false false false false [5] [11] [] true false false,  -- 61 blobDownload.Digest blobDownload.Prepare:178 @Server.PullHandler$1
  mk 56 14 .read [] 16 true false false false [2] [5, 11] [] true false false,  -- 62 blobDownload.Digest blobDownload.run:216 @go:downloadBlob:download.Run
  mk 57 14 .read [] 8 false false false false [] [11] [] true false false,  -- 63 blobDownload.Digest blobDownload.Wait:447 @Server.CreateHandler$1
  mk 57 14 .read [] 9 false false false false [] [11] [] true false false,  -- 64 blobDownload.Digest blobDownload.Wait:447 @Server.PullHandler$1
  mk 50 14 .write [] 8 false true false false [5] [11] [] true false false,  -- 65 blobDownload.Digest downloadBlob:498 @Server.CreateHandler$1
  mk 50 14 .write [] 9 false true false false [5] [11] [] true false false,  -- 66 blobDownload.Digest downloadBlob:498 @Server.PullHandler$1
  mk 58 14 .read [] 14 false false false false [] [2, 5, 11] [] true false false,  -- 67 blobDownload.Digest blobDownload.run$2:295 @blobDownload.run$2
  mk 59 14 .read [] 13 false false false false [] [2, 5, 11] [] true false false,  -- 68 blobDownload.Digest blobDownload.downloadChunk$2:374 @blobDownload.downloadChunk$2
  mk 60 15 .read [] 8 false false false false [] [11] [] true false false,  -- 69 blobDownload.Name blobDownloadPart.Name:106 @Server.CreateHandler$1
  mk 60 15 .read [] 9 false false false false [] [11] [] true false false,  -- 70 blobDownload.Name blobDownloadPart.Name:106 @Server.PullHandler$1
  mk 60 15 .read [] 12 false false false false [] [11] [] true false false,  -- 71 blobDownload.Name blobDownloadPart.Name:106 @blobDownload.downloadChunk$1
  mk 61 15 .read [] 8 false false false false [5] [11] [] true false false,  -- 72 blobDownload.Name blobDownload.Prepare:128 @Server.CreateHandler$1
  mk 61 15 .read [] 9 false false false false [5] [11] [] true false false,  -- 73 blobDownload.Name blobDownload.Prepare:128 @Server.PullHandler$1
  mk 62 15 .read [] 16 true false false false [2] [5, 11] [] true false false,  -- 74 blobDownload.Name blobDownload.run:218 @go:downloadBlob:download.Run
  mk 63 15 .read [] 16 true false false false [] [5, 11] [] true false false,  -- 75 blobDownload.Name blobDownload.run:322 @go:downloadBlob:download.Run
  mk 50 15 .write [] 8 false true false false [5] [11] [] true false false,  -- 76 blobDownload.Name downloadBlob:498 @Server.CreateHandler$1
  mk 50 15 .write [] 9 false true false false [5] [11] [] true false false,  -- 77 blobDownload.Name downloadBlob:498 @Server.PullHandler$1
  mk 64 16 .read [] 8 false false false false [5] [11] [] true false false,  -- 78 blobDownload.Parts blobDownload.Prepare:143 @Server.CreateHandler$1
  mk 64 16 .read [] 9 false false false false [5] [11] [] true false false,  -- 79 blobDownload.Parts blobDownload.Prepare:143 @Server.PullHandler$1
  mk 64 16 .write [] 8 false false false false [5] [11] [] true false false,  -- 80 blobDownload.Parts blobDownload.Prepare:143 @Server.CreateHandler$1
  mk 64 16 .write [] 9 false false false false [5] [11] [] true false false,  -- 81 blobDownload.Parts blobDownload.Prepare:143 @Server.PullHandler$1
  mk 65 16 .read [] 16 true false false false [] [5, 11] [] true false false,  -- 82 blobDownload.Parts blobDownload.run:275 @go:downloadBlob:download.Run
  mk 66 16 .read [] 8 false false false false [5] [11] [] true false false,  -- 83 blobDownload.Parts blobDownload.newPart:391 @Server.CreateHandler$1
  mk 66 16 .read [] 9 false false false false [5] [11] [] true false false,  -- 84 blobDownload.Parts blobDownload.newPart:391 @Server.PullHandler$1
  mk 67 16 .write [] 8 false false false false [5] [11] [] true false false,  -- 85 blobDownload.Parts blobDownload.newPart:396 @Server.CreateHandler$1
  mk 67 16 .write [] 9 false false false false [5] [11] [] true false false,  -- 86 blobDownload.Parts blobDownload.newPart:396 @Server.PullHandler$1
  mk 68 17 .write [] 8 false false false false [5] [11] [] true false false,  -- 87 blobDownload.Total blobDownload.Prepare:141 @Server.CreateHandler$1
  mk 68 17 .write [] 9 false false false false [5] [11] [] true false false,  -- 88 blobDownload.Total blobDownload.Prepare:141 @Server.PullHandler$1
  mk 69 17 .read [] 8 false false false false [5] [11] [] true false false,  -- 89 blobDownload.Total blobDownload.Prepare:155 @Server.CreateHandler$1
  mk 69 17 .read [] 9 false false false false [5] [11] [] true false false,  -- 90 blobDownload.Total blobDownload.Prepare:155 @Server.PullHandler$1
  mk 70 17 .read [] 16 true false false false [2] [5, 11] [] true false false,  -- 91 blobDownload.Total blobDownload.run:225 @go:downloadBlob:download.Run
  mk 71 17 .read [] 8 false false false false [] [11] [] true false false,  -- 92 blobDownload.Total blobDownload.Wait:449 @Server.CreateHandler$1
  mk 71 17 .read [] 9 false false false false [] [11] [] true false false,  -- 93 blobDownload.Total blobDownload.Wait:449 @Server.PullHandler$1
  mk 72 18 .write [] 8 false false false false [5] [11] [] true false false,  -- 94 blobDownload.done blobDownload.Prepare:133 @Server.CreateHandler$1
  mk 72 18 .write [] 9 false false false false [5] [11] [] true false false,  -- 95 blobDownload.done blobDownload.Prepare:133 @Server.PullHandler$1
  mk 73 18 .read [] 16 true false false false [] [5, 11] [] true false false,  -- 96 blobDownload.done blobDownload.Run:185 @go:downloadBlob:download.Run
  mk 74 18 .read [] 8 false false false false [] [11] [2] true false false,  -- 97 blobDownload.done blobDownload.Wait:443 @Server.CreateHandler$1
  mk 74 18 .read [] 9 false false false false [] [11] [2] true false false,  -- 98 blobDownload.done blobDownload.Wait:443 @Server.PullHandler$1
  mk 75 19 .write [] 16 true false false false [] [5, 11] [2] true false false,  -- 99 blobDownload.err blobDownload.Run:186 @go:downloadBlob:download.Run
  mk 76 19 .read [] 8 false false false false [] [11] [2] true false false,  -- 100 blobDownload.err blobDownload.Wait:444 @Server.CreateHandler$1
  mk 76 19 .read [] 9 false false false false [] [11] [2] true false false,  -- 101 blobDownload.err blobDownload.Wait:444 @Server.PullHandler$1
  mk 77 20 .write [] 8 false false false true [] [11] [] true false false,  -- 102 blobDownload.references blobDownload.acquire:427 @Server.CreateHandler$1
  mk 77 20 .write [] 9 false false false true [] [11] [] true false false,  -- 103 blobDownload.references blobDownload.acquire:427 @Server.PullHandler$1
  mk 78 20 .write [] 8 false false false true [] [11] [] true false false,  -- 104 blobDownload.references blobDownload.release:431 @Server.CreateHandler$1
  mk 78 20 .write [] 9 false false false true [] [11] [] true false false,  -- 105 blobDownload.references blobDownload.release:431 @Server.PullHandler$1
  mk 79 21 .read [] 11 false false false true [] [11] [] true false false,  -- 106 blobDownloadPart.Completed blobDownloadPart.MarshalJSON:80 @api
  mk 80 21 .write [] 11 false false false true [] [11] [] true false false,  -- 107 blobDownloadPart.Completed blobDownloadPart.UnmarshalJSON:94 @api
  mk 81 21 .read [] 12 false false false true [] [11] [] true false false,  -- 108 blobDownloadPart.Completed blobDownloadPart.StartsAt:111 @blobDownload.downloadChunk$1
  mk 81 21 .read [] 14 true false false true [] [11] [] true false false,  -- 109 blobDownloadPart.Completed blobDownloadPart.StartsAt:111 @blobDownload.run$2
  mk 52 21 .read [] 8 false false false true [] [11] [] true false false,  -- 110 blobDownloadPart.Completed blobDownload.Prepare:142 @Server.CreateHandler$1
  mk 52 21 .read [] 9 false false false true [] [11] [] true false false,  -- 111 blobDownloadPart.Completed blobDownload.Prepare:142 @Server.PullHandler$1
  mk 82 21 .read [] 16 false false false true [] [11] [] true false false,  -- 112 blobDownloadPart.Completed blobDownload.run:277 @go:downloadBlob:download.Run
  mk 83 21 .read [] 12 false false false true [] [11] [] true false false,  -- 113 blobDownloadPart.Completed blobDownload.downloadChunk$1:343 @blobDownload.downloadChunk$1
  mk 84 21 .write [] 12 false false false true [] [11] [] true false false,  -- 114 blobDownloadPart.Completed blobDownload.downloadChunk$1:350 @blobDownload.downloadChunk$1
  mk 85 21 .read [] 13 false false false true [] [11] [] true false false,  -- 115 blobDownloadPart.Completed blobDownload.downloadChunk$2:364 @blobDownload.downloadChunk$2
  mk 86 22 .read [] 11 false false false false [] [11] [] true false false,  -- 116 blobDownloadPart.N blobDownloadPart.MarshalJSON:77 @api
  mk 87 22 .write [] 11 false true false false [] [11] [] true false false,  -- 117 blobDownloadPart.N blobDownloadPart.UnmarshalJSON:90 @api
  mk 60 22 .read [] 8 false false false false [] [11] [] true false false,  -- 118 blobDownloadPart.N blobDownloadPart.Name:106 @Server.CreateHandler$1
  mk 60 22 .read [] 9 false false false false [] [11] [] true false false,  -- 119 blobDownloadPart.N blobDownloadPart.Name:106 @Server.PullHandler$1
  mk 60 22 .read [] 12 false false false false [] [11] [] true false false,  -- 120 blobDownloadPart.N blobDownloadPart.Name:106 @blobDownload.downloadChunk$1
  mk 66 22 .write [] 8 false true false false [] [11] [] true false false,  -- 121 blobDownloadPart.N blobDownload.newPart:391 @Server.CreateHandler$1
  mk 66 22 .write [] 9 false true false false [] [11] [] true false false,  -- 122 blobDownloadPart.N blobDownload.newPart:391 @Server.PullHandler$1
  mk 58 22 .read [] 14 true false false false [] [11] [] true false false,  -- 123 blobDownloadPart.N blobDownload.run$2:295 @blobDownload.run$2
  mk 59 22 .read [] 13 false false false false [] [11] [] true false false,  -- 124 blobDownloadPart.N blobDownload.downloadChunk$2:374 @blobDownload.downloadChunk$2
  mk 88 23 .read [] 11 false false false false [] [11] [] true false false,  -- 125 blobDownloadPart.Offset blobDownloadPart.MarshalJSON:78 @api
  mk 89 23 .write [] 11 false true false false [] [11] [] true false false,  -- 126 blobDownloadPart.Offset blobDownloadPart.UnmarshalJSON:91 @api
  mk 81 23 .read [] 12 false false false false [] [11] [] true false false,  -- 127 blobDownloadPart.Offset blobDownloadPart.StartsAt:111 @blobDownload.downloadChunk$1
  mk 81 23 .read [] 14 true false false false [] [11] [] true false false,  -- 128 blobDownloadPart.Offset blobDownloadPart.StartsAt:111 @blobDownload.run$2
  mk 90 23 .read [] 12 false false false false [] [11] [] true false false,  -- 129 blobDownloadPart.Offset blobDownloadPart.StopsAt:115 @blobDownload.downloadChunk$1
  mk 66 23 .write [] 8 false true false false [] [11] [] true false false,  -- 130 blobDownloadPart.Offset blobDownload.newPart:391 @Server.CreateHandler$1
  mk 66 23 .write [] 9 false true false false [] [11] [] true false false,  -- 131 blobDownloadPart.Offset blobDownload.newPart:391 @Server.PullHandler$1
  mk 91 24 .read [] 11 false false false false [] [11] [] true false false,  -- 132 blobDownloadPart.Size blobDownloadPart.MarshalJSON:79 @api
  mk 92 24 .write [] 11 false true false false [] [11] [] true false false,  -- 133 blobDownloadPart.Size blobDownloadPart.UnmarshalJSON:92 @api
  mk 90 24 .read [] 12 false false false false [] [11] [] true false false,  -- 134 blobDownloadPart.Size blobDownloadPart.StopsAt:115 @blobDownload.downloadChunk$1
  mk 68 24 .read [] 8 false false false false [] [11] [] true false false,  -- 135 blobDownloadPart.Size blobDownload.Prepare:141 @Server.CreateHandler$1
  mk 68 24 .read [] 9 false false false false [] [11] [] true false false,  -- 136 blobDownloadPart.Size blobDownload.Prepare:141 @Server.PullHandler$1
  mk 82 24 .read [] 16 false false false false [] [11] [] true false false,  -- 137 blobDownloadPart.Size blobDownload.run:277 @go:downloadBlob:download.Run
  mk 66 24 .write [] 8 false true false false [] [11] [] true false false,  -- 138 blobDownloadPart.Size blobDownload.newPart:391 @Server.CreateHandler$1
  mk 66 24 .write [] 9 false true false false [] [11] [] true false false,  -- 139 blobDownloadPart.Size blobDownload.newPart:391 @Server.PullHandler$1
  mk 83 24 .read [] 12 false false false false [] [11] [] true false false,  -- 140 blobDownloadPart.Size blobDownload.downloadChunk$1:343 @blobDownload.downloadChunk$1
  mk 85 24 .read [] 13 false false false false [] [11] [] true false false,  -- 141 blobDownloadPart.Size blobDownload.downloadChunk$2:364 @blobDownload.downloadChunk$2
  mk 60 25 .read [] 8 false false false false [] [11] [] true false false,  -- 142 blobDownloadPart.blobDownload blobDownloadPart.Name:106 @Server.CreateHandler$1
  mk 60 25 .read [] 9 false false false false [] [11] [] true false false,  -- 143 blobDownloadPart.blobDownload blobDownloadPart.Name:106 @Server.PullHandler$1
  mk 60 25 .read [] 12 false false false false [] [11] [] true false false,  -- 144 blobDownloadPart.blobDownload blobDownloadPart.Name:106 @blobDownload.downloadChunk$1
  mk 51 25 .read [] 11 false false false false [] [11] [] true false false,  -- 145 blobDownloadPart.blobDownload blobDownloadPart.Write:120 @api
  mk 66 25 .write [] 8 false true false false [] [11] [] true false false,  -- 146 blobDownloadPart.blobDownload blobDownload.newPart:391 @Server.CreateHandler$1
  mk 66 25 .write [] 9 false true false false [] [11] [] true false false,  -- 147 blobDownloadPart.blobDownload blobDownload.newPart:391 @Server.PullHandler$1
  mk 93 25 .write [] 8 false true false false [] [11] [] true false false,  -- 148 blobDownloadPart.blobDownload blobDownload.readPart:412 @Server.CreateHandler$1
  mk 93 25 .write [] 9 false true false false [] [11] [] true false false,  -- 149 blobDownloadPart.blobDownload blobDownload.readPart:412 @Server.PullHandler$1
  mk 94 26 .write [⟨1, true⟩] 11 false false false false [] [11] [] true false false,  -- 150 blobDownloadPart.lastUpdated blobDownloadPart.Write:122 @api
  mk 95 26 .read [⟨1, true⟩] 13 false false false false [] [11] [] true false false,  -- 151 blobDownloadPart.lastUpdated blobDownload.downloadChunk$2:369 @blobDownload.downloadChunk$2
  mk 96 26 .write [⟨1, true⟩] 13 false false false false [] [11] [] true false false,  -- 152 blobDownloadPart.lastUpdated blobDownload.downloadChunk$2:377 @blobDownload.downloadChunk$2
  mk 97 27 .read [] 10 false false false false [] [11] [] true false false,  -- 153 blobUpload.CancelFunc blobUpload.release:320 @Server.PushHandler$1
  mk 98 27 .write [] 10 false true false false [22] [11] [] true false false,  -- 154 blobUpload.CancelFunc uploadBlob:398 @Server.PushHandler$1
  mk 99 28 .write [] 10 false false false true [22] [11] [] true false false,  -- 155 blobUpload.Completed blobUpload.Prepare:87 @Server.PushHandler$1
  mk 100 28 .read [] 10 false false false true [] [11] [] true false false,  -- 156 blobUpload.Completed blobUpload.Wait:340 @Server.PushHandler$1
  mk 101 28 .write [] 11 false false false true [] [11] [] true false false,  -- 157 blobUpload.Completed progressWriter.Write:365 @api
  mk 102 28 .write [] 15 false false false true [] [11, 21, 22] [] true false false,  -- 158 blobUpload.Completed progressWriter.Rollback:370 @blobUpload.Run$1
  mk 103 29 .read [] 10 false false false false [22] [11] [] true false false,  -- 159 blobUpload.Layer blobUpload.Prepare:54 @Server.PushHandler$1
  mk 104 29 .read [] 17 true false false false [21] [11, 22] [] true false false,  -- 160 blobUpload.Layer blobUpload.Run:128 @go:uploadBlob:upload.Run
  mk 105 29 .read [] 17 true false false false [] [11, 22] [] true false false,  -- 161 blobUpload.Layer blobUpload.Run:196 @go:uploadBlob:upload.Run
  mk 106 29 .read [] 15 false false false false [] [11, 21, 22] [] true false false,  -- 162 blobUpload.Layer blobUpload.uploadPart:276 @blobUpload.Run$1
  mk 107 29 .read [] 10 false false false false [] [11] [] true false false,  -- 163 blobUpload.Layer blobUpload.Wait:337 @Server.PushHandler$1
  mk 98 29 .write [] 10 false true false false [22] [11] [] true false false,  -- 164 blobUpload.Layer uploadBlob:398 @Server.PushHandler$1
  mk 108 29 .read [] 15 false false false false [] [11, 21, 22] [] true false false,  -- 165 blobUpload.Layer blobUpload.Run$1:161 @blobUpload.Run$1
  mk 109 30 .read [] 10 false false false false [22] [11] [] true false false,  -- 166 blobUpload.Parts blobUpload.Prepare:107 @Server.PushHandler$1
  mk 109 30 .write [] 10 false false false false [22] [11] [] true false false,  -- 167 blobUpload.Parts blobUpload.Prepare:107 @Server.PushHandler$1
  mk 110 30 .read [] 17 true false false false [] [11, 22] [] true false false,  -- 168 blobUpload.Parts blobUpload.Run:145 @go:uploadBlob:upload.Run
  mk 111 31 .write [] 10 false false false false [22] [11] [] true false false,  -- 169 blobUpload.Total blobUpload.Prepare:82 @Server.PushHandler$1
  mk 99 31 .read [] 10 false false false false [22] [11] [] true false false,  -- 170 blobUpload.Total blobUpload.Prepare:87 @Server.PushHandler$1
  mk 112 31 .read [] 10 false false false false [] [11] [] true false false,  -- 171 blobUpload.Total blobUpload.Wait:339 @Server.PushHandler$1
  mk 113 32 .write [] 10 false false false false [22] [11] [] true false false,  -- 172 blobUpload.done blobUpload.Prepare:88 @Server.PushHandler$1
  mk 114 32 .write [] 17 true false false false [] [11, 22] [] true false false,  -- 173 blobUpload.done blobUpload.Run:220 @go:uploadBlob:upload.Run
  mk 115 32 .read [] 10 false false false false [] [11] [] true false false,  -- 174 blobUpload.done blobUpload.Wait:343 @Server.PushHandler$1
  mk 116 33 .write [] 17 true false false false [21] [11, 22] [] true false false,  -- 175 blobUpload.err blobUpload.Run:132 @go:uploadBlob:upload.Run
  mk 117 33 .write [] 17 true false false false [] [11, 22] [] true false false,  -- 176 blobUpload.err blobUpload.Run:175 @go:uploadBlob:upload.Run
  mk 115 33 .read [] 10 false false false false [] [11] [] false false false,  -- 177 blobUpload.err blobUpload.Wait:343 @Server.PushHandler$1
  mk 118 33 .read [] 10 false false false false [] [11] [] true false false,  -- 178 blobUpload.err blobUpload.Wait:344 @Server.PushHandler$1
  mk 119 34 .write [] 17 true false false false [21] [11, 22] [] true false false,  -- 179 blobUpload.file blobUpload.Run:136 @go:uploadBlob:upload.Run
  mk 120 34 .read [] 17 true false false false [21] [11, 22] [] true false false,  -- 180 blobUpload.file blobUpload.Run:141 @go:uploadBlob:upload.Run
  mk 121 34 .read [] 15 false false false false [] [11, 21, 22] [] true false false,  -- 181 blobUpload.file blobUpload.uploadPart:233 @blobUpload.Run$1
  mk 122 35 .write [] 10 false false false false [22] [11] [] true false false,  -- 182 blobUpload.nextURL blobUpload.Prepare:120 @Server.PushHandler$1
  mk 123 35 .read [] 10 false false false false [22] [11] [] true false false,  -- 183 blobUpload.nextURL blobUpload.Prepare:121 @Server.PushHandler$1
  mk 124 35 .read [] 17 true false false false [] [11, 22] [] true false false,  -- 184 blobUpload.nextURL blobUpload.Run:149 @go:uploadBlob:upload.Run
  mk 125 35 .read [] 15 false false false false [] [11, 21, 22] [] true false false,  -- 185 blobUpload.nextURL blobUpload.uploadPart:259 @blobUpload.Run$1
  mk 126 36 .write [] 10 false false false true [] [11] [] true false false,  -- 186 blobUpload.references blobUpload.acquire:315 @Server.PushHandler$1
  mk 127 36 .write [] 10 false false false true [] [11] [] true false false,  -- 187 blobUpload.references blobUpload.release:319 @Server.PushHandler$1
  mk 128 37 .write [] 15 true false false false [] [11] [] true false false,  -- 188 blobUploadPart.Hash blobUpload.uploadPart:310 @blobUpload.Run$1
  mk 109 38 .write [] 10 false true false false [] [11] [] true false false,  -- 189 blobUploadPart.N blobUpload.Prepare:107 @Server.PushHandler$1
  mk 106 38 .read [] 15 true false false false [] [11] [] true false false,  -- 190 blobUploadPart.N blobUpload.uploadPart:276 @blobUpload.Run$1
  mk 108 38 .read [] 15 true false false false [] [11] [] true false false,  -- 191 blobUploadPart.N blobUpload.Run$1:161 @blobUpload.Run$1
  mk 109 39 .write [] 10 false true false false [] [11] [] true false false,  -- 192 blobUploadPart.Offset blobUpload.Prepare:107 @Server.PushHandler$1
  mk 129 39 .read [] 15 true false false false [] [11] [] true false false,  -- 193 blobUploadPart.Offset blobUpload.uploadPart:230 @blobUpload.Run$1
  mk 109 40 .write [] 10 false true false false [] [11] [] true false false,  -- 194 blobUploadPart.Size blobUpload.Prepare:107 @Server.PushHandler$1
  mk 130 40 .read [] 10 false false false false [] [11] [] true false false,  -- 195 blobUploadPart.Size blobUpload.Prepare:112 @Server.PushHandler$1
  mk 131 40 .read [] 15 true false false false [] [11] [] true false false,  -- 196 blobUploadPart.Size blobUpload.uploadPart:226 @blobUpload.Run$1
  mk 56 41 .write [] 16 false false false true [] [11] [] true false false,  -- 197 global.blobDownloadManager blobDownload.run:216 @go:downloadBlob:download.Run
  mk 50 41 .write [] 8 false false false true [] [11] [] true false false,  -- 198 global.blobDownloadManager downloadBlob:498 @Server.CreateHandler$1
  mk 50 41 .write [] 9 false false false true [] [11] [] true false false,  -- 199 global.blobDownloadManager downloadBlob:498 @Server.PullHandler$1
  mk 104 42 .write [] 17 false false false true [] [11] [] true false false,  -- 200 global.blobUploadManager blobUpload.Run:128 @go:uploadBlob:upload.Run
  mk 98 42 .write [] 10 false false false true [] [11] [] true false false,  -- 201 global.blobUploadManager uploadBlob:398 @Server.PushHandler$1
  mk 132 43 .mapRead [] 11 false false false false [] [11] [] true false false,  -- 202 global.intermediateBlobs Server.CreateBlobHandler:1038 @api
  mk 133 43 .mapDelete [] 11 false false false false [] [11] [] true false false,  -- 203 global.intermediateBlobs Server.CreateBlobHandler:1047 @api
  mk 134 44 .write [] 0 true true false false [] [13] [] true false false,  -- 204 runnerRef.Options Scheduler.load:457 @Scheduler.Run$1
  mk 135 44 .write [⟨0, false⟩, ⟨2, true⟩] 1 true false false false [] [14] [1] true false false,  -- 205 runnerRef.Options runnerRef.unload:591 @Scheduler.Run$2
  mk 136 44 .read [⟨2, true⟩] 0 true false false false [] [13] [] false false false,  -- 206 runnerRef.Options runnerRef.needsReload:605 @Scheduler.Run$1
  mk 137 44 .read [⟨2, true⟩] 0 true false false false [] [13] [] true false true,  -- 207 runnerRef.Options runnerRef.needsReload:610 @Scheduler.Run$1
  mk 138 45 .read [⟨0, false⟩] 11 false false false false [] [11] [] true true false,  -- 208 runnerRef.estimatedTotal Server.PsHandler:1446 @api
  mk 139 45 .write [] 0 true true false false [] [13] [] true false false,  -- 209 runnerRef.estimatedTotal Scheduler.load:461 @Scheduler.Run$1
  mk 140 46 .read [⟨0, false⟩] 11 false false false false [] [11] [] true true false,  -- 210 runnerRef.estimatedVRAM Server.PsHandler:1447 @api
  mk 141 46 .write [] 0 true true false false [] [13] [] true false false,  -- 211 runnerRef.estimatedVRAM Scheduler.load:460 @Scheduler.Run$1
  mk 142 46 .read [] 19 false false false false [] [14] [] true false false,  -- 212 runnerRef.estimatedVRAM runnerRef.waitForVRAMRecovery$1:683 @runnerRef.waitForVRAMRecovery$1
  mk 143 47 .read [⟨2, true⟩] 0 true false false false [] [13] [] false false false,  -- 213 runnerRef.expireTimer Scheduler.processPending:289 @Scheduler.Run$1
  mk 144 47 .read [⟨2, true⟩] 0 true false false false [] [13] [] true false true,  -- 214 runnerRef.expireTimer Scheduler.processPending:290 @Scheduler.Run$1
  mk 145 47 .write [⟨2, true⟩] 0 true false false false [] [13] [] true false true,  -- 215 runnerRef.expireTimer Scheduler.processPending:291 @Scheduler.Run$1
  mk 146 47 .read [⟨2, true⟩] 1 true false false false [] [14] [] false false false,  -- 216 runnerRef.expireTimer Scheduler.processCompleted:338 @Scheduler.Run$2
  mk 147 47 .read [⟨2, true⟩] 1 true false false false [] [14] [] true false true,  -- 217 runnerRef.expireTimer Scheduler.processCompleted:339 @Scheduler.Run$2
  mk 148 47 .write [⟨2, true⟩] 1 true false false false [] [14] [] true false true,  -- 218 runnerRef.expireTimer Scheduler.processCompleted:340 @Scheduler.Run$2
  mk 149 47 .write [⟨2, true⟩] 1 true false false false [] [14] [] true false false,  -- 219 runnerRef.expireTimer Scheduler.processCompleted:345 @Scheduler.Run$2
  mk 150 47 .read [⟨2, true⟩] 0 true false false false [] [13] [] false false true,  -- 220 runnerRef.expireTimer LlmRequest.useLoadedRunner:417 @Scheduler.Run$1
  mk 151 47 .read [⟨2, true⟩] 0 true false false false [] [13] [] true false true,  -- 221 runnerRef.expireTimer LlmRequest.useLoadedRunner:418 @Scheduler.Run$1
  mk 152 47 .write [⟨2, true⟩] 0 true false false false [] [13] [] true false true,  -- 222 runnerRef.expireTimer LlmRequest.useLoadedRunner:419 @Scheduler.Run$1
  mk 153 47 .read [⟨0, false⟩, ⟨2, true⟩] 1 true false false false [] [14] [1] false false false,  -- 223 runnerRef.expireTimer runnerRef.unload:582 @Scheduler.Run$2
  mk 154 47 .read [⟨0, false⟩, ⟨2, true⟩] 1 true false false false [] [14] [1] true false true,  -- 224 runnerRef.expireTimer runnerRef.unload:583 @Scheduler.Run$2
  mk 155 47 .write [⟨0, false⟩, ⟨2, true⟩] 1 true false false false [] [14] [1] true false true,  -- 225 runnerRef.expireTimer runnerRef.unload:584 @Scheduler.Run$2
  mk 156 47 .read [⟨0, false⟩, ⟨2, true⟩] 11 false false false false [] [11] [] false true false,  -- 226 runnerRef.expireTimer Scheduler.expireRunner:842 @api
  mk 157 47 .read [⟨0, false⟩, ⟨2, true⟩] 11 false false false false [] [11] [] true true true,  -- 227 runnerRef.expireTimer Scheduler.expireRunner:843 @api
  mk 158 47 .write [⟨0, false⟩, ⟨2, true⟩] 11 false false false false [] [11] [] true true true,  -- 228 runnerRef.expireTimer Scheduler.expireRunner:844 @api
  mk 159 47 .read [⟨2, true⟩] 4 false false false false [] [14] [] false false false,  -- 229 runnerRef.expireTimer Scheduler.processCompleted$1:349 @Scheduler.processCompleted$1
  mk 160 47 .read [⟨2, true⟩] 4 false false false false [] [14] [] true false true,  -- 230 runnerRef.expireTimer Scheduler.processCompleted$1:350 @Scheduler.processCompleted$1
  mk 161 47 .write [⟨2, true⟩] 4 false false false false [] [14] [] true false true,  -- 231 runnerRef.expireTimer Scheduler.processCompleted$1:351 @Scheduler.processCompleted$1
  mk 162 48 .read [⟨0, false⟩] 11 false false false false [] [11] [] true true false,  -- 232 runnerRef.expiresAt Server.PsHandler:1450 @api
  mk 163 48 .write [⟨2, true⟩] 1 true false false false [] [14] [] true false false,  -- 233 runnerRef.expiresAt Scheduler.processCompleted:355 @Scheduler.Run$2
  mk 164 48 .write [⟨2, true⟩] 1 true false false false [] [14] [] true false true,  -- 234 runnerRef.expiresAt Scheduler.processCompleted:359 @Scheduler.Run$2
  mk 165 48 .write [⟨0, false⟩, ⟨2, true⟩] 11 false false false false [] [11] [] true true false,  -- 235 runnerRef.expiresAt Scheduler.expireRunner:841 @api
  mk 166 49 .write [] 0 true true false false [] [13] [] true false false,  -- 236 runnerRef.gpus Scheduler.load:459 @Scheduler.Run$1
  mk 167 49 .read [⟨0, false⟩] 0 true false false false [] [13] [] true true false,  -- 237 runnerRef.gpus Scheduler.filterGPUsWithoutLoadingModels:543 @Scheduler.Run$1
  mk 168 49 .write [⟨0, false⟩, ⟨2, true⟩] 1 true false false false [] [14] [1] true false false,  -- 238 runnerRef.gpus runnerRef.unload:592 @Scheduler.Run$2
  mk 169 49 .read [⟨0, false⟩, ⟨2, true⟩] 1 true false false false [] [14] [] true false false,  -- 239 runnerRef.gpus runnerRef.waitForVRAMRecovery:649 @Scheduler.Run$2
  mk 170 50 .read [] 11 false false false false [] [11] [1] true false false,  -- 240 runnerRef.llama Server.scheduleRunner:117 @api
  mk 171 50 .read [⟨2, true⟩] 0 true false false false [] [13] [] false false false,  -- 241 runnerRef.llama LlmRequest.useLoadedRunner:411 @Scheduler.Run$1
  mk 172 50 .write [] 0 true true false false [] [13] [] true false false,  -- 242 runnerRef.llama Scheduler.load:456 @Scheduler.Run$1
  mk 173 50 .read [⟨0, false⟩, ⟨2, true⟩] 0 true false false false [] [13] [] false true false,  -- 243 runnerRef.llama Scheduler.updateFreeSpace:503 @Scheduler.Run$1
  mk 174 50 .read [⟨0, false⟩, ⟨2, true⟩] 0 true false false false [] [13] [] true true true,  -- 244 runnerRef.llama Scheduler.updateFreeSpace:505 @Scheduler.Run$1
  mk 175 50 .read [⟨0, false⟩, ⟨2, true⟩] 1 true false false false [] [14] [1] false false false,  -- 245 runnerRef.llama runnerRef.unload:586 @Scheduler.Run$2
  mk 176 50 .read [⟨0, false⟩, ⟨2, true⟩] 1 true false false false [] [14] [1] true false true,  -- 246 runnerRef.llama runnerRef.unload:587 @Scheduler.Run$2
  mk 177 50 .write [⟨0, false⟩, ⟨2, true⟩] 1 true false false false [] [14] [1] true false false,  -- 247 runnerRef.llama runnerRef.unload:590 @Scheduler.Run$2
  mk 178 50 .read [⟨2, true⟩] 0 true false false false [] [13] [] true false true,  -- 248 runnerRef.llama runnerRef.needsReload:629 @Scheduler.Run$1
  mk 179 50 .read [⟨0, false⟩] 7 true false false false [] [10] [] false true false,  -- 249 runnerRef.llama Scheduler.unloadAllRunners:828 @Serve$2
  mk 180 50 .read [⟨0, false⟩] 7 true false false false [] [10] [] true true false,  -- 250 runnerRef.llama Scheduler.unloadAllRunners:830 @Serve$2
  mk 181 51 .write [] 0 true true false false [] [13] [] true false false,  -- 251 runnerRef.loading Scheduler.load:462 @Scheduler.Run$1
  mk 182 51 .read [⟨0, false⟩] 0 true false false false [] [13] [] true true false,  -- 252 runnerRef.loading Scheduler.filterGPUsWithoutLoadingModels:542 @Scheduler.Run$1
  mk 183 51 .read [⟨2, true⟩] 0 true false false false [] [13] [] true false false,  -- 253 runnerRef.loading runnerRef.needsReload:601 @Scheduler.Run$1
  mk 184 51 .write [⟨2, true⟩] 2 false false false false [] [13] [] true false false,  -- 254 runnerRef.loading Scheduler.load$1:484 @Scheduler.load$1
  mk 185 52 .read [⟨0, false⟩] 11 false false false false [] [11] [] true true false,  -- 255 runnerRef.model Server.PsHandler:1434 @api
  mk 186 52 .write [] 0 true true false false [] [13] [] true false false,  -- 256 runnerRef.model Scheduler.load:454 @Scheduler.Run$1
  mk 187 52 .write [⟨0, false⟩, ⟨2, true⟩] 1 true false false false [] [14] [1] true false false,  -- 257 runnerRef.model runnerRef.unload:589 @Scheduler.Run$2
  mk 188 52 .read [⟨2, true⟩] 0 true false false false [] [13] [] true false true,  -- 258 runnerRef.model runnerRef.needsReload:626 @Scheduler.Run$1
  mk 189 53 .read [⟨2, true⟩] 0 true false false false [] [13] [] true false false,  -- 259 runnerRef.modelPath Scheduler.processPending:288 @Scheduler.Run$1
  mk 190 53 .read [] 0 true false false false [] [13] [] true false false,  -- 260 runnerRef.modelPath Scheduler.processPending:301 @Scheduler.Run$1
  mk 191 53 .read [⟨2, true⟩] 1 true false false false [] [14] [] true false false,  -- 261 runnerRef.modelPath Scheduler.processCompleted:337 @Scheduler.Run$2
  mk 192 53 .read [⟨2, true⟩] 1 true false false false [] [14] [] true false true,  -- 262 runnerRef.modelPath Scheduler.processCompleted:357 @Scheduler.Run$2
  mk 193 53 .read [] 1 true false false false [] [14] [] true false false,  -- 263 runnerRef.modelPath Scheduler.processCompleted:365 @Scheduler.Run$2
  mk 194 53 .read [⟨0, false⟩, ⟨2, true⟩] 1 true false false false [] [14] [] true false false,  -- 264 runnerRef.modelPath Scheduler.processCompleted:371 @Scheduler.Run$2
  mk 195 53 .write [] 0 true true false false [] [13] [] true false false,  -- 265 runnerRef.modelPath Scheduler.load:455 @Scheduler.Run$1
  mk 167 53 .read [⟨0, false⟩] 0 true false false false [] [13] [] true true false,  -- 266 runnerRef.modelPath Scheduler.filterGPUsWithoutLoadingModels:543 @Scheduler.Run$1
  mk 196 53 .read [] 0 true false false false [] [13] [] true false false,  -- 267 runnerRef.modelPath ByDurationAndName.Less:705 @Scheduler.Run$1
  mk 197 53 .read [] 4 false false false false [] [14] [] true false false,  -- 268 runnerRef.modelPath Scheduler.processCompleted$1:346 @Scheduler.processCompleted$1
  mk 198 53 .read [⟨2, true⟩] 2 false false false false [] [13] [] true false false,  -- 269 runnerRef.modelPath Scheduler.load$1:479 @Scheduler.load$1
  mk 199 53 .read [] 19 false false false false [] [14] [] true false false,  -- 270 runnerRef.modelPath runnerRef.waitForVRAMRecovery$1:671 @runnerRef.waitForVRAMRecovery$1
  mk 200 54 .write [] 0 true true false false [] [13] [] true false false,  -- 271 runnerRef.numParallel Scheduler.load:465 @Scheduler.Run$1
  mk 201 54 .read [⟨2, true⟩] 0 true false false false [] [13] [] true false true,  -- 272 runnerRef.numParallel runnerRef.needsReload:618 @Scheduler.Run$1
  mk 189 55 .read [⟨2, true⟩] 0 true false false false [] [13] [] true false false,  -- 273 runnerRef.refCount Scheduler.processPending:288 @Scheduler.Run$1
  mk 202 55 .write [⟨2, true⟩] 1 true false false false [] [14] [] true false false,  -- 274 runnerRef.refCount Scheduler.processCompleted:334 @Scheduler.Run$2
  mk 203 55 .read [⟨2, true⟩] 1 true false false false [] [14] [] true false false,  -- 275 runnerRef.refCount Scheduler.processCompleted:335 @Scheduler.Run$2
  mk 204 55 .read [⟨0, false⟩, ⟨2, true⟩] 1 true false false false [] [14] [] true false false,  -- 276 runnerRef.refCount Scheduler.processCompleted:370 @Scheduler.Run$2
  mk 205 55 .write [⟨2, true⟩] 0 true false false false [] [13] [] true false true,  -- 277 runnerRef.refCount LlmRequest.useLoadedRunner:416 @Scheduler.Run$1
  mk 206 55 .write [] 0 true true false false [] [13] [] true false false,  -- 278 runnerRef.refCount Scheduler.load:463 @Scheduler.Run$1
  mk 207 55 .read [⟨2, true⟩] 0 true false false false [] [13] [] true false false,  -- 279 runnerRef.refCount Scheduler.findRunnerToUnload:812 @Scheduler.Run$1
  mk 208 55 .read [⟨0, false⟩, ⟨2, true⟩] 11 false false false false [] [11] [] true true false,  -- 280 runnerRef.refCount Scheduler.expireRunner:847 @api
  mk 209 55 .write [⟨2, true⟩] 2 false false false false [] [13] [] true false false,  -- 281 runnerRef.refCount Scheduler.load$1:477 @Scheduler.load$1
  mk 210 56 .read [⟨0, false⟩] 11 false false false false [] [11] [] true true false,  -- 282 runnerRef.sessionDuration Server.PsHandler:1457 @api
  mk 211 56 .write [⟨2, true⟩] 0 true false false false [] [13] [] true false false,  -- 283 runnerRef.sessionDuration Scheduler.processPending:293 @Scheduler.Run$1
  mk 212 56 .read [⟨2, true⟩] 1 true false false false [] [14] [] true false false,  -- 284 runnerRef.sessionDuration Scheduler.processCompleted:336 @Scheduler.Run$2
  mk 192 56 .read [⟨2, true⟩] 1 true false false false [] [14] [] true false true,  -- 285 runnerRef.sessionDuration Scheduler.processCompleted:357 @Scheduler.Run$2
  mk 213 56 .write [⟨2, true⟩] 0 true false false false [] [13] [] true false true,  -- 286 runnerRef.sessionDuration LlmRequest.useLoadedRunner:422 @Scheduler.Run$1
  mk 214 56 .write [] 0 true true false false [] [13] [] true false false,  -- 287 runnerRef.sessionDuration Scheduler.load:458 @Scheduler.Run$1
  mk 215 56 .read [] 0 true false false false [] [13] [] true false false,  -- 288 runnerRef.sessionDuration ByDurationAndName.Less:699 @Scheduler.Run$1
  mk 216 56 .write [⟨0, false⟩, ⟨2, true⟩] 11 false false false false [] [11] [] true true false  -- 289 runnerRef.sessionDuration Scheduler.expireRunner:846 @api
]

/-- (class, site, site) of the pairs the translator's own implementation of the rule rejects -/
def expectedViolations : List (Nat × Nat × Nat) := [(17, 68, 71), (17, 68, 71), (17, 68, 71), (17, 68, 71), (18, 72, 74), (18, 72, 74), (18, 72, 74), (18, 72, 74), (31, 111, 112), (32, 113, 115), (32, 114, 115), (33, 116, 115), (33, 116, 118), (33, 117, 115), (33, 117, 118), (48, 162, 163), (48, 162, 164), (51, 182, 184), (56, 210, 211), (56, 210, 213), (56, 215, 216)]

/-- classes a teardown function (runnerRef.unload) sets to nil -/
def clearedClassIds : List Nat := [44, 47, 50, 52]
def registryClassId : Nat := 5
def registryLockRef : LockRef := ⟨0, false⟩
def objectLockRef : LockRef := ⟨2, true⟩
/-- (class, site) of the stale reads the translator's own implementation of the rule found -/
def expectedStale : List (Nat × Nat) := []
def badClassIds : List Nat := [17, 18, 31, 32, 33, 48, 51, 56]
def goodClassIds : List Nat := [0, 1, 2, 3, 4, 5, 6, 7, 8, 9, 10, 11, 12, 13, 14, 15, 16, 19, 20, 21, 22, 23, 24, 25, 26, 27, 28, 29, 30, 34, 35, 36, 37, 38, 39, 40, 41, 42, 43, 44, 45, 46, 47, 49, 50, 52, 53, 54, 55]
def badClassNames : List String := ["blobDownload.Total", "blobDownload.done", "blobUpload.Total", "blobUpload.done", "blobUpload.err", "runnerRef.expiresAt", "runnerRef.loading", "runnerRef.sessionDuration"]

/-- lock order: mutex classes (g: = mutex of a singleton object, s: = mutex of the object itself) -/
def lockRefNames : List String := ["g:Scheduler.loadedMu", "s:blobDownloadPart.lastUpdatedMu", "s:runnerRef.refMu"]
/-- (held, acquired) for every site that takes a mutex while holding another one; acquisitions on or under a fresh
    (unpublished) object's mutex are listed separately: they cannot be contended -/
def lockOrderEdges : List (Nat × Nat) := [(0, 2)]
def lockOrderFreshEdges : List (Nat × Nat) := [(2, 0)]
/-- the translator's topological rank of each mutex class (all 0 when it found a cycle) -/
def lockRank : List Nat := [1, 1, 2]
def lockOrderSites : List String := ["g:Scheduler.loadedMu -> s:runnerRef.refMu at Scheduler.expireRunner:840 fresh=false", "g:Scheduler.loadedMu -> s:runnerRef.refMu at Scheduler.processCompleted:369 fresh=false", "g:Scheduler.loadedMu -> s:runnerRef.refMu at Scheduler.updateFreeSpace:502 fresh=false", "s:runnerRef.refMu -> g:Scheduler.loadedMu at Scheduler.load:468 fresh=true"]

end OllamaVerif.Generated.C15
