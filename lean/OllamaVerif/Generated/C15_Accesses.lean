-- REGENERATED on every run by vlib/checks/c15.py (harness/cmd/lockset) from the working tree. Do not edit.
import OllamaVerif.Model.Lockset
namespace OllamaVerif.Generated.C15
open OllamaVerif.Lockset

def classNames : List String := ["Scheduler.expiredCh", "Scheduler.finishedReqCh", "Scheduler.getCpuFn", "Scheduler.getGpuFn", "Scheduler.loadFn", "Scheduler.loaded", "Scheduler.newServerFn", "Scheduler.pendingReqCh", "Scheduler.reschedDelay", "Scheduler.unloadedCh", "Server.addr", "Server.sched", "blobDownload.CancelFunc", "blobDownload.Completed", "blobDownload.Digest", "blobDownload.Name", "blobDownload.Parts", "blobDownload.Total", "blobDownload.done", "blobDownload.err", "blobDownload.references", "blobUpload.CancelFunc", "blobUpload.Completed", "blobUpload.Layer", "blobUpload.Parts", "blobUpload.Total", "blobUpload.done", "blobUpload.err", "blobUpload.file", "blobUpload.nextURL", "blobUpload.references", "global.blobDownloadManager", "global.blobUploadManager", "global.intermediateBlobs", "runnerRef.Options", "runnerRef.estimatedTotal", "runnerRef.estimatedVRAM", "runnerRef.expireTimer", "runnerRef.expiresAt", "runnerRef.gpus", "runnerRef.llama", "runnerRef.loading", "runnerRef.model", "runnerRef.modelPath", "runnerRef.numParallel", "runnerRef.refCount", "runnerRef.sessionDuration"]
def lockNames : List String := ["Scheduler.loadedMu", "runnerRef.refMu"]
def threadNames : List String := ["Scheduler.Run$1", "Scheduler.Run$2", "Scheduler.load$1", "Scheduler.load$1$1", "Scheduler.processCompleted$1", "Scheduler.processCompleted$2", "Scheduler.processPending$1", "Serve$2", "Server.CreateHandler$1", "Server.PullHandler$1", "Server.PushHandler$1", "api", "blobDownload.downloadChunk$1", "blobDownload.downloadChunk$2", "blobDownload.run$2", "blobUpload.Run$1", "go:downloadBlob:download.Run", "go:uploadBlob:upload.Run", "main", "runnerRef.waitForVRAMRecovery$1"]
def siteNames : List String := ["InitScheduler:70", "Scheduler.processPending:295", "Scheduler.processCompleted:342", "Scheduler.expireRunner:844", "Scheduler.processCompleted$1:353", "Scheduler.processCompleted$2:376", "Scheduler.load$1:480", "InitScheduler:69", "Scheduler.processPending:153", "Scheduler.processCompleted:325", "Scheduler.load$1$1:488", "InitScheduler:75", "Scheduler.processPending:167", "InitScheduler:74", "Scheduler.processPending:169", "InitScheduler:78", "Scheduler.processPending:217", "Server.PsHandler:1433", "InitScheduler:72", "Scheduler.processPending:145", "Scheduler.processCompleted:327", "Scheduler.processCompleted:391", "Scheduler.load:469", "Scheduler.load:470", "Scheduler.updateFreeSpace:501", "Scheduler.filterGPUsWithoutLoadingModels:541", "Scheduler.findRunnerToUnload:791", "Scheduler.findRunnerToUnload:792", "Scheduler.unloadAllRunners:823", "Scheduler.expireRunner:834", "InitScheduler:73", "Scheduler.load:441", "InitScheduler:68", "Scheduler.GetRunner:98", "Scheduler.processPending:123", "Scheduler.processPending$1:273", "InitScheduler:76", "Scheduler.processPending$1:272", "InitScheduler:71", "Scheduler.processPending:306", "Scheduler.processCompleted:399", "Server.GenerateRoutes:1206", "Serve:1308", "Server.scheduleRunner:109", "Server.GenerateHandler:167", "Serve:1329", "Serve:1355", "Server.PsHandler:1432", "Server.ChatHandler:1498", "blobDownload.release:432", "downloadBlob:498", "blobDownloadPart.Write:120", "blobDownload.Prepare:142", "blobDownload.Wait:450", "blobDownload.downloadChunk$1:346", "blobDownload.Prepare:178", "blobDownload.run:216", "blobDownload.Wait:447", "blobDownload.run$2:295", "blobDownload.downloadChunk$2:374", "blobDownloadPart.Name:106", "blobDownload.Prepare:128", "blobDownload.run:218", "blobDownload.run:322", "blobDownload.Prepare:143", "blobDownload.run:275", "blobDownload.newPart:391", "blobDownload.newPart:396", "blobDownload.Prepare:141", "blobDownload.Prepare:155", "blobDownload.run:225", "blobDownload.Wait:449", "blobDownload.Prepare:133", "blobDownload.Run:185", "blobDownload.Wait:443", "blobDownload.Run:186", "blobDownload.Wait:444", "blobDownload.acquire:427", "blobDownload.release:431", "blobUpload.release:312", "uploadBlob:390", "blobUpload.Prepare:87", "blobUpload.Wait:332", "progressWriter.Write:357", "progressWriter.Rollback:362", "blobUpload.Prepare:54", "blobUpload.Run:128", "blobUpload.Run:188", "blobUpload.uploadPart:268", "blobUpload.Wait:329", "blobUpload.Run$1:161", "blobUpload.Prepare:107", "blobUpload.Run:145", "blobUpload.Prepare:82", "blobUpload.Wait:331", "blobUpload.Prepare:88", "blobUpload.Run:212", "blobUpload.Wait:335", "blobUpload.Run:132", "blobUpload.Run:175", "blobUpload.Wait:336", "blobUpload.Run:136", "blobUpload.Run:141", "blobUpload.uploadPart:225", "blobUpload.Prepare:120", "blobUpload.Prepare:121", "blobUpload.Run:149", "blobUpload.uploadPart:251", "blobUpload.acquire:307", "blobUpload.release:311", "Server.CreateBlobHandler:1038", "Server.CreateBlobHandler:1047", "Scheduler.load:457", "runnerRef.unload:591", "runnerRef.needsReload:605", "runnerRef.needsReload:610", "Server.PsHandler:1446", "Scheduler.load:461", "Server.PsHandler:1447", "Scheduler.load:460", "runnerRef.waitForVRAMRecovery$1:679", "Scheduler.processPending:289", "Scheduler.processPending:290", "Scheduler.processPending:291", "Scheduler.processCompleted:338", "Scheduler.processCompleted:339", "Scheduler.processCompleted:340", "Scheduler.processCompleted:345", "LlmRequest.useLoadedRunner:417", "LlmRequest.useLoadedRunner:418", "LlmRequest.useLoadedRunner:419", "runnerRef.unload:582", "runnerRef.unload:583", "runnerRef.unload:584", "Scheduler.expireRunner:838", "Scheduler.expireRunner:839", "Scheduler.expireRunner:840", "Scheduler.processCompleted$1:349", "Scheduler.processCompleted$1:350", "Scheduler.processCompleted$1:351", "Server.PsHandler:1450", "Scheduler.processCompleted:355", "Scheduler.processCompleted:359", "Scheduler.expireRunner:837", "Scheduler.load:459", "Scheduler.filterGPUsWithoutLoadingModels:543", "runnerRef.unload:592", "runnerRef.waitForVRAMRecovery:645", "Server.scheduleRunner:117", "LlmRequest.useLoadedRunner:411", "Scheduler.load:456", "Scheduler.updateFreeSpace:503", "Scheduler.updateFreeSpace:505", "runnerRef.unload:586", "runnerRef.unload:587", "runnerRef.unload:590", "runnerRef.needsReload:625", "Scheduler.unloadAllRunners:824", "Scheduler.unloadAllRunners:826", "Scheduler.load:462", "Scheduler.filterGPUsWithoutLoadingModels:542", "runnerRef.needsReload:601", "Scheduler.load$1:484", "Server.PsHandler:1434", "Scheduler.load:454", "runnerRef.unload:589", "runnerRef.needsReload:622", "Scheduler.processPending:288", "Scheduler.processPending:301", "Scheduler.processCompleted:337", "Scheduler.processCompleted:357", "Scheduler.processCompleted:365", "Scheduler.processCompleted:371", "Scheduler.load:455", "ByDurationAndName.Less:701", "Scheduler.processCompleted$1:346", "Scheduler.load$1:479", "runnerRef.waitForVRAMRecovery$1:667", "Scheduler.load:465", "runnerRef.needsReload:618", "Scheduler.processCompleted:334", "Scheduler.processCompleted:335", "Scheduler.processCompleted:370", "LlmRequest.useLoadedRunner:416", "Scheduler.load:463", "Scheduler.findRunnerToUnload:808", "Scheduler.expireRunner:843", "Scheduler.load$1:477", "Server.PsHandler:1457", "Scheduler.processPending:293", "Scheduler.processCompleted:336", "LlmRequest.useLoadedRunner:422", "Scheduler.load:458", "ByDurationAndName.Less:695", "Scheduler.expireRunner:842"]
def hbNames : List String := ["-", "holder (C01: no unload while a request holds the runner)", "doneclose (write before close(done), read after <-done)"]

private def mk (site cls : Nat) (kind : Kind) (locks : List LockRef) (thread : Nat) (single init racy atomic : Bool)
    (pre post hb : List Nat) (use live valid : Bool) : Access :=
  { site, cls, kind, locks, thread, single, init, racy, atomic, pre, post, hb, use, live, valid }

def accesses : List Access := [
  mk 0 0 .write [] 18 true true false false [10, 11] [] [] true false false,  -- 0 Scheduler.expiredCh InitScheduler:70 @main
  mk 1 0 .read [] 0 true false false false [] [13] [] true false false,  -- 1 Scheduler.expiredCh Scheduler.processPending:295 @Scheduler.Run$1
  mk 2 0 .read [] 1 true false false false [] [14] [] true false false,  -- 2 Scheduler.expiredCh Scheduler.processCompleted:342 @Scheduler.Run$2
  mk 3 0 .read [⟨0, false⟩] 11 false false false false [] [11] [] true false false,  -- 3 Scheduler.expiredCh Scheduler.expireRunner:844 @api
  mk 4 0 .read [] 4 false false false false [] [14] [] true false false,  -- 4 Scheduler.expiredCh Scheduler.processCompleted$1:353 @Scheduler.processCompleted$1
  mk 5 0 .read [] 5 false false false false [] [14] [] true false false,  -- 5 Scheduler.expiredCh Scheduler.processCompleted$2:376 @Scheduler.processCompleted$2
  mk 6 0 .read [] 2 false false false false [] [13] [] true false false,  -- 6 Scheduler.expiredCh Scheduler.load$1:480 @Scheduler.load$1
  mk 7 1 .write [] 18 true true false false [10, 11] [] [] true false false,  -- 7 Scheduler.finishedReqCh InitScheduler:69 @main
  mk 8 1 .read [] 0 true false false false [] [13] [] true false false,  -- 8 Scheduler.finishedReqCh Scheduler.processPending:153 @Scheduler.Run$1
  mk 9 1 .read [] 1 true false false false [] [14] [] true false false,  -- 9 Scheduler.finishedReqCh Scheduler.processCompleted:325 @Scheduler.Run$2
  mk 10 1 .read [] 3 false false false false [] [13] [] true false false,  -- 10 Scheduler.finishedReqCh Scheduler.load$1$1:488 @Scheduler.load$1$1
  mk 11 2 .write [] 18 true true false false [10, 11] [] [] true false false,  -- 11 Scheduler.getCpuFn InitScheduler:75 @main
  mk 12 2 .read [] 0 true false false false [] [13] [] true false false,  -- 12 Scheduler.getCpuFn Scheduler.processPending:167 @Scheduler.Run$1
  mk 13 3 .write [] 18 true true false false [10, 11] [] [] true false false,  -- 13 Scheduler.getGpuFn InitScheduler:74 @main
  mk 14 3 .read [] 0 true false false false [] [13] [] true false false,  -- 14 Scheduler.getGpuFn Scheduler.processPending:169 @Scheduler.Run$1
  mk 15 4 .write [] 18 true true false false [10, 11] [] [] true false false,  -- 15 Scheduler.loadFn InitScheduler:78 @main
  mk 16 4 .read [] 0 true false false false [] [13] [] true false false,  -- 16 Scheduler.loadFn Scheduler.processPending:217 @Scheduler.Run$1
  mk 17 5 .mapIter [⟨0, false⟩] 11 false false false false [] [11] [] true false false,  -- 17 Scheduler.loaded Server.PsHandler:1433 @api
  mk 18 5 .write [] 18 true true false false [10, 11] [] [] true false false,  -- 18 Scheduler.loaded InitScheduler:72 @main
  mk 19 5 .mapRead [⟨0, false⟩] 0 true false false false [] [13] [] true false false,  -- 19 Scheduler.loaded Scheduler.processPending:145 @Scheduler.Run$1
  mk 20 5 .mapRead [⟨0, false⟩] 1 true false false false [] [14] [] true false false,  -- 20 Scheduler.loaded Scheduler.processCompleted:327 @Scheduler.Run$2
  mk 21 5 .mapDelete [⟨0, false⟩] 1 true false false false [] [14] [] true false false,  -- 21 Scheduler.loaded Scheduler.processCompleted:391 @Scheduler.Run$2
  mk 22 5 .mapInsert [⟨0, false⟩] 0 true false false false [] [13] [] true false false,  -- 22 Scheduler.loaded Scheduler.load:469 @Scheduler.Run$1
  mk 23 5 .mapRead [⟨0, false⟩] 0 true false false false [] [13] [] true false false,  -- 23 Scheduler.loaded Scheduler.load:470 @Scheduler.Run$1
  mk 24 5 .mapIter [⟨0, false⟩] 0 true false false false [] [13] [] true false false,  -- 24 Scheduler.loaded Scheduler.updateFreeSpace:501 @Scheduler.Run$1
  mk 25 5 .mapIter [⟨0, false⟩] 0 true false false false [] [13] [] true false false,  -- 25 Scheduler.loaded Scheduler.filterGPUsWithoutLoadingModels:541 @Scheduler.Run$1
  mk 26 5 .mapRead [⟨0, false⟩] 0 true false false false [] [13] [] true false false,  -- 26 Scheduler.loaded Scheduler.findRunnerToUnload:791 @Scheduler.Run$1
  mk 27 5 .mapIter [⟨0, false⟩] 0 true false false false [] [13] [] true false false,  -- 27 Scheduler.loaded Scheduler.findRunnerToUnload:792 @Scheduler.Run$1
  mk 28 5 .mapIter [⟨0, false⟩] 7 true false false false [] [10] [] true false false,  -- 28 Scheduler.loaded Scheduler.unloadAllRunners:823 @Serve$2
  mk 29 5 .mapRead [⟨0, false⟩] 11 false false false false [] [11] [] true false false,  -- 29 Scheduler.loaded Scheduler.expireRunner:834 @api
  mk 30 6 .write [] 18 true true false false [10, 11] [] [] true false false,  -- 30 Scheduler.newServerFn InitScheduler:73 @main
  mk 31 6 .read [] 0 true false false false [] [13] [] true false false,  -- 31 Scheduler.newServerFn Scheduler.load:441 @Scheduler.Run$1
  mk 32 7 .write [] 18 true true false false [10, 11] [] [] true false false,  -- 32 Scheduler.pendingReqCh InitScheduler:68 @main
  mk 33 7 .read [] 11 false false false false [] [11] [] true false false,  -- 33 Scheduler.pendingReqCh Scheduler.GetRunner:98 @api
  mk 34 7 .read [] 0 true false false false [] [13] [] true false false,  -- 34 Scheduler.pendingReqCh Scheduler.processPending:123 @Scheduler.Run$1
  mk 35 7 .read [] 6 false false false false [] [13] [] true false false,  -- 35 Scheduler.pendingReqCh Scheduler.processPending$1:273 @Scheduler.processPending$1
  mk 36 8 .write [] 18 true true false false [10, 11] [] [] true false false,  -- 36 Scheduler.reschedDelay InitScheduler:76 @main
  mk 37 8 .read [] 6 false false false false [] [13] [] true false false,  -- 37 Scheduler.reschedDelay Scheduler.processPending$1:272 @Scheduler.processPending$1
  mk 38 9 .write [] 18 true true false false [10, 11] [] [] true false false,  -- 38 Scheduler.unloadedCh InitScheduler:71 @main
  mk 39 9 .read [] 0 true false false false [] [13] [] true false false,  -- 39 Scheduler.unloadedCh Scheduler.processPending:306 @Scheduler.Run$1
  mk 40 9 .read [] 1 true false false false [] [14] [] true false false,  -- 40 Scheduler.unloadedCh Scheduler.processCompleted:399 @Scheduler.Run$2
  mk 41 10 .read [] 18 true false false false [10, 11] [] [] true false false,  -- 41 Server.addr Server.GenerateRoutes:1206 @main
  mk 42 10 .write [] 18 true true false false [10, 11] [] [] true false false,  -- 42 Server.addr Serve:1308 @main
  mk 43 11 .read [] 11 false false false false [] [11] [] true false false,  -- 43 Server.sched Server.scheduleRunner:109 @api
  mk 44 11 .read [] 11 false false false false [] [11] [] true false false,  -- 44 Server.sched Server.GenerateHandler:167 @api
  mk 45 11 .write [] 18 true false false false [10, 11] [] [] true false false,  -- 45 Server.sched Serve:1329 @main
  mk 46 11 .read [] 18 true false false false [11] [] [] true false false,  -- 46 Server.sched Serve:1355 @main
  mk 47 11 .read [] 11 false false false false [] [11] [] true false false,  -- 47 Server.sched Server.PsHandler:1432 @api
  mk 17 11 .read [⟨0, false⟩] 11 false false false false [] [11] [] true false false,  -- 48 Server.sched Server.PsHandler:1433 @api
  mk 48 11 .read [] 11 false false false false [] [11] [] true false false,  -- 49 Server.sched Server.ChatHandler:1498 @api
  mk 49 12 .read [] 8 false false false false [] [11] [] true false false,  -- 50 blobDownload.CancelFunc blobDownload.release:432 @Server.CreateHandler$1
  mk 49 12 .read [] 9 false false false false [] [11] [] true false false,  -- 51 blobDownload.CancelFunc blobDownload.release:432 @Server.PullHandler$1
  mk 50 12 .write [] 8 false true false false [5] [11] [] true false false,  -- 52 blobDownload.CancelFunc downloadBlob:498 @Server.CreateHandler$1
  mk 50 12 .write [] 9 false true false false [5] [11] [] true false false,  -- 53 blobDownload.CancelFunc downloadBlob:498 @Server.PullHandler$1
  mk 51 13 .write [] 11 false false false true [] [11] [] true false false,  -- 54 blobDownload.Completed blobDownloadPart.Write:120 @api
  mk 52 13 .write [] 8 false false false true [5] [11] [] true false false,  -- 55 blobDownload.Completed blobDownload.Prepare:142 @Server.CreateHandler$1
  mk 52 13 .write [] 9 false false false true [5] [11] [] true false false,  -- 56 blobDownload.Completed blobDownload.Prepare:142 @Server.PullHandler$1
  mk 53 13 .read [] 8 false false false true [] [11] [] true false false,  -- 57 blobDownload.Completed blobDownload.Wait:450 @Server.CreateHandler$1
  mk 53 13 .read [] 9 false false false true [] [11] [] true false false,  -- 58 blobDownload.Completed blobDownload.Wait:450 @Server.PullHandler$1
  mk 54 13 .write [] 12 false false false true [] [2, 5, 11] [] true false false,  -- 59 blobDownload.Completed blobDownload.downloadChunk$1:346 @blobDownload.downloadChunk$1
  mk 55 14 .read [] 8 false false false false [5] [11] [] true false false,  -- 60 blobDownload.Digest blobDownload.Prepare:178 @Server.CreateHandler$1
  mk 55 14 .read [] 9 false false false false [5] [11] [] true false false,  -- 61 blobDownload.Digest blobDownload.Prepare:178 @Server.PullHandler$1
  mk 56 14 .read [] 16 true false false false [2] [5, 11] [] true false false,  -- 62 blobDownload.Digest blobDownload.run:216 @go:downloadBlob:download.Run
  mk 57 14 .read [] 8 false false false false [] [11] [] true false false,  -- 63 blobDownload.Digest blobDownload.Wait:447 @Server.CreateHandler$1
  mk 57 14 .read [] 9 false false false false [] [11] [] true false false,  -- 64 blobDownload.Digest blobDownload.Wait:447 @Server.PullHandler$1
  mk 50 14 .write [] 8 false true false false [5] [11] [] true false false,  -- 65 blobDownload.Digest downloadBlob:498 @Server.CreateHandler$1
  mk 50 14 .write [] 9 false true false false [5] [11] [] true false false,  -- 66 blobDownload.Digest downloadBlob:498 @Server.PullHandler$1
  mk 58 14 .read [] 14 false false false false [] [2, 5, 11] [] true false false,  -- 67 blobDownload.Digest blobDownload.run$2:295 @blobDownload.run$2
  mk 59 14 .read [] 13 false false false false [] [2, 5, 11] [] true false false,  -- 68 blobDownload.Digest blobDownload.downloadChunk$2:374 @blobDownload.downloadChunk$2
  mk 60 15 .read [] 8 false false false false [] [11] [] true false false,  -- 69 blobDownload.Name blobDownloadPart.Name:106 @Server.CreateHandler$1
  mk 60 15 .read [] 9 false false false false [] [11] [] true false false,  -- 70 blobDownload.Name blobDownloadPart.Name:106 @Server.PullHandler$1
  mk 60 15 .read [] 12 false false false false [] [11] [] true false false,  -- 71 blobDownload.Name blobDownloadPart.Name:106 @blobDownload.downloadChunk$1
  mk 61 15 .read [] 8 false false false false [5] [11] [] true false false,  -- 72 blobDownload.Name blobDownload.Prepare:128 @Server.CreateHandler$1
  mk 61 15 .read [] 9 false false false false [5] [11] [] true false false,  -- 73 blobDownload.Name blobDownload.Prepare:128 @Server.PullHandler$1
  mk 62 15 .read [] 16 true false false false [2] [5, 11] [] true false false,  -- 74 blobDownload.Name blobDownload.run:218 @go:downloadBlob:download.Run
  mk 63 15 .read [] 16 true false false false [] [5, 11] [] true false false,  -- 75 blobDownload.Name blobDownload.run:322 @go:downloadBlob:download.Run
  mk 50 15 .write [] 8 false true false false [5] [11] [] true false false,  -- 76 blobDownload.Name downloadBlob:498 @Server.CreateHandler$1
  mk 50 15 .write [] 9 false true false false [5] [11] [] true false false,  -- 77 blobDownload.Name downloadBlob:498 @Server.PullHandler$1
  mk 64 16 .read [] 8 false false false false [5] [11] [] true false false,  -- 78 blobDownload.Parts blobDownload.Prepare:143 @Server.CreateHandler$1
  mk 64 16 .read [] 9 false false false false [5] [11] [] true false false,  -- 79 blobDownload.Parts blobDownload.Prepare:143 @Server.PullHandler$1
  mk 64 16 .write [] 8 false false false false [5] [11] [] true false false,  -- 80 blobDownload.Parts blobDownload.Prepare:143 @Server.CreateHandler$1
  mk 64 16 .write [] 9 false false false false [5] [11] [] true false false,  -- 81 blobDownload.Parts blobDownload.Prepare:143 @Server.PullHandler$1
  mk 65 16 .read [] 16 true false false false [] [5, 11] [] true false false,  -- 82 blobDownload.Parts blobDownload.run:275 @go:downloadBlob:download.Run
  mk 66 16 .read [] 8 false false false false [5] [11] [] true false false,  -- 83 blobDownload.Parts blobDownload.newPart:391 @Server.CreateHandler$1
  mk 66 16 .read [] 9 false false false false [5] [11] [] true false false,  -- 84 blobDownload.Parts blobDownload.newPart:391 @Server.PullHandler$1
  mk 67 16 .write [] 8 false false false false [5] [11] [] true false false,  -- 85 blobDownload.Parts blobDownload.newPart:396 @Server.CreateHandler$1
  mk 67 16 .write [] 9 false false false false [5] [11] [] true false false,  -- 86 blobDownload.Parts blobDownload.newPart:396 @Server.PullHandler$1
  mk 68 17 .write [] 8 false false false false [5] [11] [] true false false,  -- 87 blobDownload.Total blobDownload.Prepare:141 @Server.CreateHandler$1
  mk 68 17 .write [] 9 false false false false [5] [11] [] true false false,  -- 88 blobDownload.Total blobDownload.Prepare:141 @Server.PullHandler$1
  mk 69 17 .read [] 8 false false false false [5] [11] [] true false false,  -- 89 blobDownload.Total blobDownload.Prepare:155 @Server.CreateHandler$1
  mk 69 17 .read [] 9 false false false false [5] [11] [] true false false,  -- 90 blobDownload.Total blobDownload.Prepare:155 @Server.PullHandler$1
  mk 70 17 .read [] 16 true false false false [2] [5, 11] [] true false false,  -- 91 blobDownload.Total blobDownload.run:225 @go:downloadBlob:download.Run
  mk 71 17 .read [] 8 false false false false [] [11] [] true false false,  -- 92 blobDownload.Total blobDownload.Wait:449 @Server.CreateHandler$1
  mk 71 17 .read [] 9 false false false false [] [11] [] true false false,  -- 93 blobDownload.Total blobDownload.Wait:449 @Server.PullHandler$1
  mk 72 18 .write [] 8 false false false false [5] [11] [] true false false,  -- 94 blobDownload.done blobDownload.Prepare:133 @Server.CreateHandler$1
  mk 72 18 .write [] 9 false false false false [5] [11] [] true false false,  -- 95 blobDownload.done blobDownload.Prepare:133 @Server.PullHandler$1
  mk 73 18 .read [] 16 true false false false [] [5, 11] [] true false false,  -- 96 blobDownload.done blobDownload.Run:185 @go:downloadBlob:download.Run
  mk 74 18 .read [] 8 false false false false [] [11] [2] true false false,  -- 97 blobDownload.done blobDownload.Wait:443 @Server.CreateHandler$1
  mk 74 18 .read [] 9 false false false false [] [11] [2] true false false,  -- 98 blobDownload.done blobDownload.Wait:443 @Server.PullHandler$1
  mk 75 19 .write [] 16 true false false false [] [5, 11] [2] true false false,  -- 99 blobDownload.err blobDownload.Run:186 @go:downloadBlob:download.Run
  mk 76 19 .read [] 8 false false false false [] [11] [2] true false false,  -- 100 blobDownload.err blobDownload.Wait:444 @Server.CreateHandler$1
  mk 76 19 .read [] 9 false false false false [] [11] [2] true false false,  -- 101 blobDownload.err blobDownload.Wait:444 @Server.PullHandler$1
  mk 77 20 .write [] 8 false false false true [] [11] [] true false false,  -- 102 blobDownload.references blobDownload.acquire:427 @Server.CreateHandler$1
  mk 77 20 .write [] 9 false false false true [] [11] [] true false false,  -- 103 blobDownload.references blobDownload.acquire:427 @Server.PullHandler$1
  mk 78 20 .write [] 8 false false false true [] [11] [] true false false,  -- 104 blobDownload.references blobDownload.release:431 @Server.CreateHandler$1
  mk 78 20 .write [] 9 false false false true [] [11] [] true false false,  -- 105 blobDownload.references blobDownload.release:431 @Server.PullHandler$1
  mk 79 21 .read [] 10 false false false false [] [11] [] true false false,  -- 106 blobUpload.CancelFunc blobUpload.release:312 @Server.PushHandler$1
  mk 80 21 .write [] 10 false true false false [22] [11] [] true false false,  -- 107 blobUpload.CancelFunc uploadBlob:390 @Server.PushHandler$1
  mk 81 22 .write [] 10 false false false true [22] [11] [] true false false,  -- 108 blobUpload.Completed blobUpload.Prepare:87 @Server.PushHandler$1
  mk 82 22 .read [] 10 false false false true [] [11] [] true false false,  -- 109 blobUpload.Completed blobUpload.Wait:332 @Server.PushHandler$1
  mk 83 22 .write [] 11 false false false true [] [11] [] true false false,  -- 110 blobUpload.Completed progressWriter.Write:357 @api
  mk 84 22 .write [] 15 false false false true [] [11, 21, 22] [] true false false,  -- 111 blobUpload.Completed progressWriter.Rollback:362 @blobUpload.Run$1
  mk 85 23 .read [] 10 false false false false [22] [11] [] true false false,  -- 112 blobUpload.Layer blobUpload.Prepare:54 @Server.PushHandler$1
  mk 86 23 .read [] 17 true false false false [21] [11, 22] [] true false false,  -- 113 blobUpload.Layer blobUpload.Run:128 @go:uploadBlob:upload.Run
  mk 87 23 .read [] 17 true false false false [] [11, 22] [] true false false,  -- 114 blobUpload.Layer blobUpload.Run:188 @go:uploadBlob:upload.Run
  mk 88 23 .read [] 15 false false false false [] [11, 21, 22] [] true false false,  -- 115 blobUpload.Layer blobUpload.uploadPart:268 @blobUpload.Run$1
  mk 89 23 .read [] 10 false false false false [] [11] [] true false false,  -- 116 blobUpload.Layer blobUpload.Wait:329 @Server.PushHandler$1
  mk 80 23 .write [] 10 false true false false [22] [11] [] true false false,  -- 117 blobUpload.Layer uploadBlob:390 @Server.PushHandler$1
  mk 90 23 .read [] 15 false false false false [] [11, 21, 22] [] true false false,  -- 118 blobUpload.Layer blobUpload.Run$1:161 @blobUpload.Run$1
  mk 91 24 .read [] 10 false false false false [22] [11] [] true false false,  -- 119 blobUpload.Parts blobUpload.Prepare:107 @Server.PushHandler$1
  mk 91 24 .write [] 10 false false false false [22] [11] [] true false false,  -- 120 blobUpload.Parts blobUpload.Prepare:107 @Server.PushHandler$1
  mk 92 24 .read [] 17 true false false false [] [11, 22] [] true false false,  -- 121 blobUpload.Parts blobUpload.Run:145 @go:uploadBlob:upload.Run
  mk 93 25 .write [] 10 false false false false [22] [11] [] true false false,  -- 122 blobUpload.Total blobUpload.Prepare:82 @Server.PushHandler$1
  mk 81 25 .read [] 10 false false false false [22] [11] [] true false false,  -- 123 blobUpload.Total blobUpload.Prepare:87 @Server.PushHandler$1
  mk 94 25 .read [] 10 false false false false [] [11] [] true false false,  -- 124 blobUpload.Total blobUpload.Wait:331 @Server.PushHandler$1
  mk 95 26 .write [] 10 false false false false [22] [11] [] true false false,  -- 125 blobUpload.done blobUpload.Prepare:88 @Server.PushHandler$1
  mk 96 26 .write [] 17 true false false false [] [11, 22] [] true false false,  -- 126 blobUpload.done blobUpload.Run:212 @go:uploadBlob:upload.Run
  mk 97 26 .read [] 10 false false false false [] [11] [] true false false,  -- 127 blobUpload.done blobUpload.Wait:335 @Server.PushHandler$1
  mk 98 27 .write [] 17 true false false false [21] [11, 22] [] true false false,  -- 128 blobUpload.err blobUpload.Run:132 @go:uploadBlob:upload.Run
  mk 99 27 .write [] 17 true false false false [] [11, 22] [] true false false,  -- 129 blobUpload.err blobUpload.Run:175 @go:uploadBlob:upload.Run
  mk 97 27 .read [] 10 false false false false [] [11] [] false false false,  -- 130 blobUpload.err blobUpload.Wait:335 @Server.PushHandler$1
  mk 100 27 .read [] 10 false false false false [] [11] [] true false false,  -- 131 blobUpload.err blobUpload.Wait:336 @Server.PushHandler$1
  mk 101 28 .write [] 17 true false false false [21] [11, 22] [] true false false,  -- 132 blobUpload.file blobUpload.Run:136 @go:uploadBlob:upload.Run
  mk 102 28 .read [] 17 true false false false [21] [11, 22] [] true false false,  -- 133 blobUpload.file blobUpload.Run:141 @go:uploadBlob:upload.Run
  mk 103 28 .read [] 15 false false false false [] [11, 21, 22] [] true false false,  -- 134 blobUpload.file blobUpload.uploadPart:225 @blobUpload.Run$1
  mk 104 29 .write [] 10 false false false false [22] [11] [] true false false,  -- 135 blobUpload.nextURL blobUpload.Prepare:120 @Server.PushHandler$1
  mk 105 29 .read [] 10 false false false false [22] [11] [] true false false,  -- 136 blobUpload.nextURL blobUpload.Prepare:121 @Server.PushHandler$1
  mk 106 29 .read [] 17 true false false false [] [11, 22] [] true false false,  -- 137 blobUpload.nextURL blobUpload.Run:149 @go:uploadBlob:upload.Run
  mk 107 29 .read [] 15 false false false false [] [11, 21, 22] [] true false false,  -- 138 blobUpload.nextURL blobUpload.uploadPart:251 @blobUpload.Run$1
  mk 108 30 .write [] 10 false false false true [] [11] [] true false false,  -- 139 blobUpload.references blobUpload.acquire:307 @Server.PushHandler$1
  mk 109 30 .write [] 10 false false false true [] [11] [] true false false,  -- 140 blobUpload.references blobUpload.release:311 @Server.PushHandler$1
  mk 56 31 .write [] 16 false false false true [] [11] [] true false false,  -- 141 global.blobDownloadManager blobDownload.run:216 @go:downloadBlob:download.Run
  mk 50 31 .write [] 8 false false false true [] [11] [] true false false,  -- 142 global.blobDownloadManager downloadBlob:498 @Server.CreateHandler$1
  mk 50 31 .write [] 9 false false false true [] [11] [] true false false,  -- 143 global.blobDownloadManager downloadBlob:498 @Server.PullHandler$1
  mk 86 32 .write [] 17 false false false true [] [11] [] true false false,  -- 144 global.blobUploadManager blobUpload.Run:128 @go:uploadBlob:upload.Run
  mk 80 32 .write [] 10 false false false true [] [11] [] true false false,  -- 145 global.blobUploadManager uploadBlob:390 @Server.PushHandler$1
  mk 110 33 .mapRead [] 11 false false false false [] [11] [] true false false,  -- 146 global.intermediateBlobs Server.CreateBlobHandler:1038 @api
  mk 111 33 .mapDelete [] 11 false false false false [] [11] [] true false false,  -- 147 global.intermediateBlobs Server.CreateBlobHandler:1047 @api
  mk 112 34 .write [] 0 true true false false [] [13] [] true false false,  -- 148 runnerRef.Options Scheduler.load:457 @Scheduler.Run$1
  mk 113 34 .write [⟨0, false⟩, ⟨1, true⟩] 1 true false false false [] [14] [1] true false false,  -- 149 runnerRef.Options runnerRef.unload:591 @Scheduler.Run$2
  mk 114 34 .read [⟨1, true⟩] 0 true false false false [] [13] [] false false false,  -- 150 runnerRef.Options runnerRef.needsReload:605 @Scheduler.Run$1
  mk 115 34 .read [⟨1, true⟩] 0 true false false false [] [13] [] true false true,  -- 151 runnerRef.Options runnerRef.needsReload:610 @Scheduler.Run$1
  mk 116 35 .read [⟨0, false⟩] 11 false false false false [] [11] [] true true false,  -- 152 runnerRef.estimatedTotal Server.PsHandler:1446 @api
  mk 117 35 .write [] 0 true true false false [] [13] [] true false false,  -- 153 runnerRef.estimatedTotal Scheduler.load:461 @Scheduler.Run$1
  mk 118 36 .read [⟨0, false⟩] 11 false false false false [] [11] [] true true false,  -- 154 runnerRef.estimatedVRAM Server.PsHandler:1447 @api
  mk 119 36 .write [] 0 true true false false [] [13] [] true false false,  -- 155 runnerRef.estimatedVRAM Scheduler.load:460 @Scheduler.Run$1
  mk 120 36 .read [] 19 false false false false [] [14] [] true false false,  -- 156 runnerRef.estimatedVRAM runnerRef.waitForVRAMRecovery$1:679 @runnerRef.waitForVRAMRecovery$1
  mk 121 37 .read [⟨1, true⟩] 0 true false false false [] [13] [] false false false,  -- 157 runnerRef.expireTimer Scheduler.processPending:289 @Scheduler.Run$1
  mk 122 37 .read [⟨1, true⟩] 0 true false false false [] [13] [] true false true,  -- 158 runnerRef.expireTimer Scheduler.processPending:290 @Scheduler.Run$1
  mk 123 37 .write [⟨1, true⟩] 0 true false false false [] [13] [] true false true,  -- 159 runnerRef.expireTimer Scheduler.processPending:291 @Scheduler.Run$1
  mk 124 37 .read [⟨1, true⟩] 1 true false false false [] [14] [] false false false,  -- 160 runnerRef.expireTimer Scheduler.processCompleted:338 @Scheduler.Run$2
  mk 125 37 .read [⟨1, true⟩] 1 true false false false [] [14] [] true false true,  -- 161 runnerRef.expireTimer Scheduler.processCompleted:339 @Scheduler.Run$2
  mk 126 37 .write [⟨1, true⟩] 1 true false false false [] [14] [] true false true,  -- 162 runnerRef.expireTimer Scheduler.processCompleted:340 @Scheduler.Run$2
  mk 127 37 .write [⟨1, true⟩] 1 true false false false [] [14] [] true false false,  -- 163 runnerRef.expireTimer Scheduler.processCompleted:345 @Scheduler.Run$2
  mk 128 37 .read [⟨1, true⟩] 0 true false false false [] [13] [] false false true,  -- 164 runnerRef.expireTimer LlmRequest.useLoadedRunner:417 @Scheduler.Run$1
  mk 129 37 .read [⟨1, true⟩] 0 true false false false [] [13] [] true false true,  -- 165 runnerRef.expireTimer LlmRequest.useLoadedRunner:418 @Scheduler.Run$1
  mk 130 37 .write [⟨1, true⟩] 0 true false false false [] [13] [] true false true,  -- 166 runnerRef.expireTimer LlmRequest.useLoadedRunner:419 @Scheduler.Run$1
  mk 131 37 .read [⟨0, false⟩, ⟨1, true⟩] 1 true false false false [] [14] [1] false false false,  -- 167 runnerRef.expireTimer runnerRef.unload:582 @Scheduler.Run$2
  mk 132 37 .read [⟨0, false⟩, ⟨1, true⟩] 1 true false false false [] [14] [1] true false true,  -- 168 runnerRef.expireTimer runnerRef.unload:583 @Scheduler.Run$2
  mk 133 37 .write [⟨0, false⟩, ⟨1, true⟩] 1 true false false false [] [14] [1] true false true,  -- 169 runnerRef.expireTimer runnerRef.unload:584 @Scheduler.Run$2
  mk 134 37 .read [⟨0, false⟩, ⟨1, true⟩] 11 false false false false [] [11] [] false true false,  -- 170 runnerRef.expireTimer Scheduler.expireRunner:838 @api
  mk 135 37 .read [⟨0, false⟩, ⟨1, true⟩] 11 false false false false [] [11] [] true true true,  -- 171 runnerRef.expireTimer Scheduler.expireRunner:839 @api
  mk 136 37 .write [⟨0, false⟩, ⟨1, true⟩] 11 false false false false [] [11] [] true true true,  -- 172 runnerRef.expireTimer Scheduler.expireRunner:840 @api
  mk 137 37 .read [⟨1, true⟩] 4 false false false false [] [14] [] false false false,  -- 173 runnerRef.expireTimer Scheduler.processCompleted$1:349 @Scheduler.processCompleted$1
  mk 138 37 .read [⟨1, true⟩] 4 false false false false [] [14] [] true false true,  -- 174 runnerRef.expireTimer Scheduler.processCompleted$1:350 @Scheduler.processCompleted$1
  mk 139 37 .write [⟨1, true⟩] 4 false false false false [] [14] [] true false true,  -- 175 runnerRef.expireTimer Scheduler.processCompleted$1:351 @Scheduler.processCompleted$1
  mk 140 38 .read [⟨0, false⟩] 11 false false false false [] [11] [] true true false,  -- 176 runnerRef.expiresAt Server.PsHandler:1450 @api
  mk 141 38 .write [⟨1, true⟩] 1 true false false false [] [14] [] true false false,  -- 177 runnerRef.expiresAt Scheduler.processCompleted:355 @Scheduler.Run$2
  mk 142 38 .write [⟨1, true⟩] 1 true false false false [] [14] [] true false true,  -- 178 runnerRef.expiresAt Scheduler.processCompleted:359 @Scheduler.Run$2
  mk 143 38 .write [⟨0, false⟩, ⟨1, true⟩] 11 false false false false [] [11] [] true true false,  -- 179 runnerRef.expiresAt Scheduler.expireRunner:837 @api
  mk 144 39 .write [] 0 true true false false [] [13] [] true false false,  -- 180 runnerRef.gpus Scheduler.load:459 @Scheduler.Run$1
  mk 145 39 .read [⟨0, false⟩] 0 true false false false [] [13] [] true true false,  -- 181 runnerRef.gpus Scheduler.filterGPUsWithoutLoadingModels:543 @Scheduler.Run$1
  mk 146 39 .write [⟨0, false⟩, ⟨1, true⟩] 1 true false false false [] [14] [1] true false false,  -- 182 runnerRef.gpus runnerRef.unload:592 @Scheduler.Run$2
  mk 147 39 .read [⟨0, false⟩, ⟨1, true⟩] 1 true false false false [] [14] [] true false false,  -- 183 runnerRef.gpus runnerRef.waitForVRAMRecovery:645 @Scheduler.Run$2
  mk 148 40 .read [] 11 false false false false [] [11] [1] true false false,  -- 184 runnerRef.llama Server.scheduleRunner:117 @api
  mk 149 40 .read [⟨1, true⟩] 0 true false false false [] [13] [] false false false,  -- 185 runnerRef.llama LlmRequest.useLoadedRunner:411 @Scheduler.Run$1
  mk 150 40 .write [] 0 true true false false [] [13] [] true false false,  -- 186 runnerRef.llama Scheduler.load:456 @Scheduler.Run$1
  mk 151 40 .read [⟨0, false⟩, ⟨1, true⟩] 0 true false false false [] [13] [] false true false,  -- 187 runnerRef.llama Scheduler.updateFreeSpace:503 @Scheduler.Run$1
  mk 152 40 .read [⟨0, false⟩, ⟨1, true⟩] 0 true false false false [] [13] [] true true true,  -- 188 runnerRef.llama Scheduler.updateFreeSpace:505 @Scheduler.Run$1
  mk 153 40 .read [⟨0, false⟩, ⟨1, true⟩] 1 true false false false [] [14] [1] false false false,  -- 189 runnerRef.llama runnerRef.unload:586 @Scheduler.Run$2
  mk 154 40 .read [⟨0, false⟩, ⟨1, true⟩] 1 true false false false [] [14] [1] true false true,  -- 190 runnerRef.llama runnerRef.unload:587 @Scheduler.Run$2
  mk 155 40 .write [⟨0, false⟩, ⟨1, true⟩] 1 true false false false [] [14] [1] true false false,  -- 191 runnerRef.llama runnerRef.unload:590 @Scheduler.Run$2
  mk 156 40 .read [⟨1, true⟩] 0 true false false false [] [13] [] true false true,  -- 192 runnerRef.llama runnerRef.needsReload:625 @Scheduler.Run$1
  mk 157 40 .read [⟨0, false⟩] 7 true false false false [] [10] [] false true false,  -- 193 runnerRef.llama Scheduler.unloadAllRunners:824 @Serve$2
  mk 158 40 .read [⟨0, false⟩] 7 true false false false [] [10] [] true true false,  -- 194 runnerRef.llama Scheduler.unloadAllRunners:826 @Serve$2
  mk 159 41 .write [] 0 true true false false [] [13] [] true false false,  -- 195 runnerRef.loading Scheduler.load:462 @Scheduler.Run$1
  mk 160 41 .read [⟨0, false⟩] 0 true false false false [] [13] [] true true false,  -- 196 runnerRef.loading Scheduler.filterGPUsWithoutLoadingModels:542 @Scheduler.Run$1
  mk 161 41 .read [⟨1, true⟩] 0 true false false false [] [13] [] true false false,  -- 197 runnerRef.loading runnerRef.needsReload:601 @Scheduler.Run$1
  mk 162 41 .write [⟨1, true⟩] 2 false false false false [] [13] [] true false false,  -- 198 runnerRef.loading Scheduler.load$1:484 @Scheduler.load$1
  mk 163 42 .read [⟨0, false⟩] 11 false false false false [] [11] [] true true false,  -- 199 runnerRef.model Server.PsHandler:1434 @api
  mk 164 42 .write [] 0 true true false false [] [13] [] true false false,  -- 200 runnerRef.model Scheduler.load:454 @Scheduler.Run$1
  mk 165 42 .write [⟨0, false⟩, ⟨1, true⟩] 1 true false false false [] [14] [1] true false false,  -- 201 runnerRef.model runnerRef.unload:589 @Scheduler.Run$2
  mk 166 42 .read [⟨1, true⟩] 0 true false false false [] [13] [] true false true,  -- 202 runnerRef.model runnerRef.needsReload:622 @Scheduler.Run$1
  mk 167 43 .read [⟨1, true⟩] 0 true false false false [] [13] [] true false false,  -- 203 runnerRef.modelPath Scheduler.processPending:288 @Scheduler.Run$1
  mk 168 43 .read [] 0 true false false false [] [13] [] true false false,  -- 204 runnerRef.modelPath Scheduler.processPending:301 @Scheduler.Run$1
  mk 169 43 .read [⟨1, true⟩] 1 true false false false [] [14] [] true false false,  -- 205 runnerRef.modelPath Scheduler.processCompleted:337 @Scheduler.Run$2
  mk 170 43 .read [⟨1, true⟩] 1 true false false false [] [14] [] true false true,  -- 206 runnerRef.modelPath Scheduler.processCompleted:357 @Scheduler.Run$2
  mk 171 43 .read [] 1 true false false false [] [14] [] true false false,  -- 207 runnerRef.modelPath Scheduler.processCompleted:365 @Scheduler.Run$2
  mk 172 43 .read [⟨0, false⟩, ⟨1, true⟩] 1 true false false false [] [14] [] true false false,  -- 208 runnerRef.modelPath Scheduler.processCompleted:371 @Scheduler.Run$2
  mk 173 43 .write [] 0 true true false false [] [13] [] true false false,  -- 209 runnerRef.modelPath Scheduler.load:455 @Scheduler.Run$1
  mk 145 43 .read [⟨0, false⟩] 0 true false false false [] [13] [] true true false,  -- 210 runnerRef.modelPath Scheduler.filterGPUsWithoutLoadingModels:543 @Scheduler.Run$1
  mk 174 43 .read [] 0 true false false false [] [13] [] true false false,  -- 211 runnerRef.modelPath ByDurationAndName.Less:701 @Scheduler.Run$1
  mk 175 43 .read [] 4 false false false false [] [14] [] true false false,  -- 212 runnerRef.modelPath Scheduler.processCompleted$1:346 @Scheduler.processCompleted$1
  mk 176 43 .read [⟨1, true⟩] 2 false false false false [] [13] [] true false false,  -- 213 runnerRef.modelPath Scheduler.load$1:479 @Scheduler.load$1
  mk 177 43 .read [] 19 false false false false [] [14] [] true false false,  -- 214 runnerRef.modelPath runnerRef.waitForVRAMRecovery$1:667 @runnerRef.waitForVRAMRecovery$1
  mk 178 44 .write [] 0 true true false false [] [13] [] true false false,  -- 215 runnerRef.numParallel Scheduler.load:465 @Scheduler.Run$1
  mk 179 44 .read [⟨1, true⟩] 0 true false false false [] [13] [] true false true,  -- 216 runnerRef.numParallel runnerRef.needsReload:618 @Scheduler.Run$1
  mk 167 45 .read [⟨1, true⟩] 0 true false false false [] [13] [] true false false,  -- 217 runnerRef.refCount Scheduler.processPending:288 @Scheduler.Run$1
  mk 180 45 .write [⟨1, true⟩] 1 true false false false [] [14] [] true false false,  -- 218 runnerRef.refCount Scheduler.processCompleted:334 @Scheduler.Run$2
  mk 181 45 .read [⟨1, true⟩] 1 true false false false [] [14] [] true false false,  -- 219 runnerRef.refCount Scheduler.processCompleted:335 @Scheduler.Run$2
  mk 182 45 .read [⟨0, false⟩, ⟨1, true⟩] 1 true false false false [] [14] [] true false false,  -- 220 runnerRef.refCount Scheduler.processCompleted:370 @Scheduler.Run$2
  mk 183 45 .write [⟨1, true⟩] 0 true false false false [] [13] [] true false true,  -- 221 runnerRef.refCount LlmRequest.useLoadedRunner:416 @Scheduler.Run$1
  mk 184 45 .write [] 0 true true false false [] [13] [] true false false,  -- 222 runnerRef.refCount Scheduler.load:463 @Scheduler.Run$1
  mk 185 45 .read [⟨1, true⟩] 0 true false false false [] [13] [] true false false,  -- 223 runnerRef.refCount Scheduler.findRunnerToUnload:808 @Scheduler.Run$1
  mk 186 45 .read [⟨0, false⟩, ⟨1, true⟩] 11 false false false false [] [11] [] true true false,  -- 224 runnerRef.refCount Scheduler.expireRunner:843 @api
  mk 187 45 .write [⟨1, true⟩] 2 false false false false [] [13] [] true false false,  -- 225 runnerRef.refCount Scheduler.load$1:477 @Scheduler.load$1
  mk 188 46 .read [⟨0, false⟩] 11 false false false false [] [11] [] true true false,  -- 226 runnerRef.sessionDuration Server.PsHandler:1457 @api
  mk 189 46 .write [⟨1, true⟩] 0 true false false false [] [13] [] true false false,  -- 227 runnerRef.sessionDuration Scheduler.processPending:293 @Scheduler.Run$1
  mk 190 46 .read [⟨1, true⟩] 1 true false false false [] [14] [] true false false,  -- 228 runnerRef.sessionDuration Scheduler.processCompleted:336 @Scheduler.Run$2
  mk 170 46 .read [⟨1, true⟩] 1 true false false false [] [14] [] true false true,  -- 229 runnerRef.sessionDuration Scheduler.processCompleted:357 @Scheduler.Run$2
  mk 191 46 .write [⟨1, true⟩] 0 true false false false [] [13] [] true false true,  -- 230 runnerRef.sessionDuration LlmRequest.useLoadedRunner:422 @Scheduler.Run$1
  mk 192 46 .write [] 0 true true false false [] [13] [] true false false,  -- 231 runnerRef.sessionDuration Scheduler.load:458 @Scheduler.Run$1
  mk 193 46 .read [] 0 true false false false [] [13] [] true false false,  -- 232 runnerRef.sessionDuration ByDurationAndName.Less:695 @Scheduler.Run$1
  mk 194 46 .write [⟨0, false⟩, ⟨1, true⟩] 11 false false false false [] [11] [] true true false  -- 233 runnerRef.sessionDuration Scheduler.expireRunner:842 @api
]

/-- (class, site, site) of the pairs the translator's own implementation of the rule rejects -/
def expectedViolations : List (Nat × Nat × Nat) := [(17, 68, 71), (17, 68, 71), (17, 68, 71), (17, 68, 71), (18, 72, 74), (18, 72, 74), (18, 72, 74), (18, 72, 74), (25, 93, 94), (26, 95, 97), (26, 96, 97), (27, 98, 97), (27, 98, 100), (27, 99, 97), (27, 99, 100), (38, 140, 141), (38, 140, 142), (41, 160, 162), (46, 188, 189), (46, 188, 191), (46, 193, 194)]

/-- classes a teardown function (runnerRef.unload) sets to nil -/
def clearedClassIds : List Nat := [34, 37, 40, 42]
def registryClassId : Nat := 5
def registryLockRef : LockRef := ⟨0, false⟩
def objectLockRef : LockRef := ⟨1, true⟩
/-- (class, site) of the stale reads the translator's own implementation of the rule found -/
def expectedStale : List (Nat × Nat) := []
def badClassIds : List Nat := [17, 18, 25, 26, 27, 38, 41, 46]
def goodClassIds : List Nat := [0, 1, 2, 3, 4, 5, 6, 7, 8, 9, 10, 11, 12, 13, 14, 15, 16, 19, 20, 21, 22, 23, 24, 28, 29, 30, 31, 32, 33, 34, 35, 36, 37, 39, 40, 42, 43, 44, 45]
def badClassNames : List String := ["blobDownload.Total", "blobDownload.done", "blobUpload.Total", "blobUpload.done", "blobUpload.err", "runnerRef.expiresAt", "runnerRef.loading", "runnerRef.sessionDuration"]

end OllamaVerif.Generated.C15
