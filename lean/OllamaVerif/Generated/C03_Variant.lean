-- REGENERATED on every run by vlib/checks/c03.py: the real getValue / downloadBlob / PullModel of the tree under
-- test EXECUTED on the witness inputs of the findings F5, C03-emptydigest, F6, C03-dupdigest, C03-verifywindow
-- (harness/overlay/server/zz_verif_c03gen_test.go TestVerifC03Variant). Do not edit.
namespace OllamaVerif.Generated.C03
/-- (probe, what the real code did) -/
def probes : List (String × String) := [
  ("getvalue-realm", "ok"),
  ("empty-digest", "err"),
  ("f6-errorpage-then-404", "err:digest-mismatch"),
  ("dup-digest-flip", "err:digest-mismatch"),
  ("flip-single", "err:digest-mismatch"),
  ("flip-single-verifying-announced", "yes")]
end OllamaVerif.Generated.C03
