-- REGENERATED on every run by vlib/checks/c09.py from /repo's working tree. Do not edit.
namespace OllamaVerif.Generated.C09
/-- (error class of the first Pull attempt, number of attempts Local.handlePull made) -/
def retryTable : List (String × Nat) := [("ok", 1), ("status4xx", 1), ("status5xx", 2), ("notFound", 1), ("transport", 1), ("canceled", 1), ("eof", 1), ("readErr", 2), ("digest", 1), ("incomplete", 1), ("invalidManifest", 1), ("deadline", 2)]
end OllamaVerif.Generated.C09
