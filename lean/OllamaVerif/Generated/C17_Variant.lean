-- REGENERATED on every run by vlib/checks/c17.py (TestVerifC17Variant on /repo's working tree). Do not edit.
import OllamaVerif.Model.Stream
namespace OllamaVerif.Generated.C17
/-- which repairs the tree under test shows on the findings' own inputs (F17a, F17b, F17c, F17d) -/
def treeVariant : OllamaVerif.Stream.Variant := ⟨false, true, true, true⟩
/-- api.Client returns the scanner's error for a line it cannot hold (F17e) -/
def treeClientFixed : Bool := true
/-- a tool call delivered by the done message ends the OpenAI stream with tool_calls (F17f) -/
def treeFinishFixed : Bool := true
end OllamaVerif.Generated.C17
