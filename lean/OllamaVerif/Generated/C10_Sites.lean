-- REGENERATED on every run by vlib/checks/c10.py (harness/cmd/ggufsites, go/ast) from the tree under test. Do not edit.
namespace OllamaVerif.Generated.C10
/-- risky syntactic sites in everything reachable from the decoder entry points and keyValue, in the order
    assert-unchecked, div-nonconst, index-nonconst, make-unbounded, slice-nonconst, truncate -/
def riskyCounts : List Nat := [0, 3, 0, 0, 1, 1]
def riskySites : List String := ["div-nonconst Size ggml.go:332 t.parameters() * t.typeSize() / t.blockSize()", "div-nonconst ggufPadding gguf.go:698 (align - offset%align) % align", "div-nonconst ggufPadding gguf.go:698 offset % align", "slice-nonconst readGGUFString gguf.go:360 llm.scratch[:length]", "truncate readGGUFV1String gguf.go:311 b.Truncate(b.Len() - 1)"]
end OllamaVerif.Generated.C10
