-- REGENERATED on every run by vlib/checks/c18.py (harness/cmd/c18facts, go/ast) from the tree under test. Do not edit.
namespace OllamaVerif.Generated.C18
/-- every `sample.NewSampler(...)` call outside tests: (file:func, option field carried by argument 1..5,
    number of arguments, owner of the result) -/
def callSites : List (String × List String × Nat × String) :=
  [("runner/ollamarunner/runner.go:completion", ["Temperature", "TopK", "TopP", "MinP", "Seed"], 6, "local")]
end OllamaVerif.Generated.C18
