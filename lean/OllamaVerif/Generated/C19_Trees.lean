-- REGENERATED on every run by vlib/checks/c19.py from the tree under test. Do not edit.
import OllamaVerif.Model.Prompt
namespace OllamaVerif.Generated.C19
open OllamaVerif.Prompt
/-! parse trees of the harness templates as built by the real template.Parse -/
def header : List Node := [.ite (.field .system) [.text [83, 60], .action (.field .system), .text [62]] false [], .range (.field .messages) [.ite (.ne (.field .role) (.str [115, 121, 115, 116, 101, 109])) [.text [91], .action (.field .role), .text [124], .action (.field .content), .text [93]] false []] false []]
def legacy : List Node := [.ite (.field .system) [.action (.field .system), .text [32]] false [], .ite (.field .prompt) [.action (.field .prompt), .text [32]] false [], .ite (.field .response) [.action (.field .response), .text [32]] false []]
def dflt : List Node := [.action (.field .prompt), .action (.field .response)]
def inPlace : List Node := [.range (.field .messages) [.text [91], .action (.field .role), .text [124], .action (.field .content), .text [93]] false []]
end OllamaVerif.Generated.C19
