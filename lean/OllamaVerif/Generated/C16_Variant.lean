-- REGENERATED on every run by vlib/checks/c16.py from /repo's working tree (TestVerifC16Probe). Do not edit.
namespace OllamaVerif.Generated.C16
/-- does the estimator of the tree subtract OLLAMA_GPU_OVERHEAD from the free memory (true: fix cdbdf6013 of finding W1
    is in the tree) or add it to the requirement (false: the sums wrap for an overhead near 2^64)?  Obtained by
    executing the real `EstimateGPULayers` on the W1 input (overhead 2^64-1, one GPU with 1 GiB free). -/
def overheadSubtracted : Bool := true
end OllamaVerif.Generated.C16
