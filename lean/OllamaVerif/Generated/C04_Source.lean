-- REGENERATED on every run by vlib/checks/c04.py from the working tree under test. Do not edit.
namespace OllamaVerif.Generated.C04
/-- the regular expression of GetBlobsPath (server/modelpath.go) -/
def blobPattern : String := "^sha256[:-][0-9a-fA-F]{64}$"
def serveCalls : List String := ["fixBlobs(blobsDir)", "envconfig.NoPrune()", "Manifests(false)", "PruneLayers()", "PruneDirectory(manifestsPath)"]
end OllamaVerif.Generated.C04
