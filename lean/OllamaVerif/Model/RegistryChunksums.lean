/-
  C09 — model of the chunksums response parser of `Registry.chunksums`
  (server/internal/client/ollama/registry.go: `bufio.ScanWords` over the body, `blob.ParseDigest`,
  `parseChunk`).  It turns the text the registry streams into the entries the Pull model takes
  "as served" (`PlanResp.list`), and says where the stream of entries stops.

  Scope: ASCII bodies (`bufio.ScanWords` also treats the multi-byte runes U+0085, U+00A0, U+1680,
  U+2000…U+200A, U+2028, U+2029, U+202F, U+205F, U+3000 as spaces; bytes ≥ 0x80 are outside this
  model and outside the generator), tokens below bufio's 64 KiB limit.  Core Lean only.
-/
import OllamaVerif.Model.Bytes
namespace OllamaVerif.Registry.Chunksums
open OllamaVerif

/-- `bufio.isSpace` on ASCII: `'\t' '\n' '\v' '\f' '\r' ' '` -/
def isSpace (b : UInt8) : Bool := b == 32 || (9 ≤ b && b ≤ 13)

/-- `bufio.ScanWords`: maximal runs of non-space bytes -/
def wordsAux : Bytes → Bytes → List Bytes
  | [], acc => if acc.isEmpty then [] else [acc]
  | b :: bs, acc =>
    if isSpace b then (if acc.isEmpty then wordsAux bs [] else acc :: wordsAux bs [])
    else wordsAux bs (acc ++ [b])

def words (body : Bytes) : List Bytes := wordsAux body []

def digitVal (b : UInt8) : Option Nat := if 48 ≤ b && b ≤ 57 then some (b.toNat - 48) else none

/-- a non-empty string of decimal digits -/
def parseDigitsAux : Bytes → Nat → Option Nat
  | [], acc => some acc
  | b :: bs, acc =>
    match digitVal b with
    | none => none
    | some d => parseDigitsAux bs (acc * 10 + d)

def parseDigits (w : Bytes) : Option Nat := if w.isEmpty then none else parseDigitsAux w 0

/-- `strconv.ParseInt(s, 10, 64)`: optional sign, decimal digits only, must fit an int64 -/
def parseInt64 (w : Bytes) : Option Int :=
  match w with
  | 43 :: ds => (parseDigits ds).bind fun n => if n < 2 ^ 63 then some (Int.ofNat n) else none
  | 45 :: ds => (parseDigits ds).bind fun n => if n ≤ 2 ^ 63 then some (-(Int.ofNat n)) else none
  | ds => (parseDigits ds).bind fun n => if n < 2 ^ 63 then some (Int.ofNat n) else none

/-- `strings.Cut(s, "-")`: split at the FIRST '-' -/
def cutDash : Bytes → Option (Bytes × Bytes)
  | [] => none
  | b :: bs =>
    if b == 45 then some ([], bs)
    else match cutDash bs with
      | none => none
      | some (l, r) => some (b :: l, r)

/-- `parseChunk`: "start-end", both int64, start ≤ end -/
def parseChunk (w : Bytes) : Option (Int × Int) :=
  match cutDash w with
  | none => none
  | some (l, r) =>
    match parseInt64 l, parseInt64 r with
    | some s, some e => if s ≤ e then some (s, e) else none
    | _, _ => none

def hexVal (b : UInt8) : Option Nat :=
  if 48 ≤ b && b ≤ 57 then some (b.toNat - 48)
  else if 97 ≤ b && b ≤ 102 then some (b.toNat - 87)
  else if 65 ≤ b && b ≤ 70 then some (b.toNat - 55)
  else none

/-- `hex.Decode` of an even-length string -/
def hexDecode : Bytes → Option Bytes
  | [] => some []
  | [_] => none
  | a :: b :: rest =>
    match hexVal a, hexVal b, hexDecode rest with
    | some x, some y, some r => some (UInt8.ofNat (x * 16 + y) :: r)
    | _, _, _ => none

/-- `strings.IndexAny(s, ":-")`: split at the first ':' or '-' -/
def cutColonDash : Bytes → Option (Bytes × Bytes)
  | [] => none
  | b :: bs =>
    if b == 58 || b == 45 then some ([], bs)
    else match cutColonDash bs with
      | none => none
      | some (l, r) => some (b :: l, r)

def sha256Word : Bytes := [115, 104, 97, 50, 53, 54]   -- "sha256"

/-- `blob.ParseDigest`: "sha256" (':' | '-') 64 hex digits -/
def parseDigest (w : Bytes) : Option Bytes :=
  match cutColonDash w with
  | none => none
  | some (p, sum) => if p == sha256Word && sum.length == 64 then hexDecode sum else none

/-- how the stream of entries ends (every error only stops the iteration: `Pull` notes it in the
    trace and goes on with the chunks it has) -/
inductive Ending where
  | clean | invalidDigest | missingRange | invalidRange
deriving DecidableEq, Repr

/-- the loop of `chunksums` over the scanned words: (32-byte digest, start, end) per pair of words
    until the words run out or one does not parse -/
def parseEntries : List Bytes → List (Bytes × Int × Int) × Ending
  | [] => ([], .clean)
  | [d] => match parseDigest d with
    | none => ([], .invalidDigest)
    | some _ => ([], .missingRange)
  | d :: r :: rest =>
    match parseDigest d with
    | none => ([], .invalidDigest)
    | some dg =>
      match parseChunk r with
      | none => ([], .invalidRange)
      | some (s, e) =>
        let p := parseEntries rest
        ((dg, s, e) :: p.1, p.2)

/-- the entries `Pull` gets from a chunksums body -/
def parseBody (body : Bytes) : List (Bytes × Int × Int) × Ending := parseEntries (words body)

end OllamaVerif.Registry.Chunksums
