/-
  Executable model of ollama's two tokenizers (C20):
    model/process_text.go      BytePairEncoding.Encode / Decode
    model/process_text_spm.go  SentencePieceModel.Encode / Decode

  Strings are `List Nat`: bytes (BPE input, decoded output) or runes (vocabulary entries, SPM input).
  The vocabulary is abstract (`Vocab`: three lookup functions), so the theorems hold for every
  vocabulary; the oracle instantiates it with association lists holding the entries the real
  vocabulary has for the substrings of the case.

  The pre-tokenizer regular expression of the BPE family is a PARAMETER (`split`).

  Core Lean only.
-/
namespace OllamaVerif.Tok

abbrev Str := List Nat

/-! ## byte <-> rune remapping (process_text.go Encode lines 199-207, Decode lines 325-335) -/

/-- `Encode`'s switch. `pinned = true`: the third range starts at 0x7e (the pinned tree);
    `pinned = false`: it starts at 0x7f (GPT-2's table; the proposed fix). -/
def encByte (pinned : Bool) (b : Nat) : Nat :=
  if b = 0xad then 0x143
  else if b ≤ 0x20 then b + 0x100
  else if (if pinned then 0x7e else 0x7f) ≤ b ∧ b ≤ 0xa0 then b + 0xa2
  else b

/-- `Decode`'s switch followed by `byte(r)`; `none` = the rune is skipped (0x100). -/
def decRune (r : Nat) : Option Nat :=
  if r = 0x100 then none
  else if r = 0x143 then some 0xad
  else if 0x100 < r ∧ r ≤ 0x120 then some (r - 0x100)
  else if 0x120 < r ∧ r ≤ 0x142 then some (r - 0xa2)
  else some (r % 256)

def decodeRunes (rs : Str) : Str := rs.filterMap decRune

/-! ## vocabulary -/

structure Vocab where
  /-- `Vocabulary.Encode`: id of a token string (runes) -/
  tokId : Str → Option Nat
  /-- `Vocabulary.Decode`: `Values[id]` as runes -/
  tokStr : Nat → Str
  /-- `Vocabulary.Merge(left, right)`: rank in the merge table -/
  rank : Str → Str → Option Nat
  /-- SPM: order-preserving integer key of `Scores[id]` -/
  score : Nat → Int
  /-- `len(Values)` -/
  size : Nat

/-- A special token: literal as it appears in the text, the runes of `Values[id]`, id. -/
structure Special where
  lit : Str
  runes : Str
  id : Nat

inductive Frag where
  | text (s : Str)
  | special (sp : Special)

/-! ## special-token splitting (identical loop in both families) -/

def isPrefixOf (p s : Str) : Bool :=
  match p, s with
  | [], _ => true
  | _ :: _, [] => false
  | a :: p, b :: s => a == b && isPrefixOf p s

/-- `strings.Index` -/
def indexOf (s pat : Str) : Option Nat :=
  if isPrefixOf pat s then some 0 else
  match s with
  | [] => none
  | _ :: t => (indexOf t pat).map (· + 1)

/-- all occurrences of one special inside one text fragment (the inner `for i` loop revisits `rest`) -/
def splitSpecial (sp : Special) : Nat → Str → List Frag
  | 0, s => [.text s]
  | f+1, s =>
    match indexOf s sp.lit with
    | none => [.text s]
    | some i =>
      (if i > 0 then [.text (s.take i)] else []) ++ [.special sp] ++
        (let rest := s.drop (i + sp.lit.length)
         if rest.isEmpty then [] else splitSpecial sp f rest)

def splitFrags (sp : Special) (frs : List Frag) : List Frag :=
  frs.flatMap fun fr => match fr with
    | .text s => splitSpecial sp (s.length + 1) s
    | .special q => [.special q]

def fragments (specials : List Special) (s : Str) : List Frag :=
  specials.foldl (fun frs sp => splitFrags sp frs) [.text s]

def Frag.lit : Frag → Str
  | .text s => s
  | .special sp => sp.lit

/-! ## the merge loop (shared shape: linked list of parts + priority queue of candidates) -/

/-- a live entry of the `merges` array: start index and runes -/
structure Part where
  start : Nat
  runes : Str

/-- a queue entry (`pair` in BPE, `candidate` in SPM) -/
structure Cand where
  a : Nat
  b : Nat
  key : Int      -- BPE: rank; SPM: score key
  size : Nat     -- SPM: byte size at creation
  value : Str    -- BPE: left ++ right at creation
deriving Inhabited

structure Cfg where
  /-- `pairwise`: payload (key, size, value) of a new candidate for `left`, `right`, or none -/
  make : Str → Str → Option (Int × Nat × Str)
  less : Cand → Cand → Bool
  /-- validity test of a popped candidate against the current `left`, `right` -/
  ok : Cand → Str → Str → Bool

/-! binary heap: `gods/trees/binaryheap` (BPE) and `container/heap` (SPM) are the same algorithm
    up to the comparison function -/

def heapUp (less : Cand → Cand → Bool) : Nat → Array Cand → Nat → Array Cand
  | 0, h, _ => h
  | f+1, h, j =>
    if j = 0 then h else
    let i := (j - 1) / 2
    if less (h.getD j default) (h.getD i default) then heapUp less f (h.swapIfInBounds i j) i else h

def heapDown (less : Cand → Cand → Bool) : Nat → Array Cand → Nat → Array Cand
  | 0, h, _ => h
  | f+1, h, i =>
    let j1 := 2 * i + 1
    if j1 < h.size then
      let j := if j1 + 1 < h.size && less (h.getD (j1 + 1) default) (h.getD j1 default) then j1 + 1 else j1
      if less (h.getD j default) (h.getD i default) then heapDown less f (h.swapIfInBounds i j) j else h
    else h

def heapPush (less : Cand → Cand → Bool) (h : Array Cand) (c : Cand) : Array Cand :=
  let h := h.push c
  heapUp less h.size h (h.size - 1)

def heapPop (less : Cand → Cand → Bool) (h : Array Cand) : Option (Cand × Array Cand) :=
  if h.size = 0 then none else
  let top := h.getD 0 default
  let h := (h.swapIfInBounds 0 (h.size - 1)).pop
  some (top, heapDown less h.size h 0)

def getPart (ps : List Part) (a : Nat) : Option Part := ps.find? (·.start == a)

/-- `left, right := merges[a], merges[b]`; both must be live (non-empty) and pass the candidate's
    validity test `ok left right`; then `merges[a].runes = left ++ right`, `merges[b]` dies.
    The model looks `b` up as the live successor of `a`: in the Go code a candidate whose two
    parts are both live is always adjacent (nothing between them was live when it was created
    and dead entries stay dead) — linked-list invariant, validated by L1, not proved here. -/
def joinAt (ok : Str → Str → Bool) : List Part → Nat → Nat → Option (List Part)
  | p :: q :: rest, a, b =>
    if p.start = a then
      (if q.start = b ∧ ok p.runes q.runes = true
        then some ({ start := a, runes := p.runes ++ q.runes } :: rest) else none)
    else (joinAt ok (q :: rest) a b).map (p :: ·)
  | _, _, _ => none

/-- `merges[a].p` for a live `a` (none = -1) -/
def prevStart : List Part → Nat → Option Nat
  | p :: q :: rest, a => if q.start = a then some p.start else prevStart (q :: rest) a
  | _, _ => none

/-- `merges[a].n` for a live `a` (`n` = len(runes) when `a` is the last live part) -/
def nextStart : List Part → Nat → Nat → Nat
  | p :: q :: rest, a, n => if p.start = a then q.start else nextStart (q :: rest) a n
  | _, _, n => n

/-- `pairwise(a, b)` + push -/
def pushCand (cfg : Cfg) (ps : List Part) (h : Array Cand) (a b : Nat) : Array Cand :=
  match getPart ps a, getPart ps b with
  | some l, some r =>
    match cfg.make l.runes r.runes with
    | some (key, size, value) => heapPush cfg.less h ⟨a, b, key, size, value⟩
    | none => h
  | _, _ => h

/-- the `for !pairs.Empty()` loop; `n` = len(runes) -/
def mergeLoop (cfg : Cfg) (n : Nat) : Nat → List Part → Array Cand → List Part
  | 0, ps, _ => ps
  | f+1, ps, h =>
    match heapPop cfg.less h with
    | none => ps
    | some (c, h) =>
      match joinAt (cfg.ok c) ps c.a c.b with
      | some ps' =>
        let h := match prevStart ps' c.a with
          | some p => pushCand cfg ps' h p c.a
          | none => h
        let nx := nextStart ps' c.a n
        let h := if nx < n then pushCand cfg ps' h c.a nx else h
        mergeLoop cfg n f ps' h
      | none => mergeLoop cfg n f ps h

def initParts (rs : Str) (i : Nat) : List Part :=
  match rs with
  | [] => []
  | r :: rs => ⟨i, [r]⟩ :: initParts rs (i + 1)

def initHeap (cfg : Cfg) (ps : List Part) : List Part → Array Cand → Array Cand
  | p :: q :: rest, h => initHeap cfg ps (q :: rest) (pushCand cfg ps h p.start q.start)
  | _, h => h

/-- run the whole merge procedure on a rune string -/
def mergeAll (cfg : Cfg) (rs : Str) : List Part :=
  let ps := initParts rs 0
  mergeLoop cfg rs.length (3 * rs.length + 3) ps (initHeap cfg ps ps #[])

/-! ## BPE -/

def bpeCfg (V : Vocab) : Cfg where
  make l r := (V.rank l r).map fun rk => ((rk : Int), 0, l ++ r)
  less x y := x.key < y.key
  ok c l r := (l ++ r == c.value) && (V.tokId c.value).isSome

/-- one pre-tokenizer piece (bytes) -> ids -/
def bpePiece (pinned : Bool) (V : Vocab) (piece : Str) : List Nat :=
  let mapped := piece.map (encByte pinned)
  match V.tokId mapped with
  | some id => [id]
  | none => (mergeAll (bpeCfg V) mapped).filterMap fun p => V.tokId p.runes

/-- BOS/EOS handling at the end of both `Encode`s -/
structure AddCfg where
  addSpecial : Bool
  addBOS : Bool
  bos : Nat
  addEOS : Bool
  eos : Nat

def noAdd : AddCfg := ⟨false, false, 0, false, 0⟩

def addSpecials (c : AddCfg) (ids : List Nat) : List Nat :=
  if c.addSpecial && !ids.isEmpty then
    let ids := if c.addBOS then c.bos :: ids else ids
    if c.addEOS then ids ++ [c.eos] else ids
  else ids

def bpeFrag (pinned : Bool) (V : Vocab) (split : Str → List Str) : Frag → List Nat
  | .special sp => [sp.id]
  | .text s => (split s).flatMap (bpePiece pinned V)

def bpeEncode (pinned : Bool) (V : Vocab) (split : Str → List Str) (specials : List Special)
    (c : AddCfg) (s : Str) : List Nat :=
  addSpecials c ((fragments specials s).flatMap (bpeFrag pinned V split))

def bpeDecode (V : Vocab) (ids : List Nat) : Str :=
  ids.flatMap fun id => decodeRunes (V.tokStr id)

/-! ## SentencePiece -/

def sepRune : Nat := 0x2581   -- "▁"

/-- UTF-8 encoding of one rune (Go's `string(rune)` for valid scalar values) -/
def utf8 (r : Nat) : Str :=
  if r < 0x80 then [r]
  else if r < 0x800 then [0xC0 + r / 64, 0x80 + r % 64]
  else if r < 0x10000 then [0xE0 + r / 4096, 0x80 + r / 64 % 64, 0x80 + r % 64]
  else [0xF0 + r / 262144, 0x80 + r / 4096 % 64, 0x80 + r / 64 % 64, 0x80 + r % 64]

def utf8s (rs : Str) : Str := rs.flatMap utf8

def hexUpper (n : Nat) : Nat := if n < 10 then 48 + n else 55 + n

/-- `fmt.Sprintf("<0x%02X>", b)` as runes -/
def byteTok (b : Nat) : Str := [60, 48, 120, hexUpper (b / 16), hexUpper (b % 16), 62]

def hexVal (c : Nat) : Option Nat :=
  if 48 ≤ c ∧ c ≤ 57 then some (c - 48)
  else if 97 ≤ c ∧ c ≤ 102 then some (c - 87)
  else if 65 ≤ c ∧ c ≤ 70 then some (c - 55)
  else none

/-- `Decode`'s byte-token test on the bytes of a token:
    none = not of the form, some none = `ParseUint` error, some (some b) = byte b -/
def parseByteTok (bs : Str) : Option (Option Nat) :=
  match bs with
  | [60, 48, 120, c1, c2, 62] =>
    match hexVal c1, hexVal c2 with
    | some x, some y => some (some (16 * x + y))
    | none, some y => if c1 = 95 then some (some y) else some none   -- "0x_F" is accepted by base-0 ParseUint
    | _, _ => some none
  | _ => none

def spmCfg (V : Vocab) : Cfg where
  make l r := (V.tokId (l ++ r)).map fun id => (V.score id, (utf8s l).length + (utf8s r).length, [])
  less x y := x.key > y.key || (x.key == y.key && x.a < y.a)
  /- exactly the Go test: only the byte size (staleness).  That a candidate passing it was created
     from exactly these `l`, `r` (so `l ++ r` is a token) is PROVED: Proofs/Tokenizer.lean `join_inv`. -/
  ok c l r := (utf8s l).length + (utf8s r).length == c.size

def spmToken (V : Vocab) (tok : Str) : List Nat :=
  match V.tokId tok with
  | some id => [id]
  | none => (utf8s tok).filterMap fun b => V.tokId (byteTok b)

def spaceToSep (r : Nat) : Nat := if r = 32 then sepRune else r
def sepToSpace (r : Nat) : Nat := if r = sepRune then 32 else r

def spmText (V : Vocab) (s : Str) : List Nat :=
  let text := s.map spaceToSep
  match V.tokId text with
  | some id => [id]
  | none => (mergeAll (spmCfg V) text).flatMap fun p => spmToken V p.runes

def spmFrag (V : Vocab) : Frag → List Nat
  | .special sp => [sp.id]
  | .text s => spmText V s

/-- input as runes (valid UTF-8 text) -/
def spmEncode (V : Vocab) (specials : List Special) (c : AddCfg) (s : Str) : List Nat :=
  addSpecials c ((fragments specials s).flatMap (spmFrag V))

def spmDecodeTok (V : Vocab) (id : Nat) : Option Str :=
  let data := utf8s ((V.tokStr id).map sepToSpace)
  match parseByteTok data with
  | none => some data
  | some none => none
  | some (some b) => some [b]

/-- `none` = "failed to parse hex byte" error -/
def spmDecode (V : Vocab) : List Nat → Option Str
  | [] => some []
  | id :: ids =>
    match spmDecodeTok V id, spmDecode V ids with
    | some a, some b => some (a ++ b)
    | _, _ => none

end OllamaVerif.Tok

namespace OllamaVerif.Tok

/-! ## calls on one tokenizer object: the lazily built caches of `Vocabulary`

`Vocabulary` builds three things on first use behind `sync.Once` and reuses them afterwards: the list of
special tokens (`special`), and the two lookup maps (`values`, `merge`, which the model represents by the
functions `tokId` / `rank` themselves).  The state threaded through a history of calls is the special-token
cache; `compute` is what `SpecialVocabulary()` derives from `Values`/`Types`. -/

structure TokState where
  special : Option (List Special)

def TokState.init : TokState := ⟨none⟩

/-- `Vocabulary.SpecialVocabulary()`: compute once, then return the cached list -/
def specialVocabulary (compute : List Special) (st : TokState) : List Special × TokState :=
  match st.special with
  | some l => (l, st)
  | none => (compute, ⟨some compute⟩)

/-- one `Encode` call on a tokenizer in state `st` (`enc` = either family's encoder given the specials) -/
def encodeCall {α} (enc : List Special → α → List Nat) (compute : List Special) (st : TokState) (x : α) :
    List Nat × TokState :=
  let r := specialVocabulary compute st
  (enc r.1 x, r.2)

/-- a history of calls on one tokenizer object -/
def runHistory {α} (enc : List Special → α → List Nat) (compute : List Special) :
    TokState → List α → List (List Nat)
  | _, [] => []
  | st, x :: rest =>
    let r := encodeCall enc compute st x
    r.1 :: runHistory enc compute r.2 rest

end OllamaVerif.Tok
