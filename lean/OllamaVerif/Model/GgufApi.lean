/-
  The other handlers that decode an untrusted model file (C10): `POST /api/create {"from": …}`
  (`server/model.go parseFromModel` + `createModel`) and `POST /api/show` (`Model.Capabilities` in
  `server/images.go` + `getModelData` → `llm.LoadModel` in `server/routes.go`), on top of the decoder model and
  the typed accessors of Model/Gguf.lean.  Outcomes as in the decoder: a value, an error (the request is answered
  with an error), a panic site (the handler dies: create's goroutine is outside gin's recovery), an over-budget
  allocation.
-/
import OllamaVerif.Model.Gguf

namespace OllamaVerif.Gguf
open OllamaVerif

/-- decoding an `os.File`: like `decode`, but `lseek` refuses offsets above the file system's limit (EINVAL; 2^63-1 on tmpfs,
    16 TiB - 4 KiB on ext4 with 4 KiB blocks; measured by the driver).  With backward seeks rejected the largest position a
    decode asks for is its end offset. -/
def decodeFile (bs : Bytes) (maxArraySize : Int) (budget : Option Nat) (g : Guards) (maxSeek : Nat) : Except Err Decoded :=
  match decode bs maxArraySize budget g with
  | .ok d => if d.endOffset > maxSeek then .error (.invalid "seek beyond the file system's limit") else .ok d
  | .error e => .error e

/-- `parseFromModel`: every model / projector / adapter layer of the installed model is decoded
    (`ggml.Decode(blob, 0)`), the first failure ends the request -/
def parseFromModel (blobs : List Bytes) (budget : Option Nat) (g : Guards) (maxSeek : Nat := two63 - 1) :
    Except Err (List Decoded) :=
  blobs.mapM (fun b => decodeFile b 0 budget g maxSeek)

/-- `POST /api/create {"from": m}`: `parseFromModel`, then `createModel` reads every decoded layer through the typed
    accessors (Architecture, FileType, …; `createAccessors`) -/
def createFrom (blobs : List Bytes) (budget : Option Nat := none) (g : Guards := Guards.tree) (maxSeek : Nat := two63 - 1) :
    Except Err Unit := do
  let ds ← parseFromModel blobs budget g maxSeek
  let _ ← ds.mapM (fun d => createAccessors g d.kvs)
  pure ()

/-- `Model.Capabilities()`: decode with the default array limit; a decoding ERROR is logged and tolerated ("couldn't
    decode ggml"), on success `<arch>.pooling_type` / `<arch>.vision.block_count` are looked up under the architecture
    the typed accessor returns -/
def capabilities (blob : Bytes) (budget : Option Nat) (g : Guards) (maxSeek : Nat := two63 - 1) : Except Err (List Nat) :=
  match decodeFile blob 0 budget g maxSeek with
  | .ok d => do
    let arch ← kvArchitecture g d.kvs
    let c1 := if (kvLookup d.kvs (arch ++ bytesOf ".pooling_type")).isSome then [1] else [0]   -- embedding / completion
    let arch2 ← kvArchitecture g d.kvs
    pure (if (kvLookup d.kvs (arch2 ++ bytesOf ".vision.block_count")).isSome then c1 ++ [2] else c1)
  | .error (.panic s) => .error (.panic s)
  | .error (.alloc s n) => .error (.alloc s n)
  | .error _ => .ok []

/-- `POST /api/show`: `Capabilities`, then `getModelData` → `llm.LoadModel(path, maxArraySize)` with no array limit when
    `verbose` (-1) and the default otherwise; its error fails the request.  Result: number of tensors listed. -/
def showModel (blob : Bytes) (verbose : Bool) (budget : Option Nat := none) (g : Guards := Guards.tree)
    (maxSeek : Nat := two63 - 1) : Except Err Nat := do
  let _ ← capabilities blob budget g maxSeek
  let d ← decodeFile blob (if verbose then -1 else 0) budget g maxSeek
  pure d.tensors.length

end OllamaVerif.Gguf
