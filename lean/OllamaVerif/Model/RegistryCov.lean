/-
  C09 — branch tracing of the Pull model (Model/Registry.lean), used by the check to measure which
  branches of the model the L1 generator reaches (`correspondence-coverage`).

  `advanceT`, `stepT`, `runStepsT` are the model's `advance`, `step`, `runSteps` with a list of branch
  tags as a second result.  That their first result IS the model's function is proved
  (`advanceT_fst`, `stepT_fst`, `runStepsT_fst` in Properties/C09Tree.lean), so the counters the check
  prints describe the functions the theorems are about, not a copy that may drift.
  Core Lean only (compiled into the oracle).
-/
import OllamaVerif.Model.Registry
namespace OllamaVerif.Registry

section
variable {D : Type} [DecidableEq D]

/-- tags of the marker check of one chunk -/
def markerTags (v : Variant) (c : Cache D) (l : Layer D) (cs : CS D) : List String :=
  if c.markers ⟨l.digest, cs.digest, cs.start, cs.len⟩ && !markerHit v c l cs then ["chunk.marker-stale"] else []

/-- `advance` with branch tags -/
def advanceT (v : Variant) (limit : Option Nat) : Run D → List (Op D) → Run D × List String
  | st, [] => ({ st with ops := [] }, ["main.reached-wait"])
  | st, .beginL _ l big :: rest =>
    if shortcut st.cache l then
      let r := advanceT v limit { st with completed := st.completed + l.size, skipLayer := true } rest
      (r.1, "layer.size-shortcut" :: r.2)
    else
      let r := advanceT v limit
        { st with cache := (if prevalidated st.cache l then st.cache else ensureFile v st.cache l.digest),
                  skipLayer := false,
                  skipChunks := big && st.cancelled, prevalid := prevalidated st.cache l } rest
      let t1 := if prevalidated st.cache l then "layer.prevalidated-chunker"
                else match st.cache.work v l.digest with
                  | some f => if f.length < l.size then "layer.open-partial-file" else "layer.open-oversized-file"
                  | none => "layer.create-file"
      let t2 := if big && st.cancelled then ["layer.chunksums-after-cancel"] else []
      let t3 := if big then "layer.chunked" else "layer.single-chunk"
      (r.1, t1 :: t3 :: t2 ++ r.2)
  | st, .chunk e l cs :: rest =>
    if st.skipLayer || st.skipChunks then
      let r := advanceT v limit st rest
      (r.1, "chunk.of-skipped-layer" :: r.2)
    else if markerHit v st.cache l cs then
      let r := advanceT v limit { st with completed := st.completed + cs.len } rest
      (r.1, "chunk.marker-hit" :: r.2)
    else if !slotFree limit st then ({ st with ops := .launch e l cs :: rest }, "chunk.blocked-in-go" :: markerTags v st.cache l cs)
    else if st.cancelled then
      let r := advanceT v limit { st with firstErr := orElse st.firstErr .canceled } rest
      (r.1, "chunk.launched-after-cancel" :: markerTags v st.cache l cs ++ r.2)
    else
      let r := advanceT v limit { st with inflight := st.inflight ++ [⟨e, l, cs, st.prevalid⟩] } rest
      (r.1, "chunk.launched" :: markerTags v st.cache l cs ++ r.2)
  | st, .launch e l cs :: rest =>
    if !slotFree limit st then ({ st with ops := .launch e l cs :: rest }, ["waiting-chunk.still-blocked"])
    else if st.cancelled then
      let r := advanceT v limit { st with firstErr := orElse st.firstErr .canceled } rest
      (r.1, "waiting-chunk.launched-after-cancel" :: r.2)
    else
      let r := advanceT v limit { st with inflight := st.inflight ++ [⟨e, l, cs, st.prevalid⟩] } rest
      (r.1, (if markerHit v st.cache l cs then "waiting-chunk.launched-marker-appeared-meanwhile" else "waiting-chunk.launched") :: r.2)
  | st, .closeL e :: rest =>
    if st.skipLayer then
      let r := advanceT v limit st rest
      (r.1, r.2)
    else if !slotFree limit st then ({ st with ops := .closeL e :: rest }, ["closer.blocked-in-go"])
    else
      let r := advanceT v limit { st with closers := st.closers ++ [e] } rest
      (r.1, (if st.inflight.any (·.entry == e) then "closer.holds-slot" else "closer.returns-at-once") :: r.2)

/-- tags of one `Chunker.Put` (what `putLoop` did), from its inputs and result -/
def putTags (f : Bytes) (off len : Nat) (pieces : List Bytes) (r : Bytes × Option ErrClass) : List String :=
  let res := match r.2 with
    | none => "put.ok"
    | some .digest => "put.digest-mismatch-last-write-refused"
    | some .eof => "put.short-body"
    | some .readErr => "put.read-error"
    | some .deadline => "put.stalled-until-read-timeout"
    | some _ => "put.other-error"
  let total := pieces.flatten.length
  [res] ++ (if len = 0 then ["put.zero-length-chunk"] else [])
    ++ (if total > len then ["put.extra-bytes-cut"] else [])
    ++ (if (pieces.filter (fun p => !p.isEmpty)).length > 1 then ["put.several-reads"] else [])
    ++ (if off > f.length then ["put.beyond-file-end-leaves-hole"] else [])
    ++ (if off < f.length && r.1 != f then ["put.overwrites-existing-bytes"] else [])
    ++ (if r.2.isSome && r.1 != f then ["put.failed-after-partial-write"] else [])

/-- `step` with branch tags -/
def stepT (H : Bytes → D) (v : Variant) (limit : Option Nat) (st : Run D) : Step → Option (Run D × List String)
  | .release k r =>
    match st.inflight[k]? with
    | none => none
    | some t =>
      if isRedirect r then some (st, ["answer.redirect-followed"]) else
      let st1 := applyTask H v { st with inflight := st.inflight.eraseIdx k } t r
      let st2 := if stalls t r then
          { st1 with inflight := [],
                     firstErr := if st1.inflight.isEmpty then st1.firstErr else orElse st1.firstErr .deadline }
        else st1
      let a := advanceT v limit st2 st2.ops
      let t0 := match r with
        | .fail _ => ["answer.request-failed"]
        | .redirect => []
        | .body pieces fin =>
          if t.prevalid then ["answer.body-to-prevalidated-chunker"]
          else
            let f := (st.cache.work v t.layer.digest).getD []
            putTags f t.cs.start t.cs.len pieces (putLoop H t.cs.digest f t.cs.start t.cs.len [] pieces fin)
      let t1 := if stalls t r && !st1.inflight.isEmpty then ["answer.stall-times-out-other-requests"] else []
      let t2 := if st.firstErr.isSome then ["answer.after-first-error"] else []
      let t3 := if k > 0 then ["answer.out-of-launch-order"] else []
      some (a.1, t0 ++ t1 ++ t2 ++ t3 ++ a.2)
  | .cancel =>
    let st1 := { st with cancelled := true, inflight := [],
                         firstErr := if st.inflight.isEmpty then st.firstErr else orElse st.firstErr .canceled }
    let a := advanceT v limit st1 st1.ops
    some (a.1, (if st.inflight.isEmpty then "cancel.nothing-waiting" else "cancel.fails-waiting-requests") :: a.2)
  | .timeout =>
    let st1 := { st with inflight := [],
                         firstErr := if st.inflight.isEmpty then st.firstErr else orElse st.firstErr .deadline }
    let a := advanceT v limit st1 st1.ops
    some (a.1, (if st.inflight.isEmpty then "timeout.nothing-waiting" else "timeout.fails-waiting-requests") :: a.2)

def runStepsT (H : Bytes → D) (v : Variant) (limit : Option Nat) : Run D → List Step → Option (Run D × List String)
  | st, [] => some (st, [])
  | st, s :: ss =>
    match stepT H v limit st s with
    | none => none
    | some (st', t) =>
      match runStepsT H v limit st' ss with
      | none => none
      | some (st'', t') => some (st'', t ++ t')

/-- tags of the tail of `Pull` (`finish`) -/
def finishTags (H : Bytes → D) (cfg : Cfg) (name : Nat) (m : Manifest D) (st : Run D) : List String :=
  if !(st.ops.isEmpty && st.inflight.isEmpty) then ["finish.script-incomplete"]
  else match st.firstErr with
    | some _ => ["finish.goroutine-error"]
    | none =>
      if st.completed != expected m then
        [if st.completed < expected m then "finish.counter-below-expected" else "finish.counter-above-expected"]
      else match verifyPass H cfg st.cache m with
        | (c1, true) =>
          ["finish.verified", match c1.links name with
            | some old => if cfg.linkShortcut && old.dataLen == m.dataLen then "link.kept-same-size-shortcut"
                          else "link.replaced"
            | none => "link.new"]
        | (_, false) =>
          ["finish.verification-failed-blob-removed"] ++
            (match m.all.find? (fun l => !layerGood H st.cache l) with
              | some l => (match st.cache.files l.digest with
                  | some f => [if f.length < l.size then "verify.blob-short"
                               else if f.length > l.size then "verify.blob-oversized" else "verify.blob-wrong-content"]
                  | none => ["verify.blob-missing"])
              | none => [])

/-- tags of one `Pull` attempt -/
def pullTags (H : Bytes → D) (cfg : Cfg) (c : Cache D) (a : Attempt D) : List String :=
  match a.man with
  | .error _ => ["pull.resolve-failed"]
  | .ok m =>
    if m.layers.isEmpty then ["pull.no-layers"]
    else
      let st0 : Run D := { cache := c, ops := layerOps cfg.thr a.plans 0 m.all }
      let s := advanceT cfg.variant cfg.limit st0 st0.ops
      match runStepsT H cfg.variant cfg.limit s.1 a.steps with
      | none => ["pull.bad-script"]
      | some (st, t) => s.2 ++ t ++ finishTags H cfg a.name m st

def historyTags (H : Bytes → D) (cfg : Cfg) : Cache D → List (Attempt D) → List String
  | _, [] => []
  | c, a :: as => pullTags H cfg c a ++ historyTags H cfg (pull H cfg c a).1 as

end
/-! ## Branch tags of the push models (HTTP exchanges, new-client push, legacy push) -/

/-- which branch of `exchangeFrom` / `follow` one physical request takes -/
def hopTag (sent : Nat) (m : Method) (b : BodyKind) (r : Resp) : String :=
  if r.status = 0 then "http.no-answer"
  else match follow m b r with
    | none =>
      if r.loc && (r.status = 307 || r.status = 308) then "http.307-308-not-followed-body-not-resendable"
      else if r.loc && decide (300 ≤ r.status) && decide (r.status < 400) then "http.3xx-with-location-not-a-redirect"
      else if decide (300 ≤ r.status) && decide (r.status < 400) then "http.3xx-without-location"
      else if r.status < 200 then "http.final-1xx"
      else if r.status < 300 then "http.final-2xx"
      else if r.status < 500 then "http.final-4xx"
      else "http.final-5xx"
    | some (m', _) =>
      if sent ≥ 10 then "http.redirect-limit"
      else if r.status = 307 || r.status = 308 then "http.307-308-repeats-method-and-body"
      else if m' = m then "http.301-303-keeps-get-head" else "http.301-303-becomes-get"

/-- one tag per physical request of an exchange (same walk as `exchangeFrom`) -/
def exchangeTagsFrom : Nat → Nat → Method → BodyKind → List Resp → List String
  | 0, _, _, _, _ => ["http.out-of-fuel"]
  | fuel + 1, sent, m, b, rs =>
    let r := rs.headD ⟨200, false⟩
    if r.status = 0 then [hopTag sent m b r]
    else match follow m b r with
      | none => [hopTag sent m b r]
      | some (m', b') =>
        if sent ≥ 10 then [hopTag sent m b r]
        else hopTag sent m b r :: exchangeTagsFrom fuel (sent + 1) m' b' rs.tail

def exchangeTags (m : Method) (b : BodyKind) (rs : List Resp) : List String := exchangeTagsFrom 10 1 m b rs

/-- tags of one layer goroutine of `Registry.Push` -/
def layerRunTags (u : UpScript) : List String :=
  let p := exchange .post .none u.post
  exchangeTags .post .none u.post ++
  match p.2 with
  | none => ["push.post-no-response"]
  | some r =>
    if !is2xx r.status then ["push.post-refused"]
    else if !r.loc then ["push.registry-has-blob"]
    else exchangeTags .put .stream u.put ++
      [if exchangeOk (exchange .put .stream u.put).2 then "push.upload-accepted" else "push.upload-failed"]

def pushTags (ups : List UpScript) (man : List Resp) : List String :=
  ups.flatMap layerRunTags ++
    (if layersGood ups then
      exchangeTags .put .rewindable man ++
        [if (manifestRun man).2 then "push.manifest-accepted" else "push.manifest-failed"]
     else ["push.manifest-suppressed"])

/-- tags of `uploadBlob` for one layer of the legacy push -/
def legacyLayerTags (strict : Bool) (l : LegacyLayer) : List String :=
  let h := exchange .head .none l.head
  exchangeTags .head .none l.head ++
  match mrr strict h.2 with
  | .ok _ => ["legacy.head-registry-has-blob"]
  | .err => ["legacy.head-error"]
  | .notFound =>
    let p := exchange .post .none l.post
    exchangeTags .post .none l.post ++
    match mrr strict p.2 with
    | .ok r =>
      if !r.loc then ["legacy.post-without-location"]
      else
        let a := triesX 0 2 .patch .stream (patchOk strict) maxRetries l.patch
        (if (patchOk strict (exchange .patch .stream (l.patch.headD [])).2) then [] else ["legacy.patch-try-failed-retried"]) ++
        match a.2 with
        | none => ["legacy.patch-tries-exhausted"]
        | some ra =>
          if !ra.loc then ["legacy.patch-answer-without-location"]
          else
            let c := triesX 0 3 .put .none (commitOk strict) maxRetries l.commit
            (if (commitOk strict (exchange .put .none (l.commit.headD [])).2) then [] else ["legacy.commit-try-failed-retried"]) ++
            [if c.2.isSome then "legacy.layer-committed" else "legacy.commit-tries-exhausted"]
    | .notFound => ["legacy.post-not-found"]
    | .err => ["legacy.post-error"]

/-- layers in order; the layers after the first failing one are never started -/
def legacyLayersTags (strict : Bool) : List LegacyLayer → List String
  | [] => []
  | l :: ls =>
    legacyLayerTags strict l ++
      (if (legacyLayer strict 0 l).2 then legacyLayersTags strict ls
       else if ls.isEmpty then [] else ["legacy.later-layers-not-started"])

def legacyTags (strict : Bool) (ls : List LegacyLayer) (man : List Resp) : List String :=
  legacyLayersTags strict ls ++
    (if (legacyLayers strict 0 ls).2 then
      exchangeTags .put .rewindable man ++
        [if (legacyManifest strict man).2 then "legacy.manifest-accepted" else "legacy.manifest-failed"]
     else ["legacy.manifest-suppressed"])

end OllamaVerif.Registry
