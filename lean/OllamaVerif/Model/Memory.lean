/-
  Executable model of the GPU memory estimator (C16):
    llm/memory.go  EstimateGPULayers, PredictServerFit.

  The model works on the *derived* quantities the estimator reads from the model file and the
  environment (the Go driver recomputes them with the very functions the estimator calls:
  `GraphSize`, `GroupLayers()[..].Size()`, `VisionGraphSize`, `projectorMemoryRequirements`,
  `KV().GQA()`, `envconfig.GpuOverhead`), and mirrors everything the estimator does with them.

  All Go arithmetic on these quantities is `uint64`: every `+`/`*` is mirrored by `wr (…)`,
  reduction modulo 2^64, in the order Go evaluates it (left-associative).  The only
  subtraction is `FreeMemory-overhead` of the repaired variant (`subW`).  `int` quantities (layer counts, `opts.NumGPU`) never leave
  the range where `Nat`/`Int` arithmetic is exact.

  Core Lean only (compiled into the oracle).
-/
namespace OllamaVerif.Memory

/-- uint64 wrap-around -/
def wr (x : Nat) : Nat := x % 18446744073709551616

/-- uint64 subtraction `a - b` (for `b ≤ 2^64`) -/
def subW (a b : Nat) : Nat := (a + 18446744073709551616 - b) % 18446744073709551616

inductive Lib | cpu | metal | other
  deriving DecidableEq, Repr

structure Gpu where
  free : Nat          -- discover.GpuInfo.FreeMemory
  minimum : Nat       -- discover.GpuInfo.MinimumMemory
  deriving DecidableEq, Repr

/-- what the estimator reads (one library group of GPUs) -/
structure Inp where
  lib : Lib                           -- gpus[0].Library
  gpus : List Gpu
  overhead : Nat                      -- envconfig.GpuOverhead()
  projs : List (Nat × Nat)            -- projectorMemoryRequirements(p) for each projector path
  vision : Nat × Nat                  -- f.VisionGraphSize()
  blk0 : Option Nat                   -- layers["blk.0"].Size() if present
  blocks : List (Option Nat × Nat)    -- for i < BlockCount: (layers["blk.i"].Size() if present, kv[i])
  graphPartial : Nat                  -- GraphSize(...) partialOffload
  graphFull : Nat                     -- GraphSize(...) fullOffload
  gqa : Nat                           -- f.KV().GQA()
  outNorm : Option Nat                -- layers["output_norm"].Size()
  output : Option Nat                 -- layers["output"].Size()
  tokenEmbd : Option Nat              -- layers["token_embd"].Size()
  numGPU : Int                        -- opts.NumGPU
  /-- code variant: `false` = the pinned code; `true` = with proposed fix C16-W1 (the overhead is
      subtracted from the free memory instead of being added to the requirement) -/
  ovSafe : Bool := false
  deriving Repr

/-- the constants the placement works with (all already reduced mod 2^64) -/
structure Core where
  overhead : Nat
  gzo : Nat               -- gpuZeroOverhead = projectorWeights + projectorGraph
  gP : Nat                -- graphPartialOffload (final)
  gF : Nat                -- graphFullOffload (final)
  layer0 : Nat            -- the "one layer worth of buffer": blk.0 + kv[0]
  layerSizes : List Nat   -- value of `layerSize` in iteration i of the block loop
  memOut : Nat            -- memoryLayerOutput
  numGPU : Int
  ovSafe : Bool           -- code variant (see `Inp.ovSafe`)
  deriving Repr

def Core.maxg (c : Core) : Nat := max c.gP c.gF

/-- per-GPU running plan: gpus[i] together with gpuAllocations[i], layerCounts[i] -/
structure GS where
  free : Nat
  minimum : Nat
  alloc : Nat
  count : Nat
  deriving DecidableEq, Repr

structure St where
  ws : List Nat           -- gpusWithSpace (indices into gpus)
  gs : List GS
  lc : Nat                -- layerCount
  deriving Repr

/-! ### derived constants -/

def sumW : List Nat → Nat
  | [] => 0
  | x :: xs => wr (x + sumW xs)

/-- left-to-right accumulation `acc += x` -/
def accW (acc : Nat) : List Nat → Nat
  | [] => acc
  | x :: xs => accW (wr (acc + x)) xs

/-- the value of `layerSize` in each iteration of the block loop: a block that has tensors sets
    it to `blk.Size() + kv[i]`; a block without tensors leaves the previous value. -/
def resolve (prev : Nat) : List (Option Nat × Nat) → List Nat
  | [] => []
  | (some w, kv) :: rest => wr (w + kv) :: resolve (wr (w + kv)) rest
  | (none, _) :: rest => prev :: resolve prev rest

def projTotals (inp : Inp) : Nat × Nat :=
  let pw := accW 0 (inp.projs.map (·.1))
  let pg := accW 0 (inp.projs.map (·.2))
  if pw == 0 && pg == 0 then inp.vision else (pw, pg)

def kvTotal (inp : Inp) : Nat := accW 0 (inp.blocks.map (·.2))

def layer0 (inp : Inp) : Nat :=
  let l := inp.blk0.getD 0
  match inp.blocks with
  | [] => l
  | (_, kv0) :: _ => wr (l + kv0)

/-- graph sizes after the zero-defaults and the metal / multi-GPU adjustment -/
def graphs (inp : Inp) : Nat × Nat :=
  let gp := if inp.graphPartial == 0 then wr (inp.gqa * kvTotal inp) / 6 else inp.graphPartial
  let gf := if inp.graphFull == 0 then gp else inp.graphFull
  if inp.lib == Lib.metal then (gf, gf)
  else if inp.gpus.length > 1 then (gp, gp)
  else (gp, gf)

def memOut (inp : Inp) : Nat :=
  let a := inp.outNorm.getD 0      -- 0 + size never wraps
  match inp.output with
  | some o => wr (a + o)
  | none => match inp.tokenEmbd with
    | some t => wr (a + t)
    | none => a

def memWeights (inp : Inp) : Nat := accW 0 (inp.blocks.filterMap (·.1))

def mkCore (inp : Inp) : Core :=
  let (pw, pg) := projTotals inp
  let (gp, gf) := graphs inp
  let l0 := layer0 inp
  { overhead := inp.overhead, gzo := wr (pw + pg), gP := gp, gF := gf, layer0 := l0,
    layerSizes := resolve l0 inp.blocks, memOut := memOut inp, numGPU := inp.numGPU,
    ovSafe := inp.ovSafe }

/-! ### admission -/

/-- `overhead+gzo+max(gP,gF)+MinimumMemory+2*layerSize` -/
def admitNeed (c : Core) (minimum gzo : Nat) : Nat :=
  wr (wr (wr (wr (c.overhead + gzo) + c.maxg) + minimum) + wr (2 * c.layer0))

/-- the admission test (true = the GPU is skipped).
    pinned: `FreeMemory < overhead+gzo+max(gP,gF)+MinimumMemory+2*layerSize`;
    variant C16-W1: `FreeMemory < overhead || FreeMemory-overhead < gzo+max(gP,gF)+MinimumMemory+2*layerSize` -/
def admitReject (c : Core) (g : Gpu) (gzo : Nat) : Bool :=
  if c.ovSafe then
    decide (g.free < c.overhead) ||
      decide (subW g.free c.overhead < wr (wr (wr (gzo + c.maxg) + g.minimum) + wr (2 * c.layer0)))
  else decide (g.free < admitNeed c g.minimum gzo)

/-- The admission loop.  `gpuAllocations[gpuZeroID] += gpuZeroOverhead` (done by the code right
    after the loop, on the first admitted GPU) is folded into the step that admits that GPU; for
    the other GPUs `gzo = 0` and `wr (a + 0) = a` because `a` is already reduced. -/
def admit (c : Core) : (i : Nat) → List Gpu → (ws : List Nat) → List Nat × List GS
  | _, [], ws => (ws, [])
  | i, g :: rest, ws =>
    let gzo := if ws.isEmpty then c.gzo else 0
    if admitReject c g gzo then
      let r := admit c (i + 1) rest ws
      (r.1, ⟨g.free, g.minimum, 0, 0⟩ :: r.2)
    else
      let r := admit c (i + 1) rest (ws ++ [i])
      (r.1, ⟨g.free, g.minimum, wr (wr (g.minimum + c.layer0) + gzo), 0⟩ :: r.2)

/-! ### placement -/

/-- `g.g.FreeMemory > overhead+used+need` with `used = gpuAllocations[g.i] + max(gP,gF)`
    (variant C16-W1: `g.g.FreeMemory-overhead > used+need`) -/
def fits (c : Core) (s : GS) (need : Nat) : Bool :=
  if c.ovSafe then decide (subW s.free c.overhead > wr (wr (s.alloc + c.maxg) + need))
  else decide (s.free > wr (wr (c.overhead + wr (s.alloc + c.maxg)) + need))

def lookup (ws : List Nat) (gs : List GS) (p : Nat) : Option (Nat × GS) :=
  match ws[p]? with
  | none => none
  | some g => match gs[g]? with
    | none => none
    | some s => some (g, s)

/-- inner loop of the block loop: `for j := len(gpusWithSpace); j > 0; j--`, trying
    `gpusWithSpace[i%j]` and deleting it when the layer does not fit.  Returns the GPU the layer
    went to (if any) and the remaining `gpusWithSpace`.  (`lookup = none` cannot happen for
    reachable states: `j = len ws` and the entries index `gpus`; it is treated as "does not fit".) -/
def placeLayer (c : Core) (gs : List GS) (i L : Nat) : (j : Nat) → List Nat → Option Nat × List Nat
  | 0, ws => (none, ws)
  | j + 1, ws =>
    let p := i % (j + 1)
    match lookup ws gs p with
    | some (g, s) =>
      if fits c s L then (some g, ws) else placeLayer c gs i L j (ws.eraseIdx p)
    | none => placeLayer c gs i L j (ws.eraseIdx p)

/-- `gpuAllocations[g] += need; layerCounts[g]++` -/
def bump (need : Nat) : List GS → Nat → List GS
  | [], _ => []
  | s :: rest, 0 => { s with alloc := wr (s.alloc + need), count := s.count + 1 } :: rest
  | s :: rest, g + 1 => s :: bump need rest g

def capped (c : Core) (lc : Nat) : Bool := decide (0 ≤ c.numGPU ∧ c.numGPU ≤ (lc : Int))

/-- the block loop -/
def layerLoop (c : Core) : (i : Nat) → List Nat → St → St
  | _, [], st => st
  | i, L :: rest, st =>
    if capped c st.lc then layerLoop c (i + 1) rest st
    else
      match placeLayer c st.gs i L st.ws.length st.ws with
      | (some g, ws) => layerLoop c (i + 1) rest { ws := ws, gs := bump L st.gs g, lc := st.lc + 1 }
      | (none, ws) => layerLoop c (i + 1) rest { st with ws := ws }

/-- the output-layer loop: same order of attempts, but nothing is deleted from gpusWithSpace -/
def placeOut (c : Core) (gs : List GS) (ws : List Nat) (lc need : Nat) : (j : Nat) → Option Nat
  | 0 => none
  | j + 1 =>
    match lookup ws gs (lc % (j + 1)) with
    | some (g, s) => if fits c s need then some g else placeOut c gs ws lc need j
    | none => placeOut c gs ws lc need j

/-- add the graph to every GPU that got layers -/
def addGraph (graph : Nat) (gs : List GS) : List GS :=
  gs.map fun s => if s.count ≤ 0 then s else { s with alloc := wr (s.alloc + graph) }

/-- everything up to the summaries -/
structure Plan where
  gs : List GS            -- final gpuAllocations / layerCounts
  lc : Nat                -- layerCount
  fully : Bool            -- fullyLoaded
  overflow : Nat
  deriving Repr

def lastLayer (c : Core) : Nat := c.layerSizes.getLastD c.layer0

def plan (c : Core) (gpus : List Gpu) : Plan :=
  let adm := admit c 0 gpus []
  let st := layerLoop c 0 c.layerSizes { ws := adm.1, gs := adm.2, lc := 0 }
  let blocks := c.layerSizes.length
  let fully := decide (st.lc ≥ blocks)
  -- `for i := layerCount; i < blocks; i++ { overflow += layerSize }` in closed form
  let overflow := if st.lc ≥ blocks then 0 else wr ((blocks - st.lc) * lastLayer c)
  let considerOut := decide (c.memOut > 0) && !(capped c st.lc)
  let placed := if considerOut then placeOut c st.gs st.ws st.lc c.memOut st.ws.length else none
  let gs := match placed with
    | some g => bump c.memOut st.gs g
    | none => st.gs
  let lc := match placed with
    | some _ => st.lc + 1
    | none => st.lc
  let short := considerOut && decide (lc < blocks + 1)
  let fully := if short then false else fully
  let overflow := if short then wr (overflow + c.memOut) else overflow
  let graph := if fully then c.gF else c.gP
  { gs := addGraph graph gs, lc := lc, fully := fully, overflow := overflow }

/-! ### the estimate -/

structure Est where
  layers : Nat
  graph : Nat
  vram : Nat
  total : Nat
  split : Option (List Nat)   -- TensorSplit: `none` = "", `some l` = the counts joined by ","
  sizes : List Nat            -- GPUSizes
  -- internal (logging) fields, compared as well
  kv : Nat
  memWeights : Nat
  memOut : Nat
  gF : Nat
  gP : Nat
  projW : Nat
  projG : Nat
  deriving DecidableEq, Repr

def estimate (inp : Inp) : Est :=
  let c := mkCore inp
  let p := plan c inp.gpus
  let partialReq := accW 0 (p.gs.map (·.alloc))
  let total := wr (partialReq + p.overflow)
  let (pw, pg) := projTotals inp
  let base : Est :=
    { layers := 0, graph := 0, vram := 0, total := total, split := none, sizes := [],
      kv := kvTotal inp, memWeights := memWeights inp, memOut := c.memOut, gF := c.gF, gP := c.gP,
      projW := pw, projG := pg }
  if inp.lib == Lib.cpu then base
  else if p.lc == 0 then base
  else
    { base with
      layers := p.lc
      graph := if p.fully then c.gF else c.gP
      vram := partialReq
      split := if inp.gpus.length > 1 then some (p.gs.map (·.count)) else none
      sizes := p.gs.map (·.alloc) }

/-- the test `PredictServerFit` applies to one library group's estimate -/
def fitCond (numGPU : Int) (blocks layers : Nat) : Bool :=
  if numGPU < 0 then decide (layers > 0 ∧ layers ≥ blocks + 1)
  else decide (layers > 0 ∧ (layers : Int) ≥ numGPU)

/-- `PredictServerFit`: the groups are `allGpus.ByLibrary()`; the other fields of `common` are
    shared.  Returns (fits, estimatedVRAM). -/
def predictFitLoop (common : Inp) (vram : Nat) : List (Lib × List Gpu) → Bool × Nat
  | [] => (false, vram)
  | (lib, gpus) :: rest =>
    let e := estimate { common with lib := lib, gpus := gpus }
    if fitCond common.numGPU common.blocks.length e.layers then (true, e.vram)
    else predictFitLoop common e.vram rest

def predictFit (common : Inp) (groups : List (Lib × List Gpu)) : Bool × Nat :=
  predictFitLoop common 0 groups

/-! ### `GpuInfoList.ByLibrary` (discover/types.go) and `llmServer.EstimatedVRAMByGPU` -/

/-- one entry of the scheduler's GPU list as `ByLibrary`/`PredictServerFit` see it:
    `key` = class of `Library[_Variant]`, `idk` = class of the GPU ID -/
structure FGpu where
  key : Nat
  idk : Nat
  lib : Lib
  gpu : Gpu
  deriving DecidableEq, Repr

structure Group where
  key : Nat
  members : List FGpu
  deriving Repr

/-- append to the group with the same key, or open a new group at the end -/
def insertGroup (x : FGpu) : List Group → List Group
  | [] => [⟨x.key, [x]⟩]
  | grp :: rest =>
    if grp.key == x.key then ⟨grp.key, grp.members ++ [x]⟩ :: rest
    else grp :: insertGroup x rest

def byLibrary (l : List FGpu) : List Group := l.foldl (fun acc x => insertGroup x acc) []

/-- the library the estimator sees for a group: `gpus[0].Library` -/
def Group.lib (g : Group) : Lib :=
  match g.members with
  | [] => Lib.other
  | x :: _ => x.lib

def Group.gpus (g : Group) : List Gpu := g.members.map (·.gpu)

/-- `PredictServerFit` on the whole list -/
def predictFitAll (common : Inp) (all : List FGpu) : Bool × Nat :=
  predictFit common ((byLibrary all).map fun g => (g.lib, g.gpus))

/-- `llmServer.EstimatedVRAMByGPU`: the size planned on the first GPU of the runner's list with
    that ID whose index is still inside `GPUSizes`; 0 otherwise -/
def vramByGPU : (ids : List Nat) → (sizes : List Nat) → (id : Nat) → Nat
  | [], _, _ => 0
  | _ :: _, [], _ => 0
  | i :: is, s :: ss, id => if i == id then s else vramByGPU is ss id

/-! ### `pickBestFullFitByLibrary` / `pickBestPartialFitByLibrary` (server/sched.go)

The estimator's derived inputs depend on the parallelism `p` that is tried (`NumCtx = origNumCtx*p`,
`GraphSize(ctx, batch, p)`), so the model takes them as a function `commonOf : p ↦ Inp`. -/

/-- one step of `sort.Sort(sort.Reverse(discover.ByFreeMemory(sgl)))`.  For lists of ≤ 12 elements
    Go's pdqsort is a plain insertion sort (an element moves left while it has strictly more free
    memory than its left neighbour): stable, descending by free memory. -/
def insertDesc (x : FGpu) : List FGpu → List FGpu
  | [] => [x]
  | y :: ys => if y.gpu.free < x.gpu.free then x :: y :: ys else y :: insertDesc x ys

def sortDesc (l : List FGpu) : List FGpu := l.foldl (fun acc x => insertDesc x acc) []

/-- `numParallelToTry` -/
def toTry (np : Int) (dp : Nat) : List Nat := if np ≤ 0 then [dp, 1] else [np.toNat]

/-- `for _, g := range sgl { if ok := PredictServerFit([]GpuInfo{g}, …); ok { return [g] } }` -/
def firstSingle (common : Inp) : List FGpu → Option FGpu
  | [] => none
  | g :: rest => if (predictFitAll common [g]).1 then some g else firstSingle common rest

def trySingles (commonOf : Nat → Inp) (sgl : List FGpu) : List Nat → Option (List FGpu × Nat)
  | [] => none
  | p :: ps =>
    match firstSingle (commonOf p) sgl with
    | some g => some ([g], p)
    | none => trySingles commonOf sgl ps

/-- "Now try all the GPUs": the SORTED list is checked and the SORTED list is returned -/
def tryAll (commonOf : Nat → Inp) (sgl : List FGpu) : List Nat → Option (List FGpu × Nat)
  | [] => none
  | p :: ps =>
    if (predictFitAll (commonOf p) sgl).1 then some (sgl, p) else tryAll commonOf sgl ps

def pickFullGroups (commonOf : Nat → Inp) (tries : List Nat) (spread : Bool) :
    List Group → Option (List FGpu × Nat)
  | [] => none
  | g :: rest =>
    let sgl := sortDesc g.members
    match (if spread then none else trySingles commonOf sgl tries) with
    | some r => some r
    | none =>
      match tryAll commonOf sgl tries with
      | some r => some r
      | none => pickFullGroups commonOf tries spread rest

/-- `pickBestFullFitByLibrary`: `none` = nil; `some (L, p)` = returned list and `*numParallel` -/
def pickFull (commonOf : Nat → Inp) (np : Int) (dp : Nat) (spread : Bool) (all : List FGpu) :
    Option (List FGpu × Nat) :=
  pickFullGroups commonOf (toTry np dp) spread (byLibrary all)

def bestLoop (common : Inp) : (i : Nat) → List Group → (best fit : Nat) → Nat
  | _, [], _, fit => fit
  | i, g :: rest, best, fit =>
    let v := (predictFitAll common g.members).2
    if v > best then bestLoop common (i + 1) rest v i else bestLoop common (i + 1) rest best fit

/-- `pickBestPartialFitByLibrary` (for the parallelism it settles on) -/
def pickPartial (common : Inp) (all : List FGpu) : List FGpu :=
  let groups := byLibrary all
  if groups.length ≤ 1 then all
  else match groups[bestLoop common 0 groups 0 0]? with
    | some g => g.members
    | none => []

/-! ### scheduler side: `Scheduler.updateFreeSpace` (server/sched.go)

Before the estimator runs for a further model, the scheduler reconciles the free memory the
driver reported with the usage it predicted for the runners that are already loaded.  Pure
function of the GPU list and the loaded runners' per-GPU predictions. -/

structure SGpu where
  key : Nat       -- class of (Library, ID): the key of `predMap`
  idk : Nat       -- class of ID: what `EstimatedVRAMByGPU` is asked
  total : Nat     -- TotalMemory
  free : Nat      -- FreeMemory as reported
  deriving DecidableEq, Repr

/-- a loaded runner: `none` = `r.llama == nil` (skipped with a warning); `some m` = its
    `EstimatedVRAMByGPU` as an association list by ID class (absent = 0) -/
abbrev Runner := Option (List (Nat × Nat))

def estOf (m : List (Nat × Nat)) (idk : Nat) : Nat :=
  match m.lookup idk with
  | some v => v
  | none => 0

/-- what one runner adds to `predMap[key]`: one term for every GPU of the list with that key -/
def runnerTerms (gpus : List SGpu) (key : Nat) : Runner → List Nat
  | none => []
  | some m => (gpus.filter (fun g => g.key == key)).map (fun g => estOf m g.idk)

/-- `predMap[key]` after the accumulation loop (uint64 sum; the order is immaterial mod 2^64) -/
def predOf (gpus : List SGpu) (runners : List Runner) (key : Nat) : Nat :=
  accW 0 (runners.flatMap (runnerTerms gpus key))

/-- the three branches: `p > total ⇒ 0`; `total-p < free ⇒ total-p`; else unchanged -/
def adjust (p : Nat) (g : SGpu) : Nat :=
  if p > g.total then 0
  else if g.total - p < g.free then g.total - p
  else g.free

/-- FreeMemory of every GPU after `updateFreeSpace`.  A GPU has an entry in `predMap` iff at least
    one loaded runner has a non-nil `llama` (then every GPU of the list has one); without an
    entry the GPU is left alone. -/
def updateFree (gpus : List SGpu) (runners : List Runner) : List Nat :=
  if runners.any (·.isSome) then gpus.map (fun g => adjust (predOf gpus runners g.key) g)
  else gpus.map (·.free)

/-! ### the scheduler's load path (server/sched.go `processPending`, GPU branch)

What `processPending` does with a pending request whose model is not loaded, below
`OLLAMA_MAX_LOADED_MODELS`, on a GPU inventory (not the single-"cpu" list): the glue between
`filterGPUsWithoutLoadingModels`, `updateFreeSpace` and the two pick functions. -/

/-- one GPU of the refreshed inventory (`s.getGpuFn()`) -/
structure IGpu where
  f : FGpu        -- Library[_Variant] class, ID class, library, reported free / minimum memory
  lkey : Nat      -- class of (Library, ID): the key of `updateFreeSpace`'s `predMap`
  total : Nat     -- TotalMemory
  deriving Repr

/-- a loaded runner as the load path reads it: `runner.loading`, the IDs of `runner.gpus` (recorded at
    provisioning) and the per-GPU sizes of its estimate (`EstimatedVRAMByGPU(id) = vramByGPU ids sizes id`) -/
structure LRunner where
  loading : Bool
  ids : List Nat
  sizes : List Nat
  deriving Repr

/-- `for i := range ret { if ret[i].ID == busyGPU.ID { ret = append(ret[:i], ret[i+1:]...); break } }` -/
def removeFirstId (id : Nat) : List IGpu → List IGpu
  | [] => []
  | g :: rest => if g.f.idk == id then rest else g :: removeFirstId id rest

def removeIds : List Nat → List IGpu → List IGpu
  | [], l => l
  | id :: ids, l => removeIds ids (removeFirstId id l)

/-- `filterGPUsWithoutLoadingModels`: for every runner that is still loading, every GPU it was
    provisioned on is removed (first entry with that ID).  Go iterates the `loaded` map in random
    order; removals of first-matches by ID commute, so any order gives this list. -/
def filterLoading : List LRunner → List IGpu → List IGpu
  | [], l => l
  | r :: rs, l => filterLoading rs (if r.loading then removeIds r.ids l else l)

def IGpu.toS (g : IGpu) : SGpu := ⟨g.lkey, g.f.idk, g.total, g.f.gpu.free⟩

def IGpu.withFree (g : IGpu) (fr : Nat) : IGpu :=
  { g with f := { g.f with gpu := { g.f.gpu with free := fr } } }

/-- the runner's `EstimatedVRAMByGPU` as the association list `updateFree` reads -/
def LRunner.toR (r : LRunner) : Runner := some (r.ids.zip r.sizes)

/-- `availGpus` after `filterGPUsWithoutLoadingModels` and `updateFreeSpace` -/
def adjInv (inv : List IGpu) (runners : List LRunner) : List IGpu :=
  let avail := filterLoading runners inv
  List.zipWith IGpu.withFree avail (updateFree (avail.map IGpu.toS) (runners.map LRunner.toR))

/-- `numParallel` as `processPending` hands it to the pick functions: `OLLAMA_NUM_PARALLEL`, forced
    to 1 for the mllama family and for models without the completion capability (embedding models) -/
def effParallel (np : Int) (mllama embed : Bool) : Int :=
  let np1 := if mllama && np != 1 then 1 else np
  if embed then 1 else np1

inductive Decision
  | load (full : Bool) (l : List FGpu) (p : Nat)   -- `s.loadFn(pending, ggml, l, p)`
  | evict                                          -- `findRunnerToUnload`, wait for the unload, retry
  | delay                                          -- other models still loading: requeue
  deriving DecidableEq, Repr

/-- The GPU branch of `processPending` for a model that is not loaded.  No runner loaded: best full
    fit on the reported inventory, else the best *partial* fit ("only allow partial loads when this is
    the first model").  Otherwise: filter out GPUs with loading models, lower the free figures by the
    predictions, and load only on a full fit; no fit ⇒ requeue if some GPU was filtered out, else evict. -/
def loadDecision (commonOf : Nat → Inp) (np : Int) (dp : Nat) (spread : Bool)
    (inv : List IGpu) (runners : List LRunner) : Decision :=
  if runners.isEmpty then
    match pickFull commonOf np dp spread (inv.map (·.f)) with
    | some (l, p) => .load true l p
    | none =>
      let pp := if np ≤ 0 then 1 else np.toNat
      .load false (pickPartial (commonOf pp) (inv.map (·.f))) pp
  else
    let adj := adjInv inv runners
    match pickFull commonOf np dp spread (adj.map (·.f)) with
    | some (l, p) => .load true l p
    | none => if adj.length < inv.length then .delay else .evict

/-! ### the CPU branch of `processPending` (`len(gpus) == 1 && gpus[0].Library == "cpu"`) -/

/-- "simplifying assumption of defaultParallel when in CPU mode" -/
def cpuParallel (np : Int) (dp : Nat) : Nat := if np ≤ 0 then dp else np.toNat

/-- no runner loaded ⇒ load; otherwise `maybeFindCPURunnerToUnload`: load iff the estimate's `TotalSize`
    (options of `numParallel`, `NumCtx = origNumCtx * numParallel`) is at most the free system memory, else evict -/
def cpuDecision (commonOf : Nat → Inp) (np : Int) (dp : Nat) (g : FGpu) (nRunners : Nat) : Decision :=
  let p := cpuParallel np dp
  if nRunners == 0 then .load false [g] p
  else if (estimate { commonOf p with lib := g.lib, gpus := [g.gpu] }).total ≤ g.gpu.free then .load false [g] p
  else .evict

/-! ### `GGML.GraphSize` (fs/ggml/ggml.go): the KV-cache sizes and the two graph figures

The estimator's derived inputs `kv[i]`, `graphPartial`, `graphFull` as a function of what `GraphSize`
reads from the model file.  Every uint64 `+`/`*` wraps (`+ᵤ`, `*ᵤ`, Go's precedence and
left-associativity); `/` is exact.  `uint64(float64(x) * bytesPerElement)` is modelled in integer
arithmetic: `float64(x)` rounds to a 53-bit mantissa (ties to even), the factors 2 / 1 / 0.5 are exact,
the conversion back truncates (amd64: an out-of-range value converts to 2^63). -/

def mulW (a b : Nat) : Nat := wr (a * b)
def addW (a b : Nat) : Nat := wr (a + b)

local infixl:70 " *ᵤ " => mulW
local infixl:65 " +ᵤ " => addW

inductive Arch
  | llama | mllama | gemma | gemma3 | commandR | qwen2 | phi2 | stablelm | deepseek2 | chatglm | other
  deriving DecidableEq, Repr

/-- what `GraphSize` reads from the model file -/
structure GMeta where
  arch : Arch
  blocks : Nat                 -- KV().BlockCount()
  embedding : Nat              -- KV().EmbeddingLength()
  heads : Nat                  -- KV().HeadCount()
  headsKV : Nat                -- KV().HeadCountKV()  (default 1)
  keyLen : Option Nat          -- attention.key_length
  valLen : Option Nat          -- attention.value_length
  vocab : Nat                  -- len(tokenizer.ggml.tokens)
  ffnGateExps : Option Nat     -- layers["blk.0"]["ffn_gate_exps.weight"].Size()       (llama: mixtral 8x22b)
  ff : Nat                     -- llama.feed_forward_length
  ffnGate1 : Option Nat        -- layers["blk.0"]["ffn_gate.0.weight"].Shape[1]        (llama: mixtral 8x7b)
  cross : List Nat             -- attention.cross_attention_layers                     (mllama)
  ropeFreqs : Nat              -- parameters of rope_freqs.weights, 0 if absent        (mllama)
  sliding : Nat                -- attention.sliding_window                             (gemma3)
  qkvBias : Option Nat         -- layers["blk.0"]["attn_qkv.bias"].Shape[0]            (chatglm)
  deriving Repr

/-- `float64(x)` for a uint64 `x`, as an integer: round to 53 significant bits, ties to even -/
def roundF64 (x : Nat) : Nat :=
  if x < 9007199254740992 then x
  else
    let e := Nat.log2 x - 52
    let q := x >>> e
    let r := x % 2 ^ e
    let half := 2 ^ (e - 1)
    let q' := if r > half || (r == half && q % 2 == 1) then q + 1 else q
    q' <<< e

/-- float64 → uint64 conversion of a non-negative integral-or-half value (already floored) -/
def toU64 (v : Nat) : Nat := if v ≥ 18446744073709551616 then 9223372036854775808 else v

/-- `uint64(float64(x) * kvCacheBytesPerElement(t))`; `kvct`: 0 = f16 (default, ×2), 1 = q8_0 (×1), 2 = q4_0 (×0.5) -/
def kvBytes (kvct : Nat) (x : Nat) : Nat :=
  match kvct with
  | 1 => toU64 (roundF64 x)
  | 2 => toU64 (roundF64 x / 2)
  | _ => toU64 (2 * roundF64 x)

def GMeta.embeddingHeads (m : GMeta) : Nat := if m.heads > 0 then m.embedding / m.heads else 0
/-- `uint64(kv.Uint("attention.key_length", uint32(kv.EmbeddingHeadCount())))` -/
def GMeta.ehK (m : GMeta) : Nat := m.keyLen.getD (m.embeddingHeads % 4294967296)
def GMeta.ehV (m : GMeta) : Nat := m.valLen.getD (m.embeddingHeads % 4294967296)

/-- the per-layer KV figures after the architecture-specific overrides -/
def kvOf (m : GMeta) (context batch p kvct : Nat) : List Nat :=
  let base := kvBytes kvct (context *ᵤ (m.ehK +ᵤ m.ehV) *ᵤ m.headsKV)
  match m.arch with
  | .mllama =>
    (List.range m.blocks).map fun i =>
      if m.cross.contains i then m.headsKV *ᵤ (m.ehK +ᵤ m.ehV) *ᵤ 4 *ᵤ 1601 *ᵤ 4 else base
  | .gemma3 =>
    let slidingWindow := (p *ᵤ m.sliding) +ᵤ batch
    let loc := kvBytes kvct (slidingWindow *ᵤ (m.ehK +ᵤ m.ehV) *ᵤ m.headsKV)
    (List.range m.blocks).map fun i => if (i + 1) % 6 != 0 then loc else base
  | _ => List.replicate m.blocks base

/-- (partialOffload, fullOffload) -/
def graphOf (m : GMeta) (context batch : Nat) : Nat × Nat :=
  let embedding := m.embedding
  let heads := m.heads
  let headsKV := m.headsKV
  let vocab := m.vocab
  let embeddingHeads := m.embeddingHeads
  let embeddingHeadsK := m.ehK
  match m.arch with
  | .llama =>
    let full := max (4 *ᵤ batch *ᵤ (1 +ᵤ 4 *ᵤ embedding +ᵤ context *ᵤ (1 +ᵤ heads)))
                    (4 *ᵤ batch *ᵤ (embedding +ᵤ vocab))
    let part := 4 *ᵤ batch *ᵤ embedding +ᵤ
      max (4 *ᵤ batch *ᵤ (1 +ᵤ embedding +ᵤ max context embedding) +ᵤ embedding *ᵤ embedding *ᵤ 9 / 16
             +ᵤ 4 *ᵤ context *ᵤ (batch *ᵤ heads +ᵤ embeddingHeads *ᵤ headsKV))
          (4 *ᵤ batch *ᵤ (embedding +ᵤ vocab) +ᵤ embedding *ᵤ vocab *ᵤ 105 / 128)
    match m.ffnGateExps with
    | some sz =>
      (max (3 *ᵤ sz +ᵤ 4 *ᵤ batch *ᵤ (2 *ᵤ m.ff +ᵤ headsKV +ᵤ embedding +ᵤ context +ᵤ embeddingHeads *ᵤ headsKV))
           (4 *ᵤ (context *ᵤ batch *ᵤ heads +ᵤ context *ᵤ embeddingHeads *ᵤ headsKV +ᵤ batch *ᵤ 1024
                  +ᵤ embeddingHeads *ᵤ headsKV *ᵤ batch)), full)
    | none =>
      match m.ffnGate1 with
      | some g1 =>
        (max (4 *ᵤ batch *ᵤ (3 +ᵤ embeddingHeads *ᵤ headsKV +ᵤ embedding +ᵤ context *ᵤ (1 +ᵤ heads) +ᵤ g1)
                +ᵤ (embedding *ᵤ embedding +ᵤ 3 *ᵤ embedding *ᵤ headsKV *ᵤ g1) *ᵤ 9 / 16)
             (4 *ᵤ batch *ᵤ (1 +ᵤ 2 *ᵤ embedding +ᵤ context *ᵤ (1 +ᵤ heads))
                +ᵤ embedding *ᵤ (6 *ᵤ context *ᵤ headsKV / heads +ᵤ embedding *ᵤ 9 / 16)),
         4 *ᵤ batch *ᵤ (2 +ᵤ 3 *ᵤ embedding +ᵤ context *ᵤ (1 +ᵤ heads) +ᵤ 2 *ᵤ headsKV +ᵤ g1))
      | none => (part, full)
  | .mllama =>
    (max (4 *ᵤ (batch *ᵤ (2 *ᵤ embedding +ᵤ 1 +ᵤ context *ᵤ (1 +ᵤ heads) +ᵤ embeddingHeadsK *ᵤ heads)
                +ᵤ m.ropeFreqs +ᵤ embeddingHeadsK *ᵤ context *ᵤ headsKV))
         (4 *ᵤ batch *ᵤ (embedding +ᵤ vocab) +ᵤ embedding *ᵤ vocab *ᵤ 105 / 128),
     max (4 *ᵤ batch *ᵤ (2 +ᵤ 3 *ᵤ embedding +ᵤ embeddingHeadsK *ᵤ heads +ᵤ context *ᵤ (1 +ᵤ heads)))
         (4 *ᵤ batch *ᵤ (embedding +ᵤ vocab)))
  | .gemma | .gemma3 =>
    (max (4 *ᵤ embedding *ᵤ batch +ᵤ embedding *ᵤ vocab *ᵤ 105 / 128 +ᵤ 4 *ᵤ vocab *ᵤ batch)
         (4 *ᵤ batch *ᵤ (2 *ᵤ embedding +ᵤ 1 +ᵤ 2 *ᵤ embeddingHeadsK *ᵤ heads +ᵤ context +ᵤ context *ᵤ heads)
            +ᵤ 4 *ᵤ embeddingHeadsK *ᵤ context *ᵤ 8 +ᵤ embedding *ᵤ embeddingHeadsK *ᵤ heads *ᵤ 9 / 16),
     max (4 *ᵤ batch *ᵤ (embedding +ᵤ vocab))
         (4 *ᵤ batch *ᵤ (2 +ᵤ context +ᵤ context *ᵤ heads +ᵤ 2 *ᵤ embedding +ᵤ 2 *ᵤ embeddingHeadsK *ᵤ heads)))
  | .commandR =>
    (max (4 *ᵤ batch *ᵤ (embedding +ᵤ vocab) +ᵤ embedding *ᵤ vocab *ᵤ 105 / 128)
         (4 *ᵤ batch *ᵤ (1 +ᵤ 2 *ᵤ embedding +ᵤ context *ᵤ (1 +ᵤ heads)) +ᵤ 4 *ᵤ embedding *ᵤ context
            +ᵤ embedding *ᵤ embedding *ᵤ 9 / 16),
     max (4 *ᵤ batch *ᵤ (embedding +ᵤ vocab))
         (4 *ᵤ batch *ᵤ (2 +ᵤ 4 *ᵤ embedding +ᵤ context *ᵤ (1 +ᵤ heads))))
  | .qwen2 =>
    (max (4 *ᵤ batch *ᵤ (embedding +ᵤ vocab) +ᵤ embedding *ᵤ vocab *ᵤ 105 / 128)
         (4 *ᵤ (batch *ᵤ (1 +ᵤ 2 *ᵤ embedding +ᵤ context *ᵤ (1 +ᵤ heads)) +ᵤ embedding *ᵤ (1 +ᵤ context))),
     max (4 *ᵤ batch *ᵤ (embedding +ᵤ vocab))
         (4 *ᵤ batch *ᵤ (1 +ᵤ 2 *ᵤ embedding +ᵤ context +ᵤ context *ᵤ heads)))
  | .phi2 =>
    (max (4 *ᵤ batch *ᵤ (2 *ᵤ embedding +ᵤ vocab) +ᵤ embedding *ᵤ vocab *ᵤ 105 / 128)
         (4 *ᵤ batch *ᵤ (2 +ᵤ 3 *ᵤ embedding +ᵤ context +ᵤ context *ᵤ heads)),
     max (4 *ᵤ batch *ᵤ (embedding +ᵤ vocab))
         (4 *ᵤ batch *ᵤ (1 +ᵤ 4 *ᵤ embedding +ᵤ context +ᵤ context *ᵤ heads)))
  | .stablelm =>
    let full := 4 *ᵤ batch *ᵤ (context *ᵤ (1 +ᵤ heads) +ᵤ 3 *ᵤ embedding +ᵤ 2)
    (max (4 *ᵤ batch *ᵤ (vocab +ᵤ 2 *ᵤ embedding)) full, full)
  | .deepseek2 =>
    (max (4 *ᵤ batch *ᵤ (3 *ᵤ embedding +ᵤ vocab) +ᵤ embedding *ᵤ vocab *ᵤ 105 / 128)
         (4 *ᵤ batch *ᵤ (2 *ᵤ embedding +ᵤ 1 +ᵤ 2 *ᵤ embeddingHeadsK *ᵤ headsKV +ᵤ context +ᵤ context *ᵤ headsKV)
            +ᵤ 4 *ᵤ embeddingHeadsK *ᵤ context *ᵤ headsKV +ᵤ embedding *ᵤ embeddingHeadsK *ᵤ headsKV *ᵤ 9 / 16),
     max (4 *ᵤ batch *ᵤ (3 *ᵤ embedding +ᵤ vocab))
         (4 *ᵤ batch *ᵤ (3 *ᵤ embedding +ᵤ 2 +ᵤ context *ᵤ (1 +ᵤ headsKV) +ᵤ 2 *ᵤ embeddingHeadsK *ᵤ headsKV)))
  | .chatglm =>
    let full := 4 *ᵤ batch *ᵤ (embedding +ᵤ vocab)
    let part := 4 *ᵤ batch *ᵤ (embedding +ᵤ vocab) +ᵤ embedding *ᵤ vocab *ᵤ 105 / 128
    match m.qkvBias with
    | some qb =>
      (max part (4 *ᵤ batch *ᵤ (1 +ᵤ 2 *ᵤ embedding +ᵤ embeddingHeadsK *ᵤ heads +ᵤ context +ᵤ context *ᵤ heads)
                  +ᵤ 4 *ᵤ embeddingHeadsK *ᵤ context +ᵤ 4 *ᵤ context *ᵤ embeddingHeadsK +ᵤ 4 *ᵤ qb),
       max full (4 *ᵤ batch *ᵤ (2 +ᵤ 2 *ᵤ embedding +ᵤ context +ᵤ context *ᵤ heads +ᵤ embeddingHeadsK *ᵤ heads +ᵤ qb)))
    | none => (part, full)
  | .other => (0, 0)

/-- `GGML.GraphSize(context, batch, numParallel, kvCacheType)` = (kv, partialOffload, fullOffload) -/
def graphSize (m : GMeta) (context batch p kvct : Nat) : List Nat × Nat × Nat :=
  (kvOf m context batch p kvct, (graphOf m context batch).1, (graphOf m context batch).2)

/-! ### `llm.projectorMemoryRequirements` (llm/memory.go) and `GGML.VisionGraphSize` (fs/ggml/ggml.go) -/

/-- what the two functions read from a (projector or model) file -/
structure VMeta where
  mllama : Bool            -- general.architecture == "mllama"
  gemmaLike : Bool         -- "gemma3" | "mistral3"            (VisionGraphSize only)
  visionBlocks : Nat       -- <arch>.vision.block_count         (VisionGraphSize only)
  tensorSizes : List Nat   -- Size() of the tensors that are summed: all of them (projector file); layers "v" / "v.*" (VisionGraphSize)
  imageSize : Nat
  patchSize : Nat
  numChannels : Nat
  maxNumTiles : Nat
  embeddingLength : Nat
  headCount : Nat
  classEmbd : Bool         -- a tensor `v.class_embd` exists
  deriving Repr

/-- `(imageSize / patchSize) * (imageSize / patchSize)`, `+1` with a class embedding (patchSize ≠ 0) -/
def numPatches (m : VMeta) : Nat :=
  let n := (m.imageSize / m.patchSize) *ᵤ (m.imageSize / m.patchSize)
  if m.classEmbd then n +ᵤ 1 else n

/-- `numPatches + 8 - (numPatches%8)%8` (uint64) -/
def paddedPatches (n : Nat) : Nat := subW (n +ᵤ 8) ((n % 8) % 8)

def mllamaVisionGraph (m : VMeta) : Nat :=
  let np := numPatches m
  let pp := paddedPatches np
  4 *ᵤ (8 +ᵤ m.imageSize *ᵤ m.imageSize *ᵤ m.numChannels *ᵤ m.maxNumTiles
          +ᵤ m.embeddingLength *ᵤ np *ᵤ m.maxNumTiles
          +ᵤ 9 *ᵤ m.embeddingLength *ᵤ pp *ᵤ m.maxNumTiles
          +ᵤ pp *ᵤ m.maxNumTiles *ᵤ pp *ᵤ m.maxNumTiles *ᵤ m.headCount)

/-- `projectorMemoryRequirements` on a decodable file: (weights, graphSize); `none` = the run-time panic
    (integer division by a zero `vision.patch_size` in the mllama branch).  An unreadable file is (0, 0)
    (handled by the caller of this function in the driver). -/
def projReq (m : VMeta) : Option (Nat × Nat) :=
  let w := accW 0 m.tensorSizes
  if m.mllama then
    if m.patchSize == 0 then none else some (w, mllamaVisionGraph m)
  else some (w, 0)

/-- `GGML.VisionGraphSize` -/
def visionGraphSize (m : VMeta) : Nat × Nat :=
  if m.visionBlocks == 0 then (0, 0)
  else
    let w := accW 0 m.tensorSizes
    if m.patchSize == 0 then (w, 0)
    else if m.mllama then (w, mllamaVisionGraph m)
    else if m.gemmaLike then
      let np := numPatches m
      (w, 4 *ᵤ (m.imageSize *ᵤ m.imageSize *ᵤ m.numChannels +ᵤ m.embeddingLength *ᵤ m.patchSize +ᵤ np *ᵤ np *ᵤ m.headCount))
    else (w, 0)

end OllamaVerif.Memory
