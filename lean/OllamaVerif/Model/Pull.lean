/-
  C03 — executable model of the default ("legacy") pull path of ollama:
    server/images.go   PullModel, pullModelManifest, makeRequestWithRetry, getValue,
                       parseRegistryChallenge, verifyBlob, deleteUnusedLayers
    server/download.go downloadBlob, blobDownload.Prepare / run / downloadChunk
    server/auth.go     getAuthorizationToken (as a scripted reply)

  The registry / token server / CDN is an adversary: every request stream has a *script*
  (a finite list of replies); when a script is exhausted the peer answers honestly from
  `Registry.content`.  SHA-256 is the uninterpreted parameter `hash`.

  The model mirrors the code that exists, defects included:
    * `getValue` slices out of range when `key=` ends the header            (F5)
    * layers are renamed into place unverified; verification happens after *all*
      layers were fetched, and an existing file is trusted (cache hit)      (F6)
    * `skipVerify` is keyed by digest, last write wins                      (dup digests)
    * a layer with an empty digest is a "cache hit" on the blobs directory and
      `digest[7:19]` panics                                                  (empty digest)
    * resumed part records are trusted: no HEAD, no re-validation            (stuck plan)
    * the chunk status code is never looked at; the manifest's `size` is never compared.
  Core Lean only.
-/
import OllamaVerif.Model.Bytes
namespace OllamaVerif.Pull

abbrev Digest := Bytes
abbrev Name := Nat

/-! ## Challenge parsing (`getValue`, `parseRegistryChallenge`), byte exact -/

def isPrefixOf : Bytes → Bytes → Bool
  | [], _ => true
  | _ :: _, [] => false
  | a :: as, b :: bs => a == b && isPrefixOf as bs

/-- `strings.Index(hay, needle)`; `none` is Go's -1 -/
def indexOf (needle : Bytes) : Bytes → Option Nat
  | [] => if needle.isEmpty then some 0 else none
  | h :: t =>
    if isPrefixOf needle (h :: t) then some 0
    else match indexOf needle t with
      | some i => some (i + 1)
      | none => none

/-- the `for endIdx < len(header)` loop of `getValue`, as the number of bytes it advances over
    `header[startIdx:]`: stops at a `"` that is last or followed by `,` -/
def scanEnd : Bytes → Nat
  | [] => 0
  | c :: rest =>
    if c = 34 then
      match rest with
      | n :: _ => if n ≠ 44 then 1 + scanEnd rest else 0
      | [] => 0
    else 1 + scanEnd rest

/-- `getValue(header, key)`; `none` = runtime panic (slice bounds out of range).
    `fixed = true` is the repaired variant (bounds check before slicing). -/
def getValue (fixed : Bool) (header key : Bytes) : Option Bytes :=
  match indexOf (key ++ [61]) header with
  | none => some []
  | some idx =>
    let startIdx := idx + key.length + 2
    if startIdx > header.length then
      if fixed then some [] else none
    else
      let rest := header.drop startIdx
      some (rest.take (scanEnd rest))

structure Challenge where
  realm : Bytes
  service : Bytes
  scope : Bytes
deriving DecidableEq, Repr

def bearer : Bytes := [66, 101, 97, 114, 101, 114, 32]      -- "Bearer "
def kRealm : Bytes := [114, 101, 97, 108, 109]               -- "realm"
def kService : Bytes := [115, 101, 114, 118, 105, 99, 101]   -- "service"
def kScope : Bytes := [115, 99, 111, 112, 101]               -- "scope"

def trimPrefix (p s : Bytes) : Bytes := if isPrefixOf p s then s.drop p.length else s

/-- `parseRegistryChallenge`; `none` = panic -/
def parseChallenge (fixed : Bool) (authStr : Bytes) : Option Challenge :=
  let s := trimPrefix bearer authStr
  match getValue fixed s kRealm with
  | none => none
  | some r =>
    match getValue fixed s kService with
    | none => none
    | some sv =>
      match getValue fixed s kScope with
      | none => none
      | some sc => some ⟨r, sv, sc⟩

/-! ## Store, manifests -/

/-- a digest string as it appears in a manifest -/
inductive DRef
  | empty                -- ""
  | bad                  -- does not match ^sha256[:-][0-9a-fA-F]{64}$
  | ok (d : Digest)      -- "sha256:<hex d>"
deriving DecidableEq, Repr

structure Layer where
  digest : DRef
  size : Nat
  media : Nat      -- the descriptor's `mediaType`, as an index into the alphabet of media types the driver serves
                   -- (PullModel never looks at it; it is part of "the manifest the registry served")
deriving DecidableEq, Repr

structure Manifest where
  layers : List Layer
  config : Layer
deriving DecidableEq, Repr

/-- `layers = manifest.Layers ++ [manifest.Config]` (the config only if its digest is non-empty) -/
def Manifest.all (m : Manifest) : List Layer :=
  m.layers ++ (if m.config.digest = .empty then [] else [m.config])

inductive MFile
  | readable (m : Manifest)
  | corrupt
deriving DecidableEq, Repr

/-- one `-partial-N` record -/
structure Part where
  off : Nat
  size : Nat
  done : Nat
deriving DecidableEq, Repr

/-- resume state of one digest: the sparse `-partial` file and the part records -/
structure Partial where
  data : Option Bytes
  parts : List Part
deriving DecidableEq, Repr

def Partial.none : Partial := ⟨Option.none, []⟩

structure Store where
  blobs : Digest → Option Bytes
  partials : Digest → Partial
  manifests : List (Name × MFile)

def upd {β : Type} (f : Digest → β) (k : Digest) (v : β) : Digest → β :=
  fun x => if x = k then v else f x

def lookupM (n : Name) : List (Name × MFile) → Option MFile
  | [] => none
  | (k, v) :: t => if k = n then some v else lookupM n t

def insertM (n : Name) (v : MFile) : List (Name × MFile) → List (Name × MFile)
  | [] => [(n, v)]
  | (k, w) :: t => if k = n then (n, v) :: t else (k, w) :: insertM n v t

/-! ## Outcomes -/

inductive Err
  | manifest | notfound | http | unauthorized | net | auth | digestFormat
  | directStatus | noLocation | deadline | maxRetries | digestMismatch | canceled
deriving DecidableEq, Repr

inductive PanicSite
  | challenge      -- getValue slice bounds
  | emptyDigest    -- opts.digest[7:19] on ""
deriving DecidableEq, Repr

inductive R (α : Type)
  | ok (a : α)
  | err (e : Err)
  | panic (s : PanicSite)
deriving DecidableEq, Repr

abbrev Outcome := R Unit

/-! ## The adversary -/

/-- reply to a request that goes through `makeRequestWithRetry` -/
inductive Reply (α : Type)
  | pass (a : α)          -- status < 400, not 401: handed to the caller
  | neterr                -- transport error
  | unauth (hdr : Bytes)  -- 401 with this www-authenticate header
  | notfound              -- 404
  | status                -- any other status ≥ 400
  | follow                -- 3xx with a Location the client follows (same URL again): the request is re-issued
deriving Repr

inductive MBody
  | served     -- the registry's manifest
  | badjson
deriving DecidableEq, Repr

inductive DirRep
  | redirect      -- 307 with a Location on another host
  | redirect200   -- 200 with a Location (accepted as well; not a redirect for the client)
  | noloc         -- 200 or 307 without Location (`resp.Location()` fails)
  | badstatus     -- 301/302/303/308 with a Location on another host: handed back, "unexpected status code"
  | badstatusNoLoc  -- a status that is neither 200 nor 307 and carries no Location (301 without Location, 204 …)
  | badloc        -- 3xx whose Location does not parse: the client itself fails the request
  | redirectDead  -- a well-formed 307 to a host that then fails every request
deriving DecidableEq, Repr

/-- is the answer a redirect for `http.Client` (3xx with a parsable Location), i.e. is `CheckRedirect`
    consulted — which refuses with `errMaxRedirectsExceeded` once more than 10 requests were made -/
def DirRep.isRedirect : DirRep → Bool
  | .redirect => true
  | .badstatus => true
  | .redirectDead => true
  | _ => false

inductive Src
  | honest              -- the requested range of the registry's bytes
  | full                -- Range ignored: the whole blob from offset 0
  | junk (b : Bytes)    -- an error page / arbitrary bytes (status is never checked)
  | flip (i : Nat)      -- the requested range with byte i inverted
deriving DecidableEq, Repr

inductive End
  | eof     -- clean EOF
  | ueof    -- io.ErrUnexpectedEOF (Content-Length promised more)
  | reset   -- any other read error
  | stall   -- blocks
  | cancel  -- the caller of PullModel cancels its context at this point (an interrupted pull)
deriving DecidableEq, Repr

inductive ChunkReply
  | neterr
  | body (src : Src) (cut : Option Nat) (e : End)
deriving DecidableEq, Repr

structure LScript where
  head : List (Reply Nat)          -- HEAD: `pass n` = Content-Length n (absent/garbled = 0)
  direct : List (Reply DirRep)
  chunks : List (List ChunkReply)  -- per part index
deriving Repr

def LScript.empty : LScript := ⟨[], [], []⟩

/-- a point at which the caller of `PullModel` cancels its context (observed through the progress callback) -/
inductive CancelPoint
  | atStart               -- at "pulling manifest": before the first request
  | verifying (k : Nat)   -- at the k-th "verifying sha256 digest": after the k-th fresh layer was renamed into
                          -- place and before it is verified (repaired variant)
  | writing               -- at "writing manifest"
deriving DecidableEq, Repr

structure Scripts where
  manifest : List (Reply MBody)
  token : List Bool
  layers : List (Digest × LScript)
  cancel : Option CancelPoint
deriving Repr

def Scripts.honest : Scripts := ⟨[], [], [], none⟩

def lookupS (d : Digest) : List (Digest × LScript) → LScript
  | [] => LScript.empty
  | (k, v) :: t => if k = d then v else lookupS d t

structure Registry where
  manifest : Manifest
  content : List (Digest × Bytes)   -- the bytes the registry/CDN holds under a digest
  realm : Bytes                      -- the token endpoint named by a well-formed challenge

def lookupC (d : Digest) : List (Digest × Bytes) → Option Bytes
  | [] => none
  | (k, v) :: t => if k = d then some v else lookupC d t

/-- plan constants (`numDownloadParts`, `minDownloadPartSize`, `maxDownloadPartSize`, `maxRetries`)
    and the variant flags -/
structure Cfg where
  nparts : Nat
  minSize : Nat
  maxSize : Nat
  retries : Nat
  fixedChallenge : Bool := false   -- repaired getValue (F5): bounds check before slicing
  noPrune : Bool := false
  fixedEmpty : Bool := false       -- repaired downloadBlob: "" is rejected as an invalid digest
  fixedDup : Bool := false         -- repaired skipVerify: the first answer for a digest is kept
  verifyBeforeRename : Bool := false  -- proposed (C03-verifywindow): blobDownload.run hashes `-partial` and renames it
                                   -- only if the digest matches (a mismatch fails the transfer for every waiter);
                                   -- for one pull at a time this is observationally the same as `verifyEarly`
  verifyEarly : Bool := false      -- repaired PullModel (F6): every fresh layer is verified right after
                                   -- its download; there is no verify loop (and no skipVerify) afterwards

/-- request counters + the token script -/
structure Net where
  tok : List Bool
  nm : Nat := 0
  nh : Nat := 0
  nd : Nat := 0
  nc : Nat := 0
  nt : Nat := 0
  dStar : Bool := false   -- the direct-URL loop ran into its 30 s deadline (count not determined)
deriving Repr

/-! ## makeRequestWithRetry -/

def pop {α : Type} (dflt : α) : List α → α × List α
  | [] => (dflt, [])
  | a :: t => (a, t)

/-- the 401 branch: parse the challenge, fetch a token -/
def authStep (cfg : Cfg) (realm hdr : Bytes) (net : Net) : R Unit × Net :=
  match parseChallenge cfg.fixedChallenge hdr with
  | none => (.panic .challenge, net)
  | some ch =>
    if ch.realm = realm then
      let (t, ts) := pop true net.tok
      (if t then .ok () else .err .auth, { net with tok := ts, nt := net.nt + 1 })
    else (.err .auth, net)

/-- redirect policy of the client used on a stream: at most `budget` requests per `Do` (10 for the default
    policy, 11 for the direct-URL `CheckRedirect`, `len(via) > 10`), `redir a`: the passed-on answer `a` is itself
    a redirect the policy is consulted about (and refuses, with an error, when the budget is used up) -/
structure Policy (α : Type) where
  budget : Nat
  redir : α → Bool

def Policy.dflt {α : Type} : Policy α := ⟨10, fun _ => false⟩

/-- one `http.Client.Do`: redirects that the client follows re-issue the request (each one is a request on
    the stream); when the budget is used up the client gives up with an error -/
def popFollow {α : Type} (dflt : Reply α) (redir : α → Bool) : Nat → List (Reply α) → Reply α × List (Reply α) × Nat
  | 0, s => (.neterr, s, 0)
  | b + 1, s =>
    match pop dflt s with
    | (.follow, s') =>
      let (r, s'', n) := popFollow dflt redir b s'
      (r, s'', n + 1)
    | (.pass a, s') => if redir a && b == 0 then (.neterr, s', 1) else (.pass a, s', 1)
    | (r, s') => (r, s', 1)

/-- `makeRequestWithRetry` (`for range 2`); returns the result, the rest of the script, the
    net state and the number of requests made on this stream -/
def mrr {α : Type} (cfg : Cfg) (realm : Bytes) (dflt : Reply α) (pol : Policy α) :
    Nat → List (Reply α) → Net → R α × List (Reply α) × Net × Nat
  | 0, s, net => (.err .unauthorized, s, net, 0)
  | k + 1, s, net =>
    match popFollow dflt pol.redir pol.budget s with
    | (.pass a, s', n) => (.ok a, s', net, n)
    | (.neterr, s', n) => (.err .net, s', net, n)
    | (.follow, s', n) => (.err .net, s', net, n)
    | (.notfound, s', n) => (.err .notfound, s', net, n)
    | (.status, s', n) => (.err .http, s', net, n)
    | (.unauth hdr, s', n) =>
      match authStep cfg realm hdr net with
      | (.ok (), net') =>
        let (x, s'', net'', m) := mrr cfg realm dflt pol k s' net'
        (x, s'', net'', m + n)
      | (.err e, net') => (.err e, s', net', n)
      | (.panic p, net') => (.panic p, s', net', n)

/-! ## Parts -/

def zeros (n : Nat) : Bytes := List.replicate n 0

/-- `file.Truncate(total)` -/
def resize (f : Bytes) (total : Nat) : Bytes := f.take total ++ zeros (total - f.length)

/-- `WriteAt(d, off)` on a file (extends with zeros when writing past the end) -/
def writeAt (f : Bytes) (off : Nat) (d : Bytes) : Bytes :=
  if d.isEmpty then f
  else f.take off ++ zeros (off - f.length) ++ d ++ f.drop (off + d.length)

def planSize (cfg : Cfg) (total : Nat) : Nat :=
  let s := total / cfg.nparts
  if s < cfg.minSize then cfg.minSize else if s > cfg.maxSize then cfg.maxSize else s

/-- the `for offset < b.Total` loop of `Prepare` (fuel = total suffices when size ≥ 1) -/
def planLoop (total : Nat) : Nat → Nat → Nat → List Part
  | 0, _, _ => []
  | f + 1, off, size =>
    if off < total then
      let sz := if off + size > total then total - off else size
      ⟨off, sz, 0⟩ :: planLoop total f (off + sz) sz
    else []

def plan (cfg : Cfg) (total : Nat) : List Part := planLoop total total 0 (planSize cfg total)

def flipAt (i : Nat) : Bytes → Bytes
  | [] => []
  | b :: t => match i with
    | 0 => (b ^^^ 255) :: t
    | i + 1 => b :: flipAt i t

def bodyOf (content : Bytes) (s e : Nat) : Src → Bytes
  | .honest => (content.drop s).take (e - s)
  | .full => content
  | .junk b => b
  | .flip i => flipAt i ((content.drop s).take (e - s))

/-- state of one part while it is being fetched -/
structure PSt where
  file : Bytes
  p : Part
  wrote : Bool     -- `!lastUpdated.IsZero()`

inductive StepRes
  | done | failed | stalled | canceled
deriving DecidableEq

/-- one `downloadChunk` -/
def chunkStep (content : Bytes) (r : ChunkReply) (s : PSt) : StepRes × PSt :=
  match r with
  | .neterr => (.failed, s)
  | .body src cut e =>
    let start := s.p.off + s.p.done
    let stop := s.p.off + s.p.size
    let body0 := bodyOf content start stop src
    let body := match cut with
      | none => body0
      | some k => body0.take k
    let want := s.p.size - s.p.done
    let data := body.take want
    let file' := writeAt s.file start data
    let wrote' := s.wrote || !data.isEmpty
    if e = .cancel ∧ body.length ≤ want then
      -- the caller goes away when the last scripted byte was served (even if that completes the part; a body
      -- longer than what is still wanted is never read to its end):
      -- Wait returns ctx.Err(), release() cancels the download, the read (or the watchdog) ends with
      -- context.Canceled, which keeps the progress made so far; nothing is renamed
      (.canceled, ⟨file', { s.p with done := s.p.done + data.length }, wrote'⟩)
    else if data.length = want then
      (.done, ⟨file', { s.p with done := s.p.done + want }, wrote'⟩)
    else
      match e with
      | .eof => (.failed, ⟨file', s.p, wrote'⟩)          -- written, progress rolled back
      | .reset => (.failed, ⟨file', s.p, wrote'⟩)
      | .ueof => (.failed, ⟨file', { s.p with done := s.p.done + data.length }, wrote'⟩)
      | .stall =>
        if wrote' then (.stalled, ⟨file', { s.p with done := s.p.done + data.length }, false⟩)
        else (.failed, ⟨file', s.p, wrote'⟩)             -- undetectable stall: the peer gives up
      | .cancel => (.canceled, ⟨file', { s.p with done := s.p.done + data.length }, wrote'⟩)

def honestReply : ChunkReply := .body .honest none .eof

/-- remaining tries once the script is exhausted (honest CDN) -/
def runTail (content : Bytes) : Nat → PSt → Nat → Bool × PSt × Nat
  | 0, s, c => (false, s, c)
  | t + 1, s, c =>
    match chunkStep content honestReply s with
    | (.done, s') => (true, s', c + 1)
    | (_, s') => runTail content t s' (c + 1)

/-- the `for try := 0; try < maxRetries; try++` loop of one part (stalls do not use up a try) -/
def runPart (content : Bytes) : List ChunkReply → Nat → PSt → Nat → Bool × PSt × Nat
  | [], t, s, c => runTail content t s c
  | r :: rs, t, s, c =>
    match t with
    | 0 => (false, s, c)
    | t' + 1 =>
      match chunkStep content r s with
      | (.done, s') => (true, s', c + 1)
      | (.failed, s') => runPart content rs t' s' (c + 1)
      | (.stalled, s') => runPart content rs (t' + 1) s' (c + 1)
      | (.canceled, s') => (false, s', c + 1)

/-- did the loop of this part end because the caller cancelled?  (`chunkStep`'s verdict does not depend
    on the file's bytes, so this mirrors `runPart` without threading the file) -/
def partCanceled (content : Bytes) : List ChunkReply → Nat → PSt → Bool
  | [], _, _ => false
  | r :: rs, t, s =>
    match t with
    | 0 => false
    | t' + 1 =>
      match chunkStep content r s with
      | (.done, _) => false
      | (.failed, s') => partCanceled content rs t' s'
      | (.stalled, s') => partCanceled content rs (t' + 1) s'
      | (.canceled, _) => true

def anyCanceled (cfg : Cfg) (content : Bytes) (scripts : List (List ChunkReply)) : Nat → List Part → Bool
  | _, [] => false
  | i, p :: ps =>
    (p.done != p.size && partCanceled content (scripts.getD i []) cfg.retries ⟨[], p, false⟩) ||
      anyCanceled cfg content scripts (i + 1) ps

/-- all parts (they run concurrently on disjoint records; every part runs to its end) -/
def runParts (cfg : Cfg) (content : Bytes) :
    List Part → List (List ChunkReply) → Bytes → Nat → Bool × Bytes × List Part × Nat
  | [], _, file, c => (true, file, [], c)
  | p :: ps, scripts, file, c =>
    let (sc, scs) := pop [] scripts
    if p.done = p.size then
      let (ok, file', ps', c') := runParts cfg content ps scs file c
      (ok, file', p :: ps', c')
    else
      let (ok1, s', c1) := runPart content sc cfg.retries ⟨file, p, false⟩ c
      let (ok2, file', ps', c2) := runParts cfg content ps scs s'.file c1
      (ok1 && ok2, file', s'.p :: ps', c2)

def replyFails {α : Type} : Reply α → Bool
  | .pass _ => false
  | _ => true

/-! ### resumed part records are read in `filepath.Glob` order

`Prepare` appends the records in the order `filepath.Glob(name + "-partial-*")` returns them, i.e.
sorted by file name: lexicographic in the decimal suffix (`-partial-10` before `-partial-2`). -/

/-- decimal digits, most significant first (`fuel > log10 n`) -/
def decDigits : Nat → Nat → List Nat
  | 0, _ => []
  | f + 1, n => if n < 10 then [n] else decDigits f (n / 10) ++ [n % 10]

def lexLe : List Nat → List Nat → Bool
  | [], _ => true
  | _ :: _, [] => false
  | a :: as, b :: bs => a < b || (a == b && lexLe as bs)

/-- `"-partial-" ++ i ≤ "-partial-" ++ j` as strings -/
def globLe (i j : Nat) : Bool := lexLe (decDigits (i + 1) i) (decDigits (j + 1) j)

def globInsert (x : Nat × Part) : List (Nat × Part) → List (Nat × Part)
  | [] => [x]
  | y :: ys => if globLe x.1 y.1 then x :: y :: ys else y :: globInsert x ys

def globSort : List (Nat × Part) → List (Nat × Part)
  | [] => []
  | x :: xs => globInsert x (globSort xs)

def indexFrom : Nat → List Part → List (Nat × Part)
  | _, [] => []
  | i, p :: ps => (i, p) :: indexFrom (i + 1) ps

/-- `b.Parts` after `Prepare` found records: (N, record) in Glob order -/
def globParts (ps : List Part) : List (Nat × Part) := globSort (indexFrom 0 ps)

def lookupIdx (i : Nat) : List (Nat × Part) → Option Part
  | [] => none
  | (k, p) :: t => if k = i then some p else lookupIdx i t

/-- the part loop over indexed parts (scripts and records are addressed by the part number N) -/
def runPartsIdx (cfg : Cfg) (content : Bytes) (scripts : List (List ChunkReply)) :
    List (Nat × Part) → Bytes → Nat → Bool × Bytes × List (Nat × Part) × Nat
  | [], file, c => (true, file, [], c)
  | (i, p) :: ps, file, c =>
    if p.done = p.size then
      let (ok, file', ps', c') := runPartsIdx cfg content scripts ps file c
      (ok, file', (i, p) :: ps', c')
    else
      let (ok1, s', c1) := runPart content (scripts.getD i []) cfg.retries ⟨file, p, false⟩ c
      let (ok2, file', ps', c2) := runPartsIdx cfg content scripts ps s'.file c1
      (ok1 && ok2, file', (i, s'.p) :: ps', c2)

/-- the records back in N order -/
def byNumber (n : Nat) (res : List (Nat × Part)) : List Part :=
  (List.range n).filterMap fun i => lookupIdx i res

/-- the direct-URL loop of `run` (retries every error with backoff for 30 s); `ok dead`: a direct URL
    was obtained (`dead`: on a host that fails every request) -/
def directLoop (cfg : Cfg) (realm : Bytes) (dflt : Reply DirRep) :
    Nat → List (Reply DirRep) → Net → R Bool × Net
  | 0, _, net => (.err .deadline, { net with dStar := true })
  | f + 1, s, net =>
    if s.isEmpty && replyFails dflt then (.err .deadline, { net with dStar := true })
    else
      match mrr cfg realm dflt ⟨11, DirRep.isRedirect⟩ 2 s net with
      | (.ok .redirect, _, net', n) => (.ok false, { net' with nd := net'.nd + n })
      | (.ok .redirect200, _, net', n) => (.ok false, { net' with nd := net'.nd + n })
      | (.ok .redirectDead, _, net', n) => (.ok true, { net' with nd := net'.nd + n })
      | (.ok .noloc, _, net', n) => (.err .noLocation, { net' with nd := net'.nd + n })
      | (.ok .badstatus, _, net', n) => (.err .directStatus, { net' with nd := net'.nd + n })
      | (.ok .badstatusNoLoc, _, net', n) => (.err .directStatus, { net' with nd := net'.nd + n })
      | (.panic p, _, net', n) => (.panic p, { net' with nd := net'.nd + n })
      | (.ok .badloc, s', net', n) => directLoop cfg realm dflt f s' { net' with nd := net'.nd + n }
      | (.err _, s', net', n) => directLoop cfg realm dflt f s' { net' with nd := net'.nd + n }

/-- `downloadBlob` for a digest whose file does not exist: Prepare, run.
    Result `ok c`: every part completed and `-partial` (content `c`) was renamed into place. -/
def downloadLayer (cfg : Cfg) (reg : Registry) (d : Digest) (ls : LScript) (pa : Partial) (net : Net) :
    R Bytes × Partial × Net :=
  let has := lookupC d reg.content
  let content := has.getD []
  -- Prepare
  let prep : R (List Part × Nat) × Net :=
    if pa.parts.isEmpty then
      let dflt : Reply Nat := match has with
        | some c => .pass c.length
        | none => .notfound
      match mrr cfg reg.realm dflt Policy.dflt 2 ls.head net with
      | (.ok total, _, net', n) => (.ok (plan cfg total, total), { net' with nh := net'.nh + n })
      | (.err e, _, net', n) => (.err e, { net' with nh := net'.nh + n })
      | (.panic p, _, net', n) => (.panic p, { net' with nh := net'.nh + n })
    else (.ok (pa.parts, ((globParts pa.parts).map (·.2.size)).sum), net)
  match prep with
  | (.err e, net1) => (.err e, pa, net1)
  | (.panic p, net1) => (.panic p, pa, net1)
  | (.ok (parts, total), net1) =>
    -- run: open/create -partial, Truncate(Total)
    let file := resize (pa.data.getD []) total
    let dfltD : Reply DirRep := match has with
      | some _ => .pass .redirect
      | none => .notfound
    match directLoop cfg reg.realm dfltD (ls.direct.length + 2) ls.direct net1 with
    | (.err e, net2) => (.err e, ⟨some file, parts⟩, net2)
    | (.panic p, net2) => (.panic p, ⟨some file, parts⟩, net2)
    | (.ok dead, net2) =>
      -- a dead direct host: every chunk request of every part fails
      let chunks := if dead then List.replicate parts.length (List.replicate cfg.retries ChunkReply.neterr) else ls.chunks
      let (ok, file', parts', c) :=
        if pa.parts.isEmpty then runParts cfg content parts chunks file net2.nc
        else
          let (ok, file', res, c) := runPartsIdx cfg content chunks (globParts parts) file net2.nc
          (ok, file', byNumber parts.length res, c)
      let net3 := { net2 with nc := c }
      if ok then (.ok file', Partial.none, net3)
      else if anyCanceled cfg content chunks 0 parts then (.err .canceled, ⟨some file', parts'⟩, net3)
      else (.err .maxRetries, ⟨some file', parts'⟩, net3)

/-! ## PullModel -/

def setSkip (d : Digest) (v : Bool) : List (Digest × Bool) → List (Digest × Bool)
  | [] => [(d, v)]
  | (k, w) :: t => if k = d then (d, v) :: t else (k, w) :: setSkip d v t

def getSkip (d : Digest) : List (Digest × Bool) → Bool
  | [] => false
  | (k, w) :: t => if k = d then w else getSkip d t

def hasKey (d : Digest) : List (Digest × Bool) → Bool
  | [] => false
  | (k, _) :: t => if k = d then true else hasKey d t

/-- `skipVerify[d] = v` (pinned) / `if _, seen := skipVerify[d]; !seen { skipVerify[d] = v }` (repaired) -/
def markSkip (cfg : Cfg) (d : Digest) (v : Bool) (sk : List (Digest × Bool)) : List (Digest × Bool) :=
  if cfg.fixedDup && hasKey d sk then sk else setSkip d v sk

structure DlState where
  st : Store
  net : Net
  skip : List (Digest × Bool)
  renamed : List Digest       -- digests renamed into place by this attempt (in order)
  canceled : Bool             -- the caller's context is done

/-- what a cancelled caller leaves of a missing layer: without records `Prepare`'s HEAD fails and nothing
    changes; with records the download is started (`-partial` created / truncated to the plan's total) and
    released at once -/
def canceledLayer (pa : Partial) : Partial :=
  if pa.parts.isEmpty then pa
  else ⟨some (resize (pa.data.getD []) ((globParts pa.parts).map (·.2.size)).sum), pa.parts⟩

/-- the download loop of `PullModel` (with the inline verification of the repaired variant) -/
def dlLoop (cfg : Cfg) (hash : Bytes → Digest) (reg : Registry) (sc : Scripts) :
    List Layer → DlState → Outcome × DlState
  | [], s => (.ok (), s)
  | l :: ls, s =>
    match l.digest with
    | .bad => (.err .digestFormat, s)
    | .empty => if cfg.fixedEmpty then (.err .digestFormat, s) else (.panic .emptyDigest, s)
    | .ok d =>
      match s.st.blobs d with
      | some _ => dlLoop cfg hash reg sc ls { s with skip := markSkip cfg d true s.skip }
      | none =>
        if s.canceled then
          (.err .canceled, { s with st := { s.st with partials := upd s.st.partials d (canceledLayer (s.st.partials d)) } })
        else
        match downloadLayer cfg reg d (lookupS d sc.layers) (s.st.partials d) s.net with
        | (.ok c, pa, net') =>
          if cfg.verifyEarly && hash c != d then
            -- renamed into place, verified at once, removed again
            (.err .digestMismatch, { s with st := { s.st with partials := upd s.st.partials d pa }, net := net' })
          else
            dlLoop cfg hash reg sc ls
              { st := { s.st with blobs := upd s.st.blobs d (some c), partials := upd s.st.partials d pa }
                net := net', skip := markSkip cfg d false s.skip, renamed := s.renamed ++ [d]
                canceled := s.canceled || (cfg.verifyEarly && sc.cancel == some (.verifying s.renamed.length)) }
        | (.err e, pa, net') =>
          (.err e, { s with st := { s.st with partials := upd s.st.partials d pa }, net := net' })
        | (.panic p, pa, net') =>
          (.panic p, { s with st := { s.st with partials := upd s.st.partials d pa }, net := net' })

/-- the verify loop of `PullModel` (`verifyBlob`, removal on mismatch) -/
def verifyLoop (hash : Bytes → Digest) (skip : List (Digest × Bool)) :
    List Layer → Store → Outcome × Store
  | [], st => (.ok (), st)
  | l :: ls, st =>
    match l.digest with
    | .ok d =>
      if getSkip d skip then verifyLoop hash skip ls st
      else
        match st.blobs d with
        | none => (.err .notfound, st)
        | some c =>
          if hash c = d then verifyLoop hash skip ls st
          else (.err .digestMismatch, { st with blobs := upd st.blobs d none })
    | _ => verifyLoop hash skip ls st

def layerRefs (m : Manifest) : List DRef := (m.layers.map (·.digest)) ++ [m.config.digest]

def usedRefs : List (Name × MFile) → List DRef
  | [] => []
  | (_, .readable m) :: t => layerRefs m ++ usedRefs t
  | (_, .corrupt) :: t => usedRefs t

def removeBlobs (used : List DRef) : List DRef → (Digest → Option Bytes) → (Digest → Option Bytes)
  | [], b => b
  | k :: ks, b =>
    match k with
    | .ok d => if k ∈ used then removeBlobs used ks b else removeBlobs used ks (upd b d none)
    | _ => removeBlobs used ks b

structure Log where
  net : Net
  renamed : List Digest

/-- `PullModel(name)` against registry `reg` under fault scripts `sc` -/
def pull (cfg : Cfg) (hash : Bytes → Digest) (name : Name) (reg : Registry) (sc : Scripts) (st : Store) :
    Outcome × Store × Log :=
  let deleteMap0 : List DRef := match lookupM name st.manifests with
    | some (.readable m) => (m.all.map (·.digest))
    | _ => []
  let net0 : Net := { tok := sc.token }
  if sc.cancel = some .atStart then (.err .manifest, st, ⟨net0, []⟩) else
  match mrr cfg reg.realm (.pass .served) Policy.dflt 2 sc.manifest net0 with
  | (.err _, _, net1, n) => (.err .manifest, st, ⟨{ net1 with nm := n }, []⟩)
  | (.panic p, _, net1, n) => (.panic p, st, ⟨{ net1 with nm := n }, []⟩)
  | (.ok .badjson, _, net1, n) => (.err .manifest, st, ⟨{ net1 with nm := n }, []⟩)
  | (.ok .served, _, net1, n) =>
    let m := reg.manifest
    let layers := m.all
    match dlLoop cfg hash reg sc layers ⟨st, { net1 with nm := n }, [], [], false⟩ with
    | (.err e, s) => (.err e, s.st, ⟨s.net, s.renamed⟩)
    | (.panic p, s) => (.panic p, s.st, ⟨s.net, s.renamed⟩)
    | (.ok (), s) =>
      match (if cfg.verifyEarly then (.ok (), s.st) else verifyLoop hash s.skip layers s.st) with
      | (.err e, st2) => (.err e, st2, ⟨s.net, s.renamed⟩)
      | (.panic p, st2) => (.panic p, st2, ⟨s.net, s.renamed⟩)
      | (.ok (), st2) =>
        let mans := insertM name (.readable m) st2.manifests
        let deleteMap := deleteMap0.filter fun k => !(layers.map (·.digest)).contains k && k != m.config.digest
        let blobs' :=
          if cfg.noPrune || deleteMap.isEmpty then st2.blobs
          else removeBlobs (usedRefs mans) deleteMap st2.blobs
        (.ok (), { st2 with manifests := mans, blobs := blobs' }, ⟨s.net, s.renamed⟩)

/-! ## Histories of pulls

One step = one call of `PullModel`: the name pulled, what the registry serves AT THAT TIME (a tag can be
re-published between two attempts: other config, other media types / sizes, layers added, removed, reordered)
and the fault scripts of that attempt.  The store is threaded through. -/

structure HStep where
  name : Name
  reg : Registry
  sc : Scripts

def runHistory (cfg : Cfg) (hash : Bytes → Digest) : List HStep → Store → List (Outcome × Store × Log)
  | [], _ => []
  | s :: rest, st =>
    let r := pull cfg hash s.name s.reg s.sc st
    r :: runHistory cfg hash rest r.2.1

/-- the store a history ends in -/
def finalStore (cfg : Cfg) (hash : Bytes → Digest) : List HStep → Store → Store
  | [], st => st
  | s :: rest, st => finalStore cfg hash rest (pull cfg hash s.name s.reg s.sc st).2.1

/-! ## Two overlapping pulls that share a layer (`blobDownloadManager`)

A pull that needs a digest another pull is already transferring does not start a second transfer: it
finds the entry in `blobDownloadManager`, waits on the same `blobDownload` and gets the same result
(`b.err`).  `downloadBlob` reports that as *not* a cache hit, so the joining pull verifies the blob
itself before it installs its manifest. -/

/-- what the transfer the pull joins ends with -/
inductive JoinRes
  | done (c : Bytes)     -- every part completed; `c` was renamed into place
  | failed (e : Err)

/-- the download loop of a pull that joins the in-flight transfer of `x` (result `jr`); every other
    layer is handled as in `dlLoop` -/
def dlLoopJ (cfg : Cfg) (hash : Bytes → Digest) (reg : Registry) (sc : Scripts) (x : Digest) (jr : JoinRes) :
    List Layer → DlState → Outcome × DlState
  | [], s => (.ok (), s)
  | l :: ls, s =>
    if l.digest = .ok x then
      match jr with
      | .failed e => (.err e, s)
      | .done c =>
        if cfg.verifyEarly && hash c != x then
          -- the joining pull verifies what it is about to install, too: mismatch ⇒ removed, error
          (.err .digestMismatch, { s with st := { s.st with blobs := upd s.st.blobs x none } })
        else
          dlLoopJ cfg hash reg sc x jr ls
            { s with st := { s.st with blobs := upd s.st.blobs x (some c) }
                     skip := markSkip cfg x false s.skip, renamed := s.renamed ++ [x] }
    else
      match dlLoop cfg hash reg sc [l] s with
      | (.ok (), s') => dlLoopJ cfg hash reg sc x jr ls s'
      | r => r

/-- `PullModel` of a pull that joins the transfer of `x` -/
def pullJ (cfg : Cfg) (hash : Bytes → Digest) (name : Name) (reg : Registry) (sc : Scripts) (x : Digest)
    (jr : JoinRes) (st : Store) : Outcome × Store × Log :=
  let net0 : Net := { tok := sc.token }
  match mrr cfg reg.realm (.pass .served) Policy.dflt 2 sc.manifest net0 with
  | (.err _, _, net1, _) => (.err .manifest, st, ⟨net1, []⟩)
  | (.panic p, _, net1, _) => (.panic p, st, ⟨net1, []⟩)
  | (.ok .badjson, _, net1, _) => (.err .manifest, st, ⟨net1, []⟩)
  | (.ok .served, _, net1, _) =>
    let m := reg.manifest
    match dlLoopJ cfg hash reg sc x jr m.all ⟨st, net1, [], [], false⟩ with
    | (.err e, s) => (.err e, s.st, ⟨s.net, s.renamed⟩)
    | (.panic p, s) => (.panic p, s.st, ⟨s.net, s.renamed⟩)
    | (.ok (), s) =>
      match (if cfg.verifyEarly then (.ok (), s.st) else verifyLoop hash s.skip m.all s.st) with
      | (.err e, st2) => (.err e, st2, ⟨s.net, s.renamed⟩)
      | (.panic p, st2) => (.panic p, st2, ⟨s.net, s.renamed⟩)
      | (.ok (), st2) =>
        (.ok (), { st2 with manifests := insertM name (.readable m) st2.manifests }, ⟨s.net, s.renamed⟩)

inductive JoinMode
  | during          -- B arrives while A transfers x: B joins, both wait, each verifies
  | duringCancelB   -- … and B's caller goes away as soon as B has joined
  | duringCancelA   -- … and A's caller goes away once B has joined: the transfer goes on for B
  | atVerify        -- B runs from start to end while A is between the rename of x and its verification
deriving DecidableEq, Repr

def joinResOf : R Bytes → JoinRes
  | .ok c => .done c
  | .err e => .failed e
  | .panic _ => .failed .net

/-- two overlapping pulls A and B (different names, no old manifests) whose manifests both start with the
    missing layer `x` and share nothing else; `x`'s transfer is A's (A's scripts) -/
def pull2 (cfg : Cfg) (hash : Bytes → Digest) (mode : JoinMode) (x : Digest)
    (nameA : Name) (regA : Registry) (scA : Scripts) (nameB : Name) (regB : Registry) (scB : Scripts)
    (st : Store) : Outcome × Outcome × Store :=
  let tx := downloadLayer cfg regA x (lookupS x scA.layers) (st.partials x) { tok := [] }
  let jr := joinResOf tx.1
  match mode with
  | .during =>
    let (oA, stA, _) := pull cfg hash nameA regA scA st
    let (oB, stB, _) := pullJ cfg hash nameB regB scB x jr stA
    (oA, oB, stB)
  | .duringCancelB =>
    let (oA, stA, _) := pull cfg hash nameA regA scA st
    (oA, .err .canceled, stA)
  | .duringCancelA =>
    -- the transfer's own effects (records / -partial) happen once, whoever is still waiting
    let stT : Store := { st with partials := upd st.partials x tx.2.1 }
    let (oB, stB, _) := pullJ cfg hash nameB regB scB x jr stT
    (.err .canceled, oB, stB)
  | .atVerify =>
    match (match tx.1 with
      | .ok c => if cfg.verifyBeforeRename && hash c != x then R.err Err.digestMismatch else R.ok c
      | r => r) with
    | .ok c =>
      let stMid : Store := { st with blobs := upd st.blobs x (some c), partials := upd st.partials x tx.2.1 }
      let (oB, stB, _) := pull cfg hash nameB regB scB stMid          -- x is a "cache hit" for B
      let (oA, stA, _) := pullJ cfg hash nameA regA scA x (.done c) stB
      (oA, oB, stA)
    | _ =>
      let (oA, stA, _) := pull cfg hash nameA regA scA st
      let (oB, stB, _) := pull cfg hash nameB regB scB stA
      (oA, oB, stB)

end OllamaVerif.Pull
