/-
  C06 — executable model of `kvcache.Causal` (kvcache/causal.go), defects included.

  What is modelled (mirrors the Go code line by line):
    cells / cellRanges metadata, Init's size computation, StartForward (updateSlidingWindow,
    findStartLoc, defrag-and-retry, placement, range bookkeeping, buildMask with both paddings),
    defrag (hole filling from the tail, pending-move coalescing, the block copies it performs on
    the data, range reset), Put, CopyPrefix, Remove (early error return after partial mutation,
    shiftFn == nil, the MaxInt32 sentinel), shift, CanResume.
  The K/V data is an abstract row array `rows : List Row`; a row is the identity `(id, shift)` of
  what was stored there.  Rows are changed only by Put, by defrag's block copies and by shift.
  Abstractions (see notes/C06.md): int32 arithmetic is modelled with unbounded `Int` (positions are
  assumed far from ±2^31), all layers hold the same rows (every layer is Put on every pass), graph
  execution is immediate (ctx.Compute boundaries are not modelled), SetCausal/Except and the `reserve` pass are modelled
  (`setCausal`, `startReserve`).

  `Variant` selects the pinned upstream behaviour (all flags false) or the proposed repairs.
-/
import OllamaVerif.Spec.KV
namespace OllamaVerif.Causal
open OllamaVerif.KV

/-- `math.MaxInt` (64-bit) -/
def maxInt : Nat := 9223372036854775807

structure Cell where
  pos : Int
  seqs : List Nat
deriving DecidableEq, Repr

instance : Inhabited Cell := ⟨⟨0, []⟩⟩
def Cell.empty : Cell := ⟨0, []⟩

structure Row where
  id : Nat
  shift : Int
deriving DecidableEq, Repr

instance : Inhabited Row := ⟨⟨0, 0⟩⟩

structure Range where
  min : Nat
  max : Nat
deriving DecidableEq, Repr

/-- `newRange()` -/
def Range.new : Range := ⟨maxInt, 0⟩

/-- `if i < r.min { r.min = i }; if i > r.max { r.max = i }` -/
def Range.add (r : Range) (i : Nat) : Range :=
  ⟨if i < r.min then i else r.min, if i > r.max then i else r.max⟩

structure Variant where
  /-- F14 repaired: coalescing keeps the metadata in the order of the block copy -/
  fixDefrag : Bool := false
  /-- F15b repaired: CanResume also checks that the window below `pos` is present -/
  fixResume : Bool := false
  /-- F23 repaired: defrag with no layer tensors does not divide by zero -/
  fixDiv : Bool := false
  /-- F-SWA-capacity (C07) repaired: the sliding-window cache is sized `maxSeq * (window + maxBatch)`
      instead of `maxSeq * window + maxBatch` -/
  perSeqBatch : Bool := false
  /-- F28 repaired: `Remove` checks for both error conditions before it changes anything, so a refused
      removal leaves the cache as it was (pinned: cells visited before the refusing one have already been
      changed, `shiftFn == nil` is only noticed after the metadata has been shifted) -/
  atomicRemove : Bool := false
  /-- F29 repaired: `WrapperCache.Remove` asks every wrapped cache first (`canRemove`), so a removal one of
      them refuses is not carried out in the others (pinned: the caches before the refusing one have changed) -/
  atomicWrapperRemove : Bool := false
deriving Repr

structure Cache where
  v : Variant
  window : Option Int
  cachePad : Nat
  batchPad : Nat
  hasShift : Bool
  cells : List Cell
  rows : List Row
  ranges : Nat → Option Range
  /-- some layer tensor exists (a Put has happened) -/
  hasLayers : Bool
  curLoc : Nat
  curBatch : List Tok
  curRange : Range
  /-- `opts.Except`: batch indices whose mask row is not causal (`SetCausal`); per forward pass -/
  except : List Nat := []

def roundDown (n pad : Nat) : Nat := (n / pad) * pad
def roundUp (n pad : Nat) : Nat := ((n + pad - 1) / pad) * pad

/-- `Init` -/
def init (v : Variant) (window : Option Int) (maxSeq capacity maxBatch cachePad batchPad : Nat)
    (hasShift : Bool) : Cache :=
  let cachePad := if cachePad = 0 then 1 else cachePad
  let batchPad := if batchPad = 0 then 1 else batchPad
  let size := match window with
    | none => maxSeq * capacity
    | some w =>
      if (capacity : Int) < w then maxSeq * capacity
      else if v.perSeqBatch then maxSeq * (w.toNat + maxBatch) else maxSeq * w.toNat + maxBatch
  let n := roundUp size cachePad
  { v, window, cachePad, batchPad, hasShift,
    cells := List.replicate n Cell.empty, rows := List.replicate n default,
    ranges := fun _ => none, hasLayers := false, curLoc := 0, curBatch := [], curRange := Range.new }

def setRange (f : Nat → Option Range) (seq : Nat) (r : Option Range) : Nat → Option Range :=
  fun s => if s = seq then r else f s

/-- range of the indices (counted from `i`) whose cell satisfies `p` -/
def rangeFrom (p : Nat → Cell → Bool) : Nat → List Cell → Range → Range
  | _, [], r => r
  | i, c :: cs, r => rangeFrom p (i + 1) cs (if p i c then r.add i else r)

def rangeOf (p : Nat → Cell → Bool) (cells : List Cell) : Range := rangeFrom p 0 cells Range.new

def mapFrom (f : Nat → Cell → Cell) : Nat → List Cell → List Cell
  | _, [] => []
  | i, c :: cs => f i c :: mapFrom f (i + 1) cs

def dropSeq (seq : Nat) (c : Cell) : Cell := { c with seqs := c.seqs.filter (· ≠ seq) }

/-! ### updateSlidingWindow -/

def evictCell (seq : Nat) (thr : Int) (old : Range) (i : Nat) (c : Cell) : Cell :=
  if old.min ≤ i ∧ i ≤ old.max ∧ seq ∈ c.seqs ∧ c.pos < thr then dropSeq seq c else c

def keepsSeq (seq : Nat) (thr : Int) (old : Range) (i : Nat) (c : Cell) : Bool :=
  decide (old.min ≤ i ∧ i ≤ old.max ∧ seq ∈ c.seqs ∧ ¬ c.pos < thr)

def slideSeq (c : Cache) (w : Int) (seq : Nat) (low : Int) : Cache :=
  match c.ranges seq with
  | none => c
  | some old =>
    { c with cells := mapFrom (evictCell seq (low - w) old) 0 c.cells,
             ranges := setRange c.ranges seq (some (rangeOf (keepsSeq seq (low - w) old) c.cells)) }

def batchSeqs (b : List Tok) : List Nat := (b.map (·.seq)).eraseDups

def slide (c : Cache) (b : List Tok) : Cache :=
  match c.window with
  | none => c
  | some w => (batchSeqs b).foldl (fun c seq =>
      match lowest b seq with
      | some low => slideSeq c w seq low
      | none => c) c

/-! ### findStartLoc -/

def findStartFrom (k : Nat) : List Cell → (i start count : Nat) → Option Nat
  | [], _, _, _ => none
  | c :: cs, i, start, count =>
    if c.seqs = [] then
      if count + 1 ≥ k then some start else findStartFrom k cs (i + 1) start (count + 1)
    else findStartFrom k cs (i + 1) (i + 1) 0

def findStart (cells : List Cell) (k : Nat) : Option Nat := findStartFrom k cells 0 0 0

/-! ### defrag -/

/-- the inner loop `for ; src > dst; src--`: stops at the highest non-empty cell in `(dst, src]`,
    or at `dst` -/
def findSrc (cells : List Cell) (dst : Nat) : Nat → Nat
  | 0 => 0
  | s + 1 =>
    if s + 1 > dst then
      if (cells.getD (s + 1) Cell.empty).seqs ≠ [] then s + 1 else findSrc cells dst s
    else s + 1

/-- block copy of `len` rows from `src` to `dst` (what `moveCells` does to every layer) -/
def moveRowsFrom (old : List Row) (src dst len : Nat) : Nat → List Row → List Row
  | _, [] => []
  | i, r :: rs =>
    (if dst ≤ i ∧ i < dst + len then old.getD (src + (i - dst)) r else r) :: moveRowsFrom old src dst len (i + 1) rs

def moveRows (rows : List Row) (src dst len : Nat) : List Row := moveRowsFrom rows src dst len 0 rows

structure DS where
  cells : List Cell
  rows : List Row
  pSrc : Nat
  pDst : Nat
  pLen : Nat

/-- repaired coalescing: the newly moved cell (lowest source) goes to the front of the pending
    destination block, the others shift up by one -/
def rotateIn (cells : List Cell) (pDst dst : Nat) : List Cell :=
  let moved := cells.getD dst Cell.empty
  mapFrom (fun i c => if i = pDst then moved else if pDst < i ∧ i ≤ dst then cells.getD (i - 1) c else c) 0 cells

/-- one hole at `dst` filled from `s` (`s > dst`, `cells[s]` non-empty) -/
def fillHole (fix : Bool) (st : DS) (dst s : Nat) : DS :=
  let cells := (st.cells.set dst (st.cells.getD s Cell.empty)).set s Cell.empty
  if st.pLen > 0 then
    if fix then
      if s + 1 = st.pSrc ∧ dst = st.pDst + st.pLen then
        { st with cells := rotateIn cells st.pDst dst, pSrc := s, pLen := st.pLen + 1 }
      else
        { cells, rows := moveRows st.rows st.pSrc st.pDst st.pLen, pSrc := s, pDst := dst, pLen := 1 }
    else if (s : Int) = (st.pSrc : Int) - st.pLen ∧ dst = st.pDst + st.pLen then
      { st with cells, pSrc := s, pLen := st.pLen + 1 }
    else
      { cells, rows := moveRows st.rows st.pSrc st.pDst st.pLen, pSrc := s, pDst := dst, pLen := 1 }
  else
    { st with cells, pSrc := s, pDst := dst, pLen := 1 }

def defragLoop (fix : Bool) : Nat → DS → (dst src : Nat) → DS
  | 0, st, _, _ => st
  | f + 1, st, dst, src =>
    if dst < src then
      if (st.cells.getD dst Cell.empty).seqs = [] then
        let s := findSrc st.cells dst src
        if s > dst then defragLoop fix f (fillHole fix st dst s) (dst + 1) s
        else defragLoop fix f st (dst + 1) s
      else defragLoop fix f st (dst + 1) src
    else st

def defragCore (fix : Bool) (cells : List Cell) (rows : List Row) : List Cell × List Row :=
  let st := defragLoop fix cells.length ⟨cells, rows, 0, 0, 0⟩ 0 (cells.length - 1)
  (st.cells, if st.pLen > 0 then moveRows st.rows st.pSrc st.pDst st.pLen else st.rows)

def hasSeq (seq : Nat) (_ : Nat) (c : Cell) : Bool := decide (seq ∈ c.seqs)

def defrag (c : Cache) : Cache :=
  let (cells, rows) := defragCore c.v.fixDefrag c.cells c.rows
  { c with cells, rows := if c.hasLayers then rows else c.rows,
           ranges := fun s => (c.ranges s).map (fun _ => rangeOf (hasSeq s) cells) }

/-! ### StartForward -/

def placeTok (c : Cache) (idx : Nat) (t : Tok) : Cache :=
  let r := ((c.ranges t.seq).getD Range.new).add idx
  { c with cells := c.cells.set idx ⟨t.pos, [t.seq]⟩,
           ranges := setRange c.ranges t.seq (some r),
           curRange := ⟨if r.min < c.curRange.min then r.min else c.curRange.min,
                        if r.max > c.curRange.max then r.max else c.curRange.max⟩ }

def place (c : Cache) : Nat → List Tok → Cache
  | _, [] => c
  | idx, t :: ts => place (placeTok c idx t) (idx + 1) ts

/-- the padding of `buildMask` -/
def padRange (c : Cache) : Range :=
  ⟨roundDown c.curRange.min c.cachePad, roundUp (c.curRange.max + 1) c.cachePad - 1⟩

def finishForward (c : Cache) (loc : Nat) (b : List Tok) : Cache :=
  let c1 := place { c with curLoc := loc, curRange := Range.new } loc b
  { c1 with curRange := padRange c1 }

inductive Fwd where
  | ok | full | panic
deriving DecidableEq, Repr

def startForward (c : Cache) (b : List Tok) : Cache × Fwd :=
  let c1 := slide { c with curBatch := b, except := [] } b   -- `c.opts.Except = nil`
  match findStart c1.cells b.length with
  | some loc => (finishForward c1 loc b, .ok)
  | none =>
    if !c1.hasLayers && !c1.v.fixDiv then (c1, .panic)   -- `(…) / (6 * layers)` with layers = 0
    else
      let c2 := defrag c1
      match findStart c2.cells b.length with
      | some loc => (finishForward c2 loc b, .ok)
      | none => (c2, .full)

/-- `StartForward(…, reserve = true)`: no cache metadata is touched; the pass is laid out at location 0
    and its mask covers the whole cache (`curCellRange = [0, len-1]`, then padded by `buildMask`).
    (An `Init` with zero cells is outside the model: Go's `len-1 = -1` is not a `Nat`.) -/
def startReserve (c : Cache) (b : List Tok) : Cache :=
  let c1 := { c with curBatch := b, except := [], curLoc := 0, curRange := ⟨0, c.cells.length - 1⟩ }
  { c1 with curRange := padRange c1 }

/-- mask entry for batch token `t` and location `j`: `true` = exposed (0), `false` = −inf -/
def maskBit (c : Cache) (t : Tok) (j : Nat) : Bool :=
  let cell := c.cells.getD j Cell.empty
  decide (t.seq ∈ cell.seqs) && !(decide (cell.pos > t.pos)) && inWindow c.window cell.pos t.pos

/-- mask entry with the causal test switched on (`enabled`) or off (batch index listed in
    `opts.Except`): an excepted token also sees later positions of its sequence; the lower window
    bound still applies -/
def maskBitE (enabled : Bool) (c : Cache) (t : Tok) (j : Nat) : Bool :=
  let cell := c.cells.getD j Cell.empty
  decide (t.seq ∈ cell.seqs) && !(enabled && decide (cell.pos > t.pos)) && inWindow c.window cell.pos t.pos

/-- the locations mask row `i` (token `t`) exposes, honouring `opts.Except` -/
def exposedAt (c : Cache) (i : Nat) (t : Tok) : List Nat :=
  (List.range' c.curRange.min (c.curRange.max + 1 - c.curRange.min)).filter (maskBitE (!c.except.contains i) c t)

/-- `SetCausal(ctx, opts)` with a non-nil context: nothing happens unless the options changed; then
    the mask is rebuilt (`buildMask` re-applies its padding to `curCellRange`) -/
def setCausal (c : Cache) (ex : List Nat) : Cache :=
  if c.except = ex then c else { c with except := ex, curRange := padRange c }

/-- the locations mask row `t` exposes (within the padded current range) -/
def exposed (c : Cache) (t : Tok) : List Nat :=
  (List.range' c.curRange.min (c.curRange.max + 1 - c.curRange.min)).filter (maskBit c t)

/-- `Put` on every layer: the batch's data goes to `curLoc ..` -/
def putRows : List Row → Nat → List Nat → List Row
  | rows, _, [] => rows
  | rows, idx, id :: ids => putRows (rows.set idx ⟨id, 0⟩) (idx + 1) ids

def put (c : Cache) (ids : List Nat) : Cache :=
  { c with rows := putRows c.rows c.curLoc ids, hasLayers := true }

/-! ### CopyPrefix -/

def cpCell (src dst : Nat) (len : Int) (c : Cell) : Cell :=
  { c with seqs := cpSeqs src dst len c.pos c.seqs }

def copyPrefix (c : Cache) (src dst : Nat) (len : Int) : Cache :=
  let cells := c.cells.map (cpCell src dst len)
  { c with cells, ranges := setRange c.ranges dst (some (rangeOf (hasSeq dst) cells)) }

/-! ### Remove / shift -/

/-- the metadata loop of `Remove`, with its early return: `true` = returned the "shared" error,
    leaving the rest of the cells untouched -/
def removeCells (seq : Nat) (b e off : Int) : List Cell → List Cell × Bool
  | [] => ([], false)
  | c :: cs =>
    if seq ∈ c.seqs then
      if b ≤ c.pos ∧ c.pos < e then
        let r := removeCells seq b e off cs
        (dropSeq seq c :: r.1, r.2)
      else if c.pos ≥ e then
        if sharedOther seq c.seqs then (c :: cs, true)
        else
          let r := removeCells seq b e off cs
          ({ c with pos := c.pos + off } :: r.1, r.2)
      else
        let r := removeCells seq b e off cs
        (c :: r.1, r.2)
    else
      let r := removeCells seq b e off cs
      (c :: r.1, r.2)

/-- `shift`: rows of `seq` at positions `≥ from` get `off` added (the range computed by `Remove`
    in the same call covers exactly the cells of `seq`, so the restriction to it is not visible) -/
def shiftRows (seq : Nat) (frm off : Int) : List Cell → List Row → List Row
  | c :: cs, r :: rs =>
    (if seq ∈ c.seqs ∧ c.pos ≥ frm then { r with shift := r.shift + off } else r) :: shiftRows seq frm off cs rs
  | _, rs => rs

inductive Rm where
  | ok | shared | notsup
deriving DecidableEq, Repr

def remove (c : Cache) (seq : Nat) (b e : Int) : Cache × Rm :=
  let off := rmOffset b e
  let r := removeCells seq b e off c.cells
  if r.2 then ({ c with cells := r.1 }, .shared)
  else
    let rg := rangeOf (hasSeq seq) r.1
    if rg = Range.new then ({ c with cells := r.1, ranges := setRange c.ranges seq none }, .ok)
    else
      let c1 := { c with cells := r.1, ranges := setRange c.ranges seq (some rg) }
      if e = maxInt32 then (c1, .ok)
      else if !c.hasShift then (c1, .notsup)
      else ({ c1 with rows := if c.hasLayers then shiftRows seq (e + off) off r.1 c.rows else c.rows }, .ok)

/-- the checks the repaired `Remove` (F28) performs before changing anything: a cell that would have to
    shift although another sequence shares it ⇒ `shared`; something remains, it has to be re-shifted and
    there is no `shiftFn` ⇒ `notsup` -/
def removeGuard (c : Cache) (seq : Nat) (b e : Int) : Option Rm :=
  if c.cells.any (fun x => decide (seq ∈ x.seqs) && !(decide (b ≤ x.pos ∧ x.pos < e)) && decide (x.pos ≥ e)
      && sharedOther seq x.seqs) then some .shared
  else if c.cells.any (fun x => decide (seq ∈ x.seqs) && !(decide (b ≤ x.pos ∧ x.pos < e)))
      && decide (e ≠ maxInt32) && !c.hasShift then some .notsup
  else none

/-- `Remove` of the tree under test: pinned (`remove`: errors after partial mutation) or repaired
    (errors leave the cache unchanged; accepted removals are those of `remove`) -/
def removeV (c : Cache) (seq : Nat) (b e : Int) : Cache × Rm :=
  if c.v.atomicRemove then
    match removeGuard c seq b e with
    | some r => (c, r)
    | none => remove c seq b e
  else remove c seq b e

/-! ### CanResume -/

def lastFrom (seq : Nat) (r : Range) : Nat → List Cell → Int → Int
  | _, [], acc => acc
  | i, c :: cs, acc =>
    lastFrom seq r (i + 1) cs (if r.min ≤ i ∧ i ≤ r.max ∧ seq ∈ c.seqs then max acc c.pos else acc)

def countFrom (seq : Nat) (r : Range) (lo hi : Int) : Nat → List Cell → Int → Int
  | _, [], acc => acc
  | i, c :: cs, acc =>
    countFrom seq r lo hi (i + 1) cs
      (if r.min ≤ i ∧ i ≤ r.max ∧ seq ∈ c.seqs ∧ lo ≤ c.pos ∧ c.pos < hi then acc + 1 else acc)

def canResume (c : Cache) (seq : Nat) (pos : Int) : Bool :=
  match c.window with
  | none => true
  | some w =>
    match c.ranges seq with
    | none => false
    | some r =>
      let last := lastFrom seq r 0 c.cells (-1)
      if last = -1 then false
      else
        decide (max 0 (pos - w) ≥ max 0 (last - w)) &&
          (!c.v.fixResume || decide (countFrom seq r (max 0 (pos - w)) pos 0 c.cells 0 = pos - max 0 (pos - w)))

/-! ### WrapperCache (kvcache/wrapper.go) over several Causal caches -/

/-- the unwind of `WrapperCache.StartForward`: `Remove(seq_k, pos_k, MaxInt32)` for every batch token
    (errors ignored) -/
def unwind (c : Cache) (b : List Tok) : Cache :=
  b.foldl (fun c t => (removeV c t.seq t.pos maxInt32).1) c

/-- `WrapperCache.StartForward`: caches in order; when one fails the earlier ones (which accepted the
    batch) are unwound, the failing one keeps whatever its own StartForward left, later ones are not
    touched -/
def wStart : List Cache → List Tok → List Cache × Fwd
  | [], _ => ([], .ok)
  | c :: cs, b =>
    match startForward c b with
    | (c1, .ok) =>
      match wStart cs b with
      | (cs', .ok) => (c1 :: cs', .ok)
      | (cs', .full) => (unwind c1 b :: cs', .full)
      | (cs', .panic) => (c1 :: cs', .panic)
    | (c1, r) => (c1 :: cs, r)

/-- `WrapperCache.StartForward(…, reserve = true)`: every wrapped cache reserves (none can fail) -/
def wStartReserve (cs : List Cache) (b : List Tok) : List Cache := cs.map (fun c => startReserve c b)

/-- `Put` reaches the cache selected by `SetLayerType`; the driver (like a model) Puts every layer of
    every type on every pass -/
def wPut (cs : List Cache) (ids : List Nat) : List Cache := cs.map (fun c => put c ids)

def wCopyPrefix (cs : List Cache) (src dst : Nat) (len : Int) : List Cache :=
  cs.map (fun c => copyPrefix c src dst len)

/-- `WrapperCache.Remove`: stops at the first cache that fails (later caches are not called) -/
def wRemove : List Cache → Nat → Int → Int → List Cache × Rm
  | [], _, _, _ => ([], .ok)
  | c :: cs, seq, b, e =>
    match removeV c seq b e with
    | (c1, .ok) => let r := wRemove cs seq b e; (c1 :: r.1, r.2)
    | (c1, r) => (c1 :: cs, r)

/-- `WrapperCache.Remove` of the tree under test: pinned (`wRemove`), or repaired with the pre-check over all
    wrapped caches (the first refusal is returned, nothing is changed) -/
def wRemoveV (cs : List Cache) (seq : Nat) (b e : Int) : List Cache × Rm :=
  match cs.findSome? (fun c => if c.v.atomicWrapperRemove then removeGuard c seq b e else none) with
  | some r => (cs, r)
  | none => wRemove cs seq b e

def wSetCausal (cs : List Cache) (ex : List Nat) : List Cache := cs.map (fun c => setCausal c ex)

def wCanResume (cs : List Cache) (seq : Nat) (pos : Int) : Bool := cs.all (fun c => canResume c seq pos)

/-! ### EncoderCache (kvcache/encoder.go): position independent, one sequence -/

structure Enc where
  curPos : Int := 0
  curReserve : Bool := false
  cached : Bool := false
  encPos : Int := 0
  /-- per layer: identity of the tensors held (what `Get` returns) -/
  layers : List (Nat × Nat) := []

inductive EOp where
  /-- `StartForward`: position of the batch's last image (if any), reserve flag -/
  | start (imagePos : Option Int) (reserve : Bool)
  /-- `Put` of data `id` on the active layer `l` -/
  | put (l : Nat) (id : Nat)
  | remove (b e : Int)

def Enc.setLayer (s : Enc) (l id : Nat) : Enc :=
  { s with layers := (l, id) :: s.layers.filter (fun p => p.1 ≠ l) }

def Enc.get (s : Enc) (l : Nat) : Option Nat := (s.layers.find? (fun p => p.1 = l)).map (·.2)

def encStep (s : Enc) : EOp → Enc
  | .start p r => { s with curPos := p.getD s.curPos, curReserve := r }
  | .put l id =>
    (if s.curReserve then s else { s with encPos := s.curPos, cached := true }).setLayer l id
  | .remove b e => if b ≤ s.encPos ∧ s.encPos < e then { s with cached := false } else s

end OllamaVerif.Causal
