/-
  C18 — executable model of ollama's token sampler (`sample/samplers.go`, `sample/transforms.go`).

  The algorithms are generic over a carrier `α` (Go: `float32`) and a record `Ops α` of the
  primitive operations the Go code applies to it (`<`, `<=`, `==`, `+ - * /`, `exp`, the constants).
  The same generic code is
    * instantiated at IEEE `Float32` by the oracle executable (`Oracle/C18.lean`; `exp` is a table
      of the values Go produced, everything else is bit-exact), so that L1 compares it with the real
      code on bit patterns, NaN / overflow behaviour included, and
    * reasoned about in `Properties/C18.lean` for every carrier whose operations satisfy the order
      laws listed there (`Laws`), which is what IEEE arithmetic gives *as long as no NaN arises*.

  Core Lean only.  Every Go `panic` site that the code could reach is an explicit `Err.panic`.
-/
namespace OllamaVerif.Sampler

/-- `sample.token` -/
structure Tok (α : Type) where
  id : Nat
  val : α
  deriving Repr, DecidableEq

/-- primitive operations on the carrier (Go `float32`) -/
structure Ops (α : Type) where
  lt : α → α → Bool          -- Go `<`
  le : α → α → Bool          -- Go `<=`
  beq : α → α → Bool         -- Go `==`
  isNaN : α → Bool
  add : α → α → α
  sub : α → α → α
  mul : α → α → α
  div : α → α → α
  exp : α → α                -- `float32(math.Exp(float64(x)))`
  zero : α
  one : α
  negInf : α
  posInf : α
  tempFloor : α              -- `1e-7`

inductive Err where
  | noLogits                 -- "sample: no logits provided to sample"
  | nanSum                   -- "sample: logits sum to NaN, check model output"
  | allNegInf                -- only in the repaired variant
  | panic (site : String)    -- a Go run-time panic (index out of range)
  deriving Repr, DecidableEq

variable {α : Type}

/-! ### greedy -/

/-- `greedy`: first maximum under `>`; Go indexes `tokens[0]` (panics on an empty slice). -/
def greedy (o : Ops α) : List (Tok α) → Except Err (Tok α)
  | [] => .error (.panic "greedy:tokens[0]")
  | t :: ts => .ok (ts.foldl (fun m x => if o.lt m.val x.val then x else m) t)

/-! ### topK -/

/-- "a may stand before b" in descending order: `¬ a < b` -/
def descLE (o : Ops α) (a b : Tok α) : Bool := !o.lt a.val b.val

/-- descending, stable sort (the `k ≤ 0 ∨ k ≥ len` branch; Go uses the unstable pdqsort, which for
    `len ≤ 12` is an insertion sort and therefore stable; beyond that the order inside a group of
    equal values is unspecified and the harness compares modulo that order) -/
def sortDesc (o : Ops α) (ts : List (Tok α)) : List (Tok α) := ts.mergeSort (descLE o)

/-- specification-level top-k: the first k of the descending sort -/
def topKSpec (o : Ops α) (k : Int) (ts : List (Tok α)) : List (Tok α) :=
  if k ≥ ts.length ∨ k ≤ 0 then sortDesc o ts else (sortDesc o ts).take k.toNat

/-! #### exact mirror of the `container/heap` path -/

def hget (o : Ops α) (h : Array (Tok α)) (i : Nat) : Tok α := h[i]?.getD ⟨0, o.zero⟩

/-- `tokenHeap.Less` -/
def hless (o : Ops α) (h : Array (Tok α)) (i j : Nat) : Bool := o.lt (hget o h i).val (hget o h j).val

/-- `heap.down(h, i, n)` -/
def hdown (o : Ops α) (n : Nat) : Nat → Array (Tok α) → Nat → Array (Tok α)
  | 0, h, _ => h
  | fuel + 1, h, i =>
    let j1 := 2 * i + 1
    if j1 ≥ n then h else
    let j := if j1 + 1 < n && hless o h (j1 + 1) j1 then j1 + 1 else j1
    if !hless o h j i then h else hdown o n fuel (h.swapIfInBounds i j) j

/-- `heap.up(h, j)`; Go's `(j-1)/2` truncates towards zero, so the parent of 0 is 0 -/
def hup (o : Ops α) : Nat → Array (Tok α) → Nat → Array (Tok α)
  | 0, h, _ => h
  | fuel + 1, h, j =>
    let i := (j - 1) / 2
    if i == j || !hless o h j i then h else hup o fuel (h.swapIfInBounds i j) i

/-- `heap.Init` -/
def hinit (o : Ops α) (h : Array (Tok α)) : Array (Tok α) :=
  let n := h.size
  (List.range (n / 2)).reverse.foldl (fun h i => hdown o n n h i) h

/-- `heap.Pop` : swap(0, n-1); down(0, n-1); remove last -/
def hpop (o : Ops α) (h : Array (Tok α)) : Tok α × Array (Tok α) :=
  let n := h.size - 1
  let h := h.swapIfInBounds 0 n
  let h := hdown o n n h 0
  (hget o h n, h.pop)

/-- `heap.Push` -/
def hpush (o : Ops α) (h : Array (Tok α)) (x : Tok α) : Array (Tok α) :=
  let h := h.push x
  hup o h.size h (h.size - 1)

def hpopAll (o : Ops α) : Nat → Array (Tok α) → List (Tok α)
  | 0, _ => []
  | n + 1, h => let (x, h') := hpop o h; x :: hpopAll o n h'

/-- the heap branch of `topK` (`0 < k < len`) -/
def topKHeap (o : Ops α) (k : Nat) (ts : List (Tok α)) : List (Tok α) :=
  let h0 := hinit o (ts.take k).toArray
  let h := (ts.drop k).foldl
    (fun h t => if o.lt (hget o h 0).val t.val then hpush o (hpop o h).2 t else h) h0
  (hpopAll o k h).reverse

/-- `topK` as implemented -/
def topK (o : Ops α) (k : Int) (ts : List (Tok α)) : List (Tok α) :=
  if k ≥ ts.length ∨ k ≤ 0 then sortDesc o ts else topKHeap o k.toNat ts

/-! ### temperature, softmax -/

/-- Go's builtin `max` on floats (NaN-propagating) -/
def fmax (o : Ops α) (a b : α) : α :=
  if o.isNaN a then a else if o.isNaN b then b else if o.lt a b then b else a

def setVals (L : List (Tok α)) (vs : List α) : List (Tok α) :=
  List.zipWith (fun t v => ⟨t.id, v⟩) L vs

/-- `temperature`: `v / max(temp, 1e-7)` -/
def scaleVals (o : Ops α) (temp : α) (vs : List α) : List α :=
  let t := fmax o temp o.tempFloor
  vs.map (fun v => o.div v t)

def temperature (o : Ops α) (temp : α) (L : List (Tok α)) : List (Tok α) :=
  setVals L (scaleVals o temp (L.map (·.val)))

/-- `softmax` on the values: max scan, `exp(x - max)`, running sum, division -/
def softmaxVals (o : Ops α) (vs : List α) : List α :=
  let m := vs.foldl (fun m v => if o.lt m v then v else m) o.negInf
  let es := vs.map (fun v => o.exp (o.sub v m))
  let s := es.foldl o.add o.zero
  es.map (fun e => o.div e s)

def softmax (o : Ops α) (L : List (Tok α)) : List (Tok α) :=
  setVals L (softmaxVals o (L.map (·.val)))

/-! ### topP, minP -/

/-- index at which the `topP` loop cuts (`len` if it never does) -/
def topPCut (o : Ops α) (p : α) : α → List (Tok α) → Nat
  | _, [] => 0
  | sum, t :: rest =>
    let s := o.add sum t.val
    if o.lt p s then 1 else 1 + topPCut o p s rest

def topP (o : Ops α) (p : α) (L : List (Tok α)) : List (Tok α) :=
  if o.beq p o.one then L else L.take (topPCut o p o.zero L)

/-- `minP`; Go reads `ts[0]` (panic on an empty slice) -/
def minP (o : Ops α) (p : α) : List (Tok α) → Except Err (List (Tok α))
  | [] => .error (.panic "minP:ts[0]")
  | t0 :: rest =>
    let th := o.mul t0.val p
    .ok ((t0 :: rest).takeWhile (fun t => !o.lt t.val th))

/-! ### the weighted pick -/

def cumsum (o : Ops α) : α → List (Tok α) → List (Tok α)
  | _, [] => []
  | s, t :: rest => let s' := o.add s t.val; ⟨t.id, s'⟩ :: cumsum o s' rest

/-- the loop of `slices.BinarySearchFunc` for a comparison that never returns 0:
    `below h` is `cmp(x[h], target) < 0` -/
def bsearch (below : Nat → Bool) : Nat → Nat → Nat → Nat
  | 0, i, _ => i
  | fuel + 1, i, j =>
    if i < j then
      let h := (i + j) / 2
      if below h then bsearch below fuel (h + 1) j else bsearch below fuel i h
    else i

/-- the comparison function handed to `BinarySearchFunc`: `token.value < target` -/
def belowAt (o : Ops α) (C : List (Tok α)) (target : α) (h : Nat) : Bool :=
  match C[h]? with
  | some t => o.lt t.val target
  | none => false

/-- cumulative sums, `r *= total`, binary search, NaN guard, final index -/
def pick (o : Ops α) (r : α) (L : List (Tok α)) : Except Err (Tok α) :=
  let C := cumsum o o.zero L
  match C.getLast? with
  | none => .error (.panic "sample:tokens[len-1]")
  | some last =>
    let r' := o.mul r last.val
    let idx := bsearch (belowAt o C r') (C.length + 1) 0 C.length
    if o.isNaN last.val then .error .nanSum
    else match C[idx]? with
      | some t => .ok t
      | none => .error (.panic "sample:tokens[idx]")

/-! ### sample / Sample -/

structure Params (α : Type) where
  temp : α
  topK : Int
  topP : α
  minP : α
  /-- variant flag, not a sampler field: `true` = proposed repair of finding F18c (the greedy branch
      reports "all logits are -Inf" like the weighted path instead of returning the first token) -/
  greedyErr : Bool := false

/-- the clamping done by `NewSampler` -/
def newParams (o : Ops α) (temp : α) (k : Int) (p mp : α) : Params α :=
  { temp := if o.lt temp o.zero then o.zero else temp
    topK := k
    topP := if o.lt p o.zero then o.zero else if o.le o.one p then o.one else p
    minP := if o.lt mp o.zero then o.zero else if o.le o.one mp then o.one else mp }

/-- the proposed repair (`fix = true`): after `topK` the list is sorted, so shift every logit by
    the largest one before scaling.  `x == max ↦ 0` also covers `max = +Inf`. -/
def shiftMax (o : Ops α) : List (Tok α) → Except Err (List (Tok α))
  | [] => .ok []
  | t0 :: rest =>
    if o.beq t0.val o.negInf then .error .allNegInf
    else .ok ((t0 :: rest).map fun t =>
      ⟨t.id, if o.beq t.val t0.val then o.zero else o.sub t.val t0.val⟩)

/-- everything in `sample` after `topK`: `L` is the (sorted) output of `topK` -/
def afterTopK (o : Ops α) (fix : Bool) (P : Params α) (r : α) (L : List (Tok α)) :
    Except Err (Tok α) := do
  let L ← if fix then shiftMax o L else pure L
  let probs := softmax o (temperature o P.temp L)
  let f ← minP o P.minP (topP o P.topP probs)
  pick o r f

/-- `(*Sampler).sample` -/
def sampleCore (o : Ops α) (fix : Bool) (P : Params α) (r : α) (ts : List (Tok α)) :
    Except Err (Tok α) :=
  if o.beq P.temp o.zero then
    match greedy o ts with
    | .ok t => if P.greedyErr && o.beq t.val o.negInf then .error .allNegInf else .ok t
    | .error e => .error e
  else afterTopK o fix P r (topK o P.topK ts)

def mkTokensFrom : Nat → List α → List (Tok α)
  | _, [] => []
  | i, v :: vs => ⟨i, v⟩ :: mkTokensFrom (i + 1) vs

/-- `tokens[i] = {id: i, value: logits[i]}` -/
def mkTokens (logits : List α) : List (Tok α) := mkTokensFrom 0 logits

/-- `(*Sampler).Sample` without a grammar -/
def Sample (o : Ops α) (fix : Bool) (P : Params α) (r : α) (logits : List α) : Except Err Nat :=
  match logits with
  | [] => .error .noLogits
  | _ => (sampleCore o fix P r (mkTokens logits)).map (·.id)

/-- `(*Sampler).Sample` with a grammar.  The grammar (cgo, llama.cpp) is *modelled only*: `mask`
    sets the value of every rejected token to `-Inf` and leaves the others alone.  Fast path: mask
    the one sampled token; slow path: mask everything and sample again (second random number). -/
def SampleG (o : Ops α) (fix : Bool) (P : Params α) (mask : List (Tok α) → List (Tok α))
    (r1 r2 : α) (logits : List α) : Except Err Nat :=
  match logits with
  | [] => .error .noLogits
  | _ => do
    let t ← sampleCore o fix P r1 (mkTokens logits)
    match mask [t] with
    | [t'] =>
      if !(o.beq t'.val o.negInf) then pure t'.id
      else (sampleCore o fix P r2 (mask (mkTokens logits))).map (·.id)
    | _ => .error (.panic "grammar:len")

/-! ### run-time contracts

  Decidable predicates over the values of ONE run.  The oracle evaluates them on the bit patterns
  the real code produced (L1 makes the model's stage values equal to Go's), the Go driver evaluates
  them independently, and the theorems of `Properties/C18.lean` take them as hypotheses: they are
  exactly what IEEE-754 arithmetic is trusted to provide and what it fails to provide when a NaN
  arises (finding F18). -/

/-- descending: no element is smaller than a later one -/
def isDesc (o : Ops α) : List α → Bool
  | [] => true
  | [_] => true
  | a :: b :: rest => !o.lt a b && isDesc o (b :: rest)

/-- non-decreasing -/
def isAsc (o : Ops α) : List α → Bool
  | [] => true
  | [_] => true
  | a :: b :: rest => !o.lt b a && isAsc o (b :: rest)

/-- F18 guard: the scaled values contain no NaN, none is `+Inf`, and the first (largest, the list
    is sorted) is not `-Inf` -/
def guardOK (o : Ops α) (vs : List α) : Bool :=
  vs.all (fun v => !o.isNaN v && o.lt v o.posInf) &&
  (match vs with | [] => false | v :: _ => o.lt o.negInf v)

/-- what `softmax` must deliver on a descending list `vs` (given the guard):
    same length; no NaN, nothing negative; still descending; `-Inf ↦ 0`; the head is positive -/
def softmaxOK (o : Ops α) (vs ps : List α) : Bool :=
  vs.length == ps.length &&
  ps.all (fun p => !o.isNaN p && !o.lt p o.zero) &&
  isDesc o ps &&
  (List.zipWith (fun v p => !o.beq v o.negInf || o.beq p o.zero) vs ps).all id &&
  (match ps with | [] => false | p :: _ => o.lt o.zero p)

/-- what `temperature` must deliver on a descending list: still descending, `-Inf ↦ -Inf` -/
def scaleOK (o : Ops α) (vs ss : List α) : Bool :=
  vs.length == ss.length && isDesc o ss &&
  (List.zipWith (fun v s => !o.beq v o.negInf || o.beq s o.negInf) vs ss).all id

/-! ### the seeded random stream: PCG-DXSM of `math/rand/v2`, `Rand.Float32` -/

def two64 : Nat := 2 ^ 64

structure Pcg where
  hi : Nat
  lo : Nat
  deriving Repr, DecidableEq

/-- `rand.NewPCG(uint64(seed), uint64(seed) ^ 0x9E3779B9)` -/
def pcgOfSeed (seed : Int) : Pcg :=
  let s := (seed % (two64 : Int)).toNat
  ⟨s, Nat.xor s 0x9E3779B9⟩

def pcgMul : Nat := 2549297995355413924 * two64 + 4865540595714422341
def pcgInc : Nat := 6364136223846793005 * two64 + 1442695040888963407

/-- `(*PCG).Uint64` : 128-bit LCG step + DXSM output -/
def pcgNext (p : Pcg) : Nat × Pcg :=
  let st := ((p.hi * two64 + p.lo) * pcgMul + pcgInc) % (two64 * two64)
  let hi := st / two64
  let lo := st % two64
  let h := Nat.xor hi (hi / 2 ^ 32)
  let h := (h * 0xda942042e4dd58b5) % two64
  let h := Nat.xor h (h / 2 ^ 48)
  let h := (h * (Nat.lor lo 1)) % two64
  (h, ⟨hi, lo⟩)

/-- `Rand.Float32`: the top 32 bits, of which the low 24 are kept; the float is `n / 2^24` -/
def pcgFloat24 (p : Pcg) : Nat × Pcg :=
  let (u, p') := pcgNext p
  ((u / 2 ^ 32) % 2 ^ 24, p')

/-- the first `n` outputs of a state machine -/
def streamOf {σ β : Type} (step : σ → β × σ) : Nat → σ → List β
  | 0, _ => []
  | n + 1, s => (step s).1 :: streamOf step n (step s).2

def pcgStream (n : Nat) (p : Pcg) : List Nat := streamOf pcgFloat24 n p

/-! ### histories: a sequence of calls on ONE sampler

  The only state a `Sampler` carries from one call to the next is its generator.  A call reaches
  the generator (draws exactly one number) unless it returns earlier: empty input, the greedy
  branch, or — in the repaired variant — the "all logits are -Inf" error raised before the draw. -/

/-- does this call draw a random number? -/
def consumes (o : Ops α) (fix : Bool) (P : Params α) (logits : List α) : Bool :=
  match logits with
  | [] => false
  | _ =>
    !o.beq P.temp o.zero &&
    (if fix then
       (match shiftMax o (topK o P.topK (mkTokens logits)) with
        | .ok _ => true
        | .error _ => false)
     else true)

/-- one call: result and generator state afterwards (`toF n` is the carrier's `n / 2^24`) -/
def sampleStep (o : Ops α) (toF : Nat → α) (fix : Bool) (P : Params α) (p : Pcg) (logits : List α) :
    Except Err Nat × Pcg :=
  if consumes o fix P logits then
    (Sample o fix P (toF (pcgFloat24 p).1) logits, (pcgFloat24 p).2)
  else (Sample o fix P (toF 0) logits, p)

/-- the results of a history of calls on one sampler -/
def sampleHist (o : Ops α) (toF : Nat → α) (fix : Bool) (P : Params α) :
    Pcg → List (List α) → List (Except Err Nat)
  | _, [] => []
  | p, l :: ls =>
    (sampleStep o toF fix P p l).1 :: sampleHist o toF fix P (sampleStep o toF fix P p l).2 ls

/-! ### the grammar path as driven by the real grammar

  `acc` is the set of token ids the grammar accepts at this point (the harness obtains it from the
  real llama.cpp grammar by probing `Apply`).  `Grammar.Apply` sets the value of every rejected
  token to `-Inf` and leaves the others alone.  Fast path: the first pick is accepted (and its value
  is not `-Inf`).  Slow path: a FRESH token list from the original logits is masked and sampled
  again with a NEW random number — which is exactly `Sample` on the masked logits. -/

def maskFrom (o : Ops α) (acc : List Nat) : Nat → List α → List α
  | _, [] => []
  | i, v :: vs => (if acc.contains i then v else o.negInf) :: maskFrom o acc (i + 1) vs

/-- the logits after the grammar mask -/
def maskLogits (o : Ops α) (acc : List Nat) (logits : List α) : List α := maskFrom o acc 0 logits

/-- one `Sample` call with a grammar: result, generator state afterwards, numbers drawn -/
def sampleStepG (o : Ops α) (toF : Nat → α) (fix : Bool) (P : Params α) (p : Pcg)
    (logits : List α) (acc : List Nat) : Except Err Nat × Pcg × Nat :=
  match logits with
  | [] => (.error .noLogits, p, 0)
  | _ =>
    let c1 := consumes o fix P logits
    let r1 := if c1 then toF (pcgFloat24 p).1 else toF 0
    let p1 := if c1 then (pcgFloat24 p).2 else p
    let d1 := if c1 then 1 else 0
    match sampleCore o fix P r1 (mkTokens logits) with
    | .error e => (.error e, p1, d1)
    | .ok t =>
      if acc.contains t.id && !o.beq t.val o.negInf then (.ok t.id, p1, d1)
      else
        let s2 := sampleStep o toF fix P p1 (maskLogits o acc logits)
        (s2.1, s2.2, d1 + (if consumes o fix P (maskLogits o acc logits) then 1 else 0))

/-- a history of grammar-constrained calls (the accepted sets are data: the grammar's own state
    machine is llama.cpp's and is not modelled) -/
def sampleHistG (o : Ops α) (toF : Nat → α) (fix : Bool) (P : Params α) :
    Pcg → List (List α × List Nat) → List (Except Err Nat × Nat)
  | _, [] => []
  | p, (l, acc) :: ls =>
    let s := sampleStepG o toF fix P p l acc
    (s.1, s.2.2) :: sampleHistG o toF fix P s.2.1 ls

/-! ### the unseeded sampler (`seed == -1`, the default of `api.DefaultOptions`)

  `NewSampler` leaves `rng` nil for the sentinel seed `-1`; `sample` then takes its number from the
  process-wide generator (`rand.Float32()`), which the model treats as an arbitrary external
  stream `rs`: a call that reaches the draw takes the next number. -/

/-- the generator `NewSampler` installs: none for the sentinel `-1` -/
def newRng (seed : Int) : Option Pcg := if seed = -1 then none else some (pcgOfSeed seed)

/-- a history of calls on an unseeded sampler, given the numbers the process-wide source delivers -/
def sampleHistU (o : Ops α) (fix : Bool) (P : Params α) : List α → List (List α) → List (Except Err Nat)
  | _, [] => []
  | rs, l :: ls =>
    if consumes o fix P l then
      Sample o fix P (rs.headD o.zero) l :: sampleHistU o fix P rs.tail ls
    else Sample o fix P o.zero l :: sampleHistU o fix P rs ls

end OllamaVerif.Sampler
