/-
  C14 — executable model of `runner/common/stop.go`, `flushPending` and the per-token output
  logic of `processBatch` (`runner/ollamarunner/runner.go`; `runner/llamarunner/runner.go` has
  the same sequence of calls, see Tie/C14.lean).  Strings are byte lists.  Core Lean only.

  The model mirrors the code as it is, defects included:
  * `findStop` returns the first *listed* stop that occurs, not the earliest occurrence (F7);
    `stepPiece`/`run` take a flag `pinned`: `true` = the pinned code, `false` = the proposed repair;
  * `flushPending` silently drops the bytes after the longest valid UTF-8 prefix (F20);
  * the finish reason has two values for three causes (F20).
-/
import OllamaVerif.Model.Bytes

namespace OllamaVerif.Stop
open OllamaVerif

/-! ## strings.Contains / strings.Index / HasSuffix over byte lists -/

/-- `strings.Index(s, sub)`: start of the first occurrence. `Index(s, "") = 0`. -/
def indexOf (sub : Bytes) : Bytes → Option Nat
  | [] => if sub.isEmpty then some 0 else none
  | c :: t =>
    if sub.isPrefixOf (c :: t) then some 0
    else match indexOf sub t with
      | some i => some (i + 1)
      | none => none

/-- `strings.Contains(s, sub)` -/
def contains (s sub : Bytes) : Bool := (indexOf sub s).isSome

/-! ## runner/common/stop.go -/

/-- `FindStop`: the first stop *in list order* that occurs in the sequence. -/
def findStop (seq : Bytes) (stops : List Bytes) : Option Bytes :=
  stops.find? (fun stop => contains seq stop)

/-- the repaired `FindStop` (proposed fix for F7, proposed_fixes/C14-F7.patch): the stop whose first
    occurrence starts earliest; among stops starting at the same place, the first listed. -/
def earliestAux (seq : Bytes) : List Bytes → Option (Nat × Bytes) → Option (Nat × Bytes)
  | [], best => best
  | stop :: rest, best =>
    earliestAux seq rest
      (match indexOf stop seq with
       | none => best
       | some i =>
         match best with
         | none => some (i, stop)
         | some (j, s) => if i < j then some (i, stop) else some (j, s))

def findStopEarliest (seq : Bytes) (stops : List Bytes) : Option Bytes :=
  (earliestAux seq stops none).map (·.2)

/-- variant switch: `pinned = true` is the code as pinned (first listed), `false` the repaired code -/
def findStopV (pinned : Bool) (seq : Bytes) (stops : List Bytes) : Option Bytes :=
  if pinned then findStop seq stops else findStopEarliest seq stops

/-- `ContainsStopSuffix`: some non-empty prefix `stop[:i]` (1 ≤ i ≤ len stop) is a suffix of the sequence. -/
def containsStopSuffix (seq : Bytes) (stops : List Bytes) : Bool :=
  stops.any fun stop => (List.range stop.length).any fun i => (stop.take (i + 1)).isSuffixOf seq

/-- the splitting loop of `TruncateStop`: `rem` is `joined[start:]`, the list holds the
    remaining original piece lengths.  Returns the pieces and `tokenTruncated`. -/
def splitBack : List Nat → Bytes → List Bytes × Bool
  | [], _ => ([], false)
  | len :: ls, rem =>
    if rem.isEmpty then ([], false)                       -- start >= len(joined): break
    else if len > rem.length then ([rem], true)           -- end clipped; next iteration breaks
    else
      let r := splitBack ls (rem.drop len)
      (rem.take len :: r.1, r.2)

/-- `TruncateStop(pieces, stop)` -/
def truncateStop (pieces : List Bytes) (stop : Bytes) : List Bytes × Bool :=
  let joined := pieces.flatten
  match indexOf stop joined with
  | none => (pieces, false)
  | some idx => splitBack (pieces.map List.length) (joined.take idx)

/-- the loop of `IncompleteUnicode` over the reversed string; `i` is the 1-based distance from the end. -/
def incompleteAux : Nat → Bytes → Bool
  | _, [] => false
  | i, c :: rest =>
    if i ≥ 5 then false
    else if c &&& 0xc0 == 0x80 then incompleteAux (i + 1) rest
    else if c &&& 0xe0 == 0xc0 then decide (i < 2)
    else if c &&& 0xf0 == 0xe0 then decide (i < 3)
    else if c &&& 0xf8 == 0xf0 then decide (i < 4)
    else false

/-- `IncompleteUnicode(token)` -/
def incompleteUnicode (token : Bytes) : Bool := incompleteAux 1 token.reverse

/-! ## unicode/utf8.ValidString as a byte-level automaton

The state is the list of `(lo, hi)` ranges the following bytes of the current character must
fall into (Unicode Table 3-7, the table Go's `utf8` package implements). -/

abbrev Ranges := List (UInt8 × UInt8)

def leadRanges (b : UInt8) : Option Ranges :=
  if b < 0x80 then some []
  else if 0xC2 ≤ b ∧ b ≤ 0xDF then some [(0x80, 0xBF)]
  else if b == 0xE0 then some [(0xA0, 0xBF), (0x80, 0xBF)]
  else if b == 0xED then some [(0x80, 0x9F), (0x80, 0xBF)]
  else if 0xE1 ≤ b ∧ b ≤ 0xEF then some [(0x80, 0xBF), (0x80, 0xBF)]
  else if b == 0xF0 then some [(0x90, 0xBF), (0x80, 0xBF), (0x80, 0xBF)]
  else if b == 0xF4 then some [(0x80, 0x8F), (0x80, 0xBF), (0x80, 0xBF)]
  else if 0xF1 ≤ b ∧ b ≤ 0xF3 then some [(0x80, 0xBF), (0x80, 0xBF), (0x80, 0xBF)]
  else none

def utf8Step (st : Option Ranges) (b : UInt8) : Option Ranges :=
  match st with
  | none => none
  | some [] => leadRanges b
  | some ((lo, hi) :: rest) => if lo ≤ b ∧ b ≤ hi then some rest else none

def utf8Run (st : Option Ranges) (l : Bytes) : Option Ranges := l.foldl utf8Step st

/-- `utf8.ValidString` -/
def validUtf8 (l : Bytes) : Bool := utf8Run (some []) l == some []

/-! ## flushPending -/

/-- `for !utf8.ValidString(joined) { joined = joined[:len(joined)-1] }` started at length `n`. -/
def trimTo (l : Bytes) : Nat → Bytes
  | 0 => []
  | n + 1 => if validUtf8 (l.take (n + 1)) then l.take (n + 1) else trimTo l n

/-- the longest valid UTF-8 prefix: what `flushPending` sends -/
def trimValid (l : Bytes) : Bytes := trimTo l l.length

/-- `flushPending`: the chunk sent on `seq.responses` (none when nothing is sent). The receiver is
    assumed to be reading (the `seq.quit` branch is not modelled). -/
def flushChunk (pending : List Bytes) : Option Bytes :=
  let j := trimValid pending.flatten
  if j.isEmpty then none else some j

/-- the cache-length arithmetic next to `TruncateStop` in the stop branch of processBatch (Go `int`s):
    `tokenLen := len(seq.cache.Inputs) + 1; tokenLen -= origLen - newLen;
     if tokenTruncated || origLen == newLen { tokenLen-- }; seq.cache.Inputs = seq.cache.Inputs[:tokenLen]` -/
def cacheKeep (cached origLen newLen : Nat) (tokenTruncated : Bool) : Int :=
  let t : Int := (cached : Int) + 1 - ((origLen : Int) - (newLen : Int))
  if tokenTruncated || origLen == newLen then t - 1 else t

/-! ## the per-token loop of processBatch, for one sequence -/

inductive Reason | stop | length
  deriving DecidableEq, Repr

/-- what ended generation (ghost: the code only records `Reason`) -/
inductive Cause
  | limit
  | eos
  | stopString (s : Bytes)
  deriving DecidableEq, Repr

/-- what the model produces at one sampling step -/
inductive Ev
  | piece (p : Bytes)
  | eos
  deriving DecidableEq, Repr

structure St where
  pending : List Bytes := []        -- seq.pendingResponses
  numPredicted : Nat := 0           -- seq.numPredicted
  out : List Bytes := []            -- chunks sent on seq.responses so far, in order
  done : Option Reason := none      -- seq.doneReason once the sequence is removed
  gen : List Bytes := []            -- ghost: the pieces sampled so far
  cause : Option Cause := none      -- ghost
  deriving Repr

/-- `flushPending(seq)` on the state -/
def St.flush (st : St) : St :=
  match flushChunk st.pending with
  | none => { st with pending := [] }
  | some c => { st with pending := [], out := st.out ++ [c] }

/-- `removeSequence(i, reason)` -/
def St.finish (st : St) (r : Reason) (c : Cause) : St :=
  { st.flush with done := some r, cause := some c }

/-- the body of the sampling loop for one piece that is not EOS (after `numPredicted++`) -/
def stepPiece (pinned : Bool) (stops : List Bytes) (st : St) (p : Bytes) : St :=
  let st := { st with numPredicted := st.numPredicted + 1, pending := st.pending ++ [p], gen := st.gen ++ [p] }
  let seq := st.pending.flatten
  match findStopV pinned seq stops with
  | some stop => ({ st with pending := (truncateStop st.pending stop).1 }).finish .stop (.stopString stop)
  | none =>
    if containsStopSuffix seq stops then st
    else if incompleteUnicode seq then st
    else st.flush

/-- `limit` is `seq.numPredict` (≤ 0: unlimited). One iteration = one call of processBatch:
    the limit check at the top, then (if the model still has an event) sampling. When the
    script `evs` is exhausted the sequence is simply still running. -/
def run (pinned : Bool) (limit : Int) (stops : List Bytes) (st : St) : List Ev → St
  | [] =>
    if limit > 0 ∧ (st.numPredicted : Int) ≥ limit then st.finish .length .limit else st
  | ev :: rest =>
    if limit > 0 ∧ (st.numPredicted : Int) ≥ limit then st.finish .length .limit
    else match ev with
      | .eos => ({ st with numPredicted := st.numPredicted + 1 }).finish .stop .eos
      | .piece p =>
        let st' := stepPiece pinned stops st p
        if st'.done.isSome then st' else run pinned limit stops st' rest

/-- `len(seq.cache.Inputs)` when the sequence is removed (ghost of `run`, same control structure), for a prompt of
    `promptLen` inputs processed in the first call: at a sampling step the cache holds the prompt and every token
    sampled before (the token just sampled is not in it yet); a stop string reslices it to `cacheKeep`; at the
    limit check of the next call the last sampled token has not been submitted either.  `none`: still running. -/
def cacheLenRun (pinned : Bool) (limit : Int) (stops : List Bytes) (promptLen : Nat) : St → List Ev → Option Int
  | st, [] =>
    if limit > 0 ∧ (st.numPredicted : Int) ≥ limit then some ((promptLen : Int) + st.numPredicted - 1) else none
  | st, ev :: rest =>
    if limit > 0 ∧ (st.numPredicted : Int) ≥ limit then some ((promptLen : Int) + st.numPredicted - 1)
    else match ev with
      | .eos => some ((promptLen : Int) + st.numPredicted)
      | .piece p =>
        let st' := stepPiece pinned stops st p
        match st'.cause with
        | some (.stopString s) =>
          let pend := st.pending ++ [p]
          let r := truncateStop pend s
          some (cacheKeep (promptLen + st.numPredicted) pend.length r.1.length r.2)
        | _ => if st'.done.isSome then none else cacheLenRun pinned limit stops promptLen st' rest

def init : St := {}

/-! ## the response channel and a lagging consumer

`seq.responses` is a buffered channel (`make(chan string, 100)` in `NewSequence`); the HTTP handler
reads it on its own goroutine.  `flushPending` blocks when the buffer is full until the reader takes
one chunk (back-pressure).  A consumer schedule says how many chunks the reader takes after each
token (`0` = stalled); once the channel is closed the reader drains it. -/

structure Chan where
  buf : List Bytes := []     -- sent, not yet received
  recv : List Bytes := []    -- received by the reader, in order
  forced : Nat := 0          -- reads that happened only because the producer was blocked
  deriving Repr

/-- `seq.responses <- x` with the reader stalled: goes into the buffer if there is room; otherwise
    the producer blocks until the reader takes the oldest chunk (capacity 0: direct hand-off). -/
def Chan.send (cap : Nat) (c : Chan) (x : Bytes) : Chan :=
  if c.buf.length < cap then { c with buf := c.buf ++ [x] }
  else match c.buf with
    | [] => { c with recv := c.recv ++ [x], forced := c.forced + 1 }
    | h :: t => { buf := t ++ [x], recv := c.recv ++ [h], forced := c.forced + 1 }

/-- the reader takes up to `n` chunks -/
def Chan.read (c : Chan) (n : Nat) : Chan :=
  { c with buf := c.buf.drop n, recv := c.recv ++ c.buf.take n }

/-- the reader sees the channel closed: takes everything that is left -/
def Chan.drain (c : Chan) : Chan := c.read c.buf.length

/-- the chunks a call of processBatch sent: what `st'.out` has beyond `st.out` -/
def Chan.deliver (cap : Nat) (c : Chan) (st st' : St) : Chan :=
  (st'.out.drop st.out.length).foldl (Chan.send cap) c

/-- `run` with the channel and the reader's schedule (`sched` = reads after token 1, 2, …; `tail`
    once the list is over).  Same control structure as `run`. -/
def runSched (pinned : Bool) (limit : Int) (stops : List Bytes) (cap tail : Nat) :
    St → Chan → List Nat → List Ev → St × Chan
  | st, c, _, [] =>
    if limit > 0 ∧ (st.numPredicted : Int) ≥ limit then
      let f := st.finish .length .limit
      (f, (c.deliver cap st f).drain)
    else (st, c)
  | st, c, sched, ev :: rest =>
    if limit > 0 ∧ (st.numPredicted : Int) ≥ limit then
      let f := st.finish .length .limit
      (f, (c.deliver cap st f).drain)
    else match ev with
      | .eos =>
        let f := ({ st with numPredicted := st.numPredicted + 1 }).finish .stop .eos
        (f, (c.deliver cap st f).drain)
      | .piece p =>
        let st' := stepPiece pinned stops st p
        let c' := c.deliver cap st st'
        if st'.done.isSome then (st', c'.drain)
        else match sched with
          | [] => runSched pinned limit stops cap tail st' (c'.read tail) [] rest
          | r :: rs => runSched pinned limit stops cap tail st' (c'.read r) rs rest

/-! ## several sequences in one batch

processBatch handles every active sequence in one call; a sequence whose next input does not fit
into the batch (small batch size, other sequences' prompts) is not sampled in that call — but the
prediction-limit check at the top of the call is still made for it.  From the point of view of one
sequence this is `run` with `k_i` extra calls before its i-th sampling step in which only the limit
check happens. -/

/-- `k` calls of processBatch in which the sequence is not sampled -/
def skipCalls (limit : Int) : St → Nat → St
  | st, 0 => st
  | st, k + 1 =>
    if limit > 0 ∧ (st.numPredicted : Int) ≥ limit then st.finish .length .limit
    else skipCalls limit st k

def runSkips (pinned : Bool) (limit : Int) (stops : List Bytes) : St → List Nat → List Ev → St
  | st, skips, [] =>
    let st0 := skipCalls limit st (skips.headD 0)
    if st0.done.isSome then st0
    else if limit > 0 ∧ (st0.numPredicted : Int) ≥ limit then st0.finish .length .limit else st0
  | st, skips, ev :: rest =>
    let st0 := skipCalls limit st (skips.headD 0)
    if st0.done.isSome then st0
    else if limit > 0 ∧ (st0.numPredicted : Int) ≥ limit then st0.finish .length .limit
    else match ev with
      | .eos => ({ st0 with numPredicted := st0.numPredicted + 1 }).finish .stop .eos
      | .piece p =>
        let st' := stepPiece pinned stops st0 p
        if st'.done.isSome then st' else runSkips pinned limit stops st' skips.tail rest

/-! ## the `completion` HTTP handler: what the client receives

`func (s *Server) completion` reads `seq.responses`: every chunk becomes one JSON line
`{"content": chunk, …zero fields}`; when the channel is closed it writes one final line
`{done: true, done_reason: seq.doneReason, prompt_eval_count: seq.numPromptInputs,
eval_count: seq.numPredicted, …durations}` and returns; when the request context is cancelled (client
gone) it closes `seq.quit` and returns without a final line. -/

/-- the loop after at most `n` calls of processBatch (`run` = enough calls for the whole script) -/
def runN (pinned : Bool) (limit : Int) (stops : List Bytes) : Nat → St → List Ev → St
  | 0, st, _ => st
  | _ + 1, st, [] =>
    if limit > 0 ∧ (st.numPredicted : Int) ≥ limit then st.finish .length .limit else st
  | n + 1, st, ev :: rest =>
    if limit > 0 ∧ (st.numPredicted : Int) ≥ limit then st.finish .length .limit
    else match ev with
      | .eos => ({ st with numPredicted := st.numPredicted + 1 }).finish .stop .eos
      | .piece p =>
        let st' := stepPiece pinned stops st p
        if st'.done.isSome then st' else runN pinned limit stops n st' rest

/-- one JSON line of the streamed response (durations left out) -/
inductive Line
  | content (c : Bytes)
  | final (reason : Reason) (promptEvalCount evalCount : Nat)
  deriving DecidableEq, Repr

/-- the lines the handler has written for a sequence in state `f` (all chunks consumed) -/
def handlerLines (promptLen : Nat) (f : St) : List Line :=
  f.out.map Line.content ++
    (match f.done with
     | some r => [Line.final r promptLen f.numPredicted]
     | none => [])

/-- the text a client assembles: the concatenation of the `content` fields -/
def clientText : List Line → Bytes
  | [] => []
  | .content c :: ls => c ++ clientText ls
  | .final _ _ _ :: ls => clientText ls

/-- the finish reason a client sees: the `done_reason` of the final object, if there is one -/
def clientReason : List Line → Option Reason
  | [] => none
  | .final r _ _ :: _ => some r
  | .content _ :: ls => clientReason ls

/-- the text generated up to the terminating event -/
def St.genText (st : St) : Bytes := st.gen.flatten
/-- the concatenation of everything streamed -/
def St.outText (st : St) : Bytes := st.out.flatten

end OllamaVerif.Stop
