/-
  SHA-256 over `List UInt8` (FIPS 180-4), core Lean only.

  Used ONLY to instantiate the uninterpreted `hash` parameter of the blob-cache model
  (Model/BlobCache.lean) inside the oracle executable, so that the oracle speaks the real
  digests of the real cache.  No theorem depends on any property of this function: every
  C08 theorem is stated for an arbitrary `hash : Bytes → Digest`.
  Tie: the Go driver's digests come from crypto/sha256; the oracle must reproduce them in every `dig:` result of
  Import / Resolve and in every hash-dependent outcome (ok vs "changed underfoot"), so any divergence of this
  function from SHA-256 shows up as an L1 disagreement.  (FIPS vectors "", "abc", 100×"a" checked by #eval.)
-/
import OllamaVerif.Model.Bytes
namespace OllamaVerif.Sha256
open OllamaVerif

def K : Array UInt32 := #[
  0x428a2f98, 0x71374491, 0xb5c0fbcf, 0xe9b5dba5, 0x3956c25b, 0x59f111f1, 0x923f82a4, 0xab1c5ed5,
  0xd807aa98, 0x12835b01, 0x243185be, 0x550c7dc3, 0x72be5d74, 0x80deb1fe, 0x9bdc06a7, 0xc19bf174,
  0xe49b69c1, 0xefbe4786, 0x0fc19dc6, 0x240ca1cc, 0x2de92c6f, 0x4a7484aa, 0x5cb0a9dc, 0x76f988da,
  0x983e5152, 0xa831c66d, 0xb00327c8, 0xbf597fc7, 0xc6e00bf3, 0xd5a79147, 0x06ca6351, 0x14292967,
  0x27b70a85, 0x2e1b2138, 0x4d2c6dfc, 0x53380d13, 0x650a7354, 0x766a0abb, 0x81c2c92e, 0x92722c85,
  0xa2bfe8a1, 0xa81a664b, 0xc24b8b70, 0xc76c51a3, 0xd192e819, 0xd6990624, 0xf40e3585, 0x106aa070,
  0x19a4c116, 0x1e376c08, 0x2748774c, 0x34b0bcb5, 0x391c0cb3, 0x4ed8aa4a, 0x5b9cca4f, 0x682e6ff3,
  0x748f82ee, 0x78a5636f, 0x84c87814, 0x8cc70208, 0x90befffa, 0xa4506ceb, 0xbef9a3f7, 0xc67178f2]

def H0 : List UInt32 :=
  [0x6a09e667, 0xbb67ae85, 0x3c6ef372, 0xa54ff53a, 0x510e527f, 0x9b05688c, 0x1f83d9ab, 0x5be0cd19]

@[inline] def rotr (x : UInt32) (n : UInt32) : UInt32 := (x >>> n) ||| (x <<< (32 - n))

def be32 (x : UInt32) : Bytes :=
  [(x >>> 24).toUInt8, (x >>> 16).toUInt8, (x >>> 8).toUInt8, x.toUInt8]

def be64 (n : Nat) : Bytes := (leBytes 8 n).reverse

def pad (msg : Bytes) : Bytes :=
  msg ++ [0x80] ++ List.replicate ((119 - msg.length % 64) % 64) 0 ++ be64 (8 * msg.length)

/-- big-endian 32-bit words of a byte string (length a multiple of 4) -/
def words : Bytes → List UInt32
  | a :: b :: c :: d :: rest =>
    ((a.toUInt32 <<< 24) ||| (b.toUInt32 <<< 16) ||| (c.toUInt32 <<< 8) ||| d.toUInt32) :: words rest
  | _ => []

/-- extend the 16-word block to the 64-word message schedule -/
def schedule (w16 : List UInt32) : Array UInt32 := Id.run do
  let mut w : Array UInt32 := w16.toArray
  for i in [16:64] do
    let w15 := w.getD (i - 15) 0
    let w2 := w.getD (i - 2) 0
    let s0 := rotr w15 7 ^^^ rotr w15 18 ^^^ (w15 >>> 3)
    let s1 := rotr w2 17 ^^^ rotr w2 19 ^^^ (w2 >>> 10)
    w := w.push (w.getD (i - 16) 0 + s0 + w.getD (i - 7) 0 + s1)
  return w

structure St where
  a : UInt32
  b : UInt32
  c : UInt32
  d : UInt32
  e : UInt32
  f : UInt32
  g : UInt32
  h : UInt32

def St.ofList : List UInt32 → St
  | [a, b, c, d, e, f, g, h] => ⟨a, b, c, d, e, f, g, h⟩
  | _ => ⟨0, 0, 0, 0, 0, 0, 0, 0⟩

def St.toList (s : St) : List UInt32 := [s.a, s.b, s.c, s.d, s.e, s.f, s.g, s.h]

def round (s : St) (k w : UInt32) : St :=
  let S1 := rotr s.e 6 ^^^ rotr s.e 11 ^^^ rotr s.e 25
  let ch := (s.e &&& s.f) ^^^ ((~~~ s.e) &&& s.g)
  let t1 := s.h + S1 + ch + k + w
  let S0 := rotr s.a 2 ^^^ rotr s.a 13 ^^^ rotr s.a 22
  let mj := (s.a &&& s.b) ^^^ (s.a &&& s.c) ^^^ (s.b &&& s.c)
  let t2 := S0 + mj
  ⟨t1 + t2, s.a, s.b, s.c, s.d + t1, s.e, s.f, s.g⟩

def compress (hs : St) (block : Bytes) : St := Id.run do
  let w := schedule (words block)
  let mut s := hs
  for i in [0:64] do
    s := round s (K.getD i 0) (w.getD i 0)
  return ⟨hs.a + s.a, hs.b + s.b, hs.c + s.c, hs.d + s.d, hs.e + s.e, hs.f + s.f, hs.g + s.g, hs.h + s.h⟩

def blocks (fuel : Nat) (hs : St) (bs : Bytes) : St :=
  match fuel with
  | 0 => hs
  | fuel + 1 => if bs.isEmpty then hs else blocks fuel (compress hs (bs.take 64)) (bs.drop 64)

/-- SHA-256 digest (32 bytes) -/
def sha256 (msg : Bytes) : Bytes :=
  let p := pad msg
  ((blocks (p.length / 64 + 1) (St.ofList H0) p).toList).flatMap be32

end OllamaVerif.Sha256
