/-
  Executable model of the model-name / digest grammar and the path derivation of the model
  store (C13).  Everything is over `List UInt8` (Go strings are byte strings; none of the
  mirrored functions looks at runes except through ASCII separators).  Core Lean only.

  Mirrors (function by function):
    types/model/name.go              ParseNameBare, ParseName (= Merge ∘ DefaultName), Merge, String,
                                     IsFullyQualified / IsValid, isValidPart, isValidLen, cutPromised,
                                     Filepath, ParseNameFromFilepath
    server/internal/internal/names   Parse (the cutLastAny loop), Merge, String, IsValid,
                                     IsFullyQualified, isValidPart, Split
    server/modelpath.go              ParseModelPath, ModelPath.GetManifestPath, GetBlobsPath
                                     (regexp ^sha256[:-][0-9a-fA-F]{64}$ as a hand matcher)
    server/internal/cache/blob       ParseDigest, Digest.String, DiskCache.GetFile, nameToPath,
                                     DiskCache.manifestPath (over an explicit list of on-disk links)
    server/internal/client/ollama    splitExtended, Registry.parseName, Registry.parseNameExtended
    path/filepath (unix)             Clean, Join  (component stack model)

  Conventions: the path separator is '/', i.e. the model describes the unix build (see notes/C13.md for
  what carries over to Windows: '\\' and ':' handling).
-/
import OllamaVerif.Model.Bytes

namespace OllamaVerif.Names
open OllamaVerif

/-! ## byte constants -/

def cSlash : UInt8 := 47      -- '/'
def cColon : UInt8 := 58      -- ':'
def cAt : UInt8 := 64         -- '@'
def cDot : UInt8 := 46        -- '.'
def cDash : UInt8 := 45       -- '-'
def cUnder : UInt8 := 95      -- '_'
def cBackslash : UInt8 := 92  -- '\\'

def sMissing : Bytes := [33, 77, 73, 83, 83, 73, 78, 71, 33]                 -- "!MISSING!"
def sDefaultHost : Bytes :=
  [114, 101, 103, 105, 115, 116, 114, 121, 46, 111, 108, 108, 97, 109, 97, 46, 97, 105] -- "registry.ollama.ai"
def sLibrary : Bytes := [108, 105, 98, 114, 97, 114, 121]                     -- "library"
def sLatest : Bytes := [108, 97, 116, 101, 115, 116]                          -- "latest"
def sSha256 : Bytes := [115, 104, 97, 50, 53, 54]                             -- "sha256"
def sManifests : Bytes := [109, 97, 110, 105, 102, 101, 115, 116, 115]        -- "manifests"
def sBlobs : Bytes := [98, 108, 111, 98, 115]                                 -- "blobs"
def sHttps : Bytes := [104, 116, 116, 112, 115]                               -- "https"
def sHttp : Bytes := [104, 116, 116, 112]                                     -- "http"
def sHttpsInsecure : Bytes := [104, 116, 116, 112, 115, 43, 105, 110, 115, 101, 99, 117, 114, 101] -- "https+insecure"
def sDot : Bytes := [46]
def sDotDot : Bytes := [46, 46]

/-! ## string primitives -/

/-- split at the LAST byte satisfying `p`: `(before, after, thatByte)`.
    (`strings.LastIndex(s, "/")`, `strings.LastIndexAny(s, "/:")` + slicing) -/
def splitLast (p : UInt8 → Bool) : Bytes → Option (Bytes × Bytes × UInt8)
  | [] => none
  | x :: xs =>
    match splitLast p xs with
    | some (b, a, sep) => some (x :: b, a, sep)
    | none => if p x then some ([], xs, x) else none

/-- split at the FIRST byte satisfying `p` (`strings.Cut`, `strings.IndexAny`) -/
def splitFirst (p : UInt8 → Bool) : Bytes → Option (Bytes × Bytes × UInt8)
  | [] => none
  | x :: xs =>
    if p x then some ([], xs, x)
    else match splitFirst p xs with
      | some (b, a, sep) => some (x :: b, a, sep)
      | none => none

/-- `strings.Cut(s, "://")`: first occurrence of the three-byte separator -/
def cutScheme : Bytes → Option (Bytes × Bytes)
  | [] => none
  | x :: xs =>
    if x == 58 && xs.take 2 == [47, 47] then some ([], xs.drop 2)
    else
      match cutScheme xs with
      | some (b, a) => some (x :: b, a)
      | none => none

/-- `strings.Split(s, string(c))` (never empty) -/
def splitOn (c : UInt8) : Bytes → List Bytes
  | [] => [[]]
  | x :: xs =>
    if x == c then [] :: splitOn c xs
    else match splitOn c xs with
      | y :: ys => (x :: y) :: ys
      | [] => [[x]]

/-- `strings.Join(parts, string(c))` -/
def joinWith (c : UInt8) : List Bytes → Bytes
  | [] => []
  | [a] => a
  | a :: b :: rest => a ++ c :: joinWith c (b :: rest)

/-- `cmp.Or(a, b)` on strings -/
def orElse (a b : Bytes) : Bytes := if a.isEmpty then b else a

def toLowerB (c : UInt8) : UInt8 := if 65 ≤ c ∧ c ≤ 90 then c + 32 else c

/-- `strings.EqualFold(a, l)` against an already lower-cased ASCII `a`, for ARBITRARY bytes `l`: an ASCII byte of
    `l` matches under ASCII case folding; the only non-ASCII runes whose simple-fold orbit contains an ASCII
    letter are U+212A KELVIN SIGN (E2 84 AA, folds to `k`) and U+017F LONG S (C5 BF, folds to `s`); every other
    non-ASCII or invalid byte of `l` is a mismatch. -/
def foldMatch : Bytes → Bytes → Bool
  | [], l => l.isEmpty
  | w :: ws, l =>
    match l with
    | [] => false
    | b :: ls =>
      if b < 128 then toLowerB b == w && foldMatch ws ls
      else if b == 0xE2 && ls.take 2 == [0x84, 0xAA] then w == 107 && foldMatch ws (ls.drop 2)
      else if b == 0xC5 && ls.take 1 == [0xBF] then w == 115 && foldMatch ws (ls.drop 1)
      else false

/-- `strings.EqualFold(a, l)`, exact whenever `a` is ASCII (it always is here: `a` is built from valid name
    parts); `l` may be any byte string (an on-disk link name). -/
def equalFold (a l : Bytes) : Bool := foldMatch (a.map toLowerB) l

/-! ## path/filepath (unix): Clean and Join -/

def cleanStep (rooted : Bool) (stack : List Bytes) (comp : Bytes) : List Bytes :=
  if comp == [] || comp == sDot then stack
  else if comp == sDotDot then
    match stack with
    | top :: rest => if top == sDotDot then comp :: stack else rest
    | [] => if rooted then [] else [comp]
  else comp :: stack

/-- `filepath.Clean` -/
def clean (path : Bytes) : Bytes :=
  if path.isEmpty then sDot
  else
    let rooted := path.head? == some cSlash
    let out := ((splitOn cSlash path).foldl (cleanStep rooted) []).reverse
    if rooted then cSlash :: joinWith cSlash out
    else if out.isEmpty then sDot
    else joinWith cSlash out

/-- `filepath.Join` -/
def pathJoin (elems : List Bytes) : Bytes :=
  match elems.dropWhile (·.isEmpty) with
  | [] => []
  | es => clean (joinWith cSlash es)

/-! ## part validity (both packages) -/

inductive Kind | host | ns | model | tag | digest
  deriving DecidableEq, Repr

def Kind.ofIdx : Nat → Kind
  | 0 => .host | 1 => .ns | 2 => .model | 3 => .tag | _ => .digest

def maxLen : Kind → Nat
  | .host => 350
  | _ => 80

/-- `isAlphanumericOrUnderscore` -/
def isAlnumU (c : UInt8) : Bool :=
  (65 ≤ c && c ≤ 90) || (97 ≤ c && c ≤ 122) || (48 ≤ c && c ≤ 57) || c == 95

/-- the `switch s[i]` of `isValidPart` for i > 0 -/
def restOk (k : Kind) (c : UInt8) : Bool :=
  if c == 95 || c == 45 then true
  else if c == 46 then k != .ns
  else if c == 58 then k == .host || k == .digest
  else isAlnumU c

def charsOk (k : Kind) : Bytes → Bool
  | [] => true
  | c :: rest => isAlnumU c && rest.all (restOk k)

/-- `model.isValidPart` (types/model): length in [1, max] -/
def validPartM (k : Kind) (s : Bytes) : Bool :=
  1 ≤ s.length && s.length ≤ maxLen k && charsOk k s

/-- `names.isValidPart` (server/internal/internal/names): only an upper length bound; the empty
    string passes (callers test for emptiness separately) -/
def validPartN (k : Kind) (s : Bytes) : Bool :=
  s.length ≤ maxLen k && charsOk k s

/-! ## names -/

structure Name where
  host : Bytes := []
  ns : Bytes := []
  model : Bytes := []
  tag : Bytes := []
  deriving DecidableEq, Repr, Inhabited

def Name.zero : Name := {}

/-- `Merge` (identical in both packages) -/
def merge (a b : Name) : Name :=
  { host := orElse a.host b.host, ns := orElse a.ns b.ns, model := a.model, tag := orElse a.tag b.tag }

/-- `Name.String` (identical in both packages) -/
def toStr (n : Name) : Bytes :=
  (if n.host.isEmpty then [] else n.host ++ [cSlash]) ++
  ((if n.ns.isEmpty then [] else n.ns ++ [cSlash]) ++
  (n.model ++ (if n.tag.isEmpty then [] else cColon :: n.tag)))

/-! ### types/model -/

def defaultName : Name := { host := sDefaultHost, ns := sLibrary, tag := sLatest }

def orMissing (s : Bytes) : Bytes := orElse s sMissing

/-- `cutPromised(s, sep)` for a one-byte separator -/
def cutPromised (c : UInt8) (s : Bytes) : Option (Bytes × Bytes) :=
  match splitLast (· == c) s with
  | some (b, a, _) => some (orMissing b, orMissing a)
  | none => none

/-- `if strings.LastIndex(s, ":") > strings.LastIndex(s, "/") { s, n.Tag, _ = cutPromised(s, ":") }`:
    the condition holds iff the last byte of `s` among `':'`,`'/'` is a `':'`. -/
def cutTag (s : Bytes) : Bytes × Bytes :=
  match splitLast (fun c => c == cColon || c == cSlash) s with
  | some (b, a, sep) => if sep == cColon then (orMissing b, orMissing a) else (s, [])
  | none => (s, [])

/-- `model.ParseNameBare` -/
def parseNameBare (s : Bytes) : Name :=
  let (s, tag) := cutTag s
  match cutPromised cSlash s with
  | none => { model := s, tag := tag }
  | some (s, model) =>
    match cutPromised cSlash s with
    | none => { ns := s, model := model, tag := tag }
    | some (s, ns) =>
      let host := match cutScheme s with
        | some (_, h) => h
        | none => s
      { host := host, ns := ns, model := model, tag := tag }

/-- `model.ParseName` -/
def parseName (s : Bytes) : Name := merge (parseNameBare s) defaultName

/-- `Name.IsFullyQualified` = `Name.IsValid` (types/model) -/
def isFQM (n : Name) : Bool :=
  validPartM .host n.host && validPartM .ns n.ns && validPartM .model n.model && validPartM .tag n.tag

/-- `Name.Filepath`: `none` = the panic for a name that is not fully qualified -/
def filepathM (n : Name) : Option Bytes :=
  if isFQM n then some (pathJoin [n.host, n.ns, n.model, n.tag]) else none

/-- `model.ParseNameFromFilepath` -/
def parseNameFromFilepath (s : Bytes) : Name :=
  match splitOn cSlash s with
  | [h, ns, m, t] =>
    let n : Name := { host := h, ns := ns, model := m, tag := t }
    if isFQM n then n else Name.zero
  | _ => Name.zero

/-! ### server/internal/internal/names -/

def maxNameLength : Nat := 350 + 1 + 80 + 1 + 80 + 1 + 80

/-- the `for { s, tail, c = cutLastAny(s, "/:") … }` loop of `names.Parse`; `fuel` bounds the number
    of iterations (each one shortens `s`; `parseN` passes `len(s)+1`). `t` is the tag seen so far. -/
def parseNLoop : Nat → Bytes → Bytes → Name
  | 0, s, t => { model := s, tag := t }
  | fuel + 1, s, t =>
    match splitLast (fun c => c == cSlash || c == cColon) s with
    | none => { model := s, tag := t }
    | some (b, a, sep) =>
      if sep == cColon then parseNLoop fuel b a
      else
        match splitLast (· == cSlash) b with
        | some (h, n, _) => { host := h, ns := n, model := a, tag := t }
        | none => { host := [], ns := b, model := a, tag := t }

/-- `names.Parse` -/
def parseN (s : Bytes) : Name :=
  if s.length > maxNameLength then Name.zero else parseNLoop (s.length + 1) s []

/-- `names.Name.IsValid` -/
def isValidN (n : Name) : Bool :=
  (n.host.isEmpty || validPartN .host n.host) &&
  (n.ns.isEmpty || validPartN .ns n.ns) &&
  (n.tag.isEmpty || validPartN .tag n.tag) &&
  (!n.model.isEmpty && validPartN .model n.model)

/-- `names.Name.IsValid` with the variant flag for finding N1: `fixed = false` is the pinned upstream
    behaviour (`isValidN`); `fixed = true` is the behaviour after proposed_fixes/C13-N1.patch (a host
    without a namespace is invalid).  `IsFullyQualified` is the same under both. -/
def isValidNv (fixed : Bool) (n : Name) : Bool :=
  isValidN n && !(fixed && !n.host.isEmpty && n.ns.isEmpty)

/-- `names.Name.IsValid` of the CURRENT tree (N1 repaired upstream in 1ba9043ad) -/
def isValidNCur (n : Name) : Bool := isValidNv true n

/-- `names.Name.IsFullyQualified` (the same under both variants, see `C13.isFQN_eq_cur`) -/
def isFQN (n : Name) : Bool :=
  isValidN n && !n.host.isEmpty && !n.ns.isEmpty && !n.model.isEmpty && !n.tag.isEmpty

/-- `ollama.DefaultMask` parsed: registry.ollama.ai/library/_:latest -/
def defaultMask : Name := { host := sDefaultHost, ns := sLibrary, model := [cUnder], tag := sLatest }

/-- `Registry.parseName` with mask `mask` (`none` = ErrNameInvalid) -/
def registryParseName (mask : Name) (s : Bytes) : Option Name :=
  let n := merge (parseN s) mask
  if isFQN n then some n else none

/-- `names.Split` / `ollama.splitExtended` (same code): scheme, name, digest -/
def splitExtended (s : Bytes) : Bytes × Bytes × Bytes :=
  let (scheme, s) := match cutScheme s with
    | some (b, a) => (b, a)
    | none => ([], s)
  match splitLast (· == cAt) s with
  | some (b, a, _) => (scheme, b, a)
  | none => (scheme, s, [])

/-! ## digests -/

def isHexB (c : UInt8) : Bool :=
  (48 ≤ c && c ≤ 57) || (97 ≤ c && c ≤ 102) || (65 ≤ c && c ≤ 70)

/-- hand matcher for `^sha256[:-][0-9a-fA-F]{64}$` (Go RE2: `$` is end of text) -/
def matchDigestRe (s : Bytes) : Bool :=
  s.take 6 == sSha256 &&
  (match s.drop 6 with
   | sep :: hex => (sep == cColon || sep == cDash) && hex.length == 64 && hex.all isHexB
   | [] => false)

/-- `strings.ReplaceAll(digest, ":", "-")` -/
def colonToDash (s : Bytes) : Bytes := s.map fun c => if c == cColon then cDash else c

/-- `server.GetBlobsPath(digest)` under models directory `root` (the MkdirAll side effect is not
    modelled). The empty digest is accepted and yields the blobs directory itself. -/
def getBlobsPath (root digest : Bytes) : Option Bytes :=
  if !digest.isEmpty && !matchDigestRe digest then none
  else some (pathJoin [root, sBlobs, colonToDash digest])

def hexNibble (c : UInt8) : Option Nat :=
  if 48 ≤ c ∧ c ≤ 57 then some (c.toNat - 48)
  else if 97 ≤ c ∧ c ≤ 102 then some (c.toNat - 87)
  else if 65 ≤ c ∧ c ≤ 70 then some (c.toNat - 55)
  else none

/-- `hex.Decode` of an even-length string -/
def hexDecode : Bytes → Option Bytes
  | [] => some []
  | [_] => none
  | a :: b :: rest =>
    match hexNibble a, hexNibble b, hexDecode rest with
    | some x, some y, some r => some (UInt8.ofNat (16 * x + y) :: r)
    | _, _, _ => none

def lowerHexDigit (n : Nat) : UInt8 := if n < 10 then UInt8.ofNat (48 + n) else UInt8.ofNat (87 + n)

/-- `fmt.Sprintf("%x", sum)` -/
def hexEncode (bs : Bytes) : Bytes :=
  bs.flatMap fun b => [lowerHexDigit (b.toNat / 16), lowerHexDigit (b.toNat % 16)]

/-- `blob.ParseDigest`: the 32-byte sum, or `none` = ErrInvalidDigest -/
def parseDigest (s : Bytes) : Option Bytes :=
  match splitFirst (fun c => c == cColon || c == cDash) s with
  | none => none
  | some (pre, sum, _) =>
    if pre != sSha256 || sum.length != 64 then none
    else hexDecode sum

/-- `Digest.String` -/
def digestString (sum : Bytes) : Bytes := sSha256 ++ cColon :: hexEncode sum

/-- `DiskCache.GetFile` for a cache rooted at the absolute directory `dir` -/
def getFile (dir sum : Bytes) : Bytes :=
  clean (pathJoin [dir, sBlobs, sSha256 ++ cDash :: hexEncode sum])

/-! ## manifest paths -/

/-- `ModelPath` of server/modelpath.go -/
structure ModelPath where
  scheme : Bytes
  registry : Bytes
  ns : Bytes
  repo : Bytes
  tag : Bytes
  deriving DecidableEq, Repr

/-- `server.ParseModelPath` (unix: the ReplaceAll of the path separator is the identity) -/
def parseModelPath (name : Bytes) : ModelPath :=
  let (scheme, name) := match cutScheme name with
    | some (b, a) => (b, a)
    | none => (sHttps, name)
  let (reg, ns, repo) := match splitOn cSlash name with
    | [a, b, c] => (a, b, c)
    | [a, b] => (sDefaultHost, a, b)
    | [a] => (sDefaultHost, sLibrary, a)
    | _ => (sDefaultHost, sLibrary, [])
  match splitFirst (· == cColon) repo with
  | some (r, t, _) => ⟨scheme, reg, ns, r, t⟩
  | none => ⟨scheme, reg, ns, repo, sLatest⟩

def ModelPath.toName (mp : ModelPath) : Name :=
  { host := mp.registry, ns := mp.ns, model := mp.repo, tag := mp.tag }

/-- `ModelPath.GetManifestPath` under models directory `root` (`none` = fs.ErrNotExist) -/
def mpManifestPath (root : Bytes) (mp : ModelPath) : Option Bytes :=
  match filepathM mp.toName with
  | some fp => some (pathJoin [root, sManifests, fp])
  | none => none

/-- `blob.nameToPath` (`none` = errInvalidName) -/
def nameToPath (name : Bytes) : Option Bytes :=
  let n := parseN name
  if isFQN n then some (pathJoin [n.host, n.ns, n.model, n.tag]) else none

/-- `DiskCache.manifestPath`: `links` is the sorted result of `fs.Glob("manifests/*/*/*/*")`
    (paths relative to `dir`); the first link equal to the wanted path under case folding wins,
    otherwise the path where the manifest would be created. -/
def manifestPath (dir : Bytes) (links : List Bytes) (name : Bytes) : Option Bytes :=
  match nameToPath name with
  | none => none
  | some np =>
    let maybe := pathJoin [sManifests, np]
    match links.find? (equalFold maybe) with
    | some l => some (pathJoin [dir, l])
    | none => some (pathJoin [dir, maybe])

/-! ## histories on one DiskCache over a shared manifests directory

  `DiskCache` carries NO state about the manifests tree between calls: every `manifestPath` call globs
  `manifests/*/*/*/*` afresh.  The model therefore threads only the DIRECTORY CONTENTS (`disk`: the relative link
  paths in `fs.Glob` order) through a history of cache operations interleaved with foreign writers (the legacy
  `server.WriteManifest`, another process) that create or remove manifest files directly. -/

/-- bytewise lexicographic `<` (Go string comparison, `ReadDir`'s sort) -/
def ltBytes : Bytes → Bytes → Bool
  | [], [] => false
  | [], _ :: _ => true
  | _ :: _, [] => false
  | x :: xs, y :: ys => if x < y then true else if y < x then false else ltBytes xs ys

/-- component-wise order in which `fs.Glob` returns paths (each directory level sorted by entry name) -/
def ltComps : List Bytes → List Bytes → Bool
  | [], [] => false
  | [], _ :: _ => true
  | _ :: _, [] => false
  | a :: as, b :: bs => if ltBytes a b then true else if ltBytes b a then false else ltComps as bs

def linkLt (a b : Bytes) : Bool := ltComps (splitOn cSlash a) (splitOn cSlash b)

/-- creating the file `l` (relative path `manifests/a/b/c/d`): the listing gains `l` at its sorted place -/
def insertLink (l : Bytes) : List Bytes → List Bytes
  | [] => [l]
  | x :: xs => if x == l then x :: xs else if linkLt l x then l :: x :: xs else x :: insertLink l xs

/-- removing the file `l` -/
def removeLink (l : Bytes) (disk : List Bytes) : List Bytes := disk.filter (· != l)

/-- `DiskCache.manifestPath` relative to the cache directory -/
def manifestRel (links : List Bytes) (name : Bytes) : Option Bytes :=
  match nameToPath name with
  | none => none
  | some np =>
    let maybe := pathJoin [sManifests, np]
    match links.find? (equalFold maybe) with
    | some l => some l
    | none => some maybe

inductive HOp
  | resolve (name : Bytes)   -- DiskCache.Resolve(name)            (no digest part)
  | link (name : Bytes)      -- DiskCache.Link(name, d) for a blob d that exists
  | unlink (name : Bytes)    -- DiskCache.Unlink(name)
  | fwrite (rel : Bytes)     -- a foreign writer creates <dir>/<rel>   (rel = manifests/a/b/c/d)
  | fremove (rel : Bytes)    -- a foreign writer removes <dir>/<rel>
  deriving Repr

/-- what a cache call resolved to (`none` = errInvalidName) and whether that file existed at the time -/
structure HOut where
  path : Option Bytes
  existed : Bool
  deriving Repr, DecidableEq

/-- one step: the result is a function of the CURRENT directory contents and the operation only -/
def stepH (disk : List Bytes) : HOp → List Bytes × Option HOut
  | .resolve n =>
    let p := manifestRel disk n
    (disk, some ⟨p, match p with | some r => disk.contains r | none => false⟩)
  | .link n =>
    match manifestRel disk n with
    | some r => (insertLink r disk, some ⟨some r, disk.contains r⟩)
    | none => (disk, some ⟨none, false⟩)
  | .unlink n =>
    match manifestRel disk n with
    | some r => (removeLink r disk, some ⟨some r, disk.contains r⟩)
    | none => (disk, some ⟨none, false⟩)
  | .fwrite rel => (insertLink rel disk, none)
  | .fremove rel => (removeLink rel disk, none)

def runH (disk : List Bytes) : List HOp → List Bytes × List (Option HOut)
  | [] => (disk, [])
  | op :: ops =>
    let (d1, o) := stepH disk op
    let (d2, os) := runH d1 ops
    (d2, o :: os)

/-- `blob.splitNameDigest` -/
def splitNameDigest (s : Bytes) : Bytes × Bytes :=
  match splitLast (· == cAt) s with
  | some (b, a, _) => (b, a)
  | none => (s, [])

/-- what `DiskCache.Resolve(name)` goes on to read: a digest given in the name, or the manifest file -/
inductive ResolveTarget
  | digest (sum : Bytes)
  | manifest (path : Bytes)
  | invalid
  deriving DecidableEq, Repr

/-- the addressing part of `DiskCache.Resolve` -/
def cacheResolve (dir : Bytes) (links : List Bytes) (s : Bytes) : ResolveTarget :=
  let (name, digest) := splitNameDigest s
  if !digest.isEmpty then
    match parseDigest digest with
    | some d => .digest d
    | none => .invalid
  else
    match manifestPath dir links name with
    | some p => .manifest p
    | none => .invalid

/-! ## extended names (registry client) -/

inductive ExtErr | scheme | digest | name
  deriving DecidableEq, Repr

/-- `Registry.parseNameExtended` (mask given parsed): scheme, name (zero when only a digest was
    given), digest sum (32 zero bytes = the zero Digest, i.e. none given) -/
def parseNameExtended (mask : Name) (s : Bytes) : Except ExtErr (Bytes × Name × Bytes) :=
  let (scheme, name, digest) := splitExtended s
  let scheme := orElse scheme sHttps
  if !(scheme == sHttp || scheme == sHttps || scheme == sHttpsInsecure) then .error .scheme
  else
    let dres : Option Bytes := if digest.isEmpty then some (List.replicate 32 0) else parseDigest digest
    match dres with
    | none => .error .digest
    | some d =>
      if !digest.isEmpty && name.isEmpty then .ok (scheme, Name.zero, d)
      else match registryParseName mask name with
        | some n => .ok (scheme, n, d)
        | none => .error .name

/-! ## round 7: the other printers, digest aliases, directory side effects, enumeration, `Links()` -/

/-- `ModelPath.GetFullTagname`: `fmt.Sprintf("%s/%s/%s:%s", Registry, Namespace, Repository, Tag)` -/
def ModelPath.fullTagname (mp : ModelPath) : Bytes :=
  mp.registry ++ (cSlash :: (mp.ns ++ (cSlash :: (mp.repo ++ (cColon :: mp.tag)))))

/-- `ModelPath.GetShortTagname` (exact `==` comparisons with the defaults) -/
def ModelPath.shortTagname (mp : ModelPath) : Bytes :=
  if mp.registry == sDefaultHost then
    if mp.ns == sLibrary then mp.repo ++ (cColon :: mp.tag)
    else mp.ns ++ (cSlash :: (mp.repo ++ (cColon :: mp.tag)))
  else mp.fullTagname

/-- `ModelPath.GetNamespaceRepository` -/
def ModelPath.namespaceRepository (mp : ModelPath) : Bytes := mp.ns ++ (cSlash :: mp.repo)

/-- `model.Name.DisplayShortest`: host and namespace are dropped when they are `strings.EqualFold` to the defaults
    (the defaults are ASCII, `EqualFold` is symmetric, so `equalFold default x` is exact for arbitrary `x`) -/
def displayShortest (n : Name) : Bytes :=
  (if !equalFold sDefaultHost n.host then n.host ++ (cSlash :: (n.ns ++ [cSlash]))
   else if !equalFold sLibrary n.ns then n.ns ++ [cSlash]
   else []) ++ (n.model ++ (cColon :: n.tag))

/-- `model.Name.EqualFold` (the comparison `routes.go getExistingName` uses on the legacy store), exact whenever the parts
    of `a` are ASCII (any valid name); `b` may hold arbitrary bytes -/
def nameEqualFold (a b : Name) : Bool :=
  equalFold a.host b.host && equalFold a.ns b.ns && equalFold a.model b.model && equalFold a.tag b.tag

/-- `server.canonicalDigest` (layer.go): the `sha256:<hex>` spelling of a `sha256-<hex>` digest -/
def canonicalDigest (d : Bytes) : Bytes :=
  if d.take 7 == sSha256 ++ [cDash] then sSha256 ++ (cColon :: d.drop 7) else d

/-- `filepath.Dir` (unix): everything up to the last separator, cleaned -/
def pathDir (p : Bytes) : Bytes :=
  match splitLast (· == cSlash) p with
  | some (b, _, _) => clean (b ++ [cSlash])
  | none => sDot

/-- the directory `server.GetBlobsPath(digest)` creates with `os.MkdirAll` before it returns (`none`: refused, nothing
    is created): `filepath.Dir(path)`, or the path itself for the empty digest -/
def getBlobsMkdir (root digest : Bytes) : Option Bytes :=
  match getBlobsPath root digest with
  | none => none
  | some p => if digest.isEmpty then some p else some (pathDir p)

/-- `server.Manifests`: `rels` are the regular files matched by `fs.Glob(manifests, "*/*/*/*")` (relative to the
    manifests directory).  A file is loaded iff `ParseNameFromFilepath(rel).IsValid()`; the result pairs the map key with
    the file `ParseNamedManifest` then opens for that key (`manifests/<n.Filepath()>`, relative to manifests). -/
def manifestsEnum (rels : List Bytes) : List (Name × Bytes) :=
  rels.filterMap fun rel =>
    let n := parseNameFromFilepath rel
    match filepathM n with
    | some p => some (n, p)
    | none => none

/-- the manifest file a name-taking HTTP handler goes on to open / write / remove for the resolved name `r`:
    `GetModel(r.String())` = `ParseModelPath` → `GetManifestPath` (`ParseNamedManifest(r)` / `WriteManifest(r)` / `CopyModel` use
    `manifests/<r.Filepath()>`: the same path, `C13.handler_paths_agree`) -/
def handlerManifestPath (root : Bytes) (r : Name) : Option Bytes := mpManifestPath root (parseModelPath (toStr r))

/-- the parse step of every name-taking handler on a request string (`none` = refused with "invalid model name" / 404 before
    the store is touched), with the lookup `getExistingName` as the identity (a store that holds no such name) -/
def handlerName (root s : Bytes) : Option Bytes :=
  let n := parseName s
  if isFQM n then handlerManifestPath root n else none

/-- the guard of `server.CopyModel(src, dst)`: both names must be fully qualified before any path is derived
    (`false` = `model.Unqualified`, nothing is touched) -/
def copyAccepted (src dst : Name) : Bool := isFQM dst && isFQM src

/-! ### `string([]rune(s))`: Go's UTF-8 decoding, every invalid byte becoming U+FFFD -/

def isCont (c : UInt8) : Bool := 0x80 ≤ c && c ≤ 0xBF

/-- width of the valid UTF-8 encoding at the head of `s` (`utf8.DecodeRuneInString`), `0` = invalid (RuneError, width 1) -/
def utf8Len : Bytes → Nat
  | [] => 0
  | b0 :: rest =>
    if b0 < 0x80 then 1
    else if 0xC2 ≤ b0 && b0 ≤ 0xDF then
      match rest with
      | b1 :: _ => if isCont b1 then 2 else 0
      | _ => 0
    else if 0xE0 ≤ b0 && b0 ≤ 0xEF then
      match rest with
      | b1 :: b2 :: _ =>
        let lo : UInt8 := if b0 == 0xE0 then 0xA0 else 0x80
        let hi : UInt8 := if b0 == 0xED then 0x9F else 0xBF
        if lo ≤ b1 && b1 ≤ hi && isCont b2 then 3 else 0
      | _ => 0
    else if 0xF0 ≤ b0 && b0 ≤ 0xF4 then
      match rest with
      | b1 :: b2 :: b3 :: _ =>
        let lo : UInt8 := if b0 == 0xF0 then 0x90 else 0x80
        let hi : UInt8 := if b0 == 0xF4 then 0x8F else 0xBF
        if lo ≤ b1 && b1 ≤ hi && isCont b2 && isCont b3 then 4 else 0
      | _ => 0
    else 0

/-- `string([]rune(s))`; `skip` = bytes of the current (valid) rune still to be copied -/
def runesRoundTrip : Nat → Bytes → Bytes
  | _, [] => []
  | skip + 1, x :: xs => x :: runesRoundTrip skip xs
  | 0, x :: xs =>
    match utf8Len (x :: xs) with
    | 0 => 0xEF :: 0xBF :: 0xBD :: runesRoundTrip 0 xs
    | n + 1 => x :: runesRoundTrip n xs

def sManifestsSlash : Bytes := sManifests ++ [cSlash]

/-- `blob.pathToName` (what `DiskCache.Links` yields for the link `s`): `manifests/` trimmed, the last `/` that is not
    the first rune becomes `:`; the result goes through `[]rune` (invalid bytes become U+FFFD) only when a `/` was found -/
def pathToName (s : Bytes) : Bytes :=
  let s := if s.take 10 == sManifestsSlash then s.drop 10 else s
  match s with
  | [] => []
  | x :: xs =>
    match splitLast (· == cSlash) xs with
    | some (b, a, _) => runesRoundTrip 0 (x :: (b ++ (cColon :: a)))
    | none => s

end OllamaVerif.Names
