/-
  Executable model of fs/ggml/gguf.go: `WriteGGUF` (encoder) and `Decode` (decoder,
  LE/BE, v1/v2/v3), byte-exact, with every Go panic site and every `make` whose size
  is read from the input as explicit outcomes.  Core Lean only.

  Mirrors (function by function):
    WriteGGUF, ggufWriteKV, writeGGUF, writeGGUFString, writeGGUFArray,
    ggufWriteTensorInfo, ggufWriteTensor, ggufPadding,
    ggml.Decode, containerGGUF.Decode, gguf.Decode, readGGUF, readGGUFString,
    readGGUFV1String, discardGGUFString, readGGUFArray, readGGUFV1Array,
    Tensor.parameters / typeSize / blockSize / Size, KV.Uint("general.alignment", 32).
-/
import OllamaVerif.Model.Bytes

namespace OllamaVerif.Gguf
open OllamaVerif

/-! ## shared arithmetic -/

def two64 : Nat := 18446744073709551616
def two63 : Nat := 9223372036854775808

/-- Go `int(x)` / `int64(x)` for a `uint64` value -/
def toI64 (n : Nat) : Int := if n < two63 then (n : Int) else (n : Int) - (two64 : Int)

/-- `ggufPadding(offset, align) = (align - offset%align) % align` (align > 0) -/
def padding (offset align : Nat) : Nat := (align - offset % align) % align

def blockSize (kind : Nat) : Nat :=
  if kind = 0 ∨ kind = 1 ∨ kind = 24 ∨ kind = 25 ∨ kind = 26 ∨ kind = 27 ∨ kind = 28 ∨ kind = 30 then 1
  else if kind = 2 ∨ kind = 3 ∨ kind = 6 ∨ kind = 7 ∨ kind = 8 ∨ kind = 9 ∨ kind = 20 then 32
  else 256

def typeSize (kind : Nat) : Nat :=
  let b := blockSize kind
  match kind with
  | 0 => 4 | 1 => 2
  | 2 => 2 + b/2 | 3 => 2 + 2 + b/2 | 6 => 2 + 4 + b/2 | 7 => 2 + 2 + 4 + b/2
  | 8 => 2 + b | 9 => 2 + 2 + b
  | 10 => b/16 + b/4 + 2 + 2 | 11 => b/8 + b/4 + 12 + 2 | 12 => 2 + 2 + 12 + b/2
  | 13 => 2 + 2 + 12 + b/8 + b/2 | 14 => b/2 + b/4 + b/16 + 2 | 15 => 4 + b + 2*b/16
  | 16 => 2 + 2*b/8 | 17 => 2 + 2*b/8 + b/32 | 18 => 2 + b/4 + b/8 | 19 => 2 + b/8 + b/16
  | 20 => 2 + b/2 | 21 => 2 + b/4 + b/8 + b/32 + 4 | 22 => 2 + b/4 + b/16
  | 23 => 2 + 2 + b/2 + b/64
  | 24 => 1 | 25 => 2 | 26 => 4 | 27 => 8 | 28 => 8
  | 29 => b/8 + b/16 + b/32 | 30 => 2
  | _ => 0

/-- `Tensor.parameters()` : wrapping uint64 product -/
def parameters (shape : List Nat) : Nat := shape.foldl (fun acc n => (acc * n) % two64) 1

/-- `Tensor.Size()` : `parameters * typeSize / blockSize` in uint64 -/
def tensorSize (kind : Nat) (shape : List Nat) : Nat :=
  (parameters shape * typeSize kind) % two64 / blockSize kind

/-! ## values -/

/-- an array element as the decoder stores it: raw unsigned bit pattern, or a string -/
inductive Elem
  | scalar (raw : Nat)
  | str (s : Bytes)
deriving Repr, DecidableEq, BEq

/-- a decoded value.  `scalar t raw`: gguf type tag and raw unsigned bit pattern
    (bool is normalised to 0/1 like `b != 0`).  `arr t size vals`: `vals = none` when the
    array was not collected (larger than maxArraySize). -/
inductive Val
  | scalar (t : Nat) (raw : Nat)
  | str (s : Bytes)
  | arr (t : Nat) (size : Int) (vals : Option (List Elem))
deriving Repr, DecidableEq, BEq

inductive Err
  | eof                              -- a read failed with io.EOF (nothing left / `io.CopyN` or `Read` came up short)
  | ueof                             -- a read failed with io.ErrUnexpectedEOF (`io.ReadFull` got part of what it wanted)
  | invalid (what : String)          -- decoder's own formatted error
  | panic (site : String)            -- Go run-time panic
  | alloc (site : String) (n : Nat)  -- a single `make` of n bytes above the budget
deriving Repr, DecidableEq, BEq

/-- One flag per place where the pinned decoder panics or sizes an allocation from an
    unchecked input field.  `false` = the pinned code's behaviour (the defect is present),
    `true` = the site rejects the input with an error instead.  `Guards.pinned` is the tree as
    it stands; `Guards.all` is the fully hardened decoder the safety theorem is about. -/
structure Guards where
  v1StrLen : Bool := false     -- v1 string length <= 0        (Truncate(-1))
  strNeg : Bool := false       -- v2/v3 string length < 0      (negative slice bound)
  strHuge : Bool := false      -- v2/v3 string length > remaining input (make of that size)
  v1ArrIndex : Bool := false   -- v1 collected array stores into a zero-length slice
  arrNeg : Bool := false       -- collected array with negative count (negative make)
  arrHuge : Bool := false      -- collected array storage allocated up front from the count
  dimsHuge : Bool := false     -- tensor dims > remaining input / 8
  alignType : Bool := false    -- general.alignment not uint32 (failed type assertion)
  alignZero : Bool := false    -- general.alignment = 0 (integer divide by zero)
  negSeek : Bool := false      -- tensor size >= 2^63 (backward seek: end offset before start)
  accessorType : Bool := false -- typed metadata accessors (`keyValue[T]`): a key stored with another type is
                               -- treated as missing instead of failing the type assertion
deriving Repr, DecidableEq

def Guards.pinned : Guards := {}
def Guards.all : Guards := ⟨true, true, true, true, true, true, true, true, true, true, true⟩
/-- the variant /repo's working tree implements (checked on every run by the L1 correspondence):
    all eleven sites were repaired by `fix:` commits (KNOWN_FINDINGS.jsonl, C10 F11a–F11k) -/
def Guards.tree : Guards := Guards.all

structure Cfg where
  be : Bool := false
  version : Nat := 3
  maxArray : Int := 1024
  budget : Option Nat := none
  g : Guards := Guards.tree
deriving Repr

structure Rd where
  rest : Bytes
  pos : Nat
deriving Repr, DecidableEq

structure TInfo where
  name : Bytes
  kind : Nat
  shape : List Nat
  offset : Nat
deriving Repr, DecidableEq, BEq

structure Decoded where
  version : Nat
  kvs : List (Bytes × Val)     -- insertion order, later duplicates replace earlier
  tensors : List TInfo
  tensorOffset : Nat
  endOffset : Nat
deriving Repr, DecidableEq

/-! ## reader primitives -/

/-- `io.ReadFull` / `binary.Read` of n bytes: io.EOF when nothing is left, io.ErrUnexpectedEOF when
    only part of the n bytes is there (create's multi-model loop tells the two apart) -/
def readN (n : Nat) (r : Rd) : Except Err (Bytes × Rd) :=
  if n ≤ r.rest.length then .ok (r.rest.take n, ⟨r.rest.drop n, r.pos + n⟩)
  else if r.rest.length = 0 then .error .eof else .error .ueof

/-- `io.CopyN` / a `Read` loop of n bytes: io.EOF whenever the input is short -/
def readNCopy (n : Nat) (r : Rd) : Except Err (Bytes × Rd) :=
  if n ≤ r.rest.length then .ok (r.rest.take n, ⟨r.rest.drop n, r.pos + n⟩) else .error .eof

def readUint (be : Bool) (w : Nat) (r : Rd) : Except Err (Nat × Rd) :=
  match readN w r with
  | .ok (bs, r') => .ok (if be then beVal bs else leVal bs, r')
  | .error e => .error e

/-- first field of a struct that one `binary.Read` fetches as `total` bytes -/
def readUintIn (be : Bool) (w total : Nat) (r : Rd) : Except Err (Nat × Rd) :=
  if total ≤ r.rest.length then readUint be w r
  else if r.rest.length = 0 then .error .eof else .error .ueof

def checkAlloc (c : Cfg) (site : String) (n : Nat) : Except Err Unit :=
  match c.budget with
  | some b => if n > b then .error (.alloc site n) else .ok ()
  | none => .ok ()

/-- gguf v1 string: `CopyN(&b, r, int64(length)); b.Truncate(b.Len()-1)` -/
def readStrV1 (c : Cfg) (r : Rd) : Except Err (Bytes × Rd) := do
  let (n, r) ← readUint c.be 8 r
  let len := toI64 n
  if len ≤ 0 then                                          -- Truncate(-1)
    if c.g.v1StrLen then .error (.invalid "v1 string length") else .error (.panic "v1-string-truncate")
  else do
    let (bs, r) ← readNCopy len.toNat r
    pure (bs.take (bs.length - 1), r)

/-- gguf v2/v3 string via the 16 KiB scratch buffer -/
def readStrV23 (c : Cfg) (r : Rd) : Except Err (Bytes × Rd) := do
  let (n, r) ← readUint c.be 8 r
  let len := toI64 n
  if len > 16384 then
    if c.g.strHuge ∧ len.toNat > r.rest.length then .error .eof       -- CopyN into a growing buffer
    else do
      checkAlloc c "string" len.toNat
      readNCopy len.toNat r
  else if len < 0 then
    if c.g.strNeg then .error (.invalid "string length") else .error (.panic "string-slice-negative")
  else readN len.toNat r

def readStr (c : Cfg) (r : Rd) : Except Err (Bytes × Rd) :=
  if c.version = 1 then readStrV1 c r else readStrV23 c r

/-- `discardGGUFString`: a negative size skips nothing -/
def discardStr (c : Cfg) (r : Rd) : Except Err (Unit × Rd) := do
  let (n, r) ← readUint c.be 8 r
  let len := toI64 n
  if len ≤ 0 then pure ((), r)
  else do
    let (_, r) ← readNCopy len.toNat r
    pure ((), r)

def scalarWidth (t : Nat) : Option Nat :=
  if t = 0 ∨ t = 1 ∨ t = 7 then some 1
  else if t = 2 ∨ t = 3 then some 2
  else if t = 4 ∨ t = 5 ∨ t = 6 then some 4
  else if t = 10 ∨ t = 11 ∨ t = 12 then some 8
  else none

def readScalar (c : Cfg) (t w : Nat) (r : Rd) : Except Err (Nat × Rd) := do
  let (v, r) ← readUint c.be w r
  pure (if t = 7 then (if v = 0 then 0 else 1) else v, r)

/-- one array element; `collect` says whether values are kept -/
def readElem (c : Cfg) (t : Nat) (collect : Bool) (r : Rd) : Except Err (Elem × Rd) :=
  match scalarWidth t with
  | some w => do
    let (v, r) ← readScalar c t w r
    pure (.scalar v, r)
  | none =>
    if t = 8 then
      if c.version = 1 then do
        let (s, r) ← readStrV1 c r
        pure (.str s, r)
      else if collect then do
        let (s, r) ← readStrV23 c r
        pure (.str s, r)
      else do
        let (_, r) ← discardStr c r
        pure (.str [], r)
    else .error (.invalid "invalid array type")

/-- the element loop `for i := range n`; `v1idx` models the v1 bug `a.values[i] = e`
    on a zero-length slice (panics on the first stored element) -/
def readElems (c : Cfg) (t : Nat) (collect : Bool) : Nat → Rd → Except Err (List Elem × Rd)
  | 0, r => .ok ([], r)
  | n+1, r => do
    let (e, r) ← readElem c t collect r
    if collect ∧ c.version = 1 ∧ ¬ c.g.v1ArrIndex then .error (.panic "v1-array-index")
    else do
      let (es, r) ← readElems c t collect n r
      pure (e :: es, r)

def readArr (c : Cfg) (r : Rd) : Except Err (Val × Rd) := do
  let (t, r) ← readUint c.be 4 r
  let (n, r) ← readUint c.be (if c.version = 1 then 4 else 8) r
  let size := toI64 n
  let collect : Bool := c.maxArray < 0 || size ≤ c.maxArray
  if collect ∧ size < 0 then
    if c.g.arrNeg then .error (.invalid "array size") else .error (.panic "array-make-negative")
  else do
    -- pinned: `make([]any, n)` up front; repaired: elements are appended as they are read
    if collect ∧ ¬ c.g.arrHuge then checkAlloc c "array" (16 * size.toNat)
    let (es, r) ← readElems c t collect n r
    pure (.arr t size (if collect then some es else none), r)

def readValue (c : Cfg) (t : Nat) (r : Rd) : Except Err (Val × Rd) :=
  match scalarWidth t with
  | some w => do
    let (v, r) ← readScalar c t w r
    pure (.scalar t v, r)
  | none =>
    if t = 8 then do
      let (s, r) ← readStr c r
      pure (.str s, r)
    else if t = 9 then readArr c r
    else .error (.invalid "invalid type")

def kvInsert (kvs : List (Bytes × Val)) (k : Bytes) (v : Val) : List (Bytes × Val) :=
  kvs.filter (fun p => p.1 ≠ k) ++ [(k, v)]

def readKVs (c : Cfg) : Nat → List (Bytes × Val) → Rd → Except Err (List (Bytes × Val) × Rd)
  | 0, acc, r => .ok (acc, r)
  | n+1, acc, r => do
    let (k, r) ← readStr c r
    let (t, r) ← readUint c.be 4 r
    let (v, r) ← readValue c t r
    readKVs c n (kvInsert acc k v) r

def readShape (c : Cfg) : Nat → Rd → Except Err (List Nat × Rd)
  | 0, r => .ok ([], r)
  | n+1, r => do
    let (d, r) ← readUint c.be 8 r
    let (ds, r) ← readShape c n r
    pure (d :: ds, r)

def readTensor (c : Cfg) (r : Rd) : Except Err (TInfo × Rd) := do
  let (name, r) ← readStr c r
  let (dims, r) ← readUint c.be 4 r
  -- repaired: the dimensions are read one by one until the input runs out
  if c.g.dimsHuge ∧ 8 * dims > r.rest.length then
    (if r.rest.length % 8 = 0 then .error .eof else .error .ueof)
  else do
  checkAlloc c "shape" (8 * dims)
  let (shape, r) ← readShape c dims r
  let (kind, r) ← readUint c.be 4 r
  let (off, r) ← readUint c.be 8 r
  pure (⟨name, kind, shape, off⟩, r)

def readTensors (c : Cfg) : Nat → Rd → Except Err (List TInfo × Rd)
  | 0, r => .ok ([], r)
  | n+1, r => do
    let (t, r) ← readTensor c r
    let (ts, r) ← readTensors c n r
    pure (t :: ts, r)

-- "general.alignment" / "general.parameter_count" as explicit bytes (kernel-reducible)
def keyAlignment : Bytes :=
  [103, 101, 110, 101, 114, 97, 108, 46, 97, 108, 105, 103, 110, 109, 101, 110, 116]
def keyParamCount : Bytes :=
  [103, 101, 110, 101, 114, 97, 108, 46, 112, 97, 114, 97, 109, 101, 116, 101, 114, 95, 99, 111, 117, 110, 116]

def kvLookup (kvs : List (Bytes × Val)) (k : Bytes) : Option Val :=
  (kvs.find? (fun p => p.1 = k)).map (·.2)

/-- `kv.Uint("general.alignment", 32)` including the failed type assertion -/
def alignmentOf (g : Guards) (kvs : List (Bytes × Val)) : Except Err Nat :=
  match kvLookup kvs keyAlignment with
  | none => .ok 32
  | some (.scalar 4 v) => .ok v
  | some _ => if g.alignType then .error (.invalid "alignment type") else .error (.panic "alignment-type")

/-- the trailing seek loop: returns the final position -/
def seekTensors (g : Guards) (align : Nat) : List TInfo → Nat → Except Err Nat
  | [], pos => .ok pos
  | t :: ts, pos =>
    let p := pos + padding pos align
    let sz := toI64 (tensorSize t.kind t.shape)
    let np : Int := (p : Int) + sz
    if g.negSeek ∧ sz < 0 then .error (.invalid "tensor size")
    else if np < 0 ∨ np ≥ (two63 : Int) then .error (.invalid "seek")   -- Seek to a negative position
    else seekTensors g align ts np.toNat

def sumParameters (ts : List TInfo) : Nat :=
  ts.foldl (fun acc t => (acc + parameters t.shape) % two64) 0

/-- `gguf.Decode` after the header -/
def decodeBody (c : Cfg) (numKV numTensor : Nat) (r : Rd) : Except Err Decoded := do
  let (kvs, r) ← readKVs c numKV [] r
  let (ts, r) ← readTensors c numTensor r
  let kvs := kvInsert kvs keyParamCount (.scalar 10 (sumParameters ts))
  let align ← alignmentOf c.g kvs
  if align = 0 then
    if c.g.alignZero then .error (.invalid "alignment zero") else .error (.panic "alignment-zero")
  else do
    let tensorOffset := r.pos + padding r.pos align
    let endPos ← seekTensors c.g align ts r.pos
    pure ⟨c.version, kvs, ts, tensorOffset, endPos⟩

def magicLE : Nat := 0x46554747
def magicBE : Nat := 0x47475546

/-- `ggml.Decode(rs, maxArraySize)` for gguf containers, the reader standing at `r` (file position
    `r.pos`, `r.rest` still to come).  `maxArraySize` as passed by the caller (0 means 1024). -/
def decodeFrom (r : Rd) (maxArraySize : Int) (budget : Option Nat := none)
    (g : Guards := Guards.tree) : Except Err Decoded := do
  let maxA := if maxArraySize = 0 then 1024 else maxArraySize
  let (magic, r) ← readUint false 4 r
  if magic ≠ magicLE ∧ magic ≠ magicBE then .error (.invalid "invalid file magic")
  else do
    let be := magic = magicBE
    let (version, r) ← readUint be 4 r
    let w := if version = 1 then 4 else 8
    -- both counts are ONE binary.Read of a struct (matters for io.EOF vs io.ErrUnexpectedEOF)
    let (numTensor, r) ← readUintIn be w (2 * w) r
    let (numKV, r) ← readUint be w r
    decodeBody ⟨be, version, maxA, budget, g⟩ numKV numTensor r

/-- decoding a whole file from its start -/
def decode (bs : Bytes) (maxArraySize : Int) (budget : Option Nat := none)
    (g : Guards := Guards.tree) : Except Err Decoded :=
  decodeFrom ⟨bs, 0⟩ maxArraySize budget g

/-! ## typed metadata accessors (`fs/ggml/ggml.go keyValue[T]` and the `KV.*` helpers) -/

/-- ASCII text as bytes (kernel-reducible) -/
def bytesOf (s : String) : Bytes := s.toList.map (fun c => c.toNat.toUInt8)

/-- `kv.String(key, dflt)` for a key that already carries its prefix.  Upstream: `kv[key].(string)` unchecked. -/
def kvString (g : Guards) (kvs : List (Bytes × Val)) (key dflt : Bytes) : Except Err Bytes :=
  match kvLookup kvs key with
  | none => .ok dflt
  | some (.str s) => .ok s
  | some _ => if g.accessorType then .ok dflt else .error (.panic "interface-conversion")

/-- `kv.Uint(key, dflt)` (uint32) -/
def kvUint (g : Guards) (kvs : List (Bytes × Val)) (key : Bytes) (dflt : Nat) : Except Err Nat :=
  match kvLookup kvs key with
  | none => .ok dflt
  | some (.scalar 4 v) => .ok v
  | some _ => if g.accessorType then .ok dflt else .error (.panic "interface-conversion")

def kvArchitecture (g : Guards) (kvs : List (Bytes × Val)) : Except Err Bytes :=
  kvString g kvs (bytesOf "general.architecture") (bytesOf "unknown")

def kvKind (g : Guards) (kvs : List (Bytes × Val)) : Except Err Bytes :=
  kvString g kvs (bytesOf "general.type") (bytesOf "unknown")

/-- the layer's media type as `ggufLayers` picks it: 0 model, 1 adapter, 2 projector -/
def mediaType (g : Guards) (kvs : List (Bytes × Val)) : Except Err Nat := do
  let kind ← kvKind g kvs
  if kind = bytesOf "adapter" then pure 1
  else do
    let arch ← kvArchitecture g kvs
    if (kvLookup kvs (arch ++ bytesOf ".vision.block_count")).isSome then pure 2
    else do
      let kind ← kvKind g kvs
      pure (if kind = bytesOf "projector" then 2 else 0)

/-- what the rest of create reads from each decoded model: `detectChatTemplate` (ChatTemplate), `createModel`
    (Architecture, ParameterCount — always a uint64 set by the decoder —, FileType) -/
def createAccessors (g : Guards) (kvs : List (Bytes × Val)) : Except Err Unit := do
  let _ ← kvString g kvs (bytesOf "tokenizer.chat_template") []
  let _ ← kvArchitecture g kvs
  let _ ← kvUint g kvs (bytesOf "general.file_type") 0
  pure ()

/-! ## `server/create.go ggufLayers`: an uploaded file may hold several models back to back -/

/-- one layer `ggufLayers` produces -/
structure GLayer where
  start : Nat          -- file offset of the section copied into the layer
  size : Nat           -- bytes in the layer
  whole : Bool         -- the uploaded blob itself is reused (the decode ended at the file size and started at 0)
  media : Nat          -- 0 model, 1 adapter, 2 projector
  d : Decoded
deriving Repr, DecidableEq

/-- the `for offset < stat.Size()` loop.  The file position after a successful `Decode` is the end
    offset it returns, which is where the next `Decode` starts.  `fuel` only makes the definition
    structurally recursive: running out of it (`none`) is the explicit outcome "the loop does not
    terminate" (`ggufLayers_terminates` shows it never happens for the tree's decoder). -/
def ggufLayersLoop (bs : Bytes) (budget : Option Nat) (g : Guards) (maxSeek : Nat) :
    Nat → Nat → List GLayer → Option (Except Err (List GLayer))
  | 0, offset, acc => if offset < bs.length then none else some (.ok acc)
  | fuel+1, offset, acc =>
    if offset < bs.length then
      match decodeFrom ⟨bs.drop offset, offset⟩ 0 budget g with
      | .error .eof => some (if acc.isEmpty then .error .eof else .ok acc)      -- errors.Is(err, io.EOF) && len(layers) > 0
      | .error e => some (.error e)
      | .ok d =>
        let n := d.endOffset
        -- the upload is an os.File: lseek refuses offsets above the file system's limit (EINVAL); with backward
        -- seeks rejected the positions only grow, so the largest one the decode asked for is its end offset
        if n > maxSeek then some (.error (.invalid "seek beyond the file system's limit")) else
        match mediaType g d.kvs with
        | .error e => some (.error e)
        | .ok media =>
        let whole : Bool := n = bs.length ∧ offset = 0
        -- otherwise NewLayer(io.NewSectionReader(blob, offset, n - offset)): the bytes of this model, cut at the end of
        -- the file (upstream passed n, i.e. the model followed by part of the next ones: finding C05 F1b, repaired)
        let size := if whole then bs.length else min (n - offset) (bs.length - offset)
        ggufLayersLoop bs budget g maxSeek fuel n (acc ++ [⟨offset, size, whole, media, d⟩])
    else some (.ok acc)

/-- `detectContentType` on the first 512 bytes (a file shorter than 4 bytes is read zero-extended) + the loop;
    `none` = the loop does not terminate.  `maxSeek`: the largest offset the file system lets a file seek to
    (2^63-1 on tmpfs, 16 TiB-4 KiB on ext4 with 4 KiB blocks, …; measured by the driver). -/
def ggufLayers (bs : Bytes) (budget : Option Nat := none) (g : Guards := Guards.tree) (maxSeek : Nat := two63 - 1) :
    Option (Except Err (List GLayer)) :=
  let magic := leVal ((bs.take 4) ++ List.replicate (4 - (bs.take 4).length) 0)
  if magic ≠ magicLE ∧ magic ≠ magicBE then some (.error (.invalid "only gguf supported"))
  else ggufLayersLoop bs budget g maxSeek bs.length 0 []

/-- everything create does with the decoded metadata of an upload: `ggufLayers`, then the accessors
    `detectChatTemplate` / `createModel` call on every layer.  `none` = never answers. -/
def createUpload (bs : Bytes) (budget : Option Nat := none) (g : Guards := Guards.tree) (maxSeek : Nat := two63 - 1) :
    Option (Except Err (List GLayer)) :=
  match ggufLayers bs budget g maxSeek with
  | none => none
  | some (.error e) => some (.error e)
  | some (.ok ls) =>
    match ls.mapM (fun l => createAccessors g l.d.kvs) with
    | .error e => some (.error e)
    | .ok _ => some (.ok ls)

/-! ## encoder -/

inductive KVal
  | u32 (n : Nat)
  | f32 (bits : Nat)
  | bool (b : Bool)
  | str (s : Bytes)
  | ai32 (l : List Nat)      -- raw 32-bit patterns
  | au32 (l : List Nat)
  | af32 (l : List Nat)
  | astr (l : List Bytes)
deriving Repr, DecidableEq

structure TIn where
  name : Bytes
  kind : Nat
  shape : List Nat      -- as in Go's Tensor.Shape (written reversed)
  data : Bytes          -- what the tensor's WriterTo writes
deriving Repr, DecidableEq

def u32le (n : Nat) : Bytes := leBytes 4 n
def u64le (n : Nat) : Bytes := leBytes 8 n

def encStr (s : Bytes) : Bytes := u64le s.length ++ s

def encVal : KVal → Bytes
  | .u32 n => u32le 4 ++ u32le n
  | .f32 b => u32le 6 ++ u32le b
  | .bool b => u32le 7 ++ [if b then 1 else 0]
  | .str s => u32le 8 ++ encStr s
  | .ai32 l => u32le 9 ++ u32le 5 ++ u64le l.length ++ l.flatMap u32le
  | .au32 l => u32le 9 ++ u32le 4 ++ u64le l.length ++ l.flatMap u32le
  | .af32 l => u32le 9 ++ u32le 6 ++ u64le l.length ++ l.flatMap u32le
  | .astr l => u32le 9 ++ u32le 8 ++ u64le l.length ++ l.flatMap encStr

def encKV (p : Bytes × KVal) : Bytes := encStr p.1 ++ encVal p.2

/-- lexicographic order on bytes (Go string comparison) -/
def bytesLe : Bytes → Bytes → Bool
  | [], _ => true
  | _ :: _, [] => false
  | a :: as, b :: bs => if a < b then true else if b < a then false else bytesLe as bs

def sortKVs (kvs : List (Bytes × KVal)) : List (Bytes × KVal) :=
  kvs.mergeSort (fun a b => bytesLe a.1 b.1)

/-- The alignment a key/value list asks for, where it is well defined: 32 when the key is absent, the value when it is a
    uint32.  This is the INPUT GUARD of the round-trip theorems (`alignmentIn kvs = .ok align`): it says "the
    `general.alignment` key is absent or holds the uint32 `align`". -/
def alignmentIn (kvs : List (Bytes × KVal)) : Except Err Nat :=
  match ((kvs.find? (fun p => p.1 = keyAlignment)).map (·.2) : Option KVal) with
  | none => .ok 32
  | some (KVal.u32 v) => .ok (v % 4294967296)
  | some _ => .error (.invalid "general.alignment")

/-- What `WriteGGUF` does with the key: `kv.Uint("general.alignment", 32)` (+ the repaired writer's validation).
    `strict = false` — upstream and the tree before repair C05 F1c: `keyValue[uint32]` treats a key stored with ANOTHER TYPE
    as missing, so the file is laid out with 32 while the key is written with its own type, and a zero is only noticed when a
    tensor has to be padded (divide by zero).  The decoder rejects both files (finding F1c).
    `strict = true` — the repaired writer returns `invalid general.alignment` unless the key is absent or a non-zero uint32.
    Which of the two the working tree has is PROBED by the driver on every run (variant bit 1 of `gguf-enc`). -/
def writerAlignment (strict : Bool) (kvs : List (Bytes × KVal)) : Except Err Nat :=
  match ((kvs.find? (fun p => p.1 = keyAlignment)).map (·.2) : Option KVal) with
  | none => .ok 32
  | some (KVal.u32 v) =>
    if strict ∧ v % 4294967296 = 0 then .error (.invalid "general.alignment") else .ok (v % 4294967296)
  | some _ => if strict then .error (.invalid "general.alignment") else .ok 32

/-- Offsets declared in the tensor infos.  `pinned = true` reproduces the accumulator of the
    pinned upstream tree (`s += t.Size()`: padding never added back, finding F1);
    `pinned = false` is the repaired accumulator. -/
def offsets (pinned : Bool) (align : Nat) : List TIn → Nat → List Nat
  | [], _ => []
  | t :: ts, s =>
    let off := s + padding s align
    off :: offsets pinned align ts ((if pinned then s else off) + tensorSize t.kind t.shape)

def encTInfo (t : TIn) (off : Nat) : Bytes :=
  encStr t.name ++ u32le t.shape.length ++ t.shape.reverse.flatMap u64le ++ u32le t.kind ++ u64le off

def encTInfos : List TIn → List Nat → Bytes
  | t :: ts, o :: os => encTInfo t o ++ encTInfos ts os
  | _, _ => []

/-- `ggufWriteTensor` for each tensor: pad to the absolute file offset, then the data -/
def encData (align : Nat) : List TIn → Nat → Bytes
  | [], _ => []
  | t :: ts, pos =>
    let pad := padding pos align
    List.replicate pad 0 ++ t.data ++ encData align ts (pos + pad + t.data.length)

def encHeader (nT nKV : Nat) : Bytes :=
  u32le magicLE ++ u32le 3 ++ u64le nT ++ u64le nKV

/-- everything before the tensor data: header, sorted key/values, tensor infos -/
def encHead (pinned : Bool) (align : Nat) (kvs : List (Bytes × KVal)) (ts : List TIn) : Bytes :=
  encHeader ts.length kvs.length ++ (sortKVs kvs).flatMap encKV
    ++ encTInfos ts (offsets pinned align ts 0)

/-- `WriteGGUF(ws, kv, ts)`; `ts` is given in the order the (stable, comparator-driven) sort
    left it — the sort is a parameter of the model: any permutation is covered.  `strict`: see `writerAlignment`. -/
def encode (pinned : Bool) (kvs : List (Bytes × KVal)) (ts : List TIn) (strict : Bool := false) : Except Err Bytes := do
  let align ← writerAlignment strict kvs
  if align = 0 ∧ ts ≠ [] then .error (.panic "alignment-zero")
  else
    let head := encHead pinned align kvs ts
    pure (head ++ encData align ts head.length)

end OllamaVerif.Gguf
