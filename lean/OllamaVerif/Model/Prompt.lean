/-
  C19 — executable model of `server/prompt.go` chatPrompt and of the part of
  `template/template.go` (collate + Execute) that the property needs.

  What is a parameter and what is modelled
  * The template + tokenizer are ONE parameter `cost : Nat → Nat`:
      `cost i` = number of tokens of rendering `system(i) ++ msgs[i:]`
    (for the oracle the driver evaluates the real template and tokenizer and sends the vector;
    `costOfRender` below builds it from a render function, which is how the three fixed
    template styles of the harness are cross-checked).
  * Message content is a list of `Piece`s: opaque literal text, the literal placeholder
    `[img]` (`slot`), the tag `[img-k]` written by chatPrompt (`tag k`) and the mllama marker
    `<|image|>` (`mm`).  `splitImg` parses raw bytes into pieces (leftmost `[img]` first, as
    `strings.Replace(…, 1)` consumes them), `renderPieces` is its inverse.  The theorems talk
    about `tag` pieces; "user text contains no literal `[img-`" is the recorded assumption under
    which a `tag k` piece is the only way `[img-k]` can occur in the rendered bytes.
  * `Cfg.fixed = false` is the pinned upstream behaviour (finding F4: the `system` slice that
    survives a `break` is the one computed for the iteration that broke); `true` is the
    proposed repair (system messages recomputed from `msgs[:n]` after the loop).

  Core Lean only.
-/
import OllamaVerif.Model.Bytes

namespace OllamaVerif.Prompt
open OllamaVerif

inductive Role | system | user | assistant | tool | other
  deriving DecidableEq, Repr, Inhabited

inductive Piece
  | lit (b : Bytes)
  | slot
  | tag (k : Nat)
  | mm
  deriving DecidableEq, Repr

/-- an attached image: `src` identifies the bytes, `ok` says whether `mllama.Preprocess`
    can decode them -/
structure Img where
  src : Nat
  ok : Bool
  deriving DecidableEq, Repr

structure Msg where
  role : Role
  content : List Piece
  images : List Img
  deriving DecidableEq, Repr

structure Cfg where
  /-- variant flag: `false` = pinned code (F4), `true` = proposed fix -/
  fixed : Bool
  /-- `checkMllamaModelFamily(m)` -/
  mllama : Bool
  /-- `m.ProjectorPaths`: 0 = nil, 1 = non-nil but empty, 2 = non-empty -/
  proj : Nat
  /-- `opts.NumCtx` (a Go `int`) -/
  limit : Int
  deriving Repr

/-- an element of the returned `[]llm.ImageData` -/
structure ImgOut where
  id : Nat
  src : Nat
  /-- data went through `mllama.Preprocess` -/
  pre : Bool
  deriving DecidableEq, Repr

/-- `imageNumTokens` -/
def imageNumTokens (cfg : Cfg) : Nat := if cfg.mllama then 1 else 768

/-- the `system` slice built at the top of an iteration: system messages among `msgs[:i]` -/
def systemsBefore (msgs : List Msg) (i : Nat) : List Msg :=
  (msgs.take i).filter (fun m => m.role = Role.system)

def imgCount (l : List Msg) : Nat := (l.map (fun m => m.images.length)).sum

/-- `ctxLen` of iteration `i` -/
def total (cfg : Cfg) (cost : Nat → Nat) (msgs : List Msg) (i : Nat) : Nat :=
  cost i + (if cfg.proj ≠ 0 then imageNumTokens cfg * imgCount (msgs.drop i) else 0)

def fits (cfg : Cfg) (cost : Nat → Nat) (msgs : List Msg) (i : Nat) : Bool :=
  decide ((total cfg cost msgs i : Int) ≤ cfg.limit)

def imagesAt (msgs : List Msg) (i : Nat) : List Img :=
  match msgs.drop i with
  | m :: _ => m.images
  | [] => []

inductive Scan
  | err
  | done (n : Nat) (sysAt : Option Nat) (evals : Nat)
  deriving DecidableEq, Repr

/-- The backward loop `for i := n; i >= 0; i--`.  The first argument is `i+1` (so `0` = loop
    finished), `n` is the Go variable `n`, `sysAt` records WHICH iteration's `system` slice is the
    current value of the Go variable `system` (`none` = still the nil slice), `q` counts tokenizer
    calls. -/
def scan (cfg : Cfg) (cost : Nat → Nat) (msgs : List Msg) : Nat → Nat → Option Nat → Nat → Scan
  | 0, n, s, q => .done n s q
  | i+1, n, s, q =>
    if cfg.mllama && decide (1 < (imagesAt msgs i).length) then .err
    else if i = n then scan cfg cost msgs i n s q
    else if fits cfg cost msgs i then scan cfg cost msgs i i (some i) (q+1)
    else .done n (some i) (q+1)

/-- `strings.Contains(prompt, "[img]")` -/
def hasSlot (c : List Piece) : Bool := c.any (fun p => p == Piece.slot)

/-- `strings.Replace(prompt, "[img]", tag, 1)` -/
def fillSlot (t : Nat) : List Piece → List Piece
  | [] => []
  | Piece.slot :: r => Piece.tag t :: r
  | p :: r => p :: fillSlot t r

inductive Err | preprocess
  deriving DecidableEq, Repr

/-- state of the inner `for _, i := range msg.Images` loop -/
structure RW where
  pre : List Piece      -- `prefix`
  mm : Bool             -- `imgPrompt != ""`
  body : List Piece     -- `prompt`
  acc : List ImgOut     -- `images`
  deriving DecidableEq, Repr

/-- the `llm.ImageData` built for one image (and the new value of `imgPrompt != ""`) -/
def imgData (cfg : Cfg) (id : Nat) (im : Img) (mm : Bool) : Except Err (ImgOut × Bool) :=
  if cfg.mllama then
    if cfg.proj < 2 then .ok (⟨id, im.src, false⟩, true)
    else if im.ok then .ok (⟨id, im.src, true⟩, true)
    else .error .preprocess
  else .ok (⟨id, im.src, false⟩, mm)

def stepImg (cfg : Cfg) (st : RW) (im : Img) : Except Err RW :=
  match imgData cfg st.acc.length im st.mm with
  | .error e => .error e
  | .ok (o, mm) =>
    if hasSlot st.body then .ok ⟨st.pre, mm, fillSlot st.acc.length st.body, st.acc ++ [o]⟩
    else .ok ⟨st.pre ++ [Piece.tag st.acc.length], mm, st.body, st.acc ++ [o]⟩

def foldImgs (cfg : Cfg) : List Img → RW → Except Err RW
  | [], st => .ok st
  | im :: ims, st =>
    match stepImg cfg st im with
    | .error e => .error e
    | .ok st' => foldImgs cfg ims st'

def assemble (st : RW) : List Piece := st.pre ++ (if st.mm then [Piece.mm] else []) ++ st.body

/-- one iteration of `for cnt, msg := range msgs[currMsgIdx:]` -/
def rewriteMsg (cfg : Cfg) (m : Msg) (acc : List ImgOut) : Except Err (Msg × List ImgOut) :=
  match foldImgs cfg m.images ⟨[], false, m.content, acc⟩ with
  | .error e => .error e
  | .ok st => .ok ({ m with content := assemble st }, st.acc)

def rewriteAll (cfg : Cfg) : List Msg → List ImgOut → Except Err (List Msg × List ImgOut)
  | [], acc => .ok ([], acc)
  | m :: ms, acc =>
    match rewriteMsg cfg m acc with
    | .error e => .error e
    | .ok (m', acc') =>
      match rewriteAll cfg ms acc' with
      | .error e => .error e
      | .ok (ms', acc'') => .ok (m' :: ms', acc'')

inductive Outcome
  /-- `msgs[-1:]`: slice bounds out of range (callers never pass an empty conversation) -/
  | panicEmpty
  | errTooMany
  | errPreprocess
  /-- `evals` tokenizer calls were made; the final `Execute` receives `system ++ retained`
      where `retained` is `msgs[n:]` with rewritten contents; `images` is returned -/
  | ok (evals n : Nat) (system retained : List Msg) (images : List ImgOut)
  deriving DecidableEq, Repr

/-- the `system` slice given to the final `Execute` -/
def finalSystem (cfg : Cfg) (msgs : List Msg) (n : Nat) (sysAt : Option Nat) : List Msg :=
  if cfg.fixed then systemsBefore msgs n
  else match sysAt with
    | none => []
    | some i => systemsBefore msgs i

def chatPrompt (cfg : Cfg) (cost : Nat → Nat) (msgs : List Msg) : Outcome :=
  match msgs with
  | [] => .panicEmpty
  | _ :: _ =>
    match scan cfg cost msgs msgs.length (msgs.length - 1) none 0 with
    | .err => .errTooMany
    | .done n s q =>
      match rewriteAll cfg (msgs.drop n) [] with
      | .error _ => .errPreprocess
      | .ok (ret, imgs) => .ok q n (finalSystem cfg msgs n s) ret imgs

/-! ### bytes ↔ pieces -/

def bImg : Bytes := [91, 105, 109, 103, 93]                 -- "[img]"
def bImgDash : Bytes := [91, 105, 109, 103, 45]             -- "[img-"
def bMM : Bytes := [60, 124, 105, 109, 97, 103, 101, 124, 62] -- "<|image|>"

def natBytes (n : Nat) : Bytes := (toString n).toUTF8.toList

def renderPiece : Piece → Bytes
  | .lit b => b
  | .slot => bImg
  | .tag k => bImgDash ++ natBytes k ++ [93]
  | .mm => bMM

def renderPieces (c : List Piece) : Bytes := c.flatMap renderPiece

def flushLit (acc : Bytes) : List Piece := if acc.isEmpty then [] else [Piece.lit acc.reverse]

/-- split raw content at every (leftmost, non-overlapping) `[img]`; `skip` = bytes of a matched
    `[img]` still to be skipped, `acc` = the reversed pending literal -/
def splitGo : Bytes → Nat → Bytes → List Piece
  | [], _, acc => flushLit acc
  | _ :: bs, skip+1, acc => splitGo bs skip acc
  | b :: bs, 0, acc =>
    if bImg.isPrefixOf (b :: bs) then flushLit acc ++ Piece.slot :: splitGo bs 4 []
    else splitGo bs 0 (b :: acc)

def splitImg (s : Bytes) : List Piece := splitGo s 0 []

/-! ### the template layer: `collate` and `Execute` for the three harness template styles -/

abbrev RMsg := Role × Bytes

def sep2 : Bytes := [10, 10]

def joinSep (sep : Bytes) : List Bytes → Bytes
  | [] => []
  | [x] => x
  | x :: xs => x ++ sep ++ joinSep sep xs

/-- consecutive messages of the same role are merged with a blank line -/
def collateMsgs : List RMsg → List RMsg
  | [] => []
  | (r, c) :: rest =>
    match collateMsgs rest with
    | (r', c') :: tl => if r = r' then (r, c ++ sep2 ++ c') :: tl else (r, c) :: (r', c') :: tl
    | [] => [(r, c)]

/-- `collate`: (all system contents joined, merged messages) -/
def collate (msgs : List RMsg) : Bytes × List RMsg :=
  (joinSep sep2 ((msgs.filter (fun m => m.1 = Role.system)).map (·.2)), collateMsgs msgs)

def roleName : Role → Bytes
  | .system => "system".toUTF8.toList
  | .user => "user".toUTF8.toList
  | .assistant => "assistant".toUTF8.toList
  | .tool => "tool".toUTF8.toList
  | .other => "control".toUTF8.toList

def renderMsgBlock (m : RMsg) : Bytes := [91] ++ roleName m.1 ++ [124] ++ m.2 ++ [93]

/-- style 0, messages-style with a system header:
    `{{if .System}}S<{{.System}}>{{end}}{{range .Messages}}{{if ne .Role "system"}}[{{.Role}}|{{.Content}}]{{end}}{{end}}`
    style 3, every message in place: `{{range .Messages}}[{{.Role}}|{{.Content}}]{{end}}` -/
def renderMessagesStyle (style : Nat) (msgs : List RMsg) : Bytes :=
  let (sys, ms) := collate msgs
  if style = 0 then
    (if sys.isEmpty then [] else [83, 60] ++ sys ++ [62]) ++
      (ms.filter (fun m => m.1 ≠ Role.system)).flatMap renderMsgBlock
  else ms.flatMap renderMsgBlock

structure Legacy where
  sys : Bytes
  prompt : Bytes
  resp : Bytes
  out : Bytes

/-- one `t.Template.Execute(&b, {System, Prompt, Response})` of a legacy template;
    `style = 1`: `{{if .System}}{{.System}} {{end}}{{if .Prompt}}{{.Prompt}} {{end}}{{if .Response}}{{.Response}} {{end}}`,
    otherwise the default `{{ .Prompt }}` (+ the appended `{{ .Response }}`).  `final` = the
    last execution, where everything after the `.Response` field is cut. -/
def legacyExec (style : Nat) (final : Bool) (s p r : Bytes) : Bytes :=
  if style = 1 then
    (if s.isEmpty then [] else s ++ [32]) ++ (if p.isEmpty then [] else p ++ [32]) ++
      (if r.isEmpty then [] else if final then r else r ++ [32])
  else p ++ r

def legacyFlush (style : Nat) (st : Legacy) : Legacy :=
  ⟨[], [], [], st.out ++ legacyExec style false st.sys st.prompt st.resp⟩

/-- one step of the legacy loop.  `lfix = false` is the pinned code (finding F4b: a pending
    turn is overwritten when its slot is written again before a flush); `lfix = true` is the
    proposed repair (flush whenever the slot about to be written is occupied). -/
def legacyStep (lfix : Bool) (style : Nat) (st : Legacy) (m : RMsg) : Legacy :=
  match m.1 with
  | .system =>
    let st := if (lfix && !st.sys.isEmpty) || !st.prompt.isEmpty || !st.resp.isEmpty
      then legacyFlush style st else st
    { st with sys := m.2 }
  | .user =>
    let st := if (lfix && !st.prompt.isEmpty) || !st.resp.isEmpty then legacyFlush style st else st
    { st with prompt := m.2 }
  | .assistant =>
    let st := if lfix && !st.resp.isEmpty then legacyFlush style st else st
    { st with resp := m.2 }
  | _ => st

def renderLegacy (lfix : Bool) (style : Nat) (msgs : List RMsg) : Bytes :=
  let st := (collateMsgs msgs).foldl (legacyStep lfix style) ⟨[], [], [], []⟩
  st.out ++ legacyExec style true st.sys st.prompt st.resp

def render (lfix : Bool) (style : Nat) (msgs : List RMsg) : Bytes :=
  if style = 0 ∨ style = 3 then renderMessagesStyle style msgs else renderLegacy lfix style msgs

def toRMsg (m : Msg) : RMsg := (m.role, renderPieces m.content)

/-- tokenizers of the harness: 0 = fields separated by space/newline, 1 = one token per byte -/
def countFields : Bytes → Bool → Nat
  | [], _ => 0
  | b :: bs, inWord =>
    if b = 32 ∨ b = 10 then countFields bs false
    else (if inWord then 0 else 1) + countFields bs true

def tokenCount (mode : Nat) (s : Bytes) : Nat :=
  if mode = 0 then countFields s false else s.length

/-- `cost` obtained from a render function and a tokenizer, as chatPrompt evaluates it -/
def costOfRender (rend : List Msg → Nat) (msgs : List Msg) (i : Nat) : Nat :=
  rend (systemsBefore msgs i ++ msgs.drop i)

end OllamaVerif.Prompt
