/-
  C19 — executable model of `server/prompt.go` chatPrompt and of the part of
  `template/template.go` (collate + Execute) that the property needs.

  What is a parameter and what is modelled
  * The template + tokenizer are ONE parameter `cost : Nat → Nat`:
      `cost i` = number of tokens of rendering `system(i) ++ msgs[i:]`
    (for the oracle the driver evaluates the real template and tokenizer and sends the vector;
    `costOfRender` below builds it from a render function, which is how the three fixed
    template styles of the harness are cross-checked).
  * Message content is a list of `Piece`s: opaque literal text, the literal placeholder
    `[img]` (`slot`), the tag `[img-k]` written by chatPrompt (`tag k`) and the mllama marker
    `<|image|>` (`mm`).  `splitImg` parses raw bytes into pieces (leftmost `[img]` first, as
    `strings.Replace(…, 1)` consumes them), `renderPieces` is its inverse.  The theorems talk
    about `tag` pieces; "user text contains no literal `[img-`" is the recorded assumption under
    which a `tag k` piece is the only way `[img-k]` can occur in the rendered bytes.
  * `Cfg.fixed = false` is the pinned upstream behaviour (finding F4: the `system` slice that
    survives a `break` is the one computed for the iteration that broke); `true` is the
    proposed repair (system messages recomputed from `msgs[:n]` after the loop).

  Core Lean only.
-/
import OllamaVerif.Model.Bytes

namespace OllamaVerif.Prompt
open OllamaVerif

inductive Role | system | user | assistant | tool | other
  deriving DecidableEq, Repr, Inhabited

inductive Piece
  | lit (b : Bytes)
  | slot
  | tag (k : Nat)
  | mm
  deriving DecidableEq, Repr

/-- an attached image: `src` identifies the bytes, `ok` says whether `mllama.Preprocess`
    can decode them -/
structure Img where
  src : Nat
  ok : Bool
  deriving DecidableEq, Repr

structure Msg where
  role : Role
  content : List Piece
  images : List Img
  deriving DecidableEq, Repr

structure Cfg where
  /-- variant flag: `false` = pinned code (F4), `true` = proposed fix -/
  fixed : Bool
  /-- `checkMllamaModelFamily(m)` -/
  mllama : Bool
  /-- `m.ProjectorPaths`: 0 = nil, 1 = non-nil but empty, 2 = non-empty -/
  proj : Nat
  /-- `opts.NumCtx` (a Go `int`) -/
  limit : Int
  deriving Repr

/-- an element of the returned `[]llm.ImageData` -/
structure ImgOut where
  id : Nat
  src : Nat
  /-- data went through `mllama.Preprocess` -/
  pre : Bool
  deriving DecidableEq, Repr

/-- `imageNumTokens` -/
def imageNumTokens (cfg : Cfg) : Nat := if cfg.mllama then 1 else 768

/-- the `system` slice built at the top of an iteration: system messages among `msgs[:i]` -/
def systemsBefore (msgs : List Msg) (i : Nat) : List Msg :=
  (msgs.take i).filter (fun m => m.role = Role.system)

def imgCount (l : List Msg) : Nat := (l.map (fun m => m.images.length)).sum

/-- `ctxLen` of iteration `i` -/
def total (cfg : Cfg) (cost : Nat → Nat) (msgs : List Msg) (i : Nat) : Nat :=
  cost i + (if cfg.proj ≠ 0 then imageNumTokens cfg * imgCount (msgs.drop i) else 0)

def fits (cfg : Cfg) (cost : Nat → Nat) (msgs : List Msg) (i : Nat) : Bool :=
  decide ((total cfg cost msgs i : Int) ≤ cfg.limit)

def imagesAt (msgs : List Msg) (i : Nat) : List Img :=
  match msgs.drop i with
  | m :: _ => m.images
  | [] => []

inductive Scan
  | err
  /-- `m.Template.Execute` (or the tokenizer) failed at iteration `i` -/
  | fail (i : Nat)
  | done (n : Nat) (sysAt : Option Nat) (evals : Nat)
  deriving DecidableEq, Repr

/-- The backward loop `for i := n; i >= 0; i--`.  The first argument is `i+1` (so `0` = loop
    finished), `bad i` says that rendering/tokenizing `system(i) ++ msgs[i:]` returns an error,
    `n` is the Go variable `n`, `sysAt` records WHICH iteration's `system` slice is the
    current value of the Go variable `system` (`none` = still the nil slice), `q` counts tokenizer
    calls. -/
def scan (cfg : Cfg) (cost : Nat → Nat) (bad : Nat → Bool) (msgs : List Msg) :
    Nat → Nat → Option Nat → Nat → Scan
  | 0, n, s, q => .done n s q
  | i+1, n, s, q =>
    if cfg.mllama && decide (1 < (imagesAt msgs i).length) then .err
    else if i = n then scan cfg cost bad msgs i n s q
    else if bad i then .fail i
    else if fits cfg cost msgs i then scan cfg cost bad msgs i i (some i) (q+1)
    else .done n (some i) (q+1)

/-- `strings.Contains(prompt, "[img]")` -/
def hasSlot (c : List Piece) : Bool := c.any (fun p => p == Piece.slot)

/-- `strings.Replace(prompt, "[img]", tag, 1)` -/
def fillSlot (t : Nat) : List Piece → List Piece
  | [] => []
  | Piece.slot :: r => Piece.tag t :: r
  | p :: r => p :: fillSlot t r

inductive Err | preprocess
  deriving DecidableEq, Repr

/-- state of the inner `for _, i := range msg.Images` loop -/
structure RW where
  pre : List Piece      -- `prefix`
  mm : Bool             -- `imgPrompt != ""`
  body : List Piece     -- `prompt`
  acc : List ImgOut     -- `images`
  deriving DecidableEq, Repr

/-- the `llm.ImageData` built for one image (and the new value of `imgPrompt != ""`) -/
def imgData (cfg : Cfg) (id : Nat) (im : Img) (mm : Bool) : Except Err (ImgOut × Bool) :=
  if cfg.mllama then
    if cfg.proj < 2 then .ok (⟨id, im.src, false⟩, true)
    else if im.ok then .ok (⟨id, im.src, true⟩, true)
    else .error .preprocess
  else .ok (⟨id, im.src, false⟩, mm)

def stepImg (cfg : Cfg) (st : RW) (im : Img) : Except Err RW :=
  match imgData cfg st.acc.length im st.mm with
  | .error e => .error e
  | .ok (o, mm) =>
    if hasSlot st.body then .ok ⟨st.pre, mm, fillSlot st.acc.length st.body, st.acc ++ [o]⟩
    else .ok ⟨st.pre ++ [Piece.tag st.acc.length], mm, st.body, st.acc ++ [o]⟩

def foldImgs (cfg : Cfg) : List Img → RW → Except Err RW
  | [], st => .ok st
  | im :: ims, st =>
    match stepImg cfg st im with
    | .error e => .error e
    | .ok st' => foldImgs cfg ims st'

def assemble (st : RW) : List Piece := st.pre ++ (if st.mm then [Piece.mm] else []) ++ st.body

/-- one iteration of `for cnt, msg := range msgs[currMsgIdx:]` -/
def rewriteMsg (cfg : Cfg) (m : Msg) (acc : List ImgOut) : Except Err (Msg × List ImgOut) :=
  match foldImgs cfg m.images ⟨[], false, m.content, acc⟩ with
  | .error e => .error e
  | .ok st => .ok ({ m with content := assemble st }, st.acc)

def rewriteAll (cfg : Cfg) : List Msg → List ImgOut → Except Err (List Msg × List ImgOut)
  | [], acc => .ok ([], acc)
  | m :: ms, acc =>
    match rewriteMsg cfg m acc with
    | .error e => .error e
    | .ok (m', acc') =>
      match rewriteAll cfg ms acc' with
      | .error e => .error e
      | .ok (ms', acc'') => .ok (m' :: ms', acc'')

inductive Outcome
  /-- `msgs[-1:]`: slice bounds out of range (callers never pass an empty conversation) -/
  | panicEmpty
  | errTooMany
  | errPreprocess
  /-- the template (or tokenizer) failed while measuring `system(i) ++ msgs[i:]` -/
  | execFail (i : Nat)
  /-- `evals` tokenizer calls were made; the final `Execute` receives `system ++ retained`
      where `retained` is `msgs[n:]` with rewritten contents; `images` is returned -/
  | ok (evals n : Nat) (system retained : List Msg) (images : List ImgOut)
  deriving DecidableEq, Repr

/-- the `system` slice given to the final `Execute` -/
def finalSystem (cfg : Cfg) (msgs : List Msg) (n : Nat) (sysAt : Option Nat) : List Msg :=
  if cfg.fixed then systemsBefore msgs n
  else match sysAt with
    | none => []
    | some i => systemsBefore msgs i

def chatPrompt (cfg : Cfg) (cost : Nat → Nat) (bad : Nat → Bool) (msgs : List Msg) : Outcome :=
  match msgs with
  | [] => .panicEmpty
  | _ :: _ =>
    match scan cfg cost bad msgs msgs.length (msgs.length - 1) none 0 with
    | .err => .errTooMany
    | .fail i => .execFail i
    | .done n s q =>
      match rewriteAll cfg (msgs.drop n) [] with
      | .error _ => .errPreprocess
      | .ok (ret, imgs) => .ok q n (finalSystem cfg msgs n s) ret imgs

/-! ### bytes ↔ pieces -/

def bImg : Bytes := [91, 105, 109, 103, 93]                 -- "[img]"
def bImgDash : Bytes := [91, 105, 109, 103, 45]             -- "[img-"
def bMM : Bytes := [60, 124, 105, 109, 97, 103, 101, 124, 62] -- "<|image|>"

/-- ASCII digit -/
def digitByte (k : Nat) : UInt8 := (48 + k).toUInt8

/-- decimal digits, most significant first (`fuel` ≥ number of digits) -/
def decDigits : Nat → Nat → Bytes
  | 0, _ => []
  | fuel+1, n => if n < 10 then [digitByte n] else decDigits fuel (n / 10) ++ [digitByte (n % 10)]

/-- `%d` of a non-negative int.  Own definition (not `toString`) so that the runner's reading of the number
    (`digitsVal`) can be proved to invert it; that it prints what Go prints is part of the exact L1
    comparison of every rewritten content and prompt. -/
def natBytes (n : Nat) : Bytes := decDigits (n+1) n

def renderPiece : Piece → Bytes
  | .lit b => b
  | .slot => bImg
  | .tag k => bImgDash ++ natBytes k ++ [93]
  | .mm => bMM

def renderPieces (c : List Piece) : Bytes := c.flatMap renderPiece

def flushLit (acc : Bytes) : List Piece := if acc.isEmpty then [] else [Piece.lit acc.reverse]

/-- split raw content at every (leftmost, non-overlapping) `[img]`; `skip` = bytes of a matched
    `[img]` still to be skipped, `acc` = the reversed pending literal -/
def splitGo : Bytes → Nat → Bytes → List Piece
  | [], _, acc => flushLit acc
  | _ :: bs, skip+1, acc => splitGo bs skip acc
  | b :: bs, 0, acc =>
    if bImg.isPrefixOf (b :: bs) then flushLit acc ++ Piece.slot :: splitGo bs 4 []
    else splitGo bs 0 (b :: acc)

def splitImg (s : Bytes) : List Piece := splitGo s 0 []

/-! ### the template layer: `collate` and `Template.Execute` -/

abbrev RMsg := Role × Bytes

def sep2 : Bytes := [10, 10]

def joinSep (sep : Bytes) : List Bytes → Bytes
  | [] => []
  | [x] => x
  | x :: xs => x ++ sep ++ joinSep sep xs

/-- consecutive messages of the same role are merged with a blank line -/
def collateMsgs : List RMsg → List RMsg
  | [] => []
  | (r, c) :: rest =>
    match collateMsgs rest with
    | (r', c') :: tl => if r = r' then (r, c ++ sep2 ++ c') :: tl else (r, c) :: (r', c') :: tl
    | [] => [(r, c)]

/-- `collate`: (all system contents joined, merged messages) -/
def collate (msgs : List RMsg) : Bytes × List RMsg :=
  (joinSep sep2 ((msgs.filter (fun m => m.1 = Role.system)).map (·.2)), collateMsgs msgs)

def roleName : Role → Bytes
  | .system => [115, 121, 115, 116, 101, 109]
  | .user => [117, 115, 101, 114]
  | .assistant => [97, 115, 115, 105, 115, 116, 97, 110, 116]
  | .tool => [116, 111, 111, 108]
  | .other => [99, 111, 110, 116, 114, 111, 108]

/-! #### a subset of `text/template` parse trees, and their execution

  The driver serialises the tree that the REAL `template.Parse` produced (trim markers already
  applied, `{{ .Response }}` already appended where Parse does that), so nothing about template
  syntax is modelled — only execution.  Covered: text, `{{ expr }}`, `{{ if }}/{{ else }}`,
  `{{ range .Messages }}/{{ else }}`; expressions: `.Field`, `$.Field`, string literals,
  `eq ne not and or`.  Anything else makes the driver mark the template opaque. -/

inductive Fld | system | prompt | response | messages | role | content | tools | other
  deriving DecidableEq, Repr

inductive Expr
  | field (f : Fld)      -- `.F`   (a FieldNode)
  | root (f : Fld)       -- `$.F`  (a VariableNode: never triggers the Response cut)
  | str (b : Bytes)
  | eq (a b : Expr) | ne (a b : Expr) | not (a : Expr) | and (a b : Expr) | or (a b : Expr)
  deriving DecidableEq, Repr

inductive Node
  | text (b : Bytes)
  | action (e : Expr)
  | ite (c : Expr) (t : List Node) (hasElse : Bool) (e : List Node)
  | range (c : Expr) (t : List Node) (hasElse : Bool) (e : List Node)
  deriving Repr

/-- `tools j ne`: the request's `api.Tools` — printed through its `String()` method (`j` = the JSON
    the driver obtained from the real method; `null` for no tools), true iff non-empty -/
inductive Val | str (b : Bytes) | bool (b : Bool) | noValue | msgs (l : List RMsg)
  | tools (json : Bytes) (nonEmpty : Bool)

/-- the `Tools` of `template.Values` as far as templates of the subset can see them -/
structure ToolsV where
  json : Bytes := [110, 117, 108, 108]      -- "null"
  nonEmpty : Bool := false
  deriving DecidableEq, Repr

inductive XErr
  | exec          -- `Template.Execute` returns an error
  | panicCut      -- `deleteNode` panics (finding F4c)
  | unsupported   -- outside the modelled subset
  deriving DecidableEq, Repr

/-- result of a rendering (own type so that equalities are decidable) -/
inductive XOut | ok (b : Bytes) | err (e : XErr)
  deriving DecidableEq, Repr

/-- the `map[string]any` handed to `text/template` -/
structure Root where
  legacy : Bool
  system : Bytes
  prompt : Bytes
  response : Bytes
  msgs : List RMsg
  tools : ToolsV := {}

/-- map lookup with `missingkey=zero` on a `map[string]any`: a missing key is `<no value>` -/
def Root.get (r : Root) : Fld → Val
  | .system => .str r.system
  | .response => .str r.response
  | .prompt => if r.legacy then .str r.prompt else .noValue
  | .messages => if r.legacy then .noValue else .msgs r.msgs
  | .tools => if r.legacy then .noValue else .tools r.tools.json r.tools.nonEmpty
  | _ => .noValue

def truthy : Val → Bool
  | .str b => !b.isEmpty
  | .bool b => b
  | .noValue => false
  | .msgs l => !l.isEmpty
  | .tools _ ne => ne

def evalField (root : Root) (dot : Option RMsg) (f : Fld) : Except XErr Val :=
  match dot with
  | none => .ok (root.get f)
  | some m =>
    match f with
    | .role => .ok (.str (roleName m.1))
    | .content => .ok (.str m.2)
    | _ => .error .exec          -- can't evaluate field in type *api.Message

def eval (root : Root) (dot : Option RMsg) : Expr → Except XErr Val
  | .field f => evalField root dot f
  | .root f => .ok (root.get f)
  | .str b => .ok (.str b)
  | .eq a b =>
    match eval root dot a, eval root dot b with
    | .ok (.str x), .ok (.str y) => .ok (.bool (x = y))
    | .error e, _ => .error e
    | _, .error e => .error e
    | _, _ => .error .exec
  | .ne a b =>
    match eval root dot a, eval root dot b with
    | .ok (.str x), .ok (.str y) => .ok (.bool (x ≠ y))
    | .error e, _ => .error e
    | _, .error e => .error e
    | _, _ => .error .exec
  | .not a =>
    match eval root dot a with
    | .ok v => .ok (.bool (!truthy v))
    | .error e => .error e
  | .and a b =>
    match eval root dot a with
    | .ok v => if truthy v then eval root dot b else .ok v
    | .error e => .error e
  | .or a b =>
    match eval root dot a with
    | .ok v => if truthy v then .ok v else eval root dot b
    | .error e => .error e

def bTrue : Bytes := [116, 114, 117, 101]
def bFalse : Bytes := [102, 97, 108, 115, 101]
def bNoValue : Bytes := [60, 110, 111, 32, 118, 97, 108, 117, 101, 62]   -- "<no value>"

def printVal : Val → XOut
  | .str b => .ok b
  | .bool b => .ok (if b then bTrue else bFalse)
  | .noValue => .ok bNoValue
  | .msgs _ => .err .unsupported
  | .tools j _ => .ok j

def XOut.append : XOut → XOut → XOut
  | .ok a, .ok b => .ok (a ++ b)
  | .err e, _ => .err e
  | .ok _, .err e => .err e

mutual
def execNode (root : Root) : Node → Option RMsg → XOut
  | .text b, _ => .ok b
  | .action e, dot =>
    match eval root dot e with
    | .ok v => printVal v
    | .error x => .err x
  | .ite c t _ e, dot =>
    match eval root dot c with
    | .ok v => if truthy v then execList root t dot else execList root e dot
    | .error x => .err x
  | .range c t _ e, dot =>
    let body := execList root t
    match eval root dot c with
    | .ok (.msgs l) =>
      if l.isEmpty then execList root e dot
      else l.foldl (fun acc m => acc.append (body (some m))) (.ok [])
    | .ok .noValue => execList root e dot      -- range over an invalid value: the else branch
    | .ok _ => .err .exec                       -- range can't iterate over a string
    | .error x => .err x
def execList (root : Root) : List Node → Option RMsg → XOut
  | [], _ => .ok []
  | n :: ns, dot => (execNode root n dot).append (execList root ns dot)
end

/-! identifiers (`Template.Vars`) -/

def Expr.mentions (f : Fld) : Expr → Bool
  | .field g => g = f
  | .root g => g = f
  | .str _ => false
  | .eq a b => a.mentions f || b.mentions f
  | .ne a b => a.mentions f || b.mentions f
  | .not a => a.mentions f
  | .and a b => a.mentions f || b.mentions f
  | .or a b => a.mentions f || b.mentions f

mutual
def Node.mentions (f : Fld) : Node → Bool
  | .text _ => false
  | .action e => e.mentions f
  | .ite c t _ e => c.mentions f || nodesMention f t || nodesMention f e
  | .range c t _ e => c.mentions f || nodesMention f t || nodesMention f e
def nodesMention (f : Fld) : List Node → Bool
  | [] => false
  | n :: ns => n.mentions f || nodesMention f ns
end

/-- the touch-up at the end of `template.Parse`: append `{{ .Response }}` to templates that
    mention neither messages nor response (the driver sends the tree AFTER this step; the
    function is here so that the theorem about it can be stated) -/
def parseTouchUp (t : List Node) : List Node :=
  if nodesMention .messages t || nodesMention .response t then t
  else t ++ [Node.action (.field .response)]

/-! `deleteNode` with the predicate of `Execute`: keep the first `.Response` FieldNode, delete
    every node visited after it.  `cut` is the closure variable.  Condition pipes of `if`/`range`
    are not walked.  A non-nil else-list visited after the cut makes the Go code panic
    (`walk(t.ElseList).(*parse.ListNode)` on a nil interface) — finding F4c; `efix = true` models
    the repaired code, which drops that else-list instead. -/

inductive CutRes (α : Type)
  | ok (cut : Bool) (v : α)
  | panic
  | unsupported

/-- an action `{{ e }}` visited with `cut = false`: a lone `.Response` sets the cut and stays;
    other expressions containing a `.Response` FieldNode would be cut in the middle of the
    pipeline (not modelled) -/
def cutAction (e : Expr) : CutRes (Option Node) :=
  match e with
  | .field .response => .ok true (some (.action e))
  | _ => if (e.mentions .response && e != .root .response) then .unsupported
         else .ok false (some (.action e))

mutual
def cutNode (efix : Bool) : Node → Bool → CutRes (Option Node)
  | _, true => .ok true none                  -- fn(n) = cut = true: the node is deleted
  | .text b, false => .ok false (some (.text b))
  | .action e, false => cutAction e
  | .ite c t he e, false =>
    match cutList efix t false with
    | .ok cut t' =>
      if !he then .ok cut (some (.ite c t' false []))
      else if cut then (if efix then .ok cut (some (.ite c t' false [])) else .panic)
      else match cutList efix e false with
        | .ok cut' e' => .ok cut' (some (.ite c t' true e'))
        | .panic => .panic
        | .unsupported => .unsupported
    | .panic => .panic
    | .unsupported => .unsupported
  | .range c t he e, false =>
    match cutList efix t false with
    | .ok cut t' =>
      if !he then .ok cut (some (.range c t' false []))
      else if cut then (if efix then .ok cut (some (.range c t' false [])) else .panic)
      else match cutList efix e false with
        | .ok cut' e' => .ok cut' (some (.range c t' true e'))
        | .panic => .panic
        | .unsupported => .unsupported
    | .panic => .panic
    | .unsupported => .unsupported
def cutList (efix : Bool) : List Node → Bool → CutRes (List Node)
  | [], cut => .ok cut []
  | n :: ns, cut =>
    match cutNode efix n cut with
    | .ok cut' n' =>
      match cutList efix ns cut' with
      | .ok cut'' ns' => .ok cut'' (match n' with | some x => x :: ns' | none => ns')
      | .panic => .panic
      | .unsupported => .unsupported
    | .panic => .panic
    | .unsupported => .unsupported
end

/-- the legacy loop's pending turn -/
structure Legacy where
  sys : Bytes
  prompt : Bytes
  resp : Bytes
  out : XOut

def legacyRoot (s p r : Bytes) : Root := ⟨true, s, p, r, [], {}⟩

def legacyFlush (t : List Node) (st : Legacy) : Legacy :=
  ⟨[], [], [], st.out.append (execList (legacyRoot st.sys st.prompt st.resp) t none)⟩

/-- `collate`'s joining rule, used by the `lmode = 2` repair for a slot that is written twice -/
def joinSlot (pending content : Bytes) : Bytes :=
  if pending.isEmpty then content else pending ++ sep2 ++ content

/-- one step of the legacy loop.  `lmode = 0` is the pinned code (finding F4b: a pending turn
    is overwritten when its slot is written again before a flush); `1` = repair by flushing
    whenever the slot about to be written is occupied; `2` = repair by joining with a blank
    line, as `collate` does for adjacent messages of one role. -/
def legacyStep (lmode : Nat) (t : List Node) (st : Legacy) (m : RMsg) : Legacy :=
  match m.1 with
  | .system =>
    let st := if (lmode = 1 && !st.sys.isEmpty) || !st.prompt.isEmpty || !st.resp.isEmpty
      then legacyFlush t st else st
    { st with sys := if lmode = 2 then joinSlot st.sys m.2 else m.2 }
  | .user =>
    let st := if (lmode = 1 && !st.prompt.isEmpty) || !st.resp.isEmpty then legacyFlush t st else st
    { st with prompt := if lmode = 2 then joinSlot st.prompt m.2 else m.2 }
  | .assistant =>
    let st := if lmode = 1 && !st.resp.isEmpty then legacyFlush t st else st
    { st with resp := if lmode = 2 then joinSlot st.resp m.2 else m.2 }
  | _ => st

/-- variant of the template layer of the tree under test -/
structure TVar where
  /-- legacy loop: 0 pinned (F4b), 1 flush repair, 2 join repair -/
  lmode : Nat
  /-- `deleteNode` else-list repair (F4c) -/
  efix : Bool

/-- `Template.Execute(w, Values{Messages: msgs, Tools: tools})` for a parsed tree `t` (the legacy
    path does not pass the tools on) -/
def execute (tv : TVar) (t : List Node) (msgs : List RMsg) (tools : ToolsV := {}) : XOut :=
  let (sys, coll) := collate msgs
  if nodesMention .messages t then
    execList ⟨false, sys, [], [], coll, tools⟩ t none
  else
    let st := coll.foldl (legacyStep tv.lmode t) ⟨[], [], [], .ok []⟩
    match st.out with
    | .err e => .err e                       -- an `execute()` inside the loop failed: early return
    | .ok out =>
      match cutList tv.efix t false with
      | .panic => .err .panicCut
      | .unsupported => .err .unsupported
      | .ok _ t' => (XOut.ok out).append (execList (legacyRoot st.sys st.prompt st.resp) t' none)

def toRMsg (m : Msg) : RMsg := (m.role, renderPieces m.content)

/-- tokenizers of the harness: 0 = fields separated by space/newline, 1 = one token per byte -/
def countFields : Bytes → Bool → Nat
  | [], _ => 0
  | b :: bs, inWord =>
    if b = 32 ∨ b = 10 then countFields bs false
    else (if inWord then 0 else 1) + countFields bs true

def tokenCount (mode : Nat) (s : Bytes) : Nat :=
  if mode = 0 then countFields s false else s.length

/-- `cost` obtained from a render function and a tokenizer, as chatPrompt evaluates it -/
def costOfRender (rend : List Msg → Nat) (msgs : List Msg) (i : Nat) : Nat :=
  rend (systemsBefore msgs i ++ msgs.drop i)

/-! ### chatPrompt with the template layer inside the model -/

/-- what iteration `i` renders: `Values{Messages: system(i) ++ msgs[i:], Tools: tools}` — the tools of
    the request are part of EVERY candidate, exactly as they are part of the final prompt -/
def renderAt (tv : TVar) (t : List Node) (msgs : List Msg) (tools : ToolsV) (i : Nat) : XOut :=
  execute tv t ((systemsBefore msgs i ++ msgs.drop i).map toRMsg) tools

inductive OutcomeT
  | panicEmpty
  | errTooMany
  | errPreprocess
  /-- `Template.Execute` failed (error or panic) in the loop or in the final rendering -/
  | tmplErr (e : XErr)
  /-- the tokenizer returned an error while measuring -/
  | tokErr
  | ok (evals n : Nat) (system retained : List Msg) (images : List ImgOut) (prompt : Bytes)
  deriving DecidableEq, Repr

/-- the cost function chatPrompt really uses: tokens of the rendered candidate -/
def tcost (tv : TVar) (t : List Node) (mode : Nat) (msgs : List Msg) (tools : ToolsV) (i : Nat) : Nat :=
  match renderAt tv t msgs tools i with
  | .ok b => tokenCount mode b
  | .err _ => 0

def tbad (tv : TVar) (t : List Node) (msgs : List Msg) (tools : ToolsV) (tokFail : Option Nat) (i : Nat) : Bool :=
  (match renderAt tv t msgs tools i with
    | .ok _ => false
    | .err _ => true) || tokFail == some i

/-- `chatPrompt` for a parsed template `t`, tokenizer `mode` and the request's `tools`: the generic
    `chatPrompt` with `cost`/`bad` obtained by executing the template, followed by the final `Execute`.
    `tokFail = some i`: the tokenizer fails when asked to measure `system(i) ++ msgs[i:]`. -/
def chatPromptT (cfg : Cfg) (tv : TVar) (t : List Node) (mode : Nat) (msgs : List Msg)
    (tokFail : Option Nat := none) (tools : ToolsV := {}) : OutcomeT :=
  match chatPrompt cfg (tcost tv t mode msgs tools) (tbad tv t msgs tools tokFail) msgs with
  | .panicEmpty => .panicEmpty
  | .errTooMany => .errTooMany
  | .errPreprocess => .errPreprocess
  | .execFail i =>
    match renderAt tv t msgs tools i with
    | .err e => .tmplErr e
    | .ok _ => .tokErr
  | .ok q n sys ret imgs =>
    match execute tv t ((sys ++ ret).map toRMsg) tools with
    | .err e => .tmplErr e
    | .ok p => .ok q n sys ret imgs p

/-! ### the caller: `ChatHandler` (server/routes.go) and the runner's use of the result -/

/-- `msgs := append(m.Messages, req.Messages...)`, then the model's SYSTEM is prepended unless
    the REQUEST starts with a system message.  (`req = []` never gets here: the handler answers
    "load" before.) -/
def handlerMsgs (modelMsgs : List Msg) (modelSystem : Bytes) (req : List Msg) : List Msg :=
  match req with
  | [] => modelMsgs
  | r0 :: _ =>
    if r0.role ≠ Role.system ∧ !modelSystem.isEmpty then
      ⟨Role.system, splitImg modelSystem, []⟩ :: (modelMsgs ++ req)
    else modelMsgs ++ req

/-- `modelOptions`: the request's `num_ctx` wins over the model's PARAMETER, which wins over the
    default (`api.DefaultOptions`) -/
def requestNumCtx (dflt : Int) (modelParam reqOpt : Option Int) : Int :=
  reqOpt.getD (modelParam.getD dflt)

/-- what the scheduler loads the runner with, and stores in `runnerRef.Options`: its OWN copy of
    the options, clamped to ≥ 4 by `GetRunner` and multiplied by the number of parallel slots by
    `processPending` — not what a single chat may use -/
def runnerNumCtx (numCtx : Int) (numParallel : Nat) : Int :=
  (if numCtx < 4 then 4 else numCtx) * (if numParallel < 1 then 1 else numParallel)

/-- POST /api/chat: `scheduleRunner` returns the options it computed from model ⊕ request (the
    scheduler works on a copy), and ChatHandler passes them to chatPrompt.  `useRunnerOpts = true`
    is the behaviour of a handler that would use the loaded runner's options instead (not the
    code under test; here so that the difference can be stated). -/
def chatHandler (fixed useRunnerOpts : Bool) (tv : TVar) (t : List Node) (dflt : Int)
    (modelParam reqOpt : Option Int) (numParallel : Nat)
    (modelMsgs : List Msg) (modelSystem : Bytes) (req : List Msg) (tools : ToolsV := {}) : OutcomeT :=
  let lim := requestNumCtx dflt modelParam reqOpt
  let lim := if useRunnerOpts then runnerNumCtx lim numParallel else lim
  chatPromptT ⟨fixed, false, 0, lim⟩ tv t 0 (handlerMsgs modelMsgs modelSystem req) none tools

/-- the tags of a rendered content, in order (runner: `regexp \[img-(\d+)\]`) -/
def tagsOf (c : List Piece) : List Nat :=
  c.filterMap (fun p => match p with | .tag k => some k | _ => none)

/-- runner `inputs`: the image used for tag `n` is the first one whose `ID == n`;
    `none` = "invalid image index" -/
def resolveTag (imgs : List ImgOut) (n : Nat) : Option ImgOut := imgs.find? (fun o => o.id = n)

/-! the runner's view of the prompt BYTES: `regexp.MustCompile(`\[img-(\d+)\]`)`,
    leftmost non-overlapping matches, the number read by `strconv.Atoi` -/

def isDigit (b : UInt8) : Bool := 48 ≤ b && b ≤ 57

def digitsVal (ds : Bytes) : Nat := ds.foldl (fun acc d => 10 * acc + (d.toNat - 48)) 0

/-- a match of the regexp at the start of `s`: (number, length of the match) -/
def matchTag (s : Bytes) : Option (Nat × Nat) :=
  if bImgDash.isPrefixOf s then
    let rest := s.drop 5
    let ds := rest.takeWhile isDigit
    if ds.isEmpty then none
    else match rest.drop ds.length with
      | 93 :: _ => some (digitsVal ds, 5 + ds.length + 1)
      | _ => none
  else none

/-- all matches, left to right; `skip` = bytes of the current match still to be skipped -/
def scanTags : Bytes → Nat → List Nat
  | [], _ => []
  | _ :: bs, skip+1 => scanTags bs skip
  | b :: bs, 0 =>
    match matchTag (b :: bs) with
    | some (n, len) => n :: scanTags bs (len - 1)
    | none => scanTags bs 0

def resolveTags (imgs : List ImgOut) : List Nat → Option (List ImgOut)
  | [] => some []
  | k :: ks =>
    match resolveTag imgs k, resolveTags imgs ks with
    | some o, some os => some (o :: os)
    | _, _ => none


/-! ### the OpenAI-compatible entry: POST /v1/chat/completions → `openai.fromChatRequest` → ChatHandler -/

/-- one element of an OpenAI message's content array -/
inductive OPart
  | text (c : List Piece)
  | image (im : Img)
  deriving DecidableEq, Repr

/-- an OpenAI message: `content` is a string or an array of parts -/
inductive OContent
  | str (c : List Piece)
  | parts (ps : List OPart)
  deriving DecidableEq, Repr

structure OMsg where
  role : Role
  content : OContent
  deriving DecidableEq, Repr

def partMsg (r : Role) : OPart → Msg
  | .text c => ⟨r, c, []⟩
  | .image im => ⟨r, [], [im]⟩

/-- `fromChatRequest`, messages: a string content is one message; EVERY part of a content array becomes its
    own message of the same role — a text part a message without images, an image part a message with no
    text and exactly that image -/
def fromOpenAIMsg (m : OMsg) : List Msg :=
  match m.content with
  | .str c => [⟨m.role, c, []⟩]
  | .parts ps => ps.map (partMsg m.role)

def fromOpenAI (l : List OMsg) : List Msg := l.flatMap fromOpenAIMsg

def partImages : OPart → List Img
  | .text _ => []
  | .image im => [im]

def omsgImages (m : OMsg) : List Img :=
  match m.content with
  | .str _ => []
  | .parts ps => ps.flatMap partImages



/-! ### repair of finding F5 (variant): incoming text cannot spell the beginning of an image tag -/

/-- `strings.ReplaceAll(content, "[img-", "[img -")` (leftmost, non-overlapping; `skip` = bytes of the current match
    still to be skipped) — what the proposed repair `proposed_fixes/C19-F5-literal-image-tag.patch` applies to every
    message before anything else -/
def sanitizeGo : Bytes → Nat → Bytes
  | [], _ => []
  | _ :: bs, skip+1 => sanitizeGo bs skip
  | b :: bs, 0 =>
    if bImgDash.isPrefixOf (b :: bs) then [91, 105, 109, 103, 32, 45] ++ sanitizeGo bs 4
    else b :: sanitizeGo bs 0

def sanitizeBytes (s : Bytes) : Bytes := sanitizeGo s 0

end OllamaVerif.Prompt
