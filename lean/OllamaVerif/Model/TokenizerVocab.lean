/-
  The concrete `Vocabulary` of model/process_text.go (C20): the slices `Values`, `Types`, `Scores`, `Merges`
  and what `Vocabulary.Encode` / `Decode` / `Merge` / `SpecialVocabulary` compute from them.
  `VocabData.vocab` instantiates the abstract `Vocab` of Model/Tokenizer.lean, so every theorem proved for all
  `Vocab`s applies, and the well-formedness hypothesis `Wf` becomes a theorem (Proofs/TokenizerVocab.lean).
  Strings are code points (vocabulary entries are valid UTF-8: asserted by the driver).  Core Lean only.
-/
import OllamaVerif.Model.Tokenizer
namespace OllamaVerif.Tok

/-! ## the concrete `Vocabulary` (process_text.go): `Values`, `Types`, `Scores`, `Merges` and the lookups built from them -/

/-- the lookup maps of `Vocabulary.Encode` / `Vocabulary.Merge` are filled by iterating over the slice in order
    (`v.values[value] = int32(i)`), so a LATER duplicate overwrites an earlier one: index of the LAST occurrence -/
def lastIdxFrom : List Str → Nat → Str → Option Nat
  | [], _, _ => none
  | v :: vs, i, s =>
    match lastIdxFrom vs (i + 1) s with
    | some j => some j
    | none => if v = s then some i else none

structure VocabData where
  values : List Str
  types : List Nat
  scores : List Int
  merges : List Str

def tokenTypeControl : Nat := 3

def startOfTurn : Str := [60, 115, 116, 97, 114, 116, 95, 111, 102, 95, 116, 117, 114, 110, 62]
def endOfTurn : Str := [60, 101, 110, 100, 95, 111, 102, 95, 116, 117, 114, 110, 62]

/-- `Vocabulary.Encode`, `Decode`, `Merge` (`left + " " + right` is the key of the merge map), `Scores[id]`, `len(Values)` -/
def VocabData.vocab (D : VocabData) : Vocab where
  tokId := lastIdxFrom D.values 0
  tokStr i := D.values.getD i []
  rank l r := lastIdxFrom D.merges 0 (l ++ 32 :: r)
  score i := D.scores.getD i 0
  size := D.values.length

/-- the loop of `Vocabulary.SpecialVocabulary()`: the two gemma-3 turn markers by NAME, everything else by
    `Types[i] == TOKEN_TYPE_CONTROL`; `none` = index out of range (`Types` shorter than `Values` and a value that is
    not a turn marker is reached: the call PANICS).
    `skipEmpty` is the variant flag of finding `empty-special-hang`: `false` = the tree as pinned (an empty string
    typed CONTROL is returned as a special token, and `Encode` then never terminates), `true` = the repaired loop
    (`if v.Values[i] == "" { continue }` in front, so no `Types` access for it either). -/
def specialStringsFrom (skipEmpty : Bool) (types : List Nat) : List Str → Nat → Option (List Str)
  | [], _ => some []
  | v :: vs, i =>
    if skipEmpty = true ∧ v = [] then specialStringsFrom skipEmpty types vs (i + 1)
    else if v = startOfTurn ∨ v = endOfTurn then (specialStringsFrom skipEmpty types vs (i + 1)).map (v :: ·)
    else match types[i]? with
      | none => none
      | some t =>
        (specialStringsFrom skipEmpty types vs (i + 1)).map fun rest => if t = tokenTypeControl then v :: rest else rest

def VocabData.specialStrings (D : VocabData) (skipEmpty : Bool) : Option (List Str) :=
  specialStringsFrom skipEmpty D.types D.values 0

/-- the special tokens as `Encode` uses them, given the list `sps` that `SpecialVocabulary()` returned:
    `id := vocab.Encode(special)`; `lit` is the literal searched in the text (`toLit` = UTF-8 bytes for BPE whose
    texts are bytes, identity for SPM whose texts are code points) -/
def VocabData.specialsOf (D : VocabData) (toLit : Str → Str) (sps : List Str) : List Special :=
  sps.map fun s => ⟨toLit s, s, (D.vocab.tokId s).getD 0⟩

/-- the oracle's view: no special tokens when `SpecialVocabulary()` panics (the oracle reports the panic itself) -/
def VocabData.specials (D : VocabData) (skipEmpty : Bool) (toLit : Str → Str) : List Special :=
  D.specialsOf toLit ((D.specialStrings skipEmpty).getD [])

/-- `Scores[id]` is read for the id of every merge candidate: a `Scores` slice shorter than `Values` makes
    `SentencePieceModel.Encode` panic (index out of range) as soon as such a candidate is found -/
def VocabData.ScoresOk (D : VocabData) : Prop := D.values.length ≤ D.scores.length

end OllamaVerif.Tok
