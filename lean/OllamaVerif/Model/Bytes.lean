/-
  Byte-level helpers shared by the models (core Lean only; no Mathlib).
  Little/big endian fixed-width integers over `List UInt8`.
-/
namespace OllamaVerif

abbrev Bytes := List UInt8

/-- `w` little-endian bytes of `n` (i.e. of `n % 256^w`). -/
def leBytes : Nat → Nat → Bytes
  | 0, _ => []
  | w+1, n => UInt8.ofNat n :: leBytes w (n / 256)

/-- value of a little-endian byte string -/
def leVal : Bytes → Nat
  | [] => 0
  | b :: bs => b.toNat + 256 * leVal bs

/-- value of a big-endian byte string -/
def beVal (bs : Bytes) : Nat := leVal bs.reverse

@[simp] theorem leBytes_length (w n : Nat) : (leBytes w n).length = w := by
  induction w generalizing n with
  | zero => rfl
  | succ w ih => simp [leBytes, ih]

theorem leVal_leBytes (w n : Nat) : leVal (leBytes w n) = n % 256 ^ w := by
  induction w generalizing n with
  | zero => simp [leBytes, leVal, Nat.mod_one]
  | succ w ih =>
    simp only [leBytes, leVal, ih, UInt8.toNat_ofNat']
    have h : n % 256 ^ (w + 1) = n % 256 + 256 * (n / 256 % 256 ^ w) := by
      rw [Nat.pow_succ, Nat.mul_comm (256 ^ w) 256, Nat.mod_mul]
    rw [h]

theorem leVal_lt (bs : Bytes) : leVal bs < 256 ^ bs.length := by
  induction bs with
  | nil => simp [leVal]
  | cons b bs ih =>
    simp only [leVal, List.length_cons, Nat.pow_succ]
    have := b.toNat_lt
    omega

/-- hex rendering used by the line protocol -/
def hexDigit (n : Nat) : Char :=
  if n < 10 then Char.ofNat (48 + n) else Char.ofNat (87 + n)

def hexOf (bs : Bytes) : String :=
  String.ofList (bs.flatMap fun b => [hexDigit (b.toNat / 16), hexDigit (b.toNat % 16)])

def hexVal (c : Char) : Option Nat :=
  if '0' ≤ c ∧ c ≤ '9' then some (c.toNat - 48)
  else if 'a' ≤ c ∧ c ≤ 'f' then some (c.toNat - 87)
  else if 'A' ≤ c ∧ c ≤ 'F' then some (c.toNat - 55)
  else none

def unhexAux : List Char → Bytes → Option Bytes
  | [], acc => some acc.reverse
  | [_], _ => none
  | a :: b :: rest, acc =>
    match hexVal a, hexVal b with
    | some x, some y => unhexAux rest (UInt8.ofNat (16 * x + y) :: acc)
    | _, _ => none

/-- parse hex; the token `-` denotes the empty string -/
def unhex (s : String) : Option Bytes :=
  if s == "-" then some [] else unhexAux s.toList []

def hexOrDash (bs : Bytes) : String := if bs.isEmpty then "-" else hexOf bs

end OllamaVerif
