/-
  Executable model of server/sched.go (the model-load scheduler) as an interleaving transition
  system at the granularity of lock-protected regions and channel operations.  Core Lean only.

  One labelled transition (`Act`) per region / channel operation of
    GetRunner, processPending (incl. the inner retry loop), processCompleted (finished and expired
    cases, VRAM-recovery wait), useLoadedRunner, load + its WaitUntilRunning goroutine,
    needsReload, findRunnerToUnload, expireRunner, the keep-alive timer callback and the three
    helper goroutines (finish waiter, 10 ms expired re-queuer, reschedDelay re-queuer).
  Environment choices (request arrival, completion/cancellation, load result, ping result,
  memory-fit answers, timer firing, explicit unload) are parameters of the actions.

  Two behaviours are parameters (`Variant`), regenerated from the source by the check:
    guardDelete  – the expired handler deletes `loaded[path]` only if it still is the expiring runner
    recheckGrant – useLoadedRunner re-validates the runner (llama != nil) after taking refMu
  Upstream's pinned tree is `⟨false, false⟩`; the repaired tree is `⟨true, true⟩`.

  Ghost state (not in the Go code): `Runner.holders` – the requests that were handed the runner and
  whose finish event has not been processed yet; `Req.heldBy` – the inverse map.  A finish event
  releases the ghost hold of the runner the request REALLY holds, while the code decrements the
  counter of whichever runner `loaded[path]` names at that moment.
-/
namespace OllamaVerif.Sched

abbrev ReqId := Nat
abbrev Rid := Nat
abbrev ModelId := Nat

structure Variant where
  guardDelete : Bool
  recheckGrant : Bool
deriving Repr, DecidableEq

def Variant.pinned : Variant := ⟨false, false⟩
def Variant.good : Variant := ⟨true, true⟩

structure Runner where
  model : ModelId := 0
  opts : Nat := 0            -- abstract load options (compatibility = equality)
  refCount : Nat := 0
  wrapped : Bool := false    -- `refCount--` on 0 (uint underflow): counts as "> 0" forever after
  session : Nat := 0         -- sessionDuration class: 0 = expire when idle, > 0 = keep alive
  timerObj : Bool := false   -- expireTimer != nil
  timerArmed : Bool := false -- the timer may still fire
  closed : Bool := false     -- unload() ran: llama == nil, Options == nil
  closeCount : Nat := 0      -- number of llama.Close() calls
  loading : Bool := false
  pingOk : Bool := true      -- what llama.Ping currently answers (environment-controlled)
  pingBlock : Bool := false  -- Ping parks until the environment answers (`pingDone`)
  pingHeld : Bool := false   -- refMu held by needsReload across a parked Ping
  pingOpen : Bool := false   -- the parked Ping does NOT keep refMu: the scheduler thread is descheduled right after
                             -- needsReload returned (Ping is the last thing it evaluates), before useLoadedRunner
  refMuHeld : Bool := false  -- refMu held by the load goroutine across WaitUntilRunning
  loaderReq : ReqId := 0     -- the request whose load goroutine created this runner
  holders : List ReqId := [] -- ghost
deriving Repr, DecidableEq

structure Req where
  model : ModelId := 0
  opts : Nat := 0
  session : Option Nat := none   -- keep_alive override
  done : Bool := false           -- request context finished (completed or cancelled)
  replies : Nat := 0
  gotRunner : Option Rid := none
  gotErr : Bool := false
  heldBy : Option Rid := none    -- ghost: the runner this request was handed and has not released yet
  dropped : Bool := false        -- ghost: skipped by the pending loop because it was already cancelled
deriving Repr, DecidableEq

inductive PPC
  | idle
  | eval (q : ReqId)
  | needsReload (q : ReqId) (r : Rid)
  | pinging (q : ReqId) (r : Rid)      -- needsReload is inside llama.Ping, holding refMu
  | use (q : ReqId) (r : Rid)
  | expire (q : ReqId) (r : Rid)
  | waitUnload (q : ReqId) (r : Rid)    -- r: the runner told to expire (ghost; the code only waits for any unload event)
  | load (q : ReqId)
deriving Repr, DecidableEq

inductive CPC
  | idle
  | fin (q : ReqId) (r : Rid)
  | exp (r : Rid)
  | vram (r : Rid)
deriving Repr, DecidableEq

structure State where
  nRunners : Nat := 0
  runners : Rid → Runner := fun _ => {}
  nReqs : Nat := 0
  reqs : ReqId → Req := fun _ => {}
  loaded : List (ModelId × Rid) := []
  pendingQ : List ReqId := []
  finishedQ : List ReqId := []
  expiredQ : List Rid := []
  unloadedQ : Nat := 0
  ppc : PPC := .idle
  cpc : CPC := .idle
  finishWaiters : List ReqId := []
  requeuers : List Rid := []
  delayed : List ReqId := []
  loaders : List ReqId := []   -- requests whose load goroutine is in WaitUntilRunning
  timerCbs : List Rid := []
  unloaders : List Rid := []   -- expireRunner calls parked on the refMu of a runner that is still loading
  unloadCalls : List ModelId := []  -- expireRunner calls that have not got loadedMu yet (they pick the runner when they do)
  maxRunners : Nat := 0      -- OLLAMA_MAX_LOADED_MODELS (0 = not set yet)
  maxQueue : Nat := 512
  defaultSession : Nat := 1  -- OLLAMA_KEEP_ALIVE class

def upd {α : Type} (f : Nat → α) (i : Nat) (v : α) : Nat → α := fun j => if j = i then v else f j

def lookup (l : List (ModelId × Rid)) (m : ModelId) : Option Rid :=
  (l.find? (fun p => p.1 = m)).map (·.2)

def removeKey (l : List (ModelId × Rid)) (m : ModelId) : List (ModelId × Rid) :=
  l.filter (fun p => p.1 ≠ m)

/-- refMu is held for a long time by someone else: the load goroutine, or needsReload in a parked Ping -/
def Runner.locked (r : Runner) : Bool := r.refMuHeld || r.pingHeld

/-- `refCount <= 0` on a uint -/
def Runner.isZero (r : Runner) : Bool := r.refCount = 0 && !r.wrapped

/-- `Stop(); expireTimer = nil` -/
def Runner.stopTimer (r : Runner) : Runner := { r with timerObj := false, timerArmed := false }

/-- answers of the environment to the memory-fit questions of one scheduling attempt -/
structure Fit where
  loadModelOk : Bool := true   -- llm.LoadModel succeeded
  ngpus : Nat := 1             -- size of the GPU list (for the automatic runner limit)
  reliable : Bool := true      -- all GPUs report free memory reliably
  cpu : Bool := false          -- the GPU list is the single "cpu" entry
  cpuFits : Bool := true       -- estimate.TotalSize <= free system memory
  fitsFull : Bool := true      -- pickBestFullFitByLibrary on the GPUs left free by loaded models
  someBusy : Bool := false     -- some GPU is excluded because a model is still loading on it
deriving Repr, DecidableEq

/-- findRunnerToUnload: sort by (sessionDuration, model path), first idle runner, else the first -/
def insertBy (s : State) (x : Rid) : List Rid → List Rid
  | [] => [x]
  | y :: ys =>
    let rx := s.runners x
    let ry := s.runners y
    if rx.session < ry.session ∨ (rx.session = ry.session ∧ rx.model ≤ ry.model) then x :: y :: ys
    else y :: insertBy s x ys

def sortVictims (s : State) (l : List Rid) : List Rid := l.foldr (insertBy s) []

def findVictim (s : State) : Option Rid :=
  let l := sortVictims s (s.loaded.map (·.2))
  match l.find? (fun r => (s.runners r).refCount = 0 && !(s.runners r).wrapped) with
  | some r => some r
  | none => l.head?

/-- outcome of one pass of processPending's inner loop for a request whose model may or may not be loaded -/
inductive Decision
  | reuse (r : Rid)   -- a runner for the model is in `loaded`: evaluate needsReload
  | evict             -- make room: findRunnerToUnload
  | load              -- start a new runner
  | fail              -- llm.LoadModel failed: error reply
  | delay             -- other models are still loading on the GPUs: re-queue after reschedDelay
deriving Repr, DecidableEq

/-- `true` iff this pass reaches the "no user specified MaxRunners" block -/
def reachesAuto (s : State) (q : ReqId) : Bool :=
  (lookup s.loaded (s.reqs q).model).isNone && !(s.maxRunners > 0 && s.loaded.length ≥ s.maxRunners)

/-- the runner limit in force after this pass (the HACK that sets OLLAMA_MAX_LOADED_MODELS) -/
def effMax (s : State) (fit : Fit) (q : ReqId) : Nat :=
  if reachesAuto s q ∧ s.maxRunners = 0 then (if fit.reliable then 3 * fit.ngpus else fit.ngpus) else s.maxRunners

/-- the decision logic of processPending's inner loop, stated outright -/
def decideLoad (s : State) (fit : Fit) (q : ReqId) : Decision :=
  let count := s.loaded.length
  match lookup s.loaded (s.reqs q).model with
  | some r => .reuse r
  | none =>
    if s.maxRunners > 0 ∧ count ≥ s.maxRunners then .evict
    else if ¬ fit.loadModelOk then .fail
    else if fit.cpu then (if count = 0 ∨ fit.cpuFits then .load else .evict)
    else if count = 0 then .load
    else if fit.fitsFull then .load
    else if fit.someBusy then .delay
    else .evict

inductive Act
  -- environment
  | submit (m : ModelId) (opts : Nat) (session : Option Nat)
  | done (q : ReqId)                       -- request context finished (completion or cancellation)
  | loadDone (r : Rid) (ok : Bool)         -- WaitUntilRunning returned
  | timerFire (r : Rid)
  | explicitUnload (m : ModelId)           -- Scheduler.expireRunner
  | setPing (r : Rid) (ok : Bool)          -- the runner's health check starts answering ok / failing
  | setPingBlock (r : Rid)                 -- from now on the runner's health check parks until answered
  | pingDone (r : Rid) (ok : Bool)         -- a parked health check returns (ok = false also models its 10 s timeout)
  -- processPending
  | pTake
  | pDrainUnloaded
  | pLookup (fit : Fit)
  | pNeedsReload
  | pUse
  | pExpire
  | pWaitUnload
  | pLoad (ok : Bool)                      -- newServerFn result
  -- processCompleted
  | cTakeFinished
  | cFin
  | cTakeExpired
  | cExp
  | cVram
  -- helper goroutines
  | requeue (r : Rid)
  | delayedRequeue (q : ReqId)
  | finishSend (q : ReqId)
  | timerCb (r : Rid)
  | unloadRun (r : Rid)                    -- a parked expireRunner call gets refMu
  | unloadBind (m : ModelId)               -- an expireRunner call gets loadedMu and looks its runner up
  | setPingOpen (r : Rid)                  -- environment: the next health check parks with refMu released (see `pingOpen`)
deriving Repr, DecidableEq

def setRunner (s : State) (r : Rid) (x : Runner) : State := { s with runners := upd s.runners r x }
def setReq (s : State) (q : ReqId) (x : Req) : State := { s with reqs := upd s.reqs q x }

def replyErr (s : State) (q : ReqId) : State :=
  let x := s.reqs q
  setReq s q { x with replies := x.replies + 1, gotErr := true }

def replyRunner (s : State) (q : ReqId) (r : Rid) : State :=
  let x := s.reqs q
  setReq s q { x with replies := x.replies + 1, gotRunner := some r, heldBy := some r }

/-- ghost: request `q` lets go of the runner it really holds -/
def releaseHold (s : State) (q : ReqId) : State :=
  match (s.reqs q).heldBy with
  | none => s
  | some r0 =>
    let s := setRunner s r0 { s.runners r0 with holders := (s.runners r0).holders.erase q }
    setReq s q { s.reqs q with heldBy := none }

/-- the "trigger an expiration" region shared by processPending and expireRunner -/
def triggerExpire (s : State) (r : Rid) : State :=
  let x := (s.runners r).stopTimer
  let x := { x with session := 0 }
  let s := setRunner s r x
  if x.isZero then { s with expiredQ := s.expiredQ ++ [r] } else s

/-- the finished-request region of processCompleted on the runner `loaded[path]` named:
    `refCount--`, then expire now / arm the keep-alive timer when it reached zero -/
def finishOn (s : State) (r : Rid) : State :=
  let x := s.runners r
  let x := if x.refCount = 0 then { x with wrapped := true } else { x with refCount := x.refCount - 1 }
  let s := { s with cpc := .idle }
  if x.isZero then
    if x.session = 0 then { setRunner s r x.stopTimer with expiredQ := s.expiredQ ++ [r] }
    else setRunner s r { x with timerObj := true, timerArmed := true }
  else setRunner s r x

def step (v : Variant) (s : State) : Act → Option State
  | .submit m opts session =>
    let q := s.nReqs
    let s := { s with nReqs := q + 1, reqs := upd s.reqs q { model := m, opts := opts, session := session } }
    if s.pendingQ.length < s.maxQueue then some { s with pendingQ := s.pendingQ ++ [q] }
    else some (replyErr s q)                      -- ErrMaxQueue, never blocks
  | .done q =>
    if q < s.nReqs ∧ ¬ (s.reqs q).done then some (setReq s q { s.reqs q with done := true }) else none
  | .loadDone r ok =>
    if ¬ (r < s.nRunners ∧ (s.runners r).refMuHeld) then none
    else
      let x := s.runners r
      let q := x.loaderReq
      let s := { s with loaders := s.loaders.erase q }
      if ok then
        let x := { x with loading := false, refMuHeld := false, holders := q :: x.holders }
        let s := setRunner s r x
        let s := { s with finishWaiters := q :: s.finishWaiters }
        some (replyRunner s q r)
      else
        let x := if x.refCount = 0 then { x with wrapped := true } else { x with refCount := x.refCount - 1 }
        let x := { x with refMuHeld := false }
        let s := setRunner s r x
        let s := replyErr s q
        some { s with expiredQ := s.expiredQ ++ [r] }
  | .timerFire r =>
    if r < s.nRunners ∧ (s.runners r).timerArmed then
      some { setRunner s r { s.runners r with timerArmed := false } with timerCbs := r :: s.timerCbs }
    else none
  | .explicitUnload m =>
    -- the call is asynchronous: which runner it expires is decided when it gets loadedMu (`unloadBind`),
    -- possibly much later (another expireRunner call parked on a loading runner holds loadedMu meanwhile)
    some { s with unloadCalls := m :: s.unloadCalls }
  | .pTake =>
    match s.ppc, s.pendingQ with
    | .idle, q :: rest =>
      let s := { s with pendingQ := rest }
      if (s.reqs q).done then some (setReq s q { s.reqs q with dropped := true })
      else some { s with ppc := .eval q }
    | _, _ => none
  | .pDrainUnloaded =>
    match s.ppc with
    | .idle => if s.unloadedQ > 0 then some { s with unloadedQ := s.unloadedQ - 1 } else none
    | _ => none
  | .pLookup fit =>
    match s.ppc with
    | .eval q =>
      if fit.ngpus = 0 then none            -- the GPU list always has at least the cpu entry
      else
        let s1 := { s with maxRunners := effMax s fit q }
        match decideLoad s fit q with
        | .reuse r => some { s with ppc := .needsReload q r }
        | .evict =>
          match findVictim s with
          | some vic => some { s1 with ppc := .expire q vic }
          | none => some s1                       -- "runner to expire was nil!": retry
        | .load => some { s1 with ppc := .load q }
        | .fail => some { replyErr s1 q with ppc := .idle }
        | .delay => some { s1 with ppc := .idle, delayed := q :: s1.delayed }
    | _ => none
  | .setPing r ok =>
    if r < s.nRunners then some (setRunner s r { s.runners r with pingOk := ok, pingBlock := false, pingOpen := false }) else none
  | .setPingBlock r =>
    if r < s.nRunners then some (setRunner s r { s.runners r with pingBlock := true, pingOpen := false }) else none
  | .setPingOpen r =>
    if r < s.nRunners then some (setRunner s r { s.runners r with pingBlock := true, pingOpen := true }) else none
  | .pingDone r ok =>
    match s.ppc with
    | .pinging q r' =>
      if r' = r then
        some { setRunner s r { s.runners r with pingHeld := false } with ppc := if ok then .use q r else .expire q r }
      else none
    | _ => none
  | .pNeedsReload =>
    match s.ppc with
    | .needsReload q r =>
      let x := s.runners r
      if x.locked then none
      else if x.closed ∨ x.opts ≠ (s.reqs q).opts then some { s with ppc := .expire q r }   -- Ping not reached
      else if x.pingBlock then some { setRunner s r { x with pingHeld := !x.pingOpen } with ppc := .pinging q r }
      else if ¬ x.pingOk then some { s with ppc := .expire q r }
      else some { s with ppc := .use q r }
    | _ => none
  | .pUse =>
    match s.ppc with
    | .use q r =>
      let x := s.runners r
      if x.locked then none
      else if v.recheckGrant ∧ x.closed then some { s with ppc := .eval q }
      else
        let x := x.stopTimer
        let x := { x with refCount := x.refCount + 1, holders := q :: x.holders,
                          session := ((s.reqs q).session).getD x.session }
        let s := setRunner s r x
        let s := replyRunner s q r
        some { s with ppc := .idle, finishWaiters := q :: s.finishWaiters }
    | _ => none
  | .pExpire =>
    match s.ppc with
    | .expire q r =>
      if (s.runners r).locked then none
      else some { triggerExpire s r with ppc := .waitUnload q r }
    | _ => none
  | .pWaitUnload =>
    match s.ppc with
    | .waitUnload q _ => if s.unloadedQ > 0 then some { s with unloadedQ := s.unloadedQ - 1, ppc := .eval q } else none
    | _ => none
  | .pLoad ok =>
    match s.ppc with
    | .load q =>
      if ¬ ok then some { replyErr s q with ppc := .idle }
      else
        let r := s.nRunners
        let rq := s.reqs q
        let x : Runner := { model := rq.model, opts := rq.opts, refCount := 1, loading := true, refMuHeld := true,
                            loaderReq := q, session := (rq.session).getD s.defaultSession }
        some { s with nRunners := r + 1, runners := upd s.runners r x,
                      loaded := (rq.model, r) :: removeKey s.loaded rq.model,
                      loaders := q :: s.loaders, ppc := .idle }
    | _ => none
  | .cTakeFinished =>
    match s.cpc, s.finishedQ with
    | .idle, q :: rest =>
      let s := { s with finishedQ := rest }
      match lookup s.loaded (s.reqs q).model with
      | none => some s                                   -- "finished request signal received after model unloaded"
      | some r => some { s with cpc := .fin q r }
    | _, _ => none
  | .cFin =>
    match s.cpc with
    | .fin q r => if (s.runners r).locked then none else some (finishOn (releaseHold s q) r)
    | _ => none
  | .cTakeExpired =>
    match s.cpc, s.expiredQ with
    | .idle, r :: rest => some { s with expiredQ := rest, cpc := .exp r }
    | _, _ => none
  | .cExp =>
    match s.cpc with
    | .exp r =>
      let x := s.runners r
      if x.locked then none
      else if ¬ x.isZero then some { s with cpc := .idle, requeuers := r :: s.requeuers }
      else
        -- unload(): Close only if llama != nil
        let x' := x.stopTimer
        let x' := if x.closed then x' else { x' with closed := true, closeCount := x.closeCount + 1 }
        let s := setRunner s r x'
        let del := if v.guardDelete then lookup s.loaded x.model = some r else true
        let s := if del then { s with loaded := removeKey s.loaded x.model } else s
        some { s with cpc := .vram r }
    | _ => none
  | .cVram =>
    match s.cpc with
    | .vram _ => some { s with cpc := .idle, unloadedQ := s.unloadedQ + 1 }
    | _ => none
  | .requeue r =>
    if r ∈ s.requeuers then some { s with requeuers := s.requeuers.erase r, expiredQ := s.expiredQ ++ [r] } else none
  | .delayedRequeue q =>
    if q ∈ s.delayed ∧ s.pendingQ.length < s.maxQueue then
      some { s with delayed := s.delayed.erase q, pendingQ := s.pendingQ ++ [q] }
    else none
  | .finishSend q =>
    if q ∈ s.finishWaiters ∧ (s.reqs q).done then
      some { s with finishWaiters := s.finishWaiters.erase q, finishedQ := s.finishedQ ++ [q] }
    else none
  | .timerCb r =>
    if r ∈ s.timerCbs ∧ ¬ (s.runners r).locked then
      let s := { s with timerCbs := s.timerCbs.erase r }
      some { setRunner s r (s.runners r).stopTimer with expiredQ := s.expiredQ ++ [r] }
    else none

  | .unloadRun r =>
    if r ∈ s.unloaders ∧ ¬ (s.runners r).locked then
      some (triggerExpire { s with unloaders := s.unloaders.erase r } r)
    else none
  | .unloadBind m =>
    if m ∈ s.unloadCalls then
      let s := { s with unloadCalls := s.unloadCalls.erase m }
      match lookup s.loaded m with
      | none => some s
      | some r =>
        -- while the load goroutine holds refMu the call parks (holding loadedMu) and runs afterwards
        if (s.runners r).locked then some { s with unloaders := r :: s.unloaders } else some (triggerExpire s r)
    else none

/-- run a trace of actions; `none` if some action is not enabled -/
def run (v : Variant) : State → List Act → Option State
  | s, [] => some s
  | s, a :: as => match step v s a with
    | some s' => run v s' as
    | none => none

/-- reachability from an initial configuration -/
inductive Reach (v : Variant) (s0 : State) : State → Prop
  | init : Reach v s0 s0
  | step {s s' : State} (a : Act) : Reach v s0 s → step v s a = some s' → Reach v s0 s'

def init (maxRunners maxQueue defaultSession : Nat) : State :=
  { maxRunners := maxRunners, maxQueue := maxQueue, defaultSession := defaultSession }

end OllamaVerif.Sched
