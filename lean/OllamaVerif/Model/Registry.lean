/-
  C09 — model of the registry client (server/internal/client/ollama/registry.go Pull / Push),
  of the chunked blob writer it uses (server/internal/cache/blob/chunked.go, cache.go
  checkWriter), of the retry loop of server/internal/registry/server.go handlePull, and of the
  legacy push path (server/images.go PushModel, server/upload.go uploadBlob / blobUpload.Run).

  Core Lean only.  SHA-256 is an uninterpreted function `H : Bytes → D` (the oracle
  instantiates `D := Bytes`, `H := id`, i.e. a digest is represented by its pre-image; this is
  exact as long as SHA-256 does not collide on the byte strings of a run).

  The model mirrors the code that exists, defects included:
    * `Chunked` opens the FINAL file (no temp file, no truncation); a chunk is written at its
      offset piece by piece, and only the LAST piece of a chunk is withheld when the chunk
      digest does not match;
    * a layer is skipped when a file of the manifest's size exists (`c.Get` size shortcut);
    * chunk plans come from the registry and are used as served (overlapping, repeated,
      not covering, beyond the layer size, cut short);
    * a chunk is skipped when its marker blob exists;
    * success = no goroutine error ∧ byte counter = Σ layer sizes; then manifest Put + Link.
-/
import OllamaVerif.Model.Bytes
namespace OllamaVerif.Registry
open OllamaVerif

/-! ## Cache state -/

structure Layer (D : Type) where
  digest : D
  size : Nat
deriving DecidableEq, Repr

/-- a manifest as the client sees it: `id` stands for the raw bytes `m.Data`, `dataLen` for their
    length (the only thing `Link`'s same-size shortcut looks at) -/
structure Manifest (D : Type) where
  id : Nat
  dataLen : Nat
  layers : List (Layer D)
  config : Option (Layer D)
deriving DecidableEq, Repr

/-- `layers = append(m.Layers, m.Config)` -/
def Manifest.all {D} (m : Manifest D) : List (Layer D) := m.layers ++ m.config.toList

def expected {D} (m : Manifest D) : Nat := (m.all.map (·.size)).sum

/-- one line of a chunksums response: digest, first byte, number of bytes (`End-Start+1`) -/
structure CS (D : Type) where
  digest : D
  start : Nat
  len : Nat
deriving DecidableEq, Repr

/-- key of a "v1 pull chunksum <layer> <chunk> <start>-<end>" marker blob -/
structure Marker (D : Type) where
  layer : D
  chunk : D
  start : Nat
  len : Nat
deriving DecidableEq, Repr

structure Cache (D : Type) where
  /-- blobs/sha256-<digest>: `none` = no such file.  Holes of a sparse file read as zeros. -/
  files : D → Option Bytes
  markers : Marker D → Bool
  /-- manifests/<name> -/
  links : Nat → Option (Manifest D)
  /-- blobs/sha256-<digest>-chunked: the staging file of the `staged` variant
      (proposed_fixes/C09-F10d-stage-chunked-blob.patch); unused otherwise -/
  staging : D → Option Bytes := fun _ => none

def Cache.empty {D} : Cache D := ⟨fun _ => none, fun _ => false, fun _ => none, fun _ => none⟩

/-- which tree is modelled.  `verify`: every layer is re-hashed before `Link` (in /repo since
    2258da28d).  `staged`: `Chunked` assembles the chunks in a staging file that is verified as a
    whole and renamed by `CommitChunked`; the final blob file is never opened for writing. -/
structure Variant where
  verify : Bool := false
  staged : Bool := false

section
variable {D : Type} [DecidableEq D]

def Cache.setFile (c : Cache D) (d : D) (f : Bytes) : Cache D :=
  { c with files := fun x => if x = d then some f else c.files x }

/-- the file the Chunker writes to -/
def Cache.work (v : Variant) (c : Cache D) (d : D) : Option Bytes :=
  if v.staged then c.staging d else c.files d

def Cache.setWork (v : Variant) (c : Cache D) (d : D) (f : Bytes) : Cache D :=
  if v.staged then { c with staging := fun x => if x = d then some f else c.staging x }
  else c.setFile d f

def Cache.setMarker (c : Cache D) (m : Marker D) : Cache D :=
  { c with markers := fun x => if x = m then true else c.markers x }

/-- `DiskCache.Link` → `copyNamedFile(manifestPath, …)`.  With `sameSizeShortcut` (the pinned
    behaviour, finding F8 of C08) an existing link whose manifest has the same byte length is
    left untouched. -/
def Cache.link (sameSizeShortcut : Bool) (c : Cache D) (name : Nat) (m : Manifest D) : Cache D :=
  match c.links name with
  | some old =>
    if sameSizeShortcut && old.dataLen == m.dataLen then c
    else { c with links := fun x => if x = name then some m else c.links x }
  | none => { c with links := fun x => if x = name then some m else c.links x }

/-! ## Chunker.Put through checkWriter -/

def zeros (n : Nat) : Bytes := List.replicate n 0

/-- `io.NewOffsetWriter(f, off).Write(data)` on a file that is never truncated; a zero-length
    write does not happen (`io.Copy` only writes when `nr > 0`) -/
def writeAt (f : Bytes) (off : Nat) (data : Bytes) : Bytes :=
  if data.isEmpty then f
  else (f ++ zeros (off - f.length)).take off ++ data ++ f.drop (off + data.length)

inductive ErrClass where
  | status4xx | status5xx | notFound | transport | canceled | eof | readErr | digest
  | incomplete | invalidManifest
  | deadline      -- `ReadTimeout` expired: the request's context is cancelled with DeadlineExceeded
deriving DecidableEq, Repr

/-- how a response body ends after its pieces: clean EOF or a read error (reset, cancellation,
    read timeout) -/
inductive BodyEnd where
  | eof | err
  /-- the body goes silent: `Read` blocks until the chunk's read timer (reset on every read)
      cancels the request with DeadlineExceeded -/
  | stall
deriving DecidableEq, Repr

def BodyEnd.cls : BodyEnd → ErrClass
  | .eof => .eof
  | .err => .readErr
  | .stall => .deadline

/-- `io.CopyN(checkWriter, body, rem)`: every `Read` result (a piece, cut to the remaining limit)
    is hashed and written at the running offset, except that the write which would complete the
    chunk is refused when the digest of everything read differs from `d`.
    Returns the file and `none` on success. -/
def putLoop {D : Type} [DecidableEq D] (H : Bytes → D) (d : D) (f : Bytes) (off rem : Nat) (acc : Bytes) :
    List Bytes → BodyEnd → Bytes × Option ErrClass
  | [], fin => if rem = 0 then (f, none) else (f, some fin.cls)
  | p :: ps, fin =>
    if rem = 0 then (f, none)
    else if (p.take rem).length = rem then
      (if H (acc ++ p.take rem) = d then (writeAt f off (p.take rem), none) else (f, some .digest))
    else putLoop H d (writeAt f off (p.take rem)) (off + (p.take rem).length)
            (rem - (p.take rem).length) (acc ++ p.take rem) ps fin

/-! ## One `Pull` attempt: the main goroutine, the errgroup slots, the adversary's steps -/

/-- answer to a chunk GET -/
inductive ChunkResp where
  | fail (e : ErrClass)
  | body (pieces : List Bytes) (fin : BodyEnd)
  /-- 301/302/303/307/308 with `Location`: net/http follows (the request is a body-less GET); the
      chunk goroutine does not notice, the same request is waiting again (fewer than 10 hops) -/
  | redirect
deriving Repr

/-- answer to a chunksums GET: the request fails, or the entries the scanner delivered before
    the stream ended or broke (how it ended is invisible to `Pull`) -/
inductive PlanResp (D : Type) where
  | fail
  | list (entries : List (CS D))
deriving Repr

/-- a chunk goroutine that has sent its request and waits for the registry -/
structure Task (D : Type) where
  entry : Nat
  layer : Layer D
  cs : CS D
  /-- `Chunked` returned the file-less "pre-validated" Chunker: `Put` is a no-op -/
  prevalid : Bool
deriving Repr

def Task.key (t : Task D) : Marker D := ⟨t.layer.digest, t.cs.digest, t.cs.start, t.cs.len⟩

/-- program of the main goroutine of `Pull` after `Resolve` -/
inductive Op (D : Type) where
  | beginL (entry : Nat) (l : Layer D) (big : Bool)
  | chunk (entry : Nat) (l : Layer D) (cs : CS D)
  /-- a chunk that has passed the marker check and waits in `g.Go` for a free slot (the marker
      is NOT looked at again when the slot frees up) -/
  | launch (entry : Nat) (l : Layer D) (cs : CS D)
  | closeL (entry : Nat)
deriving Repr

structure Run (D : Type) where
  cache : Cache D
  ops : List (Op D)
  skipLayer : Bool := false
  skipChunks : Bool := false
  prevalid : Bool := false
  inflight : List (Task D) := []
  closers : List Nat := []
  completed : Nat := 0
  firstErr : Option ErrClass := none
  cancelled : Bool := false

/-- slots of the errgroup in use: chunk goroutines + the per-layer closer goroutines that still
    wait for one of their chunks -/
def slotsUsed (st : Run D) : Nat :=
  st.inflight.length + (st.closers.filter fun e => st.inflight.any (·.entry == e)).length

/-- `limit = none` is `MaxStreams < 0` -/
def slotFree (limit : Option Nat) (st : Run D) : Bool :=
  match limit with
  | none => true
  | some n => slotsUsed st < n

/-- `c.Get(l.Digest)`: a non-empty file of the manifest's size exists -/
def shortcut (c : Cache D) (l : Layer D) : Bool :=
  match c.files l.digest with
  | some f => f.length != 0 && f.length == l.size
  | none => false

/-- `c.Chunked`: the file-less pre-validated Chunker when a file of that size exists … -/
def prevalidated (c : Cache D) (l : Layer D) : Bool :=
  match c.files l.digest with
  | some f => f.length == l.size
  | none => false

/-- … else `os.OpenFile(name, O_CREATE|O_WRONLY)`: the final file (the staging file in the
    `staged` variant), created if absent, never truncated -/
def ensureFile (v : Variant) (c : Cache D) (d : D) : Cache D :=
  match c.work v d with
  | some _ => c
  | none => c.setWork v d []

def orElse (a : Option ErrClass) (b : ErrClass) : Option ErrClass :=
  match a with
  | some e => some e
  | none => some b

/-- is the marker of this chunk honoured?  Pinned: whenever the marker blob exists.  Repaired
    (`verify`): only while the blob file still covers the chunk. -/
def markerHit (v : Variant) (c : Cache D) (l : Layer D) (cs : CS D) : Bool :=
  c.markers ⟨l.digest, cs.digest, cs.start, cs.len⟩ &&
    (!v.verify || match c.work v l.digest with
      | some f => decide (cs.start + cs.len < f.length + 1)
      | none => false)

/-- run the main goroutine until it blocks on a full errgroup or reaches `g.Wait()` -/
def advance (v : Variant) (limit : Option Nat) : Run D → List (Op D) → Run D
  | st, [] => { st with ops := [] }
  | st, .beginL _ l big :: rest =>
    if shortcut st.cache l then
      advance v limit { st with completed := st.completed + l.size, skipLayer := true } rest
    else
      advance v limit { st with cache := (if prevalidated st.cache l then st.cache else ensureFile v st.cache l.digest),
                                skipLayer := false,
                                     skipChunks := big && st.cancelled, prevalid := prevalidated st.cache l } rest
  | st, .chunk e l cs :: rest =>
    if st.skipLayer || st.skipChunks then advance v limit st rest
    else if markerHit v st.cache l cs then
      advance v limit { st with completed := st.completed + cs.len } rest
    else if !slotFree limit st then { st with ops := .launch e l cs :: rest }
    else if st.cancelled then
      advance v limit { st with firstErr := orElse st.firstErr .canceled } rest
    else advance v limit { st with inflight := st.inflight ++ [⟨e, l, cs, st.prevalid⟩] } rest
  | st, .launch e l cs :: rest =>
    if !slotFree limit st then { st with ops := .launch e l cs :: rest }
    else if st.cancelled then
      advance v limit { st with firstErr := orElse st.firstErr .canceled } rest
    else advance v limit { st with inflight := st.inflight ++ [⟨e, l, cs, st.prevalid⟩] } rest
  | st, .closeL e :: rest =>
    if st.skipLayer then advance v limit st rest
    else if !slotFree limit st then { st with ops := .closeL e :: rest }
    else advance v limit { st with closers := st.closers ++ [e] } rest

/-- the chunk goroutine after the registry answered -/
def applyTask (H : Bytes → D) (v : Variant) (st : Run D) (t : Task D) : ChunkResp → Run D
  | .fail e => { st with firstErr := orElse st.firstErr e }
  | .redirect => st
  | .body pieces fin =>
    if t.prevalid then { st with cache := st.cache.setMarker t.key }
    else
      let f := (st.cache.work v t.layer.digest).getD []
      let r := putLoop H t.cs.digest f t.cs.start t.cs.len [] pieces fin
      let cache := st.cache.setWork v t.layer.digest r.1
      match r.2 with
      | none => { st with cache := cache.setMarker t.key, completed := st.completed + t.cs.len }
      | some e => { st with cache := cache, firstErr := orElse st.firstErr e }

/-- does the chunk goroutine end up blocked in `Read` on a silent body?  (it reads the body at
    all, and the pieces delivered before the silence do not complete the chunk) -/
def stalls (t : Task D) : ChunkResp → Bool
  | .body pieces .stall => !t.prevalid && decide (pieces.flatten.length < t.cs.len)
  | _ => false

def isRedirect : ChunkResp → Bool
  | .redirect => true
  | _ => false

/-- a move of the adversary at a quiescent point: answer the `k`-th waiting chunk request
    (launch order), or cancel the context -/
inductive Step where
  | release (k : Nat) (r : ChunkResp)
  | cancel
  /-- the registry stays silent for longer than `ReadTimeout`: the timer of every waiting chunk
      request fires and cancels that request (not the pull); chunks launched afterwards get
      fresh timers -/
  | timeout
deriving Repr

def step (H : Bytes → D) (v : Variant) (limit : Option Nat) (st : Run D) : Step → Option (Run D)
  | .release k r =>
    match st.inflight[k]? with
    | none => none
    | some t =>
      if isRedirect r then some st else
      let st1 := applyTask H v { st with inflight := st.inflight.eraseIdx k } t r
      -- a body that stalls keeps the registry silent for `ReadTimeout`: the requests still
      -- waiting for their headers time out as well
      let st2 := if stalls t r then
          { st1 with inflight := [],
                     firstErr := if st1.inflight.isEmpty then st1.firstErr else orElse st1.firstErr .deadline }
        else st1
      some (advance v limit st2 st2.ops)
  | .cancel =>
    let st1 := { st with cancelled := true, inflight := [],
                         firstErr := if st.inflight.isEmpty then st.firstErr else orElse st.firstErr .canceled }
    some (advance v limit st1 st1.ops)
  | .timeout =>
    let st1 := { st with inflight := [],
                         firstErr := if st.inflight.isEmpty then st.firstErr else orElse st.firstErr .deadline }
    some (advance v limit st1 st1.ops)

def runSteps (H : Bytes → D) (v : Variant) (limit : Option Nat) : Run D → List Step → Option (Run D)
  | st, [] => some st
  | st, s :: ss =>
    match step H v limit st s with
    | none => none
    | some st' => runSteps H v limit st' ss

/-- the chunk plan of a layer: one chunk for the whole layer below the threshold, else what the
    chunksums endpoint served -/
def planOf (thr : Nat) (l : Layer D) (p : Option (PlanResp D)) : List (CS D) :=
  if l.size < thr then [⟨l.digest, 0, l.size⟩]
  else match p with
    | some (.list es) => es
    | _ => []

def layerOps (thr : Nat) (plans : List (PlanResp D)) : Nat → List (Layer D) → List (Op D)
  | _, [] => []
  | i, l :: ls =>
    (.beginL i l (decide (thr ≤ l.size)) :: (planOf thr l plans[i]?).map (Op.chunk i l)) ++ .closeL i
      :: layerOps thr plans (i + 1) ls

inductive Outcome where
  | ok
  | err (e : ErrClass)
  | stuck            -- the step script does not run the attempt to completion (not a behaviour)
deriving DecidableEq, Repr

structure Cfg where
  thr : Nat                 -- ChunkingThreshold
  limit : Option Nat        -- MaxStreams (none = unlimited)
  linkShortcut : Bool       -- F8 (C08) present in the tree
  /-- repaired variant (proposed_fixes/C09-F10abc-verify-before-link.patch): every layer is
      re-hashed before `Link`, a blob that fails is removed; markers need a covering file.
      `false` = the pinned tree. -/
  verify : Bool := false
  /-- repaired variant for F10d (proposed_fixes/C09-F10d-stage-chunked-blob.patch; on top of `verify`) -/
  staged : Bool := false

def Cfg.variant (cfg : Cfg) : Variant := ⟨cfg.verify, cfg.staged⟩

/-- what the registry does during one attempt -/
structure Attempt (D : Type) where
  name : Nat
  man : Except ErrClass (Manifest D)
  plans : List (PlanResp D)
  steps : List Step

/-- `verifyLayer` of the repaired variant: the blob has the manifest's size and digest -/
def layerGood (H : Bytes → D) (c : Cache D) (l : Layer D) : Bool :=
  match c.files l.digest with
  | some f => f.length == l.size && decide (H f = l.digest)
  | none => false

def Cache.removeFile (c : Cache D) (d : D) : Cache D :=
  { c with files := fun x => if x = d then none else c.files x }

/-- `DiskCache.CommitChunked`: the staging file has exactly the size and digest ⇒ rename it to
    the blob's name; a staging file that fails is removed; none ⇒ error, nothing touched -/
def commitStaged (H : Bytes → D) (c : Cache D) (l : Layer D) : Cache D × Bool :=
  match c.staging l.digest with
  | none => (c, false)
  | some p =>
    if p.length == l.size && decide (H p = l.digest) then
      ({ c with files := fun x => if x = l.digest then some p else c.files x,
                staging := fun x => if x = l.digest then none else c.staging x }, true)
    else ({ c with staging := fun x => if x = l.digest then none else c.staging x }, false)

/-- `verifyLayer` of the `staged` variant: a blob that exists under its final name with the
    manifest's size is re-hashed (and removed if wrong); otherwise the staged file is committed.
    A blob that exists with ANOTHER size is not touched unless the staged one is right. -/
def verifyLayer (H : Bytes → D) (c : Cache D) (l : Layer D) : Cache D × Bool :=
  match c.files l.digest with
  | some f =>
    if f.length == l.size then
      (if H f = l.digest then (c, true) else (c.removeFile l.digest, false))
    else commitStaged H c l
  | none => commitStaged H c l

/-- the loop `for _, l := range layers { verifyLayer }`: stops at the first failure -/
def verifyAll (H : Bytes → D) : Cache D → List (Layer D) → Cache D × Bool
  | c, [] => (c, true)
  | c, l :: ls =>
    match verifyLayer H c l with
    | (c1, true) => verifyAll H c1 ls
    | (c1, false) => (c1, false)

/-- the verification pass before `Link` (none on the pinned tree): the cache after it and whether
    every layer passed -/
def verifyPass (H : Bytes → D) (cfg : Cfg) (c : Cache D) (m : Manifest D) : Cache D × Bool :=
  if cfg.verify && cfg.staged then verifyAll H c m.all
  else if cfg.verify then
    match m.all.find? (fun l => !layerGood H c l) with
    | some l => (c.removeFile l.digest, false)
    | none => (c, true)
  else (c, true)

/-- the tail of `Pull` after `g.Wait()` -/
def finish (H : Bytes → D) (cfg : Cfg) (name : Nat) (m : Manifest D) (st : Run D) : Cache D × Outcome :=
  if !(st.ops.isEmpty && st.inflight.isEmpty) then (st.cache, .stuck)
  else match st.firstErr with
    | some e => (st.cache, .err e)
    | none =>
      if st.completed != expected m then (st.cache, .err .incomplete)
      else match verifyPass H cfg st.cache m with
        | (c1, true) => (c1.link cfg.linkShortcut name m, .ok)
        | (c1, false) => (c1, .err .incomplete)

def startRun (cfg : Cfg) (c : Cache D) (m : Manifest D) (plans : List (PlanResp D)) : Run D :=
  let st : Run D := { cache := c, ops := layerOps cfg.thr plans 0 m.all }
  advance cfg.variant cfg.limit st st.ops

/-- the run of one attempt up to `g.Wait()` returning (`none`: bad script) -/
def pullRun (H : Bytes → D) (cfg : Cfg) (c : Cache D) (m : Manifest D) (a : Attempt D) : Option (Run D) :=
  runSteps H cfg.variant cfg.limit (startRun cfg c m a.plans) a.steps

/-- `Registry.Pull` -/
def pull (H : Bytes → D) (cfg : Cfg) (c : Cache D) (a : Attempt D) : Cache D × Outcome :=
  match a.man with
  | .error e => (c, .err e)
  | .ok m =>
    if m.layers.isEmpty then (c, .err .invalidManifest)
    else match pullRun H cfg c m a with
      | none => (c, .stuck)
      | some st => finish H cfg a.name m st

/-- any sequence of attempts (user re-runs, retries) -/
def pullHistory (H : Bytes → D) (cfg : Cfg) : Cache D → List (Attempt D) → Cache D × List Outcome
  | c, [] => (c, [])
  | c, a :: as =>
    let r := pull H cfg c a
    let rest := pullHistory H cfg r.1 as
    (rest.1, r.2 :: rest.2)

/-- `canRetry` of server/internal/registry/server.go on the error classes of the model
    (`*ollama.Error` with status ≥ 500; a read error here stands for the read timeout, which is
    `context.DeadlineExceeded`, and for resets, which match "connection reset by peer") -/
def canRetry : Outcome → Bool
  | .err .status5xx => true
  | .err .readErr => true
  | .err .deadline => true
  | _ => false

/-- `Local.handlePull` (streaming), the loop
    `for _, err := range backoff.Loop(ctx, …) { if err != nil { return err }; err := Pull(); if canRetry(err) { continue }; return err }`
    against a registry that behaves as the attempt scripts say, one after the other.  Every way out:
      * `some .ok`      — `Pull` returned nil: the handler streams `"status":"success"`;
      * `some (.err e)` — `Pull` returned an error that is not retryable: the handler reports it;
      * `none`          — the request context ended while the loop was still retrying
                          (`backoff.Loop` yields `ctx.Err()`); here: the scripted behaviour is
                          exhausted, the API client goes away.  The handler reports the error.
    There is NO attempt limit and no other exit (the `return nil` after the loop is unreachable). -/
def handlePull (H : Bytes → D) (cfg : Cfg) : Cache D → List (Attempt D) → Cache D × Option Outcome
  | c, [] => (c, none)
  | c, a :: as =>
    let r := pull H cfg c a
    if canRetry r.2 then handlePull H cfg r.1 as else (r.1, some r.2)

/-- number of `Pull` calls the loop makes -/
def handlePullAttempts (H : Bytes → D) (cfg : Cfg) : Cache D → List (Attempt D) → Nat
  | _, [] => 0
  | c, a :: as =>
    let r := pull H cfg c a
    if canRetry r.2 then handlePullAttempts H cfg r.1 as + 1 else 1

/-- does the handler end the stream with `"status":"success"`? -/
def handlerSaysSuccess (o : Option Outcome) : Bool := o == some .ok

end

/-! ## HTTP exchanges: what net/http's client does with the registry's answers -/

/-- a scripted answer: status code, and whether it carries a `Location` header -/
structure Resp where
  status : Nat
  loc : Bool
deriving DecidableEq, Repr

inductive Method where
  | get | head | post | put | patch
deriving DecidableEq, Repr

/-- what a request carries: nothing; a body net/http can send again (`GetBody` is set:
    `bytes.Reader`); a body it cannot (an `*os.File`, an `io.TeeReader`) -/
inductive BodyKind where
  | none | rewindable | stream
deriving DecidableEq, Repr

def is2xx (s : Nat) : Bool := decide (200 ≤ s) && decide (s < 300)

/-- `http.Client.do` / `redirectBehavior`: `none` — the response is handed to the caller as it is
    (every 1xx/2xx/4xx/5xx, 300/304/305/…, any 3xx without `Location`, and 307/308 when the body
    cannot be sent again); `some (m, b)` — the client sends another request: 301/302/303 keep
    GET/HEAD and turn every other method into a body-less GET, 307/308 repeat method and body.
    `b` is the body kind of the ORIGINAL request of the exchange and stays so through the hops:
    net/http decides the 307/308 case on `reqs[0]` (measured: a PUT of a file answered 303 becomes
    a GET, and a 308 answer to that GET is still not followed). -/
def follow (m : Method) (b : BodyKind) (r : Resp) : Option (Method × BodyKind) :=
  if !r.loc then none
  else if r.status = 301 ∨ r.status = 302 ∨ r.status = 303 then
    (if m = .get ∨ m = .head then some (m, b) else some (.get, b))
  else if r.status = 307 ∨ r.status = 308 then
    (if b = .stream then none else some (m, b))
  else none

/-- One logical request.  `resps` are the registry's answers to the successive physical requests
    (a missing answer is `200` without `Location`; status `0` stands for NO answer: the transport
    fails or the request's context is cancelled — `http.Client.Do` returns an error).  Returns the physical requests as
    (method, status answered) and the response the caller gets — `none` when net/http gives up
    ("stopped after 10 redirects"; `sent` = requests sent so far). -/
def exchangeFrom : Nat → Nat → Method → BodyKind → List Resp → List (Method × Nat) × Option Resp
  | 0, _, m, _, rs => ([(m, (rs.headD ⟨200, false⟩).status)], none)
  | fuel + 1, sent, m, b, rs =>
    let r := rs.headD ⟨200, false⟩
    -- status 0: the request fails without an answer (transport error; the context was cancelled)
    if r.status = 0 then ([(m, 0)], none)
    else match follow m b r with
    | none => ([(m, r.status)], some r)
    | some (m', b') =>
      if sent ≥ 10 then ([(m, r.status)], none)
      else
        let rest := exchangeFrom fuel (sent + 1) m' b' rs.tail
        ((m, r.status) :: rest.1, rest.2)

def exchange (m : Method) (b : BodyKind) (rs : List Resp) : List (Method × Nat) × Option Resp :=
  exchangeFrom 10 1 m b rs

/-- `sendRequest`: the caller sees success iff the final response is 2xx -/
def exchangeOk (r : Option Resp) : Bool :=
  match r with
  | some r => is2xx r.status
  | none => false

/-! ## Push (new client, `Registry.Push`) -/

/-- the registry's answers for one layer: to the `POST …/blobs/uploads/?digest=` exchange and to
    the upload `PUT` exchange (body: the blob file, which net/http cannot send twice) -/
structure UpScript where
  post : List Resp
  put : List Resp
deriving Repr

inductive PushEv where
  /-- a request for layer `layer` reached the registry: part of the upload PUT exchange or of the
      POST exchange, its method, the status it was answered with -/
  | req (layer : Nat) (upload : Bool) (m : Method) (status : Nat)
  /-- a request of the manifest PUT exchange -/
  | man (m : Method) (status : Nat)
deriving DecidableEq, Repr

def PushEv.isManifest : PushEv → Bool
  | .man _ _ => true
  | _ => false

/-- the layer goroutine of `Push`: POST; a final 2xx answer without `Location` means the registry
    has the blob; with `Location`, PUT the file there; the goroutine succeeds iff the final
    answer of its last exchange is 2xx -/
def layerRun (i : Nat) (u : UpScript) : List PushEv × Bool :=
  let p := exchange .post .none u.post
  let pev := p.1.map fun (m, s) => PushEv.req i false m s
  match p.2 with
  | none => (pev, false)
  | some r =>
    if !is2xx r.status then (pev, false)
    else if !r.loc then (pev, true)
    else
      let q := exchange .put .stream u.put
      (pev ++ q.1.map (fun (m, s) => PushEv.req i true m s), exchangeOk q.2)

/-- the layer goroutines' remaining requests; `sched` picks which goroutine's next request
    reaches the registry (an index that is out of range or names a finished goroutine is
    skipped).  Every goroutine runs to its end whatever the others do (the errgroup has no
    context), then `g.Wait()`; the manifest PUT is sent iff no goroutine failed. -/
def pushBody : List (List PushEv) → List Nat → List PushEv × List (List PushEv)
  | pend, [] => ([], pend)
  | pend, k :: sched =>
    match pend[k]? with
    | some (e :: es) =>
      let r := pushBody (pend.set k es) sched
      (e :: r.1, r.2)
    | _ => pushBody pend sched

def enumFrom {α} : Nat → List α → List (Nat × α)
  | _, [] => []
  | i, a :: as => (i, a) :: enumFrom (i + 1) as

def pushPending (ups : List UpScript) : List (List PushEv) :=
  (enumFrom 0 ups).map fun (i, u) => (layerRun i u).1

def layersGood (ups : List UpScript) : Bool := ups.all fun u => (layerRun 0 u).2

/-- the manifest PUT exchange (body: `bytes.Reader`, can be sent again) -/
def manifestRun (man : List Resp) : List PushEv × Bool :=
  let x := exchange .put .rewindable man
  (x.1.map (fun (m, s) => PushEv.man m s), exchangeOk x.2)

/-- request log of `Registry.Push` and whether it returns nil; `none` if the schedule does not
    run every goroutine to its end -/
def pushTrace (ups : List UpScript) (sched : List Nat) (man : List Resp) : Option (List PushEv × Bool) :=
  let r := pushBody (pushPending ups) sched
  if r.2.all List.isEmpty then
    (if layersGood ups then some (r.1 ++ (manifestRun man).1, (manifestRun man).2) else some (r.1, false))
  else none

/-- The blobs `Registry.Push` offers to the registry before the manifest PUT.  `cfgToo = false` is
    the tree with finding F30: only `m.Layers` — the config blob, which the manifest names and
    which `Pull` (and the legacy `PushModel`) treat like any layer, is never offered, and is not
    even looked for in the cache.  `cfgToo = true` (proposed_fixes/C09-F30-push-config-layer.patch):
    `m.Layers` plus a valid `m.Config`, i.e. `Manifest.all`, the set `Pull` fetches. -/
def pushedLayers {D : Type} (cfgToo : Bool) (m : Manifest D) : List (Layer D) :=
  if cfgToo then m.all else m.layers

/-- `Registry.Push` of a cached manifest.  `scripts` are the registry's answers for the blobs of
    `m.all`, in that order (layers, then the config: its requests carry index `m.layers.length`);
    the script of a blob the client never offers is not consumed. -/
def pushManifest {D : Type} (cfgToo : Bool) (m : Manifest D) (scripts : List UpScript) (sched : List Nat)
    (man : List Resp) : Option (List PushEv × Bool) :=
  pushTrace (scripts.take (pushedLayers cfgToo m).length) sched man

/-! ## Push (legacy, `server.PushModel`): strictly sequential -/

/-- the registry's answers for one layer: to the HEAD exchange, to the POST exchange that opens
    the upload, and to each try of the PATCH (one part: files below 100 MB) and of the commit PUT
    (every try is an exchange of its own; missing answers are `200`, and a missing `Location`
    where the code needs one is supplied by the scripted registry only if `loc` says so) -/
structure LegacyLayer where
  head : List Resp
  post : List Resp
  patch : List (List Resp)
  commit : List (List Resp)
deriving Repr

inductive LegEv where
  /-- a request for layer `layer` reached the registry; `kind`: 0 HEAD exchange, 1 POST exchange,
      2 a PATCH try, 3 a commit try -/
  | req (layer : Nat) (kind : Nat) (m : Method) (status : Nat)
  | man (m : Method) (status : Nat)
deriving DecidableEq, Repr

def LegEv.isManifest : LegEv → Bool
  | .man _ _ => true
  | _ => false

/-- `makeRequestWithRetry` on the final response of an exchange (401 is not scripted: it starts
    the token dance): 404 → `os.ErrNotExist`; ≥ 400 → error; EVERYTHING ELSE is returned as a
    success — also 1xx and 3xx answers net/http did not follow.  `strict` is the repaired variant:
    only 2xx is a success. -/
inductive Mrr where
  | ok (r : Resp)
  | notFound
  | err
deriving Repr

def mrr (strict : Bool) : Option Resp → Mrr
  | none => .err
  | some r =>
    if r.status = 404 then .notFound
    else if r.status ≥ 400 then .err
    else if strict && !is2xx r.status then .err
    else .ok r

def maxRetries : Nat := 6

/-- up to `fuel` tries of one request kind; every try is an exchange answered by the next script;
    returns the requests and the final response of the first try that `okF` accepts -/
def triesX (i kind : Nat) (m : Method) (b : BodyKind) (okF : Option Resp → Bool) :
    Nat → List (List Resp) → List LegEv × Option Resp
  | 0, _ => ([], none)
  | n + 1, scripts =>
    let x := exchange m b (scripts.headD [])
    let evs := x.1.map fun (p : Method × Nat) => LegEv.req i kind p.1 p.2
    if okF x.2 then (evs, x.2)
    else
      let r := triesX i kind m b okF n scripts.tail
      (evs ++ r.1, r.2)

/-- `uploadPart` on the final response of a PATCH try (body: a TeeReader, not re-sendable): an
    error for ≥ 400; 307 starts the redirected upload, which is not scripted here (counted as a
    failed try); every other status — also 1xx/3xx — counts as "part uploaded" -/
def patchOk (strict : Bool) : Option Resp → Bool
  | none => false
  | some r => decide (r.status < 400) && r.status != 307 && (!strict || is2xx r.status)

def commitOk (strict : Bool) (x : Option Resp) : Bool :=
  match mrr strict x with
  | .ok _ => true
  | _ => false

/-- `uploadBlob` for one layer: HEAD (a "success" means the registry has the blob), else POST,
    PATCH tries, commit tries; the next URL is always the `Location` of the previous answer —
    without one the following request cannot even be sent and the layer fails -/
def legacyLayer (strict : Bool) (i : Nat) (l : LegacyLayer) : List LegEv × Bool :=
  let h := exchange .head .none l.head
  let hev := h.1.map fun (p : Method × Nat) => LegEv.req i 0 p.1 p.2
  match mrr strict h.2 with
  | .ok _ => (hev, true)
  | .err => (hev, false)
  | .notFound =>
    let p := exchange .post .none l.post
    let pev := p.1.map fun (q : Method × Nat) => LegEv.req i 1 q.1 q.2
    match mrr strict p.2 with
    | .ok r =>
      if !r.loc then (hev ++ pev, false)
      else
        let a := triesX i 2 .patch .stream (patchOk strict) maxRetries l.patch
        match a.2 with
        | none => (hev ++ pev ++ a.1, false)
        | some ra =>
          if !ra.loc then (hev ++ pev ++ a.1, false)
          else
            let c := triesX i 3 .put .none (commitOk strict) maxRetries l.commit
            (hev ++ pev ++ a.1 ++ c.1, c.2.isSome)
    | _ => (hev ++ pev, false)

/-- layers in order, stop at the first failure -/
def legacyLayers (strict : Bool) : Nat → List LegacyLayer → List LegEv × Bool
  | _, [] => ([], true)
  | i, l :: ls =>
    let r := legacyLayer strict i l
    if r.2 then
      let rest := legacyLayers strict (i + 1) ls
      (r.1 ++ rest.1, rest.2)
    else (r.1, false)

/-- the manifest PUT (`makeRequestWithRetry`, body `bytes.Reader`) -/
def legacyManifest (strict : Bool) (man : List Resp) : List LegEv × Bool :=
  let x := exchange .put .rewindable man
  (x.1.map (fun (p : Method × Nat) => LegEv.man p.1 p.2), commitOk strict x.2)

/-- `PushModel`: the request log and whether it returns nil -/
def legacyPush (strict : Bool) (ls : List LegacyLayer) (man : List Resp) : List LegEv × Bool :=
  let r := legacyLayers strict 0 ls
  if r.2 then ((r.1 ++ (legacyManifest strict man).1), (legacyManifest strict man).2)
  else (r.1, false)

/-- SEQUENTIAL pushes in one process.  The digest-keyed `blobUploadManager` holds an entry exactly as
    long as its transfer: `uploadBlob` publishes it, a failed `Prepare` deletes it, `Run` deletes
    it when it returns (`defer blobUploadManager.Delete`), whatever the result.  So the manager is
    empty whenever a push of a sequential history starts — a finished upload of the same digest
    (to this or another repository) is never joined — and every push is a single push answered
    by its own scripts (the registry's per-repository state shows in the HEAD answers). -/
def legacySequential (strict : Bool) (ps : List (List LegacyLayer × List Resp)) : List (List LegEv × Bool) :=
  ps.map fun p => legacyPush strict p.1 p.2

/-! ## Two legacy pushes sharing one upload (`blobUploadManager`)

  Push A finds the layer absent, publishes a `blobUpload` (`LoadOrStore` miss) and opens the upload
  session (`Prepare`'s POST).  While that POST is outstanding, push B — same layer — finds the
  layer absent too, hits the published upload (`LoadOrStore` hit) and goes straight to `Wait`.
  There is ONE transfer: A's `Prepare`, then `Run` (PATCH tries, commit tries).  `Wait` returns
  `b.err` once `b.done || b.err != nil`; `Run` sets `err` (PATCH tries exhausted) or `err, done`
  (after the commit tries).  If `Prepare` fails, `Run` is never started and neither field is ever
  set: A returns the error, B polls until its own context ends (it hangs; it never reports success).
  When B's context ends while it is the only one in `Wait` (A is still in `Prepare`), its
  `release()` drops the reference count to 0 and calls the upload's `CancelFunc`: the transfer
  A starts afterwards runs on a cancelled context, sends nothing and fails — A fails too. -/

/-- how the session POST of the owner ends -/
inductive PostEnd where
  | answered (rs : List Resp)
  | transport            -- the request fails without an answer
  | ownerCancelled       -- A's context ends while the POST is outstanding
deriving Repr

structure Shared where
  headB : List Resp          -- B's own HEAD exchange (A's is answered 404)
  post : PostEnd
  cancelB : Bool             -- B's context ends while the POST is outstanding
  patch : List (List Resp)
  commit : List (List Resp)
  manA : List Resp
  manB : List Resp
deriving Repr

/-- the single transfer: the requests of the POST exchange, of the PATCH and commit tries, and
    how it ended: `none` — `Prepare` failed, `Run` never started (waiters see nothing);
    `some ok` — `Run` ended and published `err` (`ok = false`) or `done` without error -/
def sharedTransfer (strict : Bool) (s : Shared) (bLeft : Bool) : List LegEv × Option Bool :=
  match s.post with
  | .transport => ([.req 0 1 .post 0], none)
  | .ownerCancelled => ([.req 0 1 .post 0], none)
  | .answered rs =>
    let p := exchange .post .none rs
    let pev := p.1.map fun (q : Method × Nat) => LegEv.req 0 1 q.1 q.2
    match mrr strict p.2 with
    | .ok r =>
      if !r.loc then (pev, some false)
      else if bLeft then (pev, some false)       -- the run context was cancelled by B's release()
      else
        let a := triesX 0 2 .patch .stream (patchOk strict) maxRetries s.patch
        match a.2 with
        | none => (pev ++ a.1, some false)
        | some ra =>
          if !ra.loc then (pev ++ a.1, some false)
          else
            let c := triesX 0 3 .put .none (commitOk strict) maxRetries s.commit
            (pev ++ a.1 ++ c.1, some c.2.isSome)
    | _ => (pev, none)

/-- what B's own HEAD makes of it: `some true` — joins the shared upload; `some false` — the
    registry "has" the layer, B needs no upload; `none` — the HEAD fails, B fails -/
def bJoins (strict : Bool) (s : Shared) : Option Bool :=
  match mrr strict (exchange .head .none s.headB).2 with
  | .notFound => some true
  | .ok _ => some false
  | .err => none

structure SharedResult where
  logA : List LegEv
  okA : Bool
  logB : List LegEv
  okB : Bool
  logT : List LegEv
  /-- B joined the upload and is never told anything (`Prepare` failed: neither `done` nor `err` is
      ever published): it polls in `Wait` until its own context ends — the push does not return -/
  hangB : Bool := false
deriving Repr

/-- both pushes: each sends its manifest iff its `uploadBlob` returned nil -/
def sharedPush (strict : Bool) (s : Shared) : SharedResult :=
  let hb := (exchange .head .none s.headB).1.map fun (q : Method × Nat) => LegEv.req 0 0 q.1 q.2
  let joined := bJoins strict s == some true
  let t := sharedTransfer strict s (joined && s.cancelB)
  let ownerGone := match s.post with
    | .ownerCancelled => true
    | _ => false
  -- A: the transfer's result, unless its own context ended
  let aGood := !ownerGone && t.2 == some true
  let ma := legacyManifest strict s.manA
  let mb := legacyManifest strict s.manB
  -- B: joined → the transfer's result unless B left (or hangs when nothing is ever published);
  --    not joined → its HEAD decides
  let bGood := match bJoins strict s with
    | some true => !s.cancelB && t.2 == some true
    | some false => true
    | none => false
  { logA := LegEv.req 0 0 .head 404 :: (if aGood then ma.1 else []),
    okA := aGood && ma.2,
    logB := hb ++ (if bGood then mb.1 else []),
    okB := bGood && mb.2,
    logT := t.1,
    hangB := joined && !s.cancelB && t.2.isNone }

end OllamaVerif.Registry
