/-
  Bounded channels and lock acquisition order on top of `Model/Sched.lean` (C01 / C02 / C11).

  The base model runs every lock-protected region of server/sched.go as ONE atomic action and treats the
  three event channels (`expiredCh`, `finishedReqCh`, `unloadedCh`) as unbounded.  The real scheduler makes
  all four channels with capacity OLLAMA_MAX_QUEUE (InitScheduler) and several regions SEND WHILE HOLDING
  MUTEXES; two regions take `loadedMu` and a runner's `refMu` one after the other.  A goroutine that cannot
  finish its region (the channel is full / the next mutex is taken) PARKS INSIDE the region and keeps what it
  holds.  That is the F12c (lock order), F12d (expiredCh capacity) and seeded C02-C / C02-K (unloadedCh never
  consumed) class of deadlocks, which the base model cannot exhibit.

  This layer adds exactly that:
    * `profile` – per action: the mutexes its region takes, IN THE ORDER OF THE SOURCE, and the channel it sends
      on while holding them (regenerated from the source by harness/cmd/schedfacts and compared in Tie/C01.lean);
    * `BState`  – a base state plus the goroutines parked inside a region (`Parked`: what they hold, what they wait for);
    * `stepB`   – an action whose region cannot complete parks (keeping the locks it already has) or, when it
      would park holding nothing, is simply not enabled; a parked action is resumed under its own label once
      what it waits for is available; only then the base `step` happens.
  `stepB` never invents behaviour: every step is a stutter or a base step (`stepB_refines`), so every safety
  theorem of the base model holds for the bounded model (Properties/C02Chan.lean); in addition the layer has
  `wedged` states (goroutines parked for good), with Lean-checked witnesses for each known deadlock class.

  Layer parameters (`Cfg`), regenerated from the source:
    expiredOrderFixed – processCompleted's expired case takes loadedMu BEFORE the runner's refMu (the order of
                        expireRunner and updateFreeSpace); upstream's pinned tree takes them the other way round
    idleDrains        – the idle select of processPending receives from unloadedCh
-/
import OllamaVerif.Model.Sched

namespace OllamaVerif.SchedChan
open OllamaVerif.Sched

inductive Lock
  | loadedMu
  | refMu (r : Rid)
deriving Repr, DecidableEq

inductive Chan
  | pending | finished | expired | unloaded
deriving Repr, DecidableEq

structure Cfg where
  expiredOrderFixed : Bool
  idleDrains : Bool
deriving Repr, DecidableEq

/-- /repo's tree -/
def Cfg.repo : Cfg := ⟨true, true⟩
/-- upstream's pinned tree (F12c) -/
def Cfg.upstream : Cfg := ⟨false, true⟩

inductive Wait
  | chan (c : Chan)
  | lock (l : Lock)
deriving Repr, DecidableEq

/-- a goroutine parked inside the region of action `act` -/
structure Parked where
  act : Act
  holds : List Lock
  wait : Wait
deriving Repr, DecidableEq

structure BState where
  base : State := {}
  parked : List Parked := []

def chanLen (s : State) : Chan → Nat
  | .pending => s.pendingQ.length
  | .finished => s.finishedQ.length
  | .expired => s.expiredQ.length
  | .unloaded => s.unloadedQ

/-- all four channels are made with capacity OLLAMA_MAX_QUEUE -/
def full (s : State) (c : Chan) : Bool := chanLen s c ≥ s.maxQueue

/-- would the "trigger an expiration" region (processPending's make-room block, expireRunner) send? -/
def expireSends (s : State) (r : Rid) : Bool := ((s.runners r).stopTimer).isZero

/-- would the finished-request region send an expired event? (refCount reaches 0 with a zero keep-alive) -/
def finSends (s : State) (r : Rid) : Bool :=
  let x := s.runners r
  let x := if x.refCount = 0 then { x with wrapped := true } else { x with refCount := x.refCount - 1 }
  x.isZero && x.session = 0

/-- the mutexes an action's region takes, in source order, and the channel it sends on while holding them all.
    Locks that the base model already accounts for are not repeated: the load goroutine's hold of refMu across
    WaitUntilRunning (`refMuHeld`), needsReload's across a parked Ping (`pingHeld`), and a parked expireRunner
    call's hold of loadedMu (`unloaders`). -/
def profile (c : Cfg) (s : State) : Act → List Lock × Option Chan
  | .loadDone _ ok => ([], if ok then none else some .expired)      -- load goroutine: still holds refMu (deferred unlock)
  | .pLookup _ => ([.loadedMu], none)                                -- `s.loaded[path]`, len(s.loaded)
  | .pNeedsReload => (match s.ppc with | .needsReload _ r => [.refMu r] | _ => [], none)
  | .pUse => (match s.ppc with | .use _ r => [.refMu r] | _ => [], none)
  | .pExpire =>
    match s.ppc with
    | .expire _ r => ([.refMu r], if expireSends s r then some .expired else none)
    | _ => ([], none)
  | .pLoad ok => (if ok then [.loadedMu] else [], none)              -- `s.loaded[path] = runner`
  | .cTakeFinished => ([.loadedMu], none)
  | .cFin =>
    match s.cpc with
    | .fin _ r => ([.refMu r], if finSends s r then some .expired else none)
    | _ => ([], none)
  | .cExp =>
    match s.cpc with
    | .exp r => (if c.expiredOrderFixed then [.loadedMu, .refMu r] else [.refMu r, .loadedMu], none)
    | _ => ([], none)
  | .cVram => ([], some .unloaded)
  | .requeue _ => ([], some .expired)
  | .delayedRequeue _ => ([], some .pending)
  | .finishSend _ => ([], some .finished)
  | .timerCb r => ([.refMu r], some .expired)
  | .unloadRun r => ([.refMu r], if expireSends s r then some .expired else none)   -- loadedMu: via `unloaders`
  | .unloadBind m =>
    match lookup s.loaded m with
    | none => ([.loadedMu], none)
    | some r =>
      if (s.runners r).locked then ([.loadedMu], none)      -- parks on refMu at base level (`unloaders`), keeping loadedMu
      else ([.loadedMu, .refMu r], if expireSends s r then some .expired else none)
  | _ => ([], none)

/-- is the mutex free for the goroutine of action `me`? -/
def lockFree (b : BState) (me : Act) (l : Lock) : Bool :=
  !(b.parked.any (fun p => p.act != me && p.holds.contains l)) &&
  match l with
  | .refMu r => !(b.base.runners r).locked
  | .loadedMu => b.base.unloaders.isEmpty

/-- take the locks in order: `none` = all taken, `some (held, l)` = blocked at `l` holding `held` -/
def acquire (b : BState) (me : Act) : List Lock → List Lock → Option (List Lock × Lock)
  | [], _ => none
  | l :: rest, held => if lockFree b me l then acquire b me rest (held ++ [l]) else some (held, l)

/-- the base state with every long-held refMu released: used to ask whether an action's region is entered at all
    (its program counter / queue condition), independently of the mutexes it will then have to wait for -/
def unlockAll (s : State) : State :=
  { s with runners := fun r => { s.runners r with refMuHeld := false, pingHeld := false } }

/-- regions that wait for mutexes (for these the layer decides who waits for what) -/
def takesLocks : Act → Bool
  | .pNeedsReload | .pUse | .pExpire | .cFin | .cExp | .timerCb _ | .unloadRun _ => true
  | _ => false

def entered (v : Variant) (s : State) (a : Act) : Bool :=
  if takesLocks a then (step v (unlockAll s) a).isSome else (step v s a).isSome

def setParked (b : BState) (p : Parked) : BState :=
  { b with parked := p :: b.parked.filter (fun x => x.act != p.act) }

/-- one step of the bounded model -/
def stepB (v : Variant) (c : Cfg) (b : BState) (a : Act) : Option BState :=
  let s := b.base
  if a = .pDrainUnloaded ∧ ¬ c.idleDrains then none
  else if ¬ entered v s a then none
  else
    let pr := profile c s a
    let cur := b.parked.find? (fun p => p.act == a)
    let park (p : Parked) : Option BState := if cur = some p then none else some (setParked b p)
    match acquire b a pr.1 [] with
    | some (held, l) =>
      if held.isEmpty ∧ cur.isNone then none            -- would wait holding nothing: simply not scheduled yet
      else park ⟨a, held, .lock l⟩
    | none =>
      match pr.2 with
      | some ch =>
        if full s ch then park ⟨a, pr.1, .chan ch⟩
        else (step v s a).map fun s' => { base := s', parked := b.parked.filter (fun x => x.act != a) }
      | none => (step v s a).map fun s' => { base := s', parked := b.parked.filter (fun x => x.act != a) }

def runB (v : Variant) (c : Cfg) : BState → List Act → Option BState
  | b, [] => some b
  | b, a :: as => match stepB v c b a with
    | some b' => runB v c b' as
    | none => none

inductive ReachB (v : Variant) (c : Cfg) (b0 : BState) : BState → Prop
  | init : ReachB v c b0 b0
  | step {b b' : BState} (a : Act) : ReachB v c b0 b → stepB v c b a = some b' → ReachB v c b0 b'

def initB (maxRunners maxQueue defaultSession : Nat) : BState := { base := Sched.init maxRunners maxQueue defaultSession }

/-- the scheduler-internal actions that could possibly be enabled in a state (one representative per enabling condition) -/
def candidates (s : State) : List Act :=
  [.pTake, .pDrainUnloaded, .pLookup {}, .pNeedsReload, .pUse, .pExpire, .pWaitUnload, .pLoad true, .pLoad false,
   .cTakeFinished, .cFin, .cTakeExpired, .cExp, .cVram] ++
  (List.range s.nRunners).flatMap (fun r => [.requeue r, .timerCb r, .unloadRun r, .timerFire r, .pingDone r false]) ++
  (List.range s.nReqs).flatMap (fun q => [.delayedRequeue q, .finishSend q]) ++
  s.unloadCalls.map .unloadBind

/-- goroutines are parked inside regions, no load or health check is in flight, and NO internal action can move:
    whatever the environment does next (submit, done, explicit unload), the parked goroutines keep what they hold -/
def wedged (v : Variant) (c : Cfg) (b : BState) : Bool :=
  !b.parked.isEmpty && b.base.loaders.isEmpty && (candidates b.base).all (fun a => (stepB v c b a).isNone)

end OllamaVerif.SchedChan
