/-
  C12 — crash model of the model store (`$OLLAMA_MODELS`).

  The store is a finite map from store paths to file contents.  Every store operation of the
  server (blob upload, create, copy, delete, pull from an honest registry) is its ORDERED LIST OF
  PRIMITIVE FILE-SYSTEM EFFECTS, computed by running the operation's control flow against the
  evolving store exactly as the Go code does (stat checks, "using existing layer", cache hits,
  part-record resume, reference checks of `Layer.Remove` / `deleteUnusedLayers`).
  A crash is a prefix of that list (the last data write may be cut short); `restart` is what
  `Serve` does before listening.

  Mirrors (defects included):
    server/layer.go      NewLayer, NewLayerFromLayer, Layer.Remove
    server/manifest.go   WriteManifest (O_TRUNC in place, then ONE write), Manifest.Remove, RemoveLayers
    server/images.go     CopyModel (O_TRUNC in place, then copy_file_range), PullModel (each missing layer is downloaded
                         and verified at once, before the next is fetched), deleteUnusedLayers, PruneLayers, verifyBlob
    server/download.go   downloadBlob, Prepare/readPart/newPart/writePart, run, downloadChunk (one part: blobs < 100 MB)
    server/routes.go     CreateBlobHandler, CreateHandler (gguf file + new data layers), DeleteHandler, Serve (start-up)
    server/fixblobs.go   fixBlobs (identity here: no `sha256:` file names exist in the modelled alphabet)

  Not modelled: directories (MkdirAll / PruneDirectory only create/remove empty directories),
  multi-part downloads (blobs ≥ 100 MB), the bytes of manifests and part records (a manifest file
  is either a complete manifest or unreadable; see `Content`).  SHA-256 is the parameter `hash`.
  Core Lean only.
-/
import OllamaVerif.Model.Bytes
namespace OllamaVerif.StoreCrash
open OllamaVerif

abbrev Digest := String
abbrev Name := String

/-- store paths: `blobs/sha256-<d>`, `blobs/sha256-<random>` (CreateTemp), `…-partial`,
`…-partial-<n>`, `manifests/<host>/<ns>/<model>/<tag>` -/
inductive Path
  | blob (d : Digest)
  | temp (k : Nat)
  | pfile (d : Digest)
  | part (d : Digest) (n : Nat)
  | man (n : Name)
  /-- any other file below `$OLLAMA_MODELS` that no code path addresses: files under manifests/ that
  are not at host/namespace/model/tag depth (the lister's `*/*/*/*` does not match them or finds a
  directory there), files outside blobs/ and manifests/ -/
  | other (s : String)
  deriving DecidableEq, Repr

structure Layer where
  digest : Digest
  size : Nat
  deriving DecidableEq, Repr

structure Man where
  layers : List Layer
  config : Layer
  deriving DecidableEq, Repr

/-- the order every consumer uses: `append(m.Layers, m.Config)` -/
def Man.all (m : Man) : List Layer := m.layers ++ [m.config]

structure PartRec where
  n : Nat
  off : Nat
  size : Nat
  completed : Nat
  deriving DecidableEq, Repr

/-- File content.  A file at a manifest path is readable iff it is `man m`; the empty file left by
`O_TRUNC` and every proper prefix of the JSON text are `raw _` there (unreadable).  Same for part
records. -/
inductive Content
  | raw (bs : Bytes)
  | man (m : Man)
  | prec (r : PartRec)
  deriving DecidableEq, Repr

abbrev Store := List (Path × Content)

def get (st : Store) (p : Path) : Option Content :=
  match st with
  | [] => none
  | (q, c) :: rest => if q = p then some c else get rest p

def filterKeys (keep : Path → Bool) (st : Store) : Store := st.filter (fun e => keep e.1)

def del (st : Store) (p : Path) : Store := filterKeys (fun q => decide (q ≠ p)) st

def set (st : Store) (p : Path) (c : Content) : Store := (p, c) :: del st p

/-- `pwrite`: overwrite `bs` at offset `off` (zero-filling a gap) -/
def overlay (old : Bytes) (off : Nat) (bs : Bytes) : Bytes :=
  old.take off ++ List.replicate (off - old.length) 0 ++ bs ++ old.drop (off + bs.length)

/-- `ftruncate` -/
def resize (old : Bytes) (n : Nat) : Bytes := old.take n ++ List.replicate (n - old.length) 0

inductive Effect
  | mk (p : Path)                       -- open(O_CREAT|O_TRUNC) or CreateTemp: `p` is now the empty file
  | touch (p : Path)                    -- open(O_CREAT): empty file if absent
  | app (p : Path) (bs : Bytes)         -- write(2) at the end of a data file
  | pw (p : Path) (off : Nat) (bs : Bytes)  -- pwrite64
  | ftr (p : Path) (n : Nat)            -- ftruncate
  | put (p : Path) (c : Content)        -- the single write(2) of a whole manifest / part record
  | cp (src dst : Path)                 -- copy_file_range of the whole source onto the (truncated) destination
  | mv (src dst : Path)                 -- rename
  | chmod (p : Path)
  | rm (p : Path)                       -- unlink
  deriving DecidableEq, Repr

def apply (e : Effect) (st : Store) : Store :=
  match e with
  | .mk p => set st p (.raw [])
  | .touch p => match get st p with
    | none => set st p (.raw [])
    | some _ => st
  | .app p bs => match get st p with
    | some (.raw old) => set st p (.raw (old ++ bs))
    | _ => st
  | .pw p off bs => match get st p with
    | some (.raw old) => set st p (.raw (overlay old off bs))
    | _ => st
  | .ftr p n => match get st p with
    | some (.raw old) => set st p (.raw (resize old n))
    | _ => st
  | .put p c => set st p c
  | .cp src dst => match get st src with
    | some c => set st dst c
    | none => st
  | .mv src dst => match get st src with
    | some c => set (del st src) dst c
    | none => st
  | .chmod _ => st
  | .rm p => del st p

def run (es : List Effect) (st : Store) : Store :=
  match es with
  | [] => st
  | e :: rest => run rest (apply e st)

/-- a write cut short by the crash: the same write with a prefix of the data.  A cut `put`/`cp`
leaves the unreadable file `mk` already produced, i.e. is no effect at all. -/
inductive CutOf : Effect → Effect → Prop
  | app (p bs k) : CutOf (.app p bs) (.app p (bs.take k))
  | pw (p off bs k) : CutOf (.pw p off bs) (.pw p off (bs.take k))

/-- the effect sequences a crash can leave applied -/
def CrashPrefix (es p : List Effect) : Prop :=
  ∃ k, p = es.take k ∨ ∃ e e', es[k]? = some e ∧ CutOf e e' ∧ p = es.take k ++ [e']

/-! ## reading the store -/

def readable (st : Store) (n : Name) : Option Man :=
  match get st (.man n) with
  | some (.man m) => some m
  | _ => none

def manNames (st : Store) : List Name :=
  st.filterMap (fun e => match e.1 with | .man n => some n | _ => none)

/-- some readable manifest names digest `d` (what `Manifests(true)` + the loops over
`append(m.Layers, m.Config)` compute) -/
def referenced (st : Store) (d : Digest) : Bool :=
  (manNames st).any (fun n => match readable st n with
    | some m => m.all.any (fun l => l.digest == d)
    | none => false)

/-- `Manifests(false)` succeeds: every file under manifests/ parses -/
def allReadable (st : Store) : Bool :=
  (manNames st).all (fun n => (readable st n).isSome)

def present (st : Store) (p : Path) : Bool := (get st p).isSome

/-! ## building blocks

An operation is run against the evolving store; `Res` carries the effects so far and whether the
operation is still going (`ok = false`: it returned an error, nothing further happens). -/

structure Res where
  effs : List Effect
  ok : Bool
  deriving Repr

def Res.andThen (a : Res) (st : Store) (f : Store → Res) : Res :=
  if a.ok then
    let b := f (run a.effs st)
    ⟨a.effs ++ b.effs, b.ok⟩
  else a

/-- environment of an operation: the hash, how bodies are cut into pieces by the network, the
order in which Go's map iteration visits `deleteMap` -/
structure Env where
  hash : Bytes → Digest
  chunk : Bytes → List Bytes
  ord : List Digest → List Digest
  /-- VARIANT: manifests are written by `writeFileAtomic` (temp in blobs/ + rename; proposed fix
  C12-F19a) instead of truncate-in-place + write (pinned tree) -/
  atomicMan : Bool := false
  /-- VARIANT: part records are written by `writeFileAtomic` (proposed fix C12-F19b) -/
  atomicPart : Bool := false
  /-- CONFIGURATION: `OLLAMA_NOPRUNE` is set (no start-up prune, create and pull keep replaced layers) -/
  noPrune : Bool := false

/-- `NewLayer(r, _)` with temp file number `k`; `pieces` is how the reader hands out the data -/
def newLayer (env : Env) (k : Nat) (pieces : List Bytes) (st : Store) : Res :=
  let d := env.hash pieces.flatten
  let writes := pieces.map (Effect.app (.temp k))
  if present st (.blob d) then
    ⟨[.mk (.temp k)] ++ writes ++ [.rm (.temp k)], true⟩            -- "using existing layer"
  else
    ⟨[.mk (.temp k)] ++ writes ++ [.mv (.temp k) (.blob d), .chmod (.blob d)], true⟩

/-- `CreateBlobHandler`: nothing if the blob exists, else `NewLayer(body)` -/
def upload (env : Env) (k : Nat) (d : Digest) (body : Bytes) (st : Store) : Res :=
  if present st (.blob d) then ⟨[], true⟩ else newLayer env k (env.chunk body) st

/-- `Layer.Remove`: unlink unless some readable manifest still uses it (ENOENT is ignored) -/
def layerRemove (d : Digest) (st : Store) : Res :=
  if referenced st d || !present st (.blob d) then ⟨[], true⟩ else ⟨[.rm (.blob d)], true⟩

/-- `Manifest.RemoveLayers` -/
def removeLayers (ds : List Digest) (st : Store) : Res :=
  match ds with
  | [] => ⟨[], true⟩
  | d :: rest => (layerRemove d st).andThen st (removeLayers rest)

/-- `writeFileAtomic` (fixed variant): CreateTemp in blobs/, ONE write, fchmod, rename over the target -/
def writeAtomic (k : Nat) (p : Path) (c : Content) : List Effect :=
  [.mk (.temp k), .put (.temp k) c, .chmod (.temp k), .mv (.temp k) p]

/-- `WriteManifest` / `os.WriteFile`. Pinned: truncate in place, then one write. Fixed: `writeFileAtomic`. -/
def writeManifest (env : Env) (k : Nat) (n : Name) (m : Man) : Res :=
  if env.atomicMan then ⟨writeAtomic k (.man n) (.man m), true⟩
  else ⟨[.mk (.man n), .put (.man n) (.man m)], true⟩

/-- `writePart`. Pinned: open(O_TRUNC) then one write. Fixed: `writeFileAtomic`. -/
def writePart (env : Env) (k : Nat) (R : Path) (r : PartRec) : List Effect :=
  if env.atomicPart then writeAtomic k R (.prec r) else [.mk R, .put R (.prec r)]

/-- the data layers `createModel` adds one after the other (template, system, …, and last the
config), each through `NewLayer`; returns the layers in order -/
def newLayers (env : Env) (k : Nat) (datas : List Bytes) (st : Store) : Res :=
  match datas with
  | [] => ⟨[], true⟩
  | x :: rest => (newLayer env k [x] st).andThen st (newLayers env (k + 1) rest)

def layerOf (env : Env) (x : Bytes) : Layer := ⟨env.hash x, x.length⟩

def blobSize (st : Store) (d : Digest) : Nat :=
  match get st (.blob d) with
  | some (.raw bs) => bs.length
  | _ => 0

/-- the manifest `createModel` writes: the gguf layer (`NewLayerFromLayer`: size from stat), the new
data layers, the last new layer as config -/
def createMan (env : Env) (file : Digest) (datas : List Bytes) (cfg : Bytes) (st : Store) : Man :=
  ⟨⟨file, blobSize st file⟩ :: datas.map (layerOf env), layerOf env cfg⟩

def uploads (env : Env) (k : Nat) (ups : List (Digest × Bytes)) (st : Store) : Res :=
  match ups with
  | [] => ⟨[], true⟩
  | (d, body) :: rest => (upload env k d body st).andThen st (uploads env (k + 1) rest)

/-- `if !envconfig.NoPrune() && oldManifest != nil { oldManifest.RemoveLayers() }` -/
def cleanupOld (env : Env) (old : Option Man) (st : Store) : Res :=
  match old with
  | some m => if env.noPrune then ⟨[], true⟩ else removeLayers (m.all.map Layer.digest) st
  | none => ⟨[], true⟩

/-- `CreateHandler` with one gguf file: `NewLayerFromLayer` (fails if the blob is missing), data
layers, config layer, `WriteManifest`, then `oldManifest.RemoveLayers()` if the old manifest was
readable. -/
def createHandler (env : Env) (k : Nat) (n : Name) (file : Digest)
    (datas : List Bytes) (cfg : Bytes) (st : Store) : Res :=
  let old := readable st n
  if !present st (.blob file) then ⟨[], false⟩ else
  (newLayers env k (datas ++ [cfg]) st).andThen st fun st2 =>
    (writeManifest env (k + datas.length + 1) n (createMan env file datas cfg st2)).andThen st2 fun st3 =>
      cleanupOld env old st3

/-- `ollama create`: the client uploads the blobs that are missing, then calls `CreateHandler` -/
def create (env : Env) (n : Name) (ups : List (Digest × Bytes)) (file : Digest)
    (datas : List Bytes) (cfg : Bytes) (st : Store) : Res :=
  (uploads env 0 ups st).andThen st (createHandler env ups.length n file datas cfg)

/-- `CopyModel`: open/read the source (ENOENT → error). Pinned: `os.Create` the destination (truncates
it), `io.Copy` (copy_file_range). Fixed: `writeFileAtomic` of the source bytes. -/
def copy (env : Env) (src dst : Name) (st : Store) : Res :=
  if src = dst then ⟨[], true⟩ else
  match get st (.man src) with
  | none => ⟨[], false⟩
  | some c =>
    if env.atomicMan then ⟨writeAtomic 0 (.man dst) c, true⟩
    else ⟨[.mk (.man dst), .cp (.man src) (.man dst)], true⟩

/-- `DeleteHandler`: parse (error if unreadable), unlink the manifest, then `RemoveLayers` -/
def delete (n : Name) (st : Store) : Res :=
  match readable st n with
  | none => ⟨[], false⟩
  | some m => (⟨[.rm (.man n)], true⟩ : Res).andThen st (removeLayers (m.all.map Layer.digest))

/-- sequential pwrites of the pieces starting at `off` -/
def pwrites (p : Path) (off : Nat) (pieces : List Bytes) : List Effect :=
  match pieces with
  | [] => []
  | x :: rest => .pw p off x :: pwrites p (off + x.length) rest

/-- `downloadBlob` for a blob that is not there yet, from a registry that serves `data`
(`k`, `k+1`: temp ids of the fixed variant's record writes). Every successful branch is
`scratch effects ++ [rename -partial → blob]`. -/
def download (env : Env) (k : Nat) (d : Digest) (data : Bytes) (st : Store) : Res :=
  let P := Path.pfile d
  let R := Path.part d 0
  match get st R with
  | some (.prec r) =>
    -- Prepare found a part record: Total comes from the record; resume at Offset+Completed
    let body := (data.drop (r.off + r.completed)).take (r.size - r.completed)
    let fetch := if r.completed = r.size then [] else
      pwrites P (r.off + r.completed) (env.chunk body) ++
        writePart env k R { r with completed := r.completed + body.length }
    ⟨([.touch P, .ftr P r.size] ++ fetch ++ [.rm R]) ++ [.mv P (.blob d)], true⟩
  | some _ => ⟨[], false⟩      -- readPart: unreadable record → Prepare fails → the pull fails
  | none =>
    if data.length = 0 then ⟨[.touch P, .ftr P 0] ++ [.mv P (.blob d)], true⟩ else
    ⟨(writePart env k R ⟨0, 0, data.length, 0⟩ ++ [.touch P, .ftr P data.length] ++
      pwrites P 0 (env.chunk data) ++
      writePart env (k + 1) R ⟨0, 0, data.length, data.length⟩ ++ [.rm R]) ++ [.mv P (.blob d)], true⟩

/-- `verifyBlob` of one freshly downloaded digest: on a mismatch the blob is removed and the pull
fails -/
def verify1 (env : Env) (d : Digest) (st : Store) : Res :=
  match get st (.blob d) with
  | some (.raw bs) => if env.hash bs = d then ⟨[], true⟩ else ⟨[.rm (.blob d)], false⟩
  | _ => ⟨[], false⟩

/-- the loop of `PullModel` over `layers ++ [config]`: a blob that is there is a cache hit (skipped,
NOT verified); a missing one is downloaded and verified at once, before anything else is fetched
(/repo 40ada04a3; until then all downloads came first and the verifications after the loop — the same
effect list for an honest registry) -/
def downloads (env : Env) (reg : Digest → Option Bytes) (k : Nat) (ds : List Digest) (st : Store) : Res :=
  match ds with
  | [] => ⟨[], true⟩
  | d :: rest =>
    if present st (.blob d) then downloads env reg (k + 2) rest st      -- cache hit: skipVerify
    else match reg d with
      | none => ⟨[], false⟩                                      -- 404
      | some data =>
        ((download env k d data st).andThen st (verify1 env d)).andThen st (downloads env reg (k + 2) rest)

/-- `deleteUnusedLayers(deleteMap)`: whatever of `cand` no readable manifest names, in map order
(`env.ord` also stands for the set semantics of the Go map: it may drop duplicates) -/
def deleteUnused (env : Env) (cand : List Digest) (st : Store) : Res :=
  ⟨((env.ord (cand.filter (fun d => !referenced st d))).filter (fun d => present st (.blob d))).map
      (fun d => Effect.rm (.blob d)), true⟩

/-- `if !envconfig.NoPrune() && len(deleteMap) > 0 { deleteUnusedLayers(deleteMap) }` -/
def cleanupPull (env : Env) (cand : List Digest) (st : Store) : Res :=
  if env.noPrune then ⟨[], true⟩ else deleteUnused env cand st

/-- `PullModel` of manifest `m` from an honest registry `reg` -/
def pull (env : Env) (reg : Digest → Option Bytes) (n : Name) (m : Man) (st : Store) : Res :=
  let oldDigests := match readable st n with
    | some o => o.all.map Layer.digest
    | none => []
  let want := m.all.map Layer.digest
  (downloads env reg 0 want st).andThen st fun st2 =>
    (writeManifest env (2 * want.length) n m).andThen st2 fun st3 =>
      cleanupPull env (oldDigests.filter (fun d => !want.contains d)) st3

/-! ## restart: what `Serve` does before listening -/

/-- `PruneLayers`: every file in blobs/ whose name is not a digest is removed; digest-named blobs
no readable manifest names are removed -/
def keepAtPrune (st : Store) (p : Path) : Bool :=
  match p with
  | .man _ => true
  | .other _ => true            -- PruneLayers only looks into blobs/
  | .blob d => referenced st d
  | _ => false

def prune (st : Store) : Store := filterKeys (keepAtPrune st) st

/-- DEFECT F26 mirrored: what the start-up sequence does when the models path contains a glob
metacharacter (`[`): the pattern `<models>/manifests/*/*/*/*` handed to `filepath.Glob` then
matches nothing, `Manifests()` returns an empty map WITHOUT error, so the prune runs and every blob
counts as unused. (Name-based resolution opens manifests by path and is not affected.) -/
def pruneBlind (st : Store) : Store :=
  filterKeys (fun p => match p with | .man _ => true | .other _ => true | _ => false) st

/-- `fixBlobs; if Manifests(false) succeeds then PruneLayers; PruneDirectory` -/
def restart (st : Store) : Store := if allReadable st then prune st else st

/-- the start-up sequence under the configuration: with `OLLAMA_NOPRUNE` nothing is pruned -/
def restartWith (env : Env) (st : Store) : Store := if env.noPrune then st else restart st

/-! ## operations as one type -/

inductive Op
  | upload (k : Nat) (d : Digest) (body : Bytes)
  | create (n : Name) (ups : List (Digest × Bytes)) (file : Digest) (datas : List Bytes) (cfg : Bytes)
  | copy (src dst : Name)
  | delete (n : Name)
  | pull (reg : Digest → Option Bytes) (n : Name) (m : Man)

def Op.exec (env : Env) (op : Op) (st : Store) : Res :=
  match op with
  | .upload k d body => StoreCrash.upload env k d body st
  | .create n ups file datas cfg => StoreCrash.create env n ups file datas cfg st
  | .copy src dst => StoreCrash.copy env src dst st
  | .delete n => StoreCrash.delete n st
  | .pull reg n m => StoreCrash.pull env reg n m st

/-- names whose manifest the operation may write -/
def Op.involved (op : Op) : List Name :=
  match op with
  | .upload .. => []
  | .create n .. => [n]
  | .copy _ dst => [dst]
  | .delete n => [n]
  | .pull _ n _ => [n]

end OllamaVerif.StoreCrash
