/-
  Lockset model for C15 (concurrent API use causes no data race).

  Two layers.

  * A trace semantics: threads acquire / release / hand off mutexes (at most one holder per
    mutex) and access memory locations.  `run` replays a trace over the holder map and fails
    on a step whose guard does not hold (acquire of a held mutex, release by a non-holder).
  * Static access facts (`Access`), one per syntactic read/write of the shared state named by
    the property, as emitted by `harness/cmd/lockset` from the working tree:
    location class, kind, the mutexes syntactically held, thread class, and the flags the
    checker needs (`init`, `atomic`, fork tags, named happens-before hypotheses).
    `compat` is the pairwise lockset rule, `checkClass` / `violatingPairs` apply it to a table.

  Core Lean only (compiled into the oracle).
-/
namespace OllamaVerif.Lockset

abbrev Thread := Nat
/-- a concrete mutex: (lock class code, owning object instance; 0 for a singleton object's lock) -/
abbrev Lock := Nat × Nat
/-- a concrete location: (location class, object instance) -/
abbrev Loc := Nat × Nat

/-! ## Trace semantics -/

inductive Ev where
  | acq (t : Thread) (m : Lock)
  | rel (t : Thread) (m : Lock)
  /-- ownership of a held mutex passes from `t` to `t'` (Go allows `Unlock` from another
      goroutine: `Scheduler.load` locks `refMu`, the goroutine it spawns unlocks it) -/
  | handoff (t t' : Thread) (m : Lock)
  /-- access of location `x` by `t`; `f` = index of the static fact this access instantiates -/
  | acc (t : Thread) (x : Loc) (f : Nat)
deriving DecidableEq, Repr

abbrev Holder := Lock → Option Thread

def Holder.init : Holder := fun _ => none

def Holder.set (h : Holder) (m : Lock) (v : Option Thread) : Holder :=
  fun m' => if m' = m then v else h m'

/-- one step; `none` = the step is not enabled (mutex semantics) -/
def step (h : Holder) : Ev → Option Holder
  | .acq t m => if h m = none then some (h.set m (some t)) else none
  | .rel t m => if h m = some t then some (h.set m none) else none
  | .handoff t t' m => if h m = some t then some (h.set m (some t')) else none
  | .acc _ _ _ => some h

def run (h : Holder) : List Ev → Option Holder
  | [] => some h
  | e :: es => match step h e with
    | none => none
    | some h' => run h' es

/-- a well-formed interleaving: every step enabled, starting with no mutex held -/
def WF (tr : List Ev) : Prop := (run Holder.init tr).isSome = true

/-- holder map after replaying `tr` (meaningful for well-formed `tr`) -/
def holderOf (tr : List Ev) : Holder := (run Holder.init tr).getD Holder.init

/-- `e` gives up thread `t`'s ownership of `m` -/
def Releases (e : Ev) (t : Thread) (m : Lock) : Prop :=
  e = .rel t m ∨ ∃ t', e = .handoff t t' m

/-- thread-local lockset: what `t` acquired (or was handed) and has not given up, computed from
    `t`'s own events only — this is what a syntactic, per-goroutine lockset analysis computes -/
def localHeld (t : Thread) (m : Lock) : List Ev → Bool → Bool
  | [], b => b
  | .acq t' m' :: es, b => localHeld t m es (if t' = t ∧ m' = m then true else b)
  | .rel t' m' :: es, b => localHeld t m es (if t' = t ∧ m' = m then false else b)
  | .handoff t' t'' m' :: es, b =>
      localHeld t m es (if m' = m then (if t'' = t then true else if t' = t then false else b) else b)
  | .acc _ _ _ :: es, b => localHeld t m es b

/-! ## Static facts -/

inductive Kind where
  | read | write | mapRead | mapIter | mapInsert | mapDelete
deriving DecidableEq, Repr

/-- static mutex reference of a fact -/
structure LockRef where
  cls : Nat
  /-- true: mutex field of the same object as the accessed field; false: mutex of a singleton object -/
  self : Bool
deriving DecidableEq, Repr

/-- the concrete mutex a reference denotes for an access to object instance `o` -/
def LockRef.inst (l : LockRef) (o : Nat) : Lock :=
  if l.self then (2 * l.cls + 1, o) else (2 * l.cls, 0)

structure Access where
  site : Nat            -- index into the generated site-name table (function:line)
  cls : Nat             -- location class (index into the generated class-name table)
  kind : Kind
  locks : List LockRef  -- mutexes syntactically held (only those that can guard this location)
  thread : Nat          -- thread class
  single : Bool         -- the thread class has exactly one thread (scheduler loops)
  init : Bool           -- object not yet published (fresh local / package initialiser)
  racy : Bool           -- the object reference itself was obtained by an unsynchronised read
  atomic : Bool         -- through sync/atomic or sync.Map
  pre : List Nat        -- spawn statements this access precedes in its spawner function
  post : List Nat       -- spawn statements this access's thread descends from
  hb : List Nat         -- named happens-before hypotheses this access relies on
deriving DecidableEq, Repr

def inter (a b : List Nat) : Bool := a.any (fun x => b.contains x)

/-- does the table contain an insertion into map class `c`?  (a map that is never inserted
    into is empty for ever: `delete` on it is a no-op and every access is a read) -/
def hasInsert (facts : List Access) (c : Nat) : Bool :=
  facts.any (fun b => b.cls == c && b.kind == .mapInsert)

def isWrite (facts : List Access) (a : Access) : Bool :=
  match a.kind with
  | .write => true
  | .mapInsert => true
  | .mapDelete => hasInsert facts a.cls
  | _ => false

def lockCompat (a b : Access) : Bool := a.locks.any (fun l => b.locks.contains l)

def sameSingle (a b : Access) : Bool := a.single && b.single && a.thread == b.thread

/-- pairs that are NOT ordered by a lock but by something the lockset theorem takes as a
    hypothesis: publication of a fresh object (unless the other side got its reference by an
    unsynchronised read), atomics, spawn order (before a `go` statement vs inside the spawned
    thread; both before the same once-per-object `go` statement = the same invocation), a named
    channel order -/
def exempt (a b : Access) : Bool :=
  (a.init && !b.racy) || (b.init && !a.racy) || (a.atomic && b.atomic) ||
  inter a.pre b.post || inter b.pre a.post || inter a.pre b.pre || inter a.hb b.hb

def compat (facts : List Access) (a b : Access) : Bool :=
  !(isWrite facts a || isWrite facts b) || sameSingle a b || lockCompat a b || exempt a b

def checkClass (facts : List Access) (c : Nat) : Bool :=
  facts.all (fun a => a.cls != c || facts.all (fun b => b.cls != c || compat facts a b))

def checkAll (facts : List Access) : Bool :=
  facts.all (fun a => facts.all (fun b => a.cls != b.cls || compat facts a b))

/-- (class, site, site) of every incompatible pair, each unordered pair once, in table order -/
def violatingPairsFrom (facts : List Access) : List Access → List (Nat × Nat × Nat)
  | [] => []
  | a :: rest =>
    ((a :: rest).filter (fun b => a.cls == b.cls && !compat facts a b)).map (fun b => (a.cls, a.site, b.site))
      ++ violatingPairsFrom facts rest

def violatingPairs (facts : List Access) : List (Nat × Nat × Nat) := violatingPairsFrom facts facts

def dedup : List Nat → List Nat
  | [] => []
  | x :: xs => if xs.contains x then dedup xs else x :: dedup xs

/-- classes with at least one incompatible pair -/
def badClasses (facts : List Access) : List Nat := dedup ((violatingPairs facts).map (·.1))

end OllamaVerif.Lockset
