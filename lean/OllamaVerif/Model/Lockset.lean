/-
  Lockset model for C15 (concurrent API use causes no data race).

  Two layers.

  * A trace semantics: threads acquire / release / hand off mutexes (at most one holder per
    mutex) and access memory locations.  `run` replays a trace over the holder map and fails
    on a step whose guard does not hold (acquire of a held mutex, release by a non-holder).
  * Static access facts (`Access`), one per syntactic read/write of the shared state named by
    the property, as emitted by `harness/cmd/lockset` from the working tree:
    location class, kind, the mutexes syntactically held, thread class, and the flags the
    checker needs (`init`, `atomic`, fork tags, named happens-before hypotheses).
    `compat` is the pairwise lockset rule, `checkClass` / `violatingPairs` apply it to a table.

  Core Lean only (compiled into the oracle).
-/
namespace OllamaVerif.Lockset

abbrev Thread := Nat
/-- a concrete mutex: (lock class code, owning object instance; 0 for a singleton object's lock) -/
abbrev Lock := Nat × Nat
/-- a concrete location: (location class, object instance) -/
abbrev Loc := Nat × Nat

/-! ## Trace semantics -/

inductive Ev where
  | acq (t : Thread) (m : Lock)
  | rel (t : Thread) (m : Lock)
  /-- ownership of a held mutex passes from `t` to `t'` (Go allows `Unlock` from another
      goroutine: `Scheduler.load` locks `refMu`, the goroutine it spawns unlocks it) -/
  | handoff (t t' : Thread) (m : Lock)
  /-- access of location `x` by `t`; `f` = index of the static fact this access instantiates -/
  | acc (t : Thread) (x : Loc) (f : Nat)
  /-- thread `t` executes spawn statement `s` (a `go` statement, `time.AfterFunc`, `errgroup.Go`),
      creating thread `t'`.  No effect on the mutexes: a goroutine starts with none. -/
  | fork (t t' : Thread) (s : Nat)
  /-- thread `t` publishes object `o`: the first store of its address into shared state (a map
      under its lock, a sync.Map, a channel send).  No effect on the mutexes. -/
  | publish (t : Thread) (o : Nat)
deriving DecidableEq, Repr

abbrev Holder := Lock → Option Thread

def Holder.init : Holder := fun _ => none

def Holder.set (h : Holder) (m : Lock) (v : Option Thread) : Holder :=
  fun m' => if m' = m then v else h m'

/-- one step; `none` = the step is not enabled (mutex semantics) -/
def step (h : Holder) : Ev → Option Holder
  | .acq t m => if h m = none then some (h.set m (some t)) else none
  | .rel t m => if h m = some t then some (h.set m none) else none
  | .handoff t t' m => if h m = some t then some (h.set m (some t')) else none
  | .acc _ _ _ => some h
  | .fork _ _ _ => some h
  | .publish _ _ => some h

def run (h : Holder) : List Ev → Option Holder
  | [] => some h
  | e :: es => match step h e with
    | none => none
    | some h' => run h' es

/-- a well-formed interleaving: every step enabled, starting with no mutex held -/
def WF (tr : List Ev) : Prop := (run Holder.init tr).isSome = true

/-- holder map after replaying `tr` (meaningful for well-formed `tr`) -/
def holderOf (tr : List Ev) : Holder := (run Holder.init tr).getD Holder.init

/-- `e` gives up thread `t`'s ownership of `m` -/
def Releases (e : Ev) (t : Thread) (m : Lock) : Prop :=
  e = .rel t m ∨ ∃ t', e = .handoff t t' m

/-- thread-local lockset: what `t` acquired (or was handed) and has not given up, computed from
    `t`'s own events only — this is what a syntactic, per-goroutine lockset analysis computes -/
def localHeld (t : Thread) (m : Lock) : List Ev → Bool → Bool
  | [], b => b
  | .acq t' m' :: es, b => localHeld t m es (if t' = t ∧ m' = m then true else b)
  | .rel t' m' :: es, b => localHeld t m es (if t' = t ∧ m' = m then false else b)
  | .handoff t' t'' m' :: es, b =>
      localHeld t m es (if m' = m then (if t'' = t then true else if t' = t then false else b) else b)
  | .acc _ _ _ :: es, b => localHeld t m es b
  | .fork _ _ _ :: es, b => localHeld t m es b
  | .publish _ _ :: es, b => localHeld t m es b

/-- the thread that performs the step -/
def evThread : Ev → Thread
  | .acq t _ => t
  | .rel t _ => t
  | .handoff t _ _ => t
  | .acc t _ _ => t
  | .fork t _ _ => t
  | .publish t _ => t

/-! ## Static facts -/

inductive Kind where
  | read | write | mapRead | mapIter | mapInsert | mapDelete
deriving DecidableEq, Repr

/-- static mutex reference of a fact -/
structure LockRef where
  cls : Nat
  /-- true: mutex field of the same object as the accessed field; false: mutex of a singleton object -/
  self : Bool
deriving DecidableEq, Repr

/-- the concrete mutex a reference denotes for an access to object instance `o` -/
def LockRef.inst (l : LockRef) (o : Nat) : Lock :=
  if l.self then (2 * l.cls + 1, o) else (2 * l.cls, 0)

structure Access where
  site : Nat            -- index into the generated site-name table (function:line)
  cls : Nat             -- location class (index into the generated class-name table)
  kind : Kind
  locks : List LockRef  -- mutexes syntactically held (only those that can guard this location)
  thread : Nat          -- thread class
  single : Bool         -- the thread class has exactly one thread (scheduler loops)
  init : Bool           -- object not yet published (fresh local / package initialiser)
  racy : Bool           -- the object reference itself was obtained by an unsynchronised read
  atomic : Bool         -- through sync/atomic or sync.Map
  pre : List Nat        -- spawn statements this access precedes in its spawner function
  post : List Nat       -- spawn statements this access's thread descends from
  hb : List Nat         -- named happens-before hypotheses this access relies on
  use : Bool            -- the value read is used (false: only compared with nil)
  live : Bool           -- pointer found in the registry under the registry lock, which is still held
  valid : Bool          -- re-checked non-nil under a lock the teardown holds, which is still held
deriving DecidableEq, Repr

def inter (a b : List Nat) : Bool := a.any (fun x => b.contains x)

/-- does the table contain an insertion into map class `c`?  (a map that is never inserted
    into is empty for ever: `delete` on it is a no-op and every access is a read) -/
def hasInsert (facts : List Access) (c : Nat) : Bool :=
  facts.any (fun b => b.cls == c && b.kind == .mapInsert)

def isWrite (facts : List Access) (a : Access) : Bool :=
  match a.kind with
  | .write => true
  | .mapInsert => true
  | .mapDelete => hasInsert facts a.cls
  | _ => false

def lockCompat (a b : Access) : Bool := a.locks.any (fun l => b.locks.contains l)

def sameSingle (a b : Access) : Bool := a.single && b.single && a.thread == b.thread

/-- pairs that are NOT ordered by a lock but by something the lockset theorem takes as a
    hypothesis: publication of a fresh object (unless the other side got its reference by an
    unsynchronised read), atomics, spawn order (before a `go` statement vs inside the spawned
    thread; both before the same once-per-object `go` statement = the same invocation), a named
    channel order -/
def exempt (a b : Access) : Bool :=
  (a.init && !b.racy) || (b.init && !a.racy) || (a.atomic && b.atomic) ||
  inter a.pre b.post || inter b.pre a.post || inter a.pre b.pre || inter a.hb b.hb

def compat (facts : List Access) (a b : Access) : Bool :=
  !(isWrite facts a || isWrite facts b) || sameSingle a b || lockCompat a b || exempt a b

def checkClass (facts : List Access) (c : Nat) : Bool :=
  facts.all (fun a => a.cls != c || facts.all (fun b => b.cls != c || compat facts a b))

def checkAll (facts : List Access) : Bool :=
  facts.all (fun a => facts.all (fun b => a.cls != b.cls || compat facts a b))

/-- (class, site, site) of every incompatible pair, each unordered pair once, in table order -/
def violatingPairsFrom (facts : List Access) : List Access → List (Nat × Nat × Nat)
  | [] => []
  | a :: rest =>
    ((a :: rest).filter (fun b => a.cls == b.cls && !compat facts a b)).map (fun b => (a.cls, a.site, b.site))
      ++ violatingPairsFrom facts rest

def violatingPairs (facts : List Access) : List (Nat × Nat × Nat) := violatingPairsFrom facts facts

def dedup : List Nat → List Nat
  | [] => []
  | x :: xs => if xs.contains x then dedup xs else x :: dedup xs

/-- classes with at least one incompatible pair -/
def badClasses (facts : List Access) : List Nat := dedup ((violatingPairs facts).map (·.1))

/-! ## Object life cycle: no use of a torn-down object ("stale pointer")

  Pairwise common locks are not enough for "handlers never observe a runner that was unloaded":
  a reader that finds the pointer in the registry under the registry lock, RELEASES it, and then
  reads the object under the object's own lock is race-free, yet may read fields the teardown has
  cleared.  A use of a cleared field is accepted only if the pointer is still `live` (found in
  the registry under the registry lock, lock held ever since), or `valid` (re-checked non-nil
  under a lock the teardown holds, held ever since), or fresh, or covered by the holder
  hypothesis (C01: a granted runner is open and is not closed while in use). -/

/-- every non-initialising write of class `c` in the table holds mutex `l` -/
def writesHold (facts : List Access) (c : Nat) (l : LockRef) : Bool :=
  facts.all (fun a => a.cls != c || !(a.kind == .write || a.kind == .mapInsert || a.kind == .mapDelete) ||
    a.init || a.locks.contains l)

/-- `G` = the registry lock, `S` = the object's own lock.  `live` only protects classes all of
    whose writes hold `G`; `valid` only those all of whose writes hold `S`. -/
def staleRead (facts : List Access) (cleared : List Nat) (holderHb : Nat) (G S : LockRef) (a : Access) : Bool :=
  a.kind == .read && cleared.contains a.cls && a.use &&
    !((a.live && writesHold facts a.cls G) || (a.valid && writesHold facts a.cls S) ||
      a.init || a.hb.contains holderHb)

/-- (class, site) of every stale read, in table order -/
def staleReads (facts : List Access) (cleared : List Nat) (holderHb : Nat) (G S : LockRef) : List (Nat × Nat) :=
  (facts.filter (staleRead facts cleared holderHb G S)).map (fun a => (a.cls, a.site))

/-- life-cycle events on top of the mutex events: `clear` = teardown of object `o` (needs the
    registry lock AND the object's lock; also removes `o` from the registry, one atomic region),
    `lookup` = the thread finds `o` in the registry (needs the registry lock; only objects not
    torn down are in it), `check` = a nil re-check that passed (needs the object's lock),
    `use` = a use of a cleared field (tagged with the static fact it instantiates). -/
inductive LEv where
  | sync (e : Ev)
  | clear (t : Thread) (o : Nat)
  | lookup (t : Thread) (o : Nat)
  | check (t : Thread) (o : Nat)
  /-- use of a cleared field of `o` by `t`; `f` = index of the static fact this use instantiates -/
  | use (t : Thread) (o : Nat) (f : Nat)
deriving DecidableEq, Repr

structure LState where
  holder : Holder
  cleared : Nat → Bool

def LState.init : LState := ⟨Holder.init, fun _ => false⟩

/-- `G` = the registry lock, `S o` = object `o`'s own lock -/
def lstep (G : Lock) (S : Nat → Lock) (s : LState) : LEv → Option LState
  | .sync e => match step s.holder e with
    | none => none
    | some h => some { s with holder := h }
  | .clear t o =>
    if s.holder G = some t ∧ s.holder (S o) = some t then
      some { s with cleared := fun o' => if o' = o then true else s.cleared o' }
    else none
  | .lookup t o => if s.holder G = some t ∧ s.cleared o = false then some s else none
  | .check t o => if s.holder (S o) = some t ∧ s.cleared o = false then some s else none
  | .use _ _ _ => some s

def lrun (G : Lock) (S : Nat → Lock) (s : LState) : List LEv → Option LState
  | [] => some s
  | e :: es => match lstep G S s e with
    | none => none
    | some s' => lrun G S s' es

/-! ## Reader/writer mutexes (sync.RWMutex)

  The exclusive-mutex semantics above has at most one holder per mutex; a `sync.RWMutex` admits several
  readers.  Separate small semantics; the static rule side is in the translator (a mutex held through
  `RLock` is a common lock for read accesses only). -/


inductive RWEv where
  | wacq (t : Nat) (m : Nat × Nat)
  | wrel (t : Nat) (m : Nat × Nat)
  | racq (t : Nat) (m : Nat × Nat)
  | rrel (t : Nat) (m : Nat × Nat)
deriving DecidableEq, Repr

/-- per mutex: the writer (if any) and the readers currently holding it -/
structure RWState where
  writer : Nat × Nat → Option Nat
  readers : Nat × Nat → List Nat

def RWState.init : RWState := ⟨fun _ => none, fun _ => []⟩

def rwstep (s : RWState) : RWEv → Option RWState
  | .wacq t m => if s.writer m = none ∧ s.readers m = [] then
      some { s with writer := fun m' => if m' = m then some t else s.writer m' } else none
  | .wrel t m => if s.writer m = some t then
      some { s with writer := fun m' => if m' = m then none else s.writer m' } else none
  | .racq t m => if s.writer m = none then
      some { s with readers := fun m' => if m' = m then t :: s.readers m' else s.readers m' } else none
  | .rrel t m => if t ∈ s.readers m then
      some { s with readers := fun m' => if m' = m then (s.readers m').erase t else s.readers m' } else none

def rwrun (s : RWState) : List RWEv → Option RWState
  | [] => some s
  | e :: es => match rwstep s e with
    | none => none
    | some s' => rwrun s' es


end OllamaVerif.Lockset
