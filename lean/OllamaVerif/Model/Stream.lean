/-
  C17 — model of the response paths of `server/routes.go` GenerateHandler / ChatHandler
  (runner callback → channel → `streamResponse` NDJSON or the non-stream aggregation loop),
  of the OpenAI-compatible writers of `openai/openai.go` (ChatWriter / CompleteWriter,
  toChunk / toChatCompletion / toCompleteChunk / toCompletion) and of the client-side
  decoding of `api/client.go` `stream`.

  The runner (llm.LlamaServer.Completion) is an input: a list of chunks handed to the
  callback in order, followed by the call's return value (`End.ok` = nil, `End.err m`).
  `parseToolCalls` (template + JSON machinery) is a parameter `parse : Bytes → List Call`
  (the Go `ok` result is exactly `len(calls) > 0`, so the empty list is "did not parse").
  `Tokenize` is the harness tokenizer `s ↦ [len s]`; the model records the length.

  Core Lean only (compiled into the oracle).
-/
import OllamaVerif.Model.Bytes
namespace OllamaVerif.Stream
open OllamaVerif

/-- one `llm.CompletionResponse` handed to the handler's callback -/
structure Chunk where
  content : Bytes
  done : Bool
  /-- `llm.DoneReason`: 0 stop, 1 length, anything else "connection closed" -/
  reason : Nat
  pec : Nat
  ec : Nat
deriving DecidableEq, Repr, Inhabited

/-- the return value of `Completion` -/
inductive End where
  | ok
  | err (msg : Bytes)
deriving DecidableEq, Repr

def sStop : Bytes := [115, 116, 111, 112]
def sLength : Bytes := [108, 101, 110, 103, 116, 104]
def sToolCalls : Bytes := [116, 111, 111, 108, 95, 99, 97, 108, 108, 115]

/-- `DoneReason.String()` -/
def reasonStr : Nat → Bytes
  | 0 => sStop
  | 1 => sLength
  | _ => []

/-- `api.ToolCall` (arguments as canonical JSON text) -/
structure Call where
  name : Bytes
  args : Bytes
  index : Nat
deriving DecidableEq, Repr

/-- the fields of an `api.GenerateResponse` / `api.ChatResponse` other than the text:
    `named` = the `model` (and, for chat, `role: assistant`) fields are set — false only for
    the zero value the non-stream loop returns when the channel delivered nothing. -/
structure Info where
  named : Bool
  done : Bool
  reason : Bytes
  pec : Nat
  ec : Nat
deriving DecidableEq, Repr

instance : Inhabited Info := ⟨⟨false, false, [], 0, 0⟩⟩

structure GenMsg where
  resp : Bytes
  info : Info
  /-- `context`: length of the text handed to Tokenize -/
  ctx : Option Nat
deriving DecidableEq, Repr

instance : Inhabited GenMsg := ⟨⟨[], default, none⟩⟩

structure ChatMsg where
  content : Bytes
  calls : List Call
  info : Info
deriving DecidableEq, Repr

instance : Inhabited ChatMsg := ⟨⟨[], [], default⟩⟩

/-- what travels over the per-request channel: a response value or `gin.H{"error": …}` -/
inductive Item (α : Type) where
  | msg (m : α)
  | err (e : Bytes)
deriving DecidableEq, Repr

def chunkInfo (c : Chunk) : Info :=
  ⟨true, c.done, if c.done then reasonStr c.reason else [], c.pec, c.ec⟩

def endItems {α : Type} : End → List (Item α)
  | .ok => []
  | .err m => [.err m]

/-! ### GenerateHandler -/

/-- the value the callback sends for chunk `c` when the builder holds `sb'` (already including
    `c.content`) -/
def genMsgOf (raw : Bool) (pl : Nat) (sb' : Bytes) (c : Chunk) : GenMsg :=
  { resp := c.content, info := chunkInfo c,
    ctx := if c.done && !raw then some (pl + sb'.length) else none }

/-- the callback over the runner's chunks; `sb` is the goroutine's strings.Builder -/
def genCallback (raw : Bool) (pl : Nat) : List Chunk → Bytes → List GenMsg
  | [], _ => []
  | c :: cs, sb =>
    let sb' := sb ++ c.content
    genMsgOf raw pl sb' c :: genCallback raw pl cs sb'

/-- everything the goroutine sends before closing the channel -/
def genChan (raw : Bool) (pl : Nat) (cs : List Chunk) (e : End) : List (Item GenMsg) :=
  (genCallback raw pl cs []).map .msg ++ endItems e

/-- `stream != false`: `streamResponse` writes one NDJSON line per item, status 200 -/
def genStream := genChan

/-- the `for rr := range ch` loop of the non-stream branch (shared shape of both handlers) -/
def onceLoop {α : Type} (content : α → Bytes) : List (Item α) → Bytes → α → Except Bytes (Bytes × α)
  | [], sb, r => .ok (sb, r)
  | .msg m :: rest, sb, _ => onceLoop content rest (sb ++ content m) m
  | .err e :: _, _, _ => .error e

/-- `stream == false`: `.ok m` = 200 with body `m`; `.error msg` = 500 `{"error": msg}` -/
def genOnce (raw : Bool) (pl : Nat) (cs : List Chunk) (e : End) : Except Bytes GenMsg :=
  match onceLoop (·.resp) (genChan raw pl cs e) [] default with
  | .ok (sb, r) => .ok { r with resp := sb }
  | .error m => .error m

/-! ### ChatHandler -/

/-- `toolCalls[i].Function.Index = toolCallIndex; toolCallIndex++` -/
def setIdx : Nat → List Call → List Call
  | _, [] => []
  | i, c :: cs => { c with index := i } :: setIdx (i + 1) cs

/-- the callback.  `buffered` = `!(stream == false) && len(tools) > 0` (the streaming tool path);
    `sb`/`idx` are the goroutine's builder and `toolCallIndex`. -/
def chatCallback (parse : Bytes → List Call) (buffered : Bool) : List Chunk → Bytes → Nat → List ChatMsg
  | [], _, _ => []
  | c :: cs, sb, idx =>
    let res : ChatMsg := { content := c.content, calls := [], info := chunkInfo c }
    if !buffered then res :: chatCallback parse buffered cs sb idx
    else
      let sb' := sb ++ c.content
      let calls := parse sb'
      if !calls.isEmpty then
        { res with content := [], calls := setIdx idx calls }
          :: chatCallback parse buffered cs [] (idx + calls.length)
      else if c.done then
        { res with content := if idx == 0 then sb' else c.content }
          :: chatCallback parse buffered cs sb' idx
      else chatCallback parse buffered cs sb' idx

def chatChan (parse : Bytes → List Call) (buffered : Bool) (cs : List Chunk) (e : End) : List (Item ChatMsg) :=
  (chatCallback parse buffered cs [] 0).map .msg ++ endItems e

def chatStream (parse : Bytes → List Call) (tools : Bool) (cs : List Chunk) (e : End) : List (Item ChatMsg) :=
  chatChan parse tools cs e

def chatOnce (parse : Bytes → List Call) (tools : Bool) (cs : List Chunk) (e : End) : Except Bytes ChatMsg :=
  match onceLoop (·.content) (chatChan parse false cs e) [] default with
  | .ok (sb, r) =>
    let r := { r with content := sb }
    if tools && !(parse sb).isEmpty then .ok { r with calls := parse sb, content := [] } else .ok r
  | .error m => .error m

/-! ### OpenAI-compatible writers (`openai/openai.go`) -/

structure Usage where
  prompt : Nat
  completion : Nat
  total : Nat
deriving DecidableEq, Repr

def usageOf (m : Info) : Usage := ⟨m.pec, m.ec, m.pec + m.ec⟩

/-- what the OpenAI writers put on the wire -/
inductive OaEv where
  /-- `chat.completion.chunk` with one choice -/
  | chunk (content : Bytes) (calls : List Call) (finish : Option Bytes)
  /-- a chunk with `choices: []` and `usage` -/
  | usage (u : Usage)
  /-- `data: [DONE]` -/
  | done
  /-- `chat.completion`; `named` = role `assistant` (false: the zero value's empty role) -/
  | chat (named : Bool) (content : Bytes) (calls : List Call) (finish : Option Bytes) (u : Usage)
  /-- `text_completion` chunk (stream) -/
  | tchunk (text : Bytes) (finish : Option Bytes) (u : Option Usage)
  /-- `text_completion` (non-stream) -/
  | text (text : Bytes) (finish : Option Bytes) (u : Usage)
  /-- `{"error":{"message":…,"type":"api_error"}}` -/
  | error (msg : Bytes)
deriving DecidableEq, Repr

def nonEmpty? (b : Bytes) : Option Bytes := if b.isEmpty then none else some b

/-- what `json.Unmarshal(line, &api.ChatResponse{})` yields for a channel item: an
    `{"error":…}` line has none of the struct's fields, i.e. the zero value -/
def asChat : Item ChatMsg → ChatMsg
  | .msg m => m
  | .err _ => default

def asGen : Item GenMsg → GenMsg
  | .msg m => m
  | .err _ => default

/-- `ChatWriter.writeResponse` in stream mode, one call per NDJSON line; `sent` = `toolCallSent` -/
def oaChatStream (usage : Bool) : List (Item ChatMsg) → Bool → List OaEv
  | [], _ => []
  | it :: rest, sent =>
    let m := asChat it
    let finish := if m.info.reason.isEmpty then none else if sent then some sToolCalls else some m.info.reason
    let sent' := sent || !m.calls.isEmpty
    [OaEv.chunk m.content m.calls finish]
      ++ (if m.info.done then (if usage then [OaEv.usage (usageOf m.info)] else []) ++ [OaEv.done] else [])
      ++ oaChatStream usage rest sent'

/-- `ChatWriter.Write` for the single non-stream body -/
def oaChatOnce : Except Bytes ChatMsg → OaEv
  | .ok m =>
    let reason := if !m.calls.isEmpty then sToolCalls else m.info.reason
    .chat m.info.named m.content m.calls (nonEmpty? reason) (usageOf m.info)
  | .error e => .error e

/-- `CompleteWriter.writeResponse` in stream mode -/
def oaCmplStream (usage : Bool) : List (Item GenMsg) → List OaEv
  | [] => []
  | it :: rest =>
    let m := asGen it
    [OaEv.tchunk m.resp (nonEmpty? m.info.reason) (if usage then some ⟨0, 0, 0⟩ else none)]
      ++ (if m.info.done then (if usage then [OaEv.usage (usageOf m.info)] else []) ++ [OaEv.done] else [])
      ++ oaCmplStream usage rest

def oaCmplOnce : Except Bytes GenMsg → OaEv
  | .ok m => .text m.resp (nonEmpty? m.info.reason) (usageOf m.info)
  | .error e => .error e


/-! ### Repaired variants (proposed_fixes/C17-F17ab.patch, C17-F17c.patch).
    The pinned functions above mirror /repo; these mirror the patched code, so that switching the
    check to the repaired behaviour is one edit (the `variant` passed by vlib/checks/c17.py). -/

/-- F17a/b repaired: the whole accumulated text is parsed at every chunk, only the calls not yet
    sent are emitted, numbered by their position. -/
def chatCallbackFixed (parse : Bytes → List Call) : List Chunk → Bytes → Nat → List ChatMsg
  | [], _, _ => []
  | c :: cs, sb, idx =>
    let res : ChatMsg := { content := c.content, calls := [], info := chunkInfo c }
    let sb' := sb ++ c.content
    let calls := parse sb'
    if !calls.isEmpty && idx < calls.length then
      { res with content := [], calls := (setIdx 0 calls).drop idx }
        :: chatCallbackFixed parse cs sb' calls.length
    else if c.done then
      { res with content := if idx == 0 then sb' else [] }
        :: chatCallbackFixed parse cs sb' idx
    else chatCallbackFixed parse cs sb' idx

def chatStreamV (fixed : Bool) (parse : Bytes → List Call) (tools : Bool) (cs : List Chunk) (e : End) :
    List (Item ChatMsg) :=
  if fixed && tools then (chatCallbackFixed parse cs [] 0).map .msg ++ endItems e
  else chatStream parse tools cs e

/-- F17b repaired: the non-stream reply numbers its calls too -/
def chatOnceV (fixed : Bool) (parse : Bytes → List Call) (tools : Bool) (cs : List Chunk) (e : End) :
    Except Bytes ChatMsg :=
  match chatOnce parse tools cs e with
  | .ok m => .ok (if fixed then { m with calls := setIdx 0 m.calls } else m)
  | .error x => .error x

/-- F17c repaired: an `{"error": msg}` line (msg non-empty) becomes an error event -/
def oaChatStreamFixed (usage : Bool) : List (Item ChatMsg) → Bool → List OaEv
  | [], _ => []
  | .err e :: rest, sent =>
    if e.isEmpty then oaChatStream usage [.err e] sent ++ oaChatStreamFixed usage rest sent
    else OaEv.error e :: oaChatStreamFixed usage rest sent
  | .msg m :: rest, sent =>
    oaChatStream usage [.msg m] sent ++ oaChatStreamFixed usage rest (sent || !m.calls.isEmpty)

def oaCmplStreamFixed (usage : Bool) : List (Item GenMsg) → List OaEv
  | [] => []
  | .err e :: rest =>
    if e.isEmpty then oaCmplStream usage [.err e] ++ oaCmplStreamFixed usage rest
    else OaEv.error e :: oaCmplStreamFixed usage rest
  | .msg m :: rest => oaCmplStream usage [.msg m] ++ oaCmplStreamFixed usage rest

def oaChatStreamV (fixed usage : Bool) (items : List (Item ChatMsg)) : List OaEv :=
  if fixed then oaChatStreamFixed usage items false else oaChatStream usage items false

def oaCmplStreamV (fixed usage : Bool) (items : List (Item GenMsg)) : List OaEv :=
  if fixed then oaCmplStreamFixed usage items else oaCmplStream usage items


/-! ### The handlers end to end: faults of the runner outside `Completion`, repaired variants

    Besides `Completion` the handlers call the runner (`llm.LlamaServer`) at these points:
    * the scheduler hands out the runner (`scheduleRunner`; load / `WaitUntilRunning` failures arrive
      here as an error) — before anything is written, both handlers: 500 `{"error": msg}`;
    * GenerateHandler, non-raw request that supplies `context`: `Detokenize(context)` — before
      `Completion`: 500 (raw + context is rejected with 400 earlier and never reaches the runner);
    * ChatHandler: `Tokenize` inside `chatPrompt` — only when the conversation has more than one
      message (the last message is always kept without measuring it) — before `Completion`: 500;
    * GenerateHandler, non-raw request, inside the callback on a done chunk:
      `Tokenize(prompt + response)` for the `context` field — on failure the callback sends
      `{"error": msg}` INSTEAD of the done message and returns.
    A fault is "this method fails (with this message) whenever it is called during the request". -/

inductive Fault where
  | none
  /-- the scheduler returns an error instead of a runner -/
  | load (m : Bytes)
  | detok (m : Bytes)
  | tok (m : Bytes)
deriving DecidableEq, Repr

/-- GenerateHandler fails before `Completion` -/
def Fault.genPre (hasCtx : Bool) : Fault → Option Bytes
  | .load m => some m
  | .detok m => if hasCtx then some m else Option.none
  | _ => Option.none

/-- ChatHandler fails before `Completion`; `hist` = the conversation has earlier messages -/
def Fault.chatPre (hist : Bool) : Fault → Option Bytes
  | .load m => some m
  | .tok m => if hist then some m else Option.none
  | _ => Option.none

/-- the Tokenize call of GenerateHandler's done branch fails -/
def Fault.ctxTok : Fault → Option Bytes
  | .tok m => some m
  | _ => Option.none

/-- GenerateHandler's callback with a possibly failing Tokenize: channel items, in order -/
def genCallbackT (tf : Option Bytes) (raw : Bool) (pl : Nat) : List Chunk → Bytes → List (Item GenMsg)
  | [], _ => []
  | c :: cs, sb =>
    let sb' := sb ++ c.content
    (match tf with
      | some m => if c.done && !raw then Item.err m else Item.msg (genMsgOf raw pl sb' c)
      | Option.none => Item.msg (genMsgOf raw pl sb' c)) :: genCallbackT tf raw pl cs sb'

/-- which proposed repairs the modelled tree contains -/
structure Variant where
  /-- C17-F17ab.patch, streaming tool path (F17a) -/
  toolsStream : Bool
  /-- C17-F17ab.patch / C17-F17b.patch: the non-stream reply numbers its calls (F17b) -/
  toolsIndex : Bool
  /-- C17-F17c.patch (in /repo since 499276761) -/
  oaErr : Bool
  /-- C17-F17d.patch: a run that ends without a done chunk is reported as an error -/
  incomplete : Bool
deriving DecidableEq, Repr

/-- `errIncompleteResponse` of C17-F17d.patch -/
def sIncomplete : Bytes := [109, 111, 100, 101, 108, 32, 114, 117, 110, 110, 101, 114, 32, 115, 116, 111, 112, 112, 101, 100, 32, 119, 105, 116, 104, 111, 117, 116, 32, 99, 111, 109, 112, 108, 101, 116, 105, 110, 103, 32, 116, 104, 101, 32, 114, 101, 115, 112, 111, 110, 115, 101]

def sawDone (cs : List Chunk) : Bool := cs.any (·.done)

/-- what the goroutine sends after `Completion` returned -/
def endItemsV {α : Type} (fixD : Bool) (cs : List Chunk) : End → List (Item α)
  | .ok => if fixD && !sawDone cs then [.err sIncomplete] else []
  | .err m => [.err m]

def genItemsH (v : Variant) (f : Fault) (raw : Bool) (pl : Nat) (cs : List Chunk) (e : End) : List (Item GenMsg) :=
  genCallbackT f.ctxTok raw pl cs [] ++ endItemsV v.incomplete cs e

/-- /api/generate, `stream != false`: `.error m` = 500 `{"error": m}` before any streaming,
    `.ok items` = status 200 and one NDJSON line per item -/
def generateStreamH (v : Variant) (f : Fault) (raw hasCtx : Bool) (pl : Nat) (cs : List Chunk) (e : End) :
    Except Bytes (List (Item GenMsg)) :=
  match f.genPre hasCtx with
  | some m => .error m
  | Option.none => .ok (genItemsH v f raw pl cs e)

/-- /api/generate, `stream == false` -/
def generateOnceH (v : Variant) (f : Fault) (raw hasCtx : Bool) (pl : Nat) (cs : List Chunk) (e : End) :
    Except Bytes GenMsg :=
  match f.genPre hasCtx with
  | some m => .error m
  | Option.none =>
    match onceLoop (·.resp) (genItemsH v f raw pl cs e) [] default with
    | .ok (sb, r) => .ok { r with resp := sb }
    | .error m => .error m

def chatItemsH (v : Variant) (parse : Bytes → List Call) (buffered : Bool) (cs : List Chunk) (e : End) :
    List (Item ChatMsg) :=
  (if v.toolsStream && buffered then chatCallbackFixed parse cs [] 0 else chatCallback parse buffered cs [] 0).map .msg
    ++ endItemsV v.incomplete cs e

/-- /api/chat, `stream != false` -/
def chatStreamH (v : Variant) (f : Fault) (parse : Bytes → List Call) (tools hist : Bool) (cs : List Chunk) (e : End) :
    Except Bytes (List (Item ChatMsg)) :=
  match f.chatPre hist with
  | some m => .error m
  | Option.none => .ok (chatItemsH v parse tools cs e)

/-- /api/chat, `stream == false` -/
def chatOnceH (v : Variant) (f : Fault) (parse : Bytes → List Call) (tools hist : Bool) (cs : List Chunk) (e : End) :
    Except Bytes ChatMsg :=
  match f.chatPre hist with
  | some m => .error m
  | Option.none =>
    match onceLoop (·.content) (chatItemsH v parse false cs e) [] default with
    | .ok (sb, r) =>
      let r := { r with content := sb }
      if tools && !(parse sb).isEmpty then
        .ok { r with calls := if v.toolsIndex then setIdx 0 (parse sb) else parse sb, content := [] }
      else .ok r
    | .error m => .error m

/-- /v1/chat/completions and /v1/completions in stream mode on top of the native stream: a native
    500 becomes a 500 error object (`writeError`) -/
def oaChatStreamH (v : Variant) (usage : Bool) : Except Bytes (List (Item ChatMsg)) → Except Bytes (List OaEv)
  | .error m => .error m
  | .ok items => .ok (oaChatStreamV v.oaErr usage items)

def oaCmplStreamH (v : Variant) (usage : Bool) : Except Bytes (List (Item GenMsg)) → Except Bytes (List OaEv)
  | .error m => .error m
  | .ok items => .ok (oaCmplStreamV v.oaErr usage items)

/-! ### `api.Client.stream`: messages delivered to the callback, and the returned error -/

def clientView {α : Type} [Inhabited α] : List (Item α) → List α × Option Bytes
  | [] => ([], none)
  | .msg m :: rest => let (ms, e) := clientView rest; (m :: ms, e)
  | .err e :: rest =>
    -- `{"error":""}` is not recognised as an error: it is decoded as a (zero) message
    if e.isEmpty then let (ms, e') := clientView rest; (default :: ms, e') else ([], some e)


/-! ### `api.Client.stream` with the scanner's line limit

    `stream` reads the body with a `bufio.Scanner` whose buffer holds `maxBufferSize` bytes: a line
    (without its newline) of `limit` bytes or more cannot be held, `Scan` returns false and
    `scanner.Err()` is `ErrTooLong`.  Pinned: the error is never looked at — `stream` returns nil as if
    the body had ended there.  Repaired (C17-F17e.patch): the error is returned.
    Each item comes with the length of its line on the wire (an input: JSON encoding is not modelled). -/

/-- `bufio.ErrTooLong.Error()` -/
def sTooLong : Bytes := [98, 117, 102, 105, 111, 46, 83, 99, 97, 110, 110, 101, 114, 58, 32, 116, 111, 107, 101, 110, 32, 116, 111, 111, 32, 108, 111, 110, 103]

def clientViewL {α : Type} [Inhabited α] (limit : Nat) (fixed : Bool) : List (Item α × Nat) → List α × Option Bytes
  | [] => ([], none)
  | (it, n) :: rest =>
    if limit ≤ n then ([], if fixed then some sTooLong else none)
    else match it with
      | .msg m => let (ms, e) := clientViewL limit fixed rest; (m :: ms, e)
      | .err e =>
        if e.isEmpty then let (ms, e') := clientViewL limit fixed rest; (default :: ms, e') else ([], some e)

/-! ### Every request: what the handlers do BEFORE the runner is started (round 7)

    In the order of the code (`GenerateHandler`, `ChatHandler`, `scheduleRunner`, `handleScheduleError`):
    1. `prompt == ""` / no messages together with `keep_alive: 0` → the model is expired and ONE body
       `{done: true, done_reason: "unload"}` is written (status 200) — the scheduler is not asked for a runner;
    2. generate: `raw` together with `context` → 400;
    3. chat: tools requested from a model whose template has no tool support → `scheduleRunner`'s capability
       check fails → 400 `<canonical name> does not support tools`;
    4. the scheduler returns an error instead of a runner → `handleScheduleError` picks the status from the
       class of the error and rewrites the text of two classes;
    5. `prompt == ""` / no messages → ONE body `{done: true, done_reason: "load"}` (status 200);
    6. generate: `Detokenize(context)` fails → 500; chat: `Tokenize` inside `chatPrompt` fails → 500;
    7. the runner is started (`Completion`): everything modelled above.
    Whether the request asked for a stream plays no role in 1–6: one JSON body is written either way. -/

/-- what `handleScheduleError` distinguishes (`errors.Is`) in the error `scheduleRunner` returned -/
inductive SchedErr where
  /-- `errCapabilities` / `errRequired`: 400, `err.Error()` -/
  | capabilities
  /-- `context.Canceled`: 499, `request canceled` -/
  | canceled
  /-- `ErrMaxQueue`: 503, `err.Error()` -/
  | maxQueue
  /-- `os.ErrNotExist`: 404, `model "<name>" not found, try pulling it first` -/
  | notExist
  /-- anything else: 500, `err.Error()` -/
  | other
deriving DecidableEq, Repr

def schedStatus : SchedErr → Nat
  | .capabilities => 400
  | .canceled => 499
  | .maxQueue => 503
  | .notExist => 404
  | .other => 500

/-- `request canceled` -/
def sCanceled : Bytes := [114, 101, 113, 117, 101, 115, 116, 32, 99, 97, 110, 99, 101, 108, 101, 100]
/-- `model "` -/
def sNotFound1 : Bytes := [109, 111, 100, 101, 108, 32, 34]
/-- `" not found, try pulling it first` -/
def sNotFound2 : Bytes := [34, 32, 110, 111, 116, 32, 102, 111, 117, 110, 100, 44, 32, 116, 114, 121, 32, 112, 117, 108, 108, 105, 110, 103, 32, 105, 116, 32, 102, 105, 114, 115, 116]
/-- `load` -/
def sLoad : Bytes := [108, 111, 97, 100]
/-- `unload` -/
def sUnload : Bytes := [117, 110, 108, 111, 97, 100]
/-- `raw mode does not support template, system, or context` -/
def sRawCtx : Bytes := [114, 97, 119, 32, 109, 111, 100, 101, 32, 100, 111, 101, 115, 32, 110, 111, 116, 32, 115, 117, 112, 112, 111, 114, 116, 32, 116, 101, 109, 112, 108, 97, 116, 101, 44, 32, 115, 121, 115, 116, 101, 109, 44, 32, 111, 114, 32, 99, 111, 110, 116, 101, 120, 116]
/-- ` does not support tools` -/
def sNoTools : Bytes := [32, 100, 111, 101, 115, 32, 110, 111, 116, 32, 115, 117, 112, 112, 111, 114, 116, 32, 116, 111, 111, 108, 115]

/-- the text `handleScheduleError` writes; `name` = the model name as the request spelled it (`%q` of a
    name without characters that need escaping), `m` = `err.Error()` -/
def schedMsg (k : SchedErr) (name m : Bytes) : Bytes :=
  match k with
  | .canceled => sCanceled
  | .notExist => sNotFound1 ++ name ++ sNotFound2
  | _ => m

/-- the request, as far as steps 1–6 look at it -/
structure ReqShape where
  /-- generate: `prompt == ""`; chat: `len(messages) == 0` -/
  empty : Bool
  /-- `keep_alive` present and 0 seconds -/
  keepAlive0 : Bool
  /-- chat: tools requested and the model's template cannot render them -/
  noToolSupport : Bool
  /-- the model name as spelled in the request -/
  name : Bytes
  /-- its canonical form (`model.ParseName(..).String()`, computed by the real function: an input) -/
  full : Bytes
  /-- class of the scheduler's error when the fault is `load` -/
  cls : SchedErr
deriving DecidableEq, Repr

/-- a request the modelled part of the generators never varied before round 7: non-empty, keep_alive
    absent, tools supported, scheduler errors of the unclassified kind -/
def ReqShape.plain (q : ReqShape) : Prop := q.empty = false ∧ q.noToolSupport = false ∧ q.cls = .other

/-- outcome of steps 1–6 -/
inductive Pre where
  | go
  | fail (status : Nat) (msg : Bytes)
  | early (reason : Bytes)
deriving DecidableEq, Repr

def genPreH (q : ReqShape) (raw hasCtx : Bool) (f : Fault) : Pre :=
  if q.empty && q.keepAlive0 then .early sUnload
  else if raw && hasCtx then .fail 400 sRawCtx
  else match f with
    | .load m => .fail (schedStatus q.cls) (schedMsg q.cls q.name m)
    | _ =>
      if q.empty then .early sLoad
      else match f.genPre hasCtx with
        | some m => .fail 500 m
        | Option.none => .go

def chatPreH (q : ReqShape) (hist : Bool) (f : Fault) : Pre :=
  if q.empty && q.keepAlive0 then .early sUnload
  else if q.noToolSupport then .fail 400 (q.full ++ sNoTools)
  else match f with
    | .load m => .fail (schedStatus q.cls) (schedMsg q.cls q.name m)
    | _ =>
      if q.empty then .early sLoad
      else match f.chatPre hist with
        | some m => .fail 500 m
        | Option.none => .go

/-- what a handler writes -/
inductive Reply (α : Type) where
  /-- one JSON body `{"error": msg}` with that status -/
  | fail (status : Nat) (msg : Bytes)
  /-- one JSON body, status 200 -/
  | body (m : α)
  /-- status 200, one NDJSON line per item -/
  | stream (items : List (Item α))
deriving DecidableEq, Repr

def earlyInfo (reason : Bytes) : Info := ⟨true, true, reason, 0, 0⟩
def earlyGen (reason : Bytes) : GenMsg := { resp := [], info := earlyInfo reason, ctx := none }
def earlyChat (reason : Bytes) : ChatMsg := { content := [], calls := [], info := earlyInfo reason }

def onceReply {α : Type} : Except Bytes α → Reply α
  | .ok m => .body m
  | .error m => .fail 500 m

def streamReply {α : Type} : Except Bytes (List (Item α)) → Reply α
  | .ok items => .stream items
  | .error m => .fail 500 m

/-- /api/generate, any request -/
def generateR (v : Variant) (stream : Bool) (q : ReqShape) (f : Fault) (raw hasCtx : Bool) (pl : Nat)
    (cs : List Chunk) (e : End) : Reply GenMsg :=
  match genPreH q raw hasCtx f with
  | .fail s m => .fail s m
  | .early r => .body (earlyGen r)
  | .go => if stream then streamReply (generateStreamH v f raw hasCtx pl cs e)
           else onceReply (generateOnceH v f raw hasCtx pl cs e)

/-- /api/chat, any request -/
def chatR (v : Variant) (stream : Bool) (q : ReqShape) (f : Fault) (parse : Bytes → List Call) (tools hist : Bool)
    (cs : List Chunk) (e : End) : Reply ChatMsg :=
  match chatPreH q hist f with
  | .fail s m => .fail s m
  | .early r => .body (earlyChat r)
  | .go => if stream then streamReply (chatStreamH v f parse tools hist cs e)
           else onceReply (chatOnceH v f parse tools hist cs e)

/-- the OpenAI writers on top of a native reply: HTTP status and events.  A single 200 body handed to a
    writer in stream mode is treated like one stream line. -/
def oaChatR (v : Variant) (stream usage : Bool) : Reply ChatMsg → Nat × List OaEv
  | .fail s m => (s, [.error m])
  | .body m => (200, if stream then oaChatStreamV v.oaErr usage [.msg m] else [oaChatOnce (.ok m)])
  | .stream items => (200, oaChatStreamV v.oaErr usage items)

def oaCmplR (v : Variant) (stream usage : Bool) : Reply GenMsg → Nat × List OaEv
  | .fail s m => (s, [.error m])
  | .body m => (200, if stream then oaCmplStreamV v.oaErr usage [.msg m] else [oaCmplOnce (.ok m)])
  | .stream items => (200, oaCmplStreamV v.oaErr usage items)

/-- what `api.Client` is handed, line by line -/
def Reply.lines {α : Type} : Reply α → List (Item α)
  | .fail _ m => [.err m]
  | .body m => [.msg m]
  | .stream items => items


/-! ### F17f repaired (proposed_fixes/C17-F17f.patch, NOT in /repo): `ChatWriter.writeResponse` sets
    `toolCallSent` BEFORE `toChunk` reads it, so a final message that itself carries the tool call ends
    with `finish_reason: "tool_calls"` like the non-streamed reply.  (On top of the F17c repair.) -/

def oaChatStreamFF (usage : Bool) : List (Item ChatMsg) → Bool → List OaEv
  | [], _ => []
  | .err e :: rest, sent =>
    if e.isEmpty then oaChatStream usage [.err e] sent ++ oaChatStreamFF usage rest sent
    else OaEv.error e :: oaChatStreamFF usage rest sent
  | .msg m :: rest, sent =>
    let sent' := sent || !m.calls.isEmpty
    let finish := if m.info.reason.isEmpty then none else if sent' then some sToolCalls else some m.info.reason
    [OaEv.chunk m.content m.calls finish]
      ++ (if m.info.done then (if usage then [OaEv.usage (usageOf m.info)] else []) ++ [OaEv.done] else [])
      ++ oaChatStreamFF usage rest sent'

/-- /v1/chat/completions on top of a native reply, pinned (`ff = false`) or with C17-F17f.patch -/
def oaChatRF (ff : Bool) (v : Variant) (stream usage : Bool) : Reply ChatMsg → Nat × List OaEv
  | .body m => if ff && stream then (200, oaChatStreamFF usage [.msg m] false) else oaChatR v stream usage (.body m)
  | .stream items => if ff then (200, oaChatStreamFF usage items false) else oaChatR v stream usage (.stream items)
  | .fail s m => oaChatR v stream usage (.fail s m)

/-! ### `llmServer.Completion` (llm/server.go): what reaches the handlers' callback (round 7)

    After the runner answered 200, `Completion` scans the body line by line: empty lines are skipped, an
    optional `data: ` prefix is dropped, the line is decoded (an undecodable line ends the call with an
    error), the token-repeat guard (`strings.TrimSpace(content)` equal to the previous one more than 30
    times in a row) ends the call with `ctx.Err()` — nil while the context is live —, a non-empty
    `content` is handed to the callback as a content-only chunk, and a line with `done` is handed over
    WHOLE (its content a second time) and ends the call with nil.  When the body ends: a read error
    is returned, a clean end returns nil.  JSON decoding and the error texts are inputs. -/

inductive RLine where
  | blank
  /-- a line `json.Unmarshal` rejects -/
  | bad
  | resp (c : Chunk)
deriving DecidableEq, Repr

/-- how the body ends: cleanly, or with `scanner.Err() != nil` (connection dropped, line too long) -/
inductive BodyEnd where
  | clean
  | broken
deriving DecidableEq, Repr

def isSpaceAscii (b : UInt8) : Bool := b == 32 || (9 ≤ b && b ≤ 13)

/-- `strings.TrimSpace` on ASCII text -/
def trimAscii (s : Bytes) : Bytes :=
  ((s.dropWhile isSpaceAscii).reverse.dropWhile isSpaceAscii).reverse

/-- the scan loop; `em` = the text of the error returned (whatever it is), `lt`/`n` = `lastToken`/`tokenRepeat` -/
def completionLoop (em : Bytes) : List RLine → BodyEnd → Bytes → Nat → List Chunk × End
  | [], .clean, _, _ => ([], .ok)
  | [], .broken, _, _ => ([], .err em)
  | .blank :: rest, be, lt, n => completionLoop em rest be lt n
  | .bad :: _, _, _, _ => ([], .err em)
  | .resp c :: rest, be, lt, n =>
    let t := trimAscii c.content
    let n' := if t == lt then n + 1 else 0
    if n' > 30 then ([], .ok)
    else
      let pre : List Chunk := if c.content.isEmpty then [] else [⟨c.content, false, 0, 0, 0⟩]
      if c.done then (pre ++ [c], .ok)
      else
        let r := completionLoop em rest be t n'
        (pre ++ r.1, r.2)

/-- `Completion` for a runner reply: a status of 400 or more is an error before anything is scanned -/
def completionCall (em : Bytes) (httpFail : Bool) (ls : List RLine) (be : BodyEnd) : List Chunk × End :=
  if httpFail then ([], .err em) else completionLoop em ls be [] 0

/-! ### `waitForStream` (server/routes.go): the non-streamed reply of pull / push / create (round 7)

    The progress goroutines put `api.ProgressResponse` values and `gin.H{"error": …[, "status": …]}` on the
    channel; `stream != false` hands the channel to `streamResponse` (one NDJSON line per item, status 200);
    `stream == false` hands it to `waitForStream`, which answers with the first terminal item: a progress
    message whose status is `success` (200, that message), an error item (its `status` or 500, its text — or
    a fixed text when `error` is not a string), any other value (500), or — channel closed — 500. -/

inductive PItem where
  | progress (status : Bytes)
  /-- `gin.H`: `msg` = the `error` member if it is a string, `status` = the `status` member if it is an int -/
  | err (msg : Option Bytes) (status : Option Nat)
  | other
deriving DecidableEq, Repr

/-- `success` -/
def sSuccess : Bytes := [115, 117, 99, 99, 101, 115, 115]
/-- `unexpected end of progress response` -/
def sUnexpectedEnd : Bytes := [117, 110, 101, 120, 112, 101, 99, 116, 101, 100, 32, 101, 110, 100, 32, 111, 102, 32, 112, 114, 111, 103, 114, 101, 115, 115, 32, 114, 101, 115, 112, 111, 110, 115, 101]
/-- `unexpected error format in progress response` -/
def sBadErrFormat : Bytes := [117, 110, 101, 120, 112, 101, 99, 116, 101, 100, 32, 101, 114, 114, 111, 114, 32, 102, 111, 114, 109, 97, 116, 32, 105, 110, 32, 112, 114, 111, 103, 114, 101, 115, 115, 32, 114, 101, 115, 112, 111, 110, 115, 101]
/-- `unexpected progress response` -/
def sBadProgress : Bytes := [117, 110, 101, 120, 112, 101, 99, 116, 101, 100, 32, 112, 114, 111, 103, 114, 101, 115, 115, 32, 114, 101, 115, 112, 111, 110, 115, 101]

/-- what `waitForStream` writes: the success message (200) or an error body -/
inductive WaitReply where
  | success
  | error (status : Nat) (msg : Bytes)
deriving DecidableEq, Repr

def PItem.terminal : PItem → Bool
  | .progress st => st == sSuccess
  | _ => true

/-- the reply a terminal item stands for -/
def PItem.reply : PItem → WaitReply
  | .progress _ => .success
  | .err msg status => .error (status.getD 500) (msg.getD sBadErrFormat)
  | .other => .error 500 sBadProgress

def waitForStreamM : List PItem → WaitReply
  | [] => .error 500 sUnexpectedEnd
  | it :: rest => if it.terminal then it.reply else waitForStreamM rest

end OllamaVerif.Stream
