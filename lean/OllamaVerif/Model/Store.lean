/-
  Executable model of the local model store and of the operations that change it (C04).

  Mirrors (function by function, defects included):
    server/modelpath.go   GetBlobsPath            : a digest STRING `sha256:H` / `sha256-H` -> blob file key `H`
    server/layer.go       NewLayer, NewLayerFromLayer, Layer.Remove (string comparison of digests!)
    server/manifest.go    Manifests(true) (corrupt files skipped), WriteManifest, Manifest.Remove, RemoveLayers
    server/images.go      CopyModel, PruneLayers + deleteUnusedLayers (string comparison again)
    server/create.go      CreateHandler, convertModelFromFiles/ggufLayers (gguf case), createModel,
                          removeLayer, setTemplate, setSystem, setParameters, createConfigLayer
    server/model.go       parseFromModel
    server/routes.go      getExistingName (the fold over the map order; `set` is never assigned),
                          DeleteHandler, CopyHandler, CreateBlobHandler, ListHandler, ShowHandler/GetModelInfo,
                          the startup sequence of Serve (fixBlobs; Manifests(false) gate; PruneLayers)

  The store is `blobs : key -> content` and `manifests : name -> readable m | corrupt`, both as association
  lists read through `aget` only.  SHA-256 and GGUF decoding are PARAMETERS (`Env.hash`, `Env.meta`): no
  theorem depends on what they compute; the oracle instantiates them with the real SHA-256 and with the
  metadata the real decoder reported for each pool file.

  Go map iteration order (getExistingName, the `files` map) is an explicit `Choice` argument.

  Core Lean only.
-/
import OllamaVerif.Model.Bytes

namespace OllamaVerif.Store
open OllamaVerif

/-! ## association lists (only ever read through `aget`) -/

def aget {α β} [DecidableEq α] : List (α × β) → α → Option β
  | [], _ => none
  | (a, b) :: t, k => if a = k then some b else aget t k

def adel {α β} [DecidableEq α] (l : List (α × β)) (k : α) : List (α × β) :=
  l.filter (fun p => decide (p.1 ≠ k))

def aset {α β} [DecidableEq α] (l : List (α × β)) (k : α) (v : β) : List (α × β) :=
  (k, v) :: adel l k

/-! ## data -/

/-- the two spellings of a digest string that `GetBlobsPath` accepts -/
inductive Form | colon | dash
  deriving DecidableEq, Repr, Inhabited

/-- a digest STRING as it appears in a request or a manifest: `sha256:<hex>` or `sha256-<hex>` -/
structure Digest where
  form : Form
  hex : String
  deriving DecidableEq, Repr, Inhabited

/-- `GetBlobsPath`: both spellings name the same file -/
def Digest.key (d : Digest) : String := d.hex

def Digest.str (d : Digest) : String :=
  (match d.form with | .colon => "sha256:" | .dash => "sha256-") ++ d.hex

inductive Media | model | projector | adapter | template | system | params | license | messages | config
  deriving DecidableEq, Repr, Inhabited

structure Layer where
  media : Media
  digest : Digest
  size : Nat
  deriving DecidableEq, Repr, Inhabited

structure Manifest where
  config : Layer
  layers : List Layer
  deriving DecidableEq, Repr, Inhabited

/-- `append(m.Layers, m.Config)` -/
def Manifest.all (m : Manifest) : List Layer := m.layers ++ [m.config]

inductive MFile
  | readable (m : Manifest)
  | corrupt
  deriving DecidableEq, Repr, Inhabited

structure Name where
  host : String
  ns : String
  model : String
  tag : String
  deriving DecidableEq, Repr, Inhabited

/-- The name of a file in the blobs directory that is NOT `sha256-<64 hex digits>`:
    `colon r` is the file `sha256:<r>` (what `fixBlobs` looks for: legacy stores named blobs with a colon),
    `plain s` is any other name (`sha256-<hex>-partial`, `sha256-<hex>-partial-0`, `sha256-1234567` temp files,
    wrong-length hex, `tmp-x`, …).  The oracle's parser keeps the representation canonical. -/
inductive JName
  | colon (rest : String)
  | plain (s : String)
  deriving DecidableEq, Repr, Inhabited

structure Store where
  /-- files `sha256-<key>` (key = 64 hex digits, either case) -/
  blobs : List (String × Bytes)
  mans : List (Name × MFile)
  /-- every other file of the blobs directory -/
  junk : List (JName × Bytes) := []
  /-- stray regular files / dangling symlinks under manifests/ (path components below manifests/); never a
      path `host/ns/model/tag` with a valid tag, i.e. never something `Manifests` takes for a manifest -/
  strays : List (List String) := []
  /-- directories under manifests/ that exist although they are not on the way to any file -/
  edirs : List (List String) := []
  deriving Inhabited

def Store.empty : Store := ⟨[], [], [], [], []⟩

/-- 64 hex digits (`[0-9a-fA-F]{64}` of `GetBlobsPath`) -/
def isHex64 (s : String) : Bool :=
  s.toList.length == 64 &&
  s.toList.all (fun c => ('0' ≤ c && c ≤ '9') || ('a' ≤ c && c ≤ 'f') || ('A' ≤ c && c ≤ 'F'))

def JName.str : JName → String
  | .colon r => "sha256:" ++ r
  | .plain s => s

/-- what the real GGUF decoder reports and `createModel` copies into the config -/
structure Meta where
  arch : String
  mtype : String
  ftype : String
  /-- `detectChatTemplate`: when `template.Named(kv.ChatTemplate())` recognises the GGUF's chat template, the
      bytes of the named template and (if it has parameters) their JSON encoding -/
  auto : Option (Bytes × Option Bytes) := none
  /-- the media type `ggufLayers` gives the layer: `general.type` = adapter / projector (or a vision block count),
      else model -/
  kind : Media := .model
  deriving DecidableEq, Repr, Inhabited

/-- Which of the three repairs the tree under test contains (`false` = the pinned upstream behaviour).
    The driver PROBES the real handlers and tells the oracle; nothing here is a hand-set constant.
    * `fixAlias`   (F16a): digests are compared on one spelling (`canonicalDigest`) in `Layer.Remove` and
                   `deleteUnusedLayers`, and `NewLayerFromLayer` records the `sha256:` spelling;
    * `fixResolve` (F16b): `getExistingName` = exact name, else whole-name EqualFold match, else first
                   fold-equal part, over the SORTED list of existing names;
    * `fixReturn`  (N1):   `CreateHandler` returns after the `parseFromModel` error;
    * `fixKeep`    (N2):   `removeLayer` (create.go) does not delete the blob of a dropped layer when a layer of
                   another media type that stays in the list has the same digest. -/
structure Variant where
  fixAlias : Bool
  fixResolve : Bool
  fixReturn : Bool
  fixKeep : Bool := false
  /-- (N3) `PullHandler` hands the resolved name to `PullModel` in full, not as `DisplayShortest()` -/
  fixPullName : Bool := false
  deriving DecidableEq, Repr, Inhabited

def Variant.pinned : Variant := ⟨false, false, false, false, false⟩
def Variant.repaired : Variant := ⟨true, true, true, true, true⟩

/-- the uninterpreted parts of the world (+ the variant of the code) -/
structure Env where
  hash : Bytes → String
  /-- `some` iff the content is a GGUF file the decoder accepts -/
  gguf : Bytes → Option Meta
  v : Variant
  /-- `envconfig.NoPrune()` (OLLAMA_NOPRUNE): read at every call — create and pull then leave the layers of the
      manifest they replaced alone and the start-up sequence stops after `fixBlobs`; delete and the
      `removeLayer` of create.go do not look at it -/
  noPrune : Bool := false

/-! ## the directory tree under manifests/ -/

def Name.path (n : Name) : List String := [n.host, n.ns, n.model, n.tag]

/-- every non-directory below manifests/ -/
def Store.treeFiles (st : Store) : List (List String) := st.mans.map (fun p => p.1.path) ++ st.strays

/-- `d` is a proper ancestor directory of `f` -/
def isAncestor (d f : List String) : Bool := d.length < f.length && f.take d.length == d

/-- the directories `os.MkdirAll(filepath.Dir(p))` makes sure exist -/
def ancestors (p : List String) : List (List String) := ((List.range p.length).drop 1).map (fun k => p.take k)

/-- `PruneDirectory(manifests)`: depth first, a directory is removed iff nothing is left in it — so exactly the
    directories with no regular file or symlink anywhere below them go; files and symlinks are never touched -/
def pruneDirs (st : Store) : Store :=
  { st with edirs := st.edirs.filter (fun d => st.treeFiles.any (isAncestor d)) }

def mkdirs (st : Store) (p : List String) : Store := { st with edirs := ancestors p ++ st.edirs }

/-- every directory that exists below manifests/ -/
def Store.dirs (st : Store) : List (List String) := st.treeFiles.flatMap ancestors ++ st.edirs

/-! ## reading the store -/

def Store.blob (st : Store) (k : String) : Option Bytes := aget st.blobs k
def Store.man (st : Store) (n : Name) : Option MFile := aget st.mans n

def Store.readableAt (st : Store) (n : Name) : Option Manifest :=
  match st.man n with
  | some (.readable m) => some m
  | _ => none

/-- names with a manifest file (possibly with repetitions; only used through `any`/`all`/`∈`) -/
def Store.names (st : Store) : List Name := st.mans.map (·.1)

/-- `Manifests(true)`: the names whose manifest file parses -/
def Store.readableNames (st : Store) : List Name :=
  st.names.filter (fun n => (st.readableAt n).isSome)

/-- does manifest `m` mention the digest STRING `d` (layers or config)? -/
def Manifest.mentions (m : Manifest) (d : Digest) : Bool := m.all.any (fun l => l.digest == d)

/-- the scan of `Layer.Remove` / `deleteUnusedLayers`: some readable manifest mentions the STRING `d` -/
def Store.referenced (st : Store) (d : Digest) : Bool :=
  st.names.any (fun n => match st.readableAt n with
    | some m => m.mentions d
    | none => false)

/-- some readable manifest mentions a digest whose blob file is `k` (what the scan SHOULD test) -/
def Store.keyReferenced (st : Store) (k : String) : Bool :=
  st.names.any (fun n => match st.readableAt n with
    | some m => m.all.any (fun l => l.digest.key == k)
    | none => false)

/-- does `Manifests(false)` fail?  A manifest that does not parse — or a stray file at manifest depth, whose
    name is not a valid tag ("bad manifest name") -/
def Store.hasCorrupt (st : Store) : Bool :=
  st.names.any (fun n => st.man n == some .corrupt) || st.strays.any (fun p => p.length == 4)

/-! ## primitive effects -/

/-- the "is something using this layer" test of `Layer.Remove` / `deleteUnusedLayers`:
    pinned = comparison of digest STRINGS, repaired (F16a) = comparison on one spelling, i.e. of blob keys -/
def Env.inUse (env : Env) (st : Store) (d : Digest) : Bool :=
  if env.v.fixAlias then st.keyReferenced d.key else st.referenced d

/-- the digest `NewLayerFromLayer` records: as given (pinned) or `canonicalDigest` of it (F16a repaired) -/
def Env.recorded (env : Env) (d : Digest) : Digest :=
  if env.v.fixAlias then ⟨.colon, d.hex⟩ else d

/-- `Layer.Remove` -/
def layerRemove (env : Env) (st : Store) (d : Digest) : Store :=
  if env.inUse st d then st else { st with blobs := adel st.blobs d.key }

/-- `Manifest.RemoveLayers` / the calls made by `removeLayer` in create.go, in order -/
def removeLayers (env : Env) (st : Store) (ls : List Layer) : Store :=
  ls.foldl (fun s l => layerRemove env s l.digest) st

/-- `if !envconfig.NoPrune() && oldManifest != nil { oldManifest.RemoveLayers() }` of `CreateHandler`, and
    `if !envconfig.NoPrune() && len(deleteMap) > 0 { deleteUnusedLayers(deleteMap) }` of `PullModel` -/
def gcOld (env : Env) (st : Store) (ls : List Layer) : Store :=
  if env.noPrune then st else removeLayers env st ls

/-- the file effect of `NewLayer`: written only if no file of that name exists -/
def putBlob (env : Env) (st : Store) (c : Bytes) : Store :=
  match st.blob (env.hash c) with
  | some _ => st
  | none => { st with blobs := aset st.blobs (env.hash c) c }

/-- `NewLayer` -/
def newLayer (env : Env) (st : Store) (c : Bytes) (media : Media) : Store × Layer :=
  (putBlob env st c, ⟨media, ⟨.colon, env.hash c⟩, c.length⟩)

def setManifest (st : Store) (n : Name) (f : MFile) : Store := { st with mans := aset st.mans n f }
def delManifest (st : Store) (n : Name) : Store := { st with mans := adel st.mans n }

/-! ## getExistingName -/

def lowerChar (c : Char) : Char := if 'A' ≤ c ∧ c ≤ 'Z' then Char.ofNat (c.toNat + 32) else c
def lower (s : String) : String := String.ofList (s.toList.map lowerChar)

/-- `strings.EqualFold` on the ASCII alphabet that valid name parts are made of -/
def foldEq (a b : String) : Bool := lower a == lower b

/-- one iteration of the loop body (`set` is never assigned, so every guard `set.X == ""` is true) -/
def resolve1 (n e : Name) : Name :=
  { host := if foldEq e.host n.host then e.host else n.host
    ns := if foldEq e.ns n.ns then e.ns else n.ns
    model := if foldEq e.model n.model then e.model else n.model
    tag := if foldEq e.tag n.tag then e.tag else n.tag }

/-- `getExistingName` for the iteration order `ord` of the map returned by `Manifests(true)` -/
def getExistingName (ord : List Name) (n : Name) : Name := ord.foldl resolve1 n

/-- The set of results of `getExistingName` over all iteration orders of `es`, computed by choosing which
    element comes LAST among those that still matter (at most four levels deep). -/
def Name.equalFold (a b : Name) : Bool :=
  foldEq a.host b.host && foldEq a.ns b.ns && foldEq a.model b.model && foldEq a.tag b.tag

/-- `Name.String()` of a fully qualified name -/
def Name.str (n : Name) : String := n.host ++ "/" ++ n.ns ++ "/" ++ n.model ++ ":" ++ n.tag

def insertName (x : Name) : List Name → List Name
  | [] => [x]
  | y :: ys => if x.str < y.str then x :: y :: ys else y :: insertName x ys

/-- `slices.SortFunc(names, strings.Compare(a.String(), b.String()))` -/
def sortNames (l : List Name) : List Name := l.foldr insertName []

/-- the FIRST fold-equal part in the list (the loop with `set` assigned) -/
def firstPart (f : Name → String) (es : List Name) (x : String) : String :=
  match es.find? (fun e => foldEq (f e) x) with
  | some e => f e
  | none => x

/-- repaired `getExistingName` (F16b): exact name; else an existing name differing only by case; else
    per-part canonicalisation — all over the sorted list, so the map order plays no role -/
def getExistingNameFixed (es : List Name) (n : Name) : Name :=
  if es.contains n then n else
  let s := sortNames es
  match s.find? (fun e => e.equalFold n) with
  | some e => e
  | none =>
    { host := firstPart (·.host) s n.host, ns := firstPart (·.ns) s n.ns
      model := firstPart (·.model) s n.model, tag := firstPart (·.tag) s n.tag }

structure OpenParts where
  h : Bool
  n : Bool
  m : Bool
  t : Bool

def effective (o : OpenParts) (n e : Name) : Bool :=
  (o.h && foldEq e.host n.host) || (o.n && foldEq e.ns n.ns) ||
  (o.m && foldEq e.model n.model) || (o.t && foldEq e.tag n.tag)

def resolutionsAux : Nat → OpenParts → List Name → Name → Name → List Name
  | 0, _, _, _, cur => [cur]
  | fuel + 1, o, es, n, cur =>
    let eff := es.filter (effective o n)
    if eff.isEmpty then [cur] else
    eff.flatMap (fun e =>
      let cur' : Name :=
        { host := if o.h && foldEq e.host n.host then e.host else cur.host
          ns := if o.n && foldEq e.ns n.ns then e.ns else cur.ns
          model := if o.m && foldEq e.model n.model then e.model else cur.model
          tag := if o.t && foldEq e.tag n.tag then e.tag else cur.tag }
      let o' : OpenParts :=
        { h := o.h && !foldEq e.host n.host, n := o.n && !foldEq e.ns n.ns
          m := o.m && !foldEq e.model n.model, t := o.t && !foldEq e.tag n.tag }
      resolutionsAux fuel o' (es.erase e) n cur')

def resolutions (es : List Name) (n : Name) : List Name :=
  (resolutionsAux 5 ⟨true, true, true, true⟩ es n n).eraseDups

/-! ## small JSON writers (what `encoding/json` emits for these Go values) -/

def strBytes (s : String) : Bytes := s.toUTF8.toList

def jstr (s : String) : String := "\"" ++ s ++ "\""

def jlist (l : List String) : String := "[" ++ ",".intercalate l ++ "]"

/-- `json.NewEncoder(&b).Encode(config)` of `createConfigLayer` -/
def configJSON (metas : List Meta) (digs : List Digest) : Bytes :=
  let first (f : Meta → String) : String := ((metas.map f).find? (· ≠ "")).getD ""
  let fmt := if metas.isEmpty then "" else "gguf"
  let fams := if metas.isEmpty then "null" else jlist (metas.map (fun m => jstr m.arch))
  strBytes ("{\"model_format\":" ++ jstr fmt ++ ",\"model_family\":" ++ jstr (first (·.arch))
    ++ ",\"model_families\":" ++ fams ++ ",\"model_type\":" ++ jstr (first (·.mtype))
    ++ ",\"file_type\":" ++ jstr (first (·.ftype))
    ++ ",\"architecture\":\"amd64\",\"os\":\"linux\",\"rootfs\":{\"type\":\"layers\",\"diff_ids\":"
    ++ jlist (digs.map (fun d => jstr d.str)) ++ "}}\n")

/-- insertion sort by key (Go's encoder sorts map keys) -/
def insertKV (kv : String × String) : List (String × String) → List (String × String)
  | [] => [kv]
  | x :: xs => if kv.1 < x.1 then kv :: x :: xs else x :: insertKV kv xs

def sortKV (l : List (String × String)) : List (String × String) := l.foldr insertKV []

/-- parameters as (key, raw JSON value text) -/
def encodeParams (p : List (String × String)) : Bytes :=
  strBytes ("{" ++ ",".intercalate ((sortKV p).map (fun kv => jstr kv.1 ++ ":" ++ kv.2)) ++ "}\n")

/-- reader for exactly the flat objects `encodeParams` writes (values: numbers or strings without escapes) -/
def takeUntil (p : Char → Bool) : List Char → List Char × List Char
  | [] => ([], [])
  | c :: cs => if p c then ([], c :: cs) else
    let (a, b) := takeUntil p cs
    (c :: a, b)

def parsePairs : Nat → List Char → Option (List (String × String))
  | 0, _ => none
  | fuel + 1, cs =>
    match cs with
    | '"' :: rest =>
      let (k, r1) := takeUntil (· == '"') rest
      match r1 with
      | '"' :: ':' :: r2 =>
        let (v, r3) : List Char × List Char :=
          match r2 with
          | '"' :: r =>
            let (s, r') := takeUntil (· == '"') r
            ('"' :: s ++ ['"'], r'.drop 1)
          | '[' :: r =>
            let (s, r') := takeUntil (· == ']') r
            ('[' :: s ++ [']'], r'.drop 1)
          | _ => takeUntil (fun c => c == ',' || c == '}') r2
        match r3 with
        | ',' :: r4 => (parsePairs fuel r4).map ((String.ofList k, String.ofList v) :: ·)
        | '}' :: _ => some [(String.ofList k, String.ofList v)]
        | _ => none
      | _ => none
    | _ => none

def parseParams (bs : Bytes) : Option (List (String × String)) :=
  match bs.map (fun b => Char.ofNat b.toNat) with
  | '{' :: '}' :: _ => some []
  | '{' :: rest => parsePairs (rest.length + 1) rest
  | _ => none

/-! ## create -/

structure CreateReq where
  name : Name
  /-- `from` (wins over `files`, as in the handler) -/
  src : Option Name
  /-- the values of the `files` map (every key ends in `.gguf`), in the request's order -/
  files : List Digest
  /-- non-empty `template` and whether `template.Parse` accepts it -/
  template : Option (Bytes × Bool)
  /-- non-empty `system` -/
  system : Option Bytes
  /-- `license` (a string or a list of strings), in order -/
  licenses : List Bytes := []
  /-- `parameters` as (key, raw JSON value) -/
  params : List (String × String)
  /-- `messages` as (role, content) -/
  messages : List (String × String) := []

/-- the nondeterminism of one request: map iteration orders -/
structure Choice where
  /-- order of `Manifests(true)` in the first `getExistingName` call -/
  ord1 : List Name
  /-- order in the second call (copy: destination) -/
  ord2 : List Name
  /-- the `files` map is iterated in reverse -/
  frev : Bool

/-- `parseFromModel` over the layers of the source manifest: `none` = an error (missing blob / not a GGUF) -/
def fromLayers (env : Env) (st : Store) : List Layer → Option (List (Layer × Option Meta))
  | [] => some []
  | l :: ls =>
    match st.blob l.digest.key with
    | none => none
    | some c =>
      let l' : Layer := ⟨l.media, env.recorded l.digest, c.length⟩
      if l.media = .model ∨ l.media = .projector ∨ l.media = .adapter then
        match env.gguf c with
        | none => none
        | some mt => (fromLayers env st ls).map ((l', some mt) :: ·)
      else (fromLayers env st ls).map ((l', none) :: ·)

/-- `detectChatTemplate` for one decoded GGUF: `NewLayer` of the named template and of its parameters.
    These layers are WRITTEN now and referenced by no manifest yet. -/
def autoLayers (env : Env) (st : Store) (mt : Meta) : Store × List (Layer × Option Meta) :=
  match mt.auto with
  | none => (st, [])
  | some (t, none) =>
    let (st1, lt) := newLayer env st t .template
    (st1, [(lt, none)])
  | some (t, some q) =>
    let (st1, lt) := newLayer env st t .template
    let (st2, lq) := newLayer env st1 q .params
    (st2, [(lt, none), (lq, none)])

/-- `convertModelFromFiles` (gguf case) → `ggufLayers` per file (file layer, then its auto-detected
    template/params layers): error class or layers; the store is threaded because `NewLayer` writes -/
def fileLayers (env : Env) (st : Store) : List Digest → Store × Except String (List (Layer × Option Meta))
  | [] => (st, .ok [])
  | d :: ds =>
    match st.blob d.key with
    | none => (st, .error "e500")
    | some c =>
      match env.gguf c with
      | none => (st, .error "e400")
      | some mt =>
        match autoLayers env st mt with
        | (st1, auto) =>
          match fileLayers env st1 ds with
          | (st2, .error e) => (st2, .error e)
          | (st2, .ok r) => (st2, .ok ((⟨mt.kind, env.recorded d, c.length⟩, some mt) :: auto ++ r))

/-- the layers of `removeLayer(layers, mediatype)` on which `Layer.Remove` is called: all of that media type
    (pinned); with N2 repaired, not those whose blob also backs a layer of another media type in the list -/
def removable (env : Env) (layers : List Layer) (media : Media) : List Layer :=
  layers.filter (fun l => l.media = media &&
    (!env.v.fixKeep || !(layers.any (fun x => x.media ≠ media && x.digest.key == l.digest.key))))

/-- `removeLayer(layers, mediatype)` followed by `NewLayer` + append -/
def replaceLayer (env : Env) (st : Store) (layers : List Layer) (media : Media) (c : Bytes) :
    Store × List Layer :=
  let st1 := removeLayers env st (removable env layers media)
  let (st2, l) := newLayer env st1 c media
  (st2, layers.filter (fun l => l.media ≠ media) ++ [l])

/-- `setTemplate`: the old template layers are removed BEFORE the template is parsed -/
def stepTemplate (env : Env) (st : Store) (layers : List Layer) :
    Option (Bytes × Bool) → Store × Option (List Layer)
  | none => (st, some layers)
  | some (t, ok) =>
    if ok then
      let (st', ls) := replaceLayer env st layers .template t
      (st', some ls)
    else (removeLayers env st (removable env layers .template), none)

def stepSystem (env : Env) (st : Store) (layers : List Layer) : Option Bytes → Store × List Layer
  | none => (st, layers)
  | some s => replaceLayer env st layers .system s

/-- `setLicense` for each license text: `NewLayer` + append, nothing is removed -/
def stepLicense (env : Env) (st : Store) (layers : List Layer) : List Bytes → Store × List Layer
  | [] => (st, layers)
  | l :: ls =>
    let (st1, ll) := newLayer env st l .license
    stepLicense env st1 (layers ++ [ll]) ls

/-- merge of `setParameters`: request keys win, then the existing layers in order -/
def mergeParams (p : List (String × String)) (existing : List (String × String)) : List (String × String) :=
  existing.foldl (fun acc kv => if acc.any (fun x => x.1 == kv.1) then acc else acc ++ [kv]) p

def readParams (st : Store) : List Layer → List (String × String) → Option (List (String × String))
  | [], p => some p
  | l :: ls, p =>
    match st.blob l.digest.key with
    | none => none
    | some c =>
      match parseParams c with
      | none => none
      | some ex => readParams st ls (mergeParams p ex)

/-- `setParameters`: `none` = an existing params layer could not be read -/
def stepParams (env : Env) (st : Store) (layers : List Layer) (p : List (String × String)) :
    Store × Option (List Layer) :=
  match readParams st (layers.filter (fun l => l.media = .params)) p with
  | none => (st, none)
  | some [] => (st, some layers)
  | some q =>
    let (st', ls) := replaceLayer env st layers .params (encodeParams q)
    (st', some ls)

/-- `json.NewEncoder(&b).Encode(m)` of `setMessages` for messages without images and tool calls
    (`Message.UnmarshalJSON` has lower-cased the role) -/
def encodeMessages (ms : List (String × String)) : Bytes :=
  strBytes (jlist (ms.map (fun m => "{\"role\":" ++ jstr (lower m.1) ++ ",\"content\":" ++ jstr m.2 ++ "}")) ++ "\n")

/-- `setMessages`: no messages in the request = the old layers stay; else drop, then store -/
def stepMessages (env : Env) (st : Store) (layers : List Layer) : List (String × String) → Store × List Layer
  | [] => (st, layers)
  | m :: ms => replaceLayer env st layers .messages (encodeMessages (m :: ms))

/-- `createModel`: result `none` = manifest written -/
def createModel (env : Env) (st : Store) (name : Name) (base : List (Layer × Option Meta)) (r : CreateReq) :
    Store × Option String :=
  let layers := base.map (·.1)
  let metas := base.filterMap (·.2)
  match stepTemplate env st layers r.template with
  | (st1, none) => (st1, some "e400")
  | (st1, some l1) =>
    match stepSystem env st1 l1 r.system with
    | (st2a, l2a) =>
     match stepLicense env st2a l2a r.licenses with
     | (st2, l2) =>
      match stepParams env st2 l2 r.params with
      | (st3, none) => (st3, some "e500")
      | (st3a, some l3a) =>
       match stepMessages env st3a l3a r.messages with
       | (st3, l3) =>
        match newLayer env st3 (configJSON metas (l3.map (·.digest))) .config with
        | (st4, cfg) => (setManifest st4 name (.readable ⟨cfg, l3⟩), none)

/-- base layers of the request; `none` = the handler returns after the error event.  The store changes only
    through the `NewLayer` calls of `detectChatTemplate`. -/
def baseLayers (env : Env) (st : Store) (r : CreateReq) (frev : Bool) :
    Store × Option (List (Layer × Option Meta)) × List String :=
  match r.src with
  | some f =>
    -- pinned: an error of parseFromModel is reported and the handler CONTINUES with no base layers;
    -- repaired (N1): it returns.  (A missing source manifest triggers PullModel, modelled as failing
    -- without effect.)
    let onErr : Option (List (Layer × Option Meta)) := if env.v.fixReturn then none else some []
    match st.readableAt f with
    | some m =>
      match fromLayers env st m.layers with
      | some b => (st, some b, [])
      | none => (st, onErr, ["e500"])
    | none => (st, onErr, ["e500"])
  | none =>
    if r.files.isEmpty then (st, none, ["e400"]) else
    match fileLayers env st (if frev then r.files.reverse else r.files) with
    | (st', .ok b) => (st', some b, [])
    | (st', .error e) => (st', none, [e])

/-- `CreateHandler` after name resolution (streaming mode: every event is delivered) -/
def createAt (env : Env) (st : Store) (r : CreateReq) (name : Name) (frev : Bool) : Store × List String :=
  let old := st.readableAt name
  match baseLayers env st r frev with
  | (st0, none, ev) => (st0, ev)
  | (st0, some base, ev) =>
    match createModel env st0 name base r with
    | (st1, some err) => (st1, ev ++ [err])
    | (st1, none) =>
      match old with
      | some m => (gcOld env st1 m.all, ev ++ ["s"])
      | none => (st1, ev ++ ["s"])

/-! ## the other operations -/

/-- `DeleteHandler` after name resolution -/
def deleteAt (env : Env) (st : Store) (t : Name) : Store × List String :=
  match st.man t with
  | none => (st, ["h404"])
  | some .corrupt => (st, ["h500"])
  | some (.readable m) => (removeLayers env (pruneDirs (delManifest st t)) m.all, ["h200"])

/-- `CopyHandler` / `CopyModel` after name resolution: the manifest FILE is copied byte for byte -/
def copyAt (st : Store) (s d : Name) : Store × List String :=
  if s = d then (st, ["h200"]) else
  match st.man s with
  | none => (mkdirs st d.path, ["h404"])   -- MkdirAll of the destination comes before the source is opened
  | some f => (setManifest st d f, ["h200"])

/-- `CreateBlobHandler` -/
def upload (env : Env) (st : Store) (d : Digest) (c : Bytes) : Store × List String :=
  match st.blob d.key with
  | some _ => (st, ["h200"])
  | none =>
    let st' := putBlob env st c
    if d = ⟨.colon, env.hash c⟩ then (st', ["h201"]) else (st', ["h400"])

/-- `PruneLayers`: every blob file becomes the STRING `sha256:<hex>`; those no readable manifest mentions
    (string comparison) are removed -/
def pruneLayers (env : Env) (st : Store) : Store :=
  { st with
    blobs := st.blobs.filter (fun p => env.inUse st ⟨.colon, p.1⟩)
    -- a name that does not parse as a digest after `-` ↦ `:` is removed ("invalid blobs, e.g. partial
    -- downloads"); `sha256:<64 hex>` does parse: it goes into the delete map, and what is then removed is
    -- the file `sha256-<hex>`, never the colon-named file itself
    junk := st.junk.filter (fun p => match p.1 with
      | .colon r => isHex64 r
      | .plain _ => false) }

/-- `fixBlobs`: every file `sha256:<rest>` is renamed `sha256-<rest>` (replacing a file of that name) -/
def fixBlobs (st : Store) : Store :=
  let cols := st.junk.filterMap (fun p => match p.1 with
    | .colon r => some (r, p.2)
    | .plain _ => none)
  let plains := st.junk.filter (fun p => match p.1 with
    | .colon _ => false
    | .plain _ => true)
  { st with
    blobs := cols.foldl (fun b rc => if isHex64 rc.1 then aset b rc.1 rc.2 else b) st.blobs
    junk := cols.foldl (fun j rc => if isHex64 rc.1 then j else aset j (.plain ("sha256-" ++ rc.1)) rc.2) plains }

/-- startup sequence of `Serve`: `fixBlobs`; then, unless some manifest fails to parse, `PruneLayers`
    (`PruneDirectory` only removes empty manifest directories) -/
def pruneStartup (env : Env) (st : Store) : Store × List String :=
  -- `if !envconfig.NoPrune() { Manifests(false) …; PruneLayers(); PruneDirectory() }`
  if env.noPrune then (fixBlobs st, ["ok"]) else
  if st.hasCorrupt then (fixBlobs st, ["skip"]) else (pruneDirs (pruneLayers env (fixBlobs st)), ["ok"])

/-- `ListHandler`: readable manifests whose config blob opens -/
def listed (st : Store) : List Name :=
  st.readableNames.filter (fun n => match st.readableAt n with
    | some m => (st.blob m.config.digest.key).isSome
    | none => false)

/-- `ShowHandler` after name resolution -/
def showAt (env : Env) (st : Store) (t : Name) : String :=
  match st.man t with
  | none => "h404"
  | some .corrupt => "h500"
  | some (.readable m) =>
    if (st.blob m.config.digest.key).isNone then "h404" else
    if m.layers.any (fun l => (l.media = .template ∨ l.media = .system ∨ l.media = .params ∨ l.media = .license ∨ l.media = .messages)
          && (st.blob l.digest.key).isNone) then "h404" else
    match (m.layers.filter (fun l => l.media = .model)).getLast? with
    | none => "h404"
    | some l =>
      match st.blob l.digest.key with
      | none => "h404"
      | some c => if (env.gguf c).isSome then "h200" else "h500"

/-! ## pull (at the level this property needs; the protocol itself is C03's) -/

/-- the download + verify loop of `PullModel` over `manifest.Layers ++ [manifest.Config]`:
    a blob file that is already there is a cache hit and is NOT verified; otherwise the registry's bytes are
    stored under the layer's name and verified at once — on a mismatch the file is removed and the pull fails
    (what was fetched before stays).  `served` = what the registry/CDN returns per hex digest. -/
def pullLayers (env : Env) (st : Store) (served : List (String × Bytes)) : List Layer → Store × Bool
  | [] => (st, true)
  | l :: ls =>
    match st.blob l.digest.key with
    | some _ => pullLayers env st served ls
    | none =>
      match aget served l.digest.hex with
      | none => (st, false)
      | some c =>
        if env.hash c = l.digest.hex then
          pullLayers env { st with blobs := aset st.blobs l.digest.key c } served ls
        else (st, false)

/-- `PullHandler` → `PullModel` after name resolution: `reg` = the manifest the registry serves for the name
    (`none`: it has none).  The manifest is written only after every layer and the config passed the loop;
    then the layers of the manifest it replaced are removed unless still in use. -/
def pullAt (env : Env) (st : Store) (name : Name) (reg : Option Manifest) (served : List (String × Bytes)) :
    Store × List String :=
  match reg with
  | none => (st, ["e500"])
  | some m =>
    match pullLayers env st served m.all with
    | (st1, false) => (st1, ["e500"])
    | (st1, true) =>
      let st2 := setManifest st1 name (.readable m)
      match st.readableAt name with
      | some mo => (gcOld env st2 mo.all, ["s"])
      | none => (st2, ["s"])

/-- `create … from F` seen from `parseFromModel`: `nm` is the target (resolved by the handler before anything
    else), `sn` the name under which the FROM model is looked up (as written in the request — finding N4 — or as
    `getExistingName` resolves it).  When that manifest file does not exist `PullModel` runs on `sn` (its own
    `success` status is one more `s` of the event stream), the manifest is read back and the create goes on as
    for a local FROM; a failed pull ends the request.  NOT an operation of `step` (the oracle composes it for
    requests whose registry answer is scripted); `createFromPull_good` covers it. -/
def createFromPull (env : Env) (st : Store) (r : CreateReq) (nm sn : Name) (reg : Manifest)
    (served : List (String × Bytes)) : Store × List String :=
  let r' := { r with src := some sn }
  match st.man sn with
  | some _ => createAt env st r' nm false
  | none =>
    let p := pullAt env st sn (some reg) served
    if p.2 = ["s"] then
      let c := createAt env p.1 r' nm false
      (c.1, "s" :: c.2)
    else (p.1, ["e500"])

/-! ## operations and the step function -/

/-- the same manifest with its model-layer digests in the dash spelling -/
def Manifest.dashed (m : Manifest) : Manifest :=
  { m with layers := m.layers.map (fun l => if l.media = .model then { l with digest := ⟨.dash, l.digest.hex⟩ } else l) }

inductive Op
  | upload (d : Digest) (c : Bytes)
  | create (r : CreateReq)
  | copy (src dst : Name)
  | delete (n : Name)
  | prune
  /-- POST /api/pull of `n` from a registry that serves manifest `reg` and, per hex digest, the bytes `served` -/
  | pull (n : Name) (reg : Option Manifest) (served : List (String × Bytes))
  /-- NOT an API operation: a manifest appears under an un-canonicalised name (stores written by versions
      that predate `getExistingName`, a manual copy, the pull inside `create … from`) -/
  | plant (src dst : Name)
  /-- NOT an API operation: a manifest file is damaged (torn write) -/
  | corrupt (n : Name)
  /-- NOT an API operation: a file with a name that is not a blob name appears in the blobs directory
      (interrupted pull: `sha256-<hex>-partial[-N]`; crash inside `NewLayer`: `sha256-<digits>`; legacy stores:
      `sha256:<hex>`; anything else) -/
  | litter (n : JName) (c : Bytes)
  /-- NOT an API operation: a stray regular file or dangling symlink at path `p` below manifests/ -/
  | litterMan (p : List String)
  /-- NOT an API operation: a file named like a blob (`sha256-<64 hex>`, either case) is put there directly -/
  | litterBlob (k : String) (c : Bytes)
  /-- NOT an API operation: the manifest spells its model-layer digests `sha256-<hex>` (manifests written by
      other tools / older versions; through the API only the pinned `create` with such a `files` value) -/
  | dashify (n : Name)

/-- `getExistingName` of the tree under test -/
def resolveName (env : Env) (st : Store) (ord : List Name) (n : Name) : Name :=
  if env.v.fixResolve then getExistingNameFixed st.readableNames n else getExistingName ord n

/-- `ParseModelPath(name.DisplayShortest())`: `DisplayShortest` drops a host that is fold-equal to
    `registry.ollama.ai` (and then a namespace fold-equal to `library`); parsing the short form puts the
    canonical spellings back — a name stored under `LiBRARy/` comes back as `library/` (finding N3) -/
def displayReparse (n : Name) : Name :=
  if foldEq n.host "registry.ollama.ai" then
    { n with host := "registry.ollama.ai", ns := if foldEq n.ns "library" then "library" else n.ns }
  else n

/-- the name `PullModel` works on, given the name `PullHandler` resolved -/
def pullTarget (env : Env) (n : Name) : Name := if env.v.fixPullName then n else displayReparse n

def step (env : Env) (st : Store) (op : Op) (ch : Choice) : Store × List String :=
  match op with
  | .upload d c => upload env st d c
  | .create r => createAt env st r (resolveName env st ch.ord1 r.name) ch.frev
  | .copy s d => copyAt st (resolveName env st ch.ord1 s) (resolveName env st ch.ord2 d)
  | .delete n => deleteAt env st (resolveName env st ch.ord1 n)
  | .prune => pruneStartup env st
  | .pull n reg served => pullAt env st (pullTarget env (resolveName env st ch.ord1 n)) reg served
  | .plant s d =>
    match st.man s with
    | some f => (setManifest st d f, ["ok"])
    | none => (st, ["none"])
  | .corrupt n =>
    match st.man n with
    | some _ => (setManifest st n .corrupt, ["ok"])
    | none => (st, ["none"])
  | .litter n c => ({ st with junk := aset st.junk n c }, ["ok"])
  | .litterBlob k c => ({ st with blobs := aset st.blobs k c }, ["ok"])
  | .litterMan p => ({ st with strays := p :: st.strays.filter (· ≠ p) }, ["ok"])
  | .dashify n =>
    match st.man n with
    | some (.readable m) => (setManifest st n (.readable m.dashed), ["ok"])
    | _ => (st, ["none"])

end OllamaVerif.Store
