/-
  C07 — executable model of the prompt cache of the Go runner:
    runner/ollamarunner/cache.go   InputCache, LoadCacheSlot, findLongestCacheSlot,
                                   findBestCacheSlot, countCommonPrefix, ShiftDiscard, ShiftCacheSlot
    runner/ollamarunner/runner.go  NewSequence (prompt truncation), processBatch, removeSequence,
                                   flushPending (ASCII pieces), the slot-loading block of completion
  on top of this file's OWN small model of what `kvcache.Causal` (windowSize = MaxInt32) does to its
  cell metadata and key rows: StartForward+Put (`store`), CopyPrefix, Remove (with its early error
  return after partial mutation, and the `shift` of the key rows), the mask (`visible`).
  Cell *placement* (findStartLoc is modelled; defrag is not: the harness hands over the observed
  layout, see `Event.step`) and the sliding window belong to C06.

  The model mirrors the code that exists, defects included.  `Cache.resetEnd` is the end index that
  the failure path of ShiftCacheSlot passes to `Remove(id, 0, ·)`: the pinned source passes -1
  (finding F3), the repaired one `math.MaxInt32`.  Core Lean only.
-/
namespace OllamaVerif.Runner

abbrev Tok := Nat

/-- `math.MaxInt32`, the "to the end" marker of `Causal.Remove` -/
def maxI32 : Int := 2147483647

/-! ## the KV cache as `kvcache.Causal` keeps it -/

/-- one cache location: metadata (`pos`, `seqs`; `seqs = []` means free) and the key row stored
    there by the (fake) model: the token and the position it has been RoPE-shifted to -/
structure Cell where
  pos : Int
  seqs : List Nat
  tok : Tok
  dpos : Int
deriving Repr, DecidableEq, Inhabited

def Cell.free : Cell := ⟨0, [], 0, 0⟩

def Cell.has (c : Cell) (s : Nat) : Bool := c.seqs.contains s

/-- `slices.DeleteFunc(sequences, == s)` -/
def Cell.dropSeq (c : Cell) (s : Nat) : Cell := { c with seqs := c.seqs.filter (· != s) }

/-- is the cell referenced by a sequence other than `s`? -/
def Cell.sharedBeyond (c : Cell) (s : Nat) : Bool := c.seqs.any (· != s)

/-- `Causal.CopyPrefix(src, dst, n)` on one cell -/
def copyCell (src dst : Nat) (n : Int) (c : Cell) : Cell :=
  let c1 := c.dropSeq dst
  if c1.has src && c1.pos < n then { c1 with seqs := c1.seqs ++ [dst] } else c1

def copyPrefix (cells : List Cell) (src dst : Nat) (n : Int) : List Cell :=
  cells.map (copyCell src dst n)

/-- the cell loop of `Causal.Remove`; `true` = the early `return errors.New("shifting cells shared
    by multiple sequences not supported")`, leaving the cells before it already mutated -/
def removeGo (s : Nat) (b e off : Int) : List Cell → List Cell × Bool
  | [] => ([], false)
  | c :: cs =>
    if c.has s then
      if b ≤ c.pos ∧ c.pos < e then
        let r := removeGo s b e off cs
        (c.dropSeq s :: r.1, r.2)
      else if e ≤ c.pos then
        if c.sharedBeyond s then (c :: cs, true)
        else
          let r := removeGo s b e off cs
          ({ c with pos := c.pos + off } :: r.1, r.2)
      else
        let r := removeGo s b e off cs
        (c :: r.1, r.2)
    else
      let r := removeGo s b e off cs
      (c :: r.1, r.2)

inductive RmErr | shared | notSupported
deriving Repr, DecidableEq

/-- `Causal.shift`'s effect on the key rows (the fake model's "RoPE" adds the offset) -/
def ropeCell (s : Nat) (b off : Int) (c : Cell) : Cell :=
  if c.has s && b ≤ c.pos then { c with dpos := c.dpos + off } else c

/-- `Causal.Remove(seq, b, e)`; `canShift` = the cache was built with a shiftFn -/
def remove (canShift : Bool) (cells : List Cell) (s : Nat) (b e : Int) : List Cell × Option RmErr :=
  let off : Int := if e = maxI32 then 0 else b - e
  let r := removeGo s b e off cells
  if r.2 then (r.1, some .shared)
  else if !(r.1.any (·.has s)) then (r.1, none)
  else if e = maxI32 then (r.1, none)
  else if !canShift then (r.1, some .notSupported)
  else (r.1.map (ropeCell s b off), none)

/-- one token of a batch handed to Forward -/
structure BTok where
  tok : Tok
  pos : Nat
  seq : Nat
deriving Repr, DecidableEq

def BTok.cell (b : BTok) : Cell := ⟨b.pos, [b.seq], b.tok, b.pos⟩

/-- `Causal.findStartLoc`: start of the first run of `n` free cells -/
def findGo (n : Nat) : List Cell → Nat → Nat → Nat → Option Nat
  | [], _, _, _ => none
  | c :: cs, i, start, count =>
    if c.seqs.isEmpty then
      if count + 1 ≥ n then some start else findGo n cs (i + 1) start (count + 1)
    else findGo n cs (i + 1) (i + 1) 0

def findStartLoc (cells : List Cell) (n : Nat) : Option Nat := findGo n cells 0 0 0

/-- StartForward's metadata update + Put of the batch's key rows at `loc` -/
def store (cells : List Cell) (loc : Nat) (batch : List BTok) : List Cell :=
  cells.take loc ++ batch.map BTok.cell ++ cells.drop (loc + batch.length)

/-- what the mask exposes to a batch token of sequence `s` at position `p`: the key rows of the
    cells of `s` at positions `≤ p` -/
def visible (cells : List Cell) (s : Nat) (p : Int) : List (Tok × Int) :=
  (cells.filter fun c => c.has s && c.pos ≤ p).map fun c => (c.tok, c.dpos)

/-! ### sliding-window caches (`NewSWACache`) -/

/-- `updateSlidingWindow` for one sequence whose lowest batch position is `p`: its entries older than
    `p - W` are dropped -/
def evictSeq (W : Nat) (s : Nat) (p : Int) (cells : List Cell) : List Cell :=
  cells.map fun c => if c.has s && c.pos < p - W then c.dropSeq s else c

/-- lowest position of sequence `s` in the batch -/
def lowestPos (batch : List BTok) (s : Nat) : Option Nat :=
  (batch.filter (·.seq == s)).foldl (fun acc b => match acc with
    | none => some b.pos
    | some m => some (min m b.pos)) none

/-- `updateSlidingWindow`: for every sequence of the batch (sequences are independent, so the map
    iteration order does not matter) -/
def evict (window : Option Nat) (cells : List Cell) (batch : List BTok) : List Cell :=
  match window with
  | none => cells
  | some W =>
    (batch.map (·.seq)).eraseDups.foldl (fun cs s =>
      match lowestPos batch s with
      | none => cs
      | some p => evictSeq W s p cs) cells

/-- the mask with a window: entries of `s` at positions in `[p - W, p]` -/
def visibleW (window : Option Nat) (cells : List Cell) (s : Nat) (p : Int) : List (Tok × Int) :=
  match window with
  | none => visible cells s p
  | some W => (cells.filter fun c => c.has s && c.pos ≤ p && !(c.pos < p - W)).map fun c => (c.tok, c.dpos)

/-- `Causal.CanResume(seq, pos)` as it is on the tree (with the presence count of commit 86ff119f0;
    `counted = false` gives the older version without it).  Cell ranges are taken to cover the
    sequence's cells (C06's `ranges_cover`). -/
def canResumeV (counted : Bool) (window : Option Nat) (cells : List Cell) (s : Nat) (pos : Nat) : Bool :=
  match window with
  | none => true
  | some W =>
    let ps := (cells.filter (·.has s)).map (·.pos)
    match ps with
    | [] => false
    | p0 :: rest =>
      let last : Int := rest.foldl max p0
      if last < 0 then false
      else
        let lastWS : Int := max 0 (last - W)
        let posWS : Int := max 0 ((pos : Int) - W)
        if posWS < lastWS then false
        else if !counted then true
        else
          let have_ := (cells.filter fun c => c.has s && posWS ≤ c.pos && c.pos < (pos : Int)).length
          decide ((have_ : Int) = (pos : Int) - posWS)

def canResume (window : Option Nat) (cells : List Cell) (s : Nat) (pos : Nat) : Bool :=
  canResumeV true window cells s pos

/-- how LoadCacheSlot consults the cache: cells, sequence id, position -/
abbrev CanRes := List Cell → Nat → Nat → Bool

/-! ## InputCache (runner/ollamarunner/cache.go) -/

structure Slot where
  id : Nat
  inputs : List Tok
  inUse : Bool
  lastUsed : Nat
deriving Repr, DecidableEq, Inhabited

structure Cache where
  numCtx : Nat
  multiUser : Bool
  canShift : Bool
  /-- end index of the failure path's `Remove(slot.Id, 0, ·)` in ShiftCacheSlot -/
  resetEnd : Int
  slots : List Slot
  cells : List Cell
  /-- sliding window of the Causal cache (`none` = `windowSize == math.MaxInt32`, a plain causal cache) -/
  window : Option Nat := none
deriving Repr

inductive Fail
  | noSlots        -- errors.New("no available cache slots")
  | nilDeref       -- findBestCacheSlot dereferences a nil oldestSlot / longestSlot
  | removeFailed   -- LoadCacheSlot: both Removes failed
  | keepExceeds    -- ShiftCacheSlot: numKeep >= numCtx
  | noInput        -- NewSequence: no input provided
  | promptRemoved  -- NewSequence: entire prompt removed by truncation
  | kvFull         -- StartForward: ErrKvCacheFull (processBatch returns the error; run() panics)
  | badHint        -- harness protocol error (never produced by the code)
deriving Repr, DecidableEq

def countCommonPrefix : List Tok → List Tok → Nat
  | a :: as, b :: bs => if a = b then countCommonPrefix as bs + 1 else 0
  | _, _ => 0

/-- the loop of findLongestCacheSlot: (index, count) of the first free slot with the strictly
    longest common prefix -/
def longestGo (prompt : List Tok) : List Slot → Nat → Option (Nat × Nat) → Option (Nat × Nat)
  | [], _, best => best
  | s :: ss, i, best =>
    if s.inUse then longestGo prompt ss (i + 1) best
    else
      let count := countCommonPrefix s.inputs prompt
      match best with
      | none => longestGo prompt ss (i + 1) (some (i, count))
      | some (bi, bc) =>
        if count > bc then longestGo prompt ss (i + 1) (some (i, count))
        else longestGo prompt ss (i + 1) (some (bi, bc))

def findLongest (slots : List Slot) (prompt : List Tok) : Except Fail (Nat × Nat) :=
  match longestGo prompt slots 0 none with
  | none => .error .noSlots
  | some r => .ok r

/-- longest common prefix over ALL slots (in use or not), as findBestCacheSlot computes it -/
def bestLongestGo (prompt : List Tok) : List Slot → Nat → Option (Nat × Nat) → Option (Nat × Nat)
  | [], _, best => best
  | s :: ss, i, best =>
    let count := countCommonPrefix s.inputs prompt
    match best with
    | none => bestLongestGo prompt ss (i + 1) (some (i, count))
    | some (bi, bc) =>
      if count > bc then bestLongestGo prompt ss (i + 1) (some (i, count))
      else bestLongestGo prompt ss (i + 1) (some (bi, bc))

/-- the least recently used free slot: `s.lastUsed < oldest && !s.InUse`, `oldest` starting at now -/
def oldestGo : List Slot → Nat → Nat → Option Nat → Option Nat
  | [], _, _, best => best
  | s :: ss, i, oldest, best =>
    if s.lastUsed < oldest && !s.inUse then oldestGo ss (i + 1) s.lastUsed (some i)
    else oldestGo ss (i + 1) oldest best

def setSlot (slots : List Slot) (i : Nat) (f : Slot → Slot) : List Slot :=
  slots.modify i f

def getSlot (slots : List Slot) (i : Nat) : Slot := slots.getD i default

/-- findBestCacheSlot: returns the cache (after a possible fork), the slot index and numPast -/
def findBest (c : Cache) (prompt : List Tok) (now : Nat) : Except Fail (Cache × Nat × Nat) :=
  match bestLongestGo prompt c.slots 0 none with
  | none => .error .nilDeref
  | some (li, longest) =>
    let ls := getSlot c.slots li
    if longest = ls.inputs.length && !ls.inUse then .ok (c, li, longest)
    else match oldestGo c.slots 0 now none with
      | none => .error .nilDeref
      | some oi =>
        let os := getSlot c.slots oi
        if os.inUse then .error .noSlots
        else if longest > 0 && li != oi then
          .ok ({ c with slots := setSlot c.slots oi fun s => { s with inputs := ls.inputs.take longest },
                        cells := copyPrefix c.cells ls.id os.id longest }, oi, longest)
        else .ok (c, oi, longest)

/-- the slot-selection half of LoadCacheSlot (policy + fork): cache, slot index, numPast -/
def findSlot (c : Cache) (prompt : List Tok) (now : Nat) : Except Fail (Cache × Nat × Nat) :=
  if !c.multiUser then
    match findLongest c.slots prompt with
    | .ok r => .ok (c, r.1, r.2)
    | .error e => .error e
  else findBest c prompt now

/-- the rest of LoadCacheSlot once slot `i` with `numPast` common inputs has been chosen -/
def loadTail (c : Cache) (i numPast : Nat) (prompt : List Tok) (now : Nat) (canResume : CanRes) :
    Except Fail (Cache × Nat × List Tok) :=
  let numPast := if numPast = prompt.length then numPast - 1 else numPast
  let id := (getSlot c.slots i).id
  -- asked AFTER the "leave one input" decrement: the position that will really be resumed
  let numPast := if numPast > 0 && !(canResume c.cells id numPast) then 0 else numPast
  let r := remove c.canShift c.cells id numPast maxI32
  match r.2 with
  | none =>
    .ok ({ c with cells := r.1,
                  slots := setSlot c.slots i fun s => { s with inUse := true, lastUsed := now, inputs := s.inputs.take numPast } },
         i, prompt.drop numPast)
  | some _ =>
    -- "Some models don't support partial erasure"
    let r2 := remove c.canShift r.1 id 0 maxI32
    match r2.2 with
    | none =>
      .ok ({ c with cells := r2.1,
                    slots := setSlot c.slots i fun s => { s with inUse := true, lastUsed := now, inputs := s.inputs.take 0 } },
           i, prompt.drop 0)
    | some _ => .error .removeFailed

/-- LoadCacheSlot.  `canResume` stands for `cache.CanResume` (`canResume c.window` for a Causal cache;
    the coherence theorems hold for any answer). -/
def loadCacheSlot (c : Cache) (prompt : List Tok) (now : Nat) (canResume : CanRes) :
    Except Fail (Cache × Nat × List Tok) :=
  match findSlot c prompt now with
  | .error e => .error e
  | .ok (c1, i, numPast) => loadTail c1 i numPast prompt now canResume

/-- ShiftDiscard -/
def shiftDiscard (numCtx inputLen numKeep : Nat) : Nat :=
  let targetFree : Int := max (((numCtx : Int) - numKeep) / 2) 1
  let currentFree : Int := (numCtx : Int) - inputLen
  (targetFree - currentFree).toNat

inductive ShiftRes
  | ok (c : Cache)
  | reprocess (c : Cache) (inputs : List Tok)
  | errKeep
deriving Repr

/-- ShiftCacheSlot on the slot with index `i` -/
def shiftCacheSlot (c : Cache) (i : Nat) (numKeep : Nat) : ShiftRes :=
  if numKeep ≥ c.numCtx then .errKeep
  else
    let sl := getSlot c.slots i
    let discard := shiftDiscard c.numCtx sl.inputs.length numKeep
    if discard = 0 then .ok c
    else
      let newInputs := sl.inputs.take numKeep ++ sl.inputs.drop (numKeep + discard)
      let r := remove c.canShift c.cells sl.id numKeep (numKeep + discard)
      match r.2 with
      | some _ =>
        let r2 := remove c.canShift r.1 sl.id 0 c.resetEnd
        .reprocess { c with cells := r2.1, slots := setSlot c.slots i fun s => { s with inputs := [] } } newInputs
      | none =>
        .ok { c with cells := r.1, slots := setSlot c.slots i fun s => { s with inputs := newInputs } }

/-! ## runner/common/stop.go over ASCII pieces -/

abbrev Str := List Char

def indexOf (sub : Str) : Str → Option Nat
  | [] => if sub.isEmpty then some 0 else none
  | c :: t =>
    if sub.isPrefixOf (c :: t) then some 0
    else match indexOf sub t with
      | some i => some (i + 1)
      | none => none

/-- the loop of the repaired `FindStop`: the stop whose first occurrence starts earliest (the first
    listed among equals) -/
def findStopGo (seq : Str) : List Str → Option (Nat × Str) → Option (Nat × Str)
  | [], best => best
  | stop :: rest, best =>
    match indexOf stop seq with
    | none => findStopGo seq rest best
    | some i =>
      match best with
      | none => findStopGo seq rest (some (i, stop))
      | some (bi, bs) => if i < bi then findStopGo seq rest (some (i, stop)) else findStopGo seq rest (some (bi, bs))

/-- `FindStop`.  `earliest = false`: the pinned source (first *listed* stop that occurs, C14's F7);
    `earliest = true`: the repaired source (earliest occurrence). -/
def findStop (earliest : Bool) (seq : Str) (stops : List Str) : Option Str :=
  if earliest then (findStopGo seq stops none).map (·.2)
  else stops.find? fun stop => (indexOf stop seq).isSome

def containsStopSuffix (seq : Str) (stops : List Str) : Bool :=
  stops.any fun stop => (List.range stop.length).any fun i => (stop.take (i + 1)).isSuffixOf seq

def splitBack : List Nat → Str → List Str × Bool
  | [], _ => ([], false)
  | len :: ls, rem =>
    if rem.isEmpty then ([], false)
    else if len > rem.length then ([rem], true)
    else
      let r := splitBack ls (rem.drop len)
      (rem.take len :: r.1, r.2)

def truncateStop (pieces : List Str) (stop : Str) : List Str × Bool :=
  let joined := pieces.flatten
  match indexOf stop joined with
  | none => (pieces, false)
  | some idx => splitBack (pieces.map List.length) (joined.take idx)

/-! ## Server / Sequence / processBatch (runner/ollamarunner/runner.go) -/

structure Seq where
  inputs : List Tok
  pending : List Tok
  slot : Nat
  numPredict : Int
  numPredicted : Nat
  numKeep : Nat
  stops : List Str
  pendingResp : List Str
  iBatch : Nat
deriving Repr, Inhabited

structure Server where
  cache : Cache
  seqs : List (Option Seq)
  nextSeq : Nat
  batchSize : Nat
  vocab : Nat
  eosMod : Nat
  /-- which `FindStop` the tree has (probed on the real function by the driver) -/
  stopEarliest : Bool := false
  /-- which `CanResume` the tree has: with the presence count of 86ff119f0 (probed) -/
  crCounted : Bool := true
deriving Repr

/-- NewSequence's handling of numKeep and of prompts longer than the context (text inputs:
    SameBatch = 0). Returns (inputs, numKeep). -/
def newSequence (numCtx : Nat) (prompt : List Tok) (keep : Int) : Except Fail (List Tok × Nat) :=
  if prompt.isEmpty then .error .noInput
  else
    let keep : Int := if keep < 0 then prompt.length else keep
    let keep : Int := min keep ((numCtx : Int) - 1)
    if prompt.length > numCtx then
      let discard : Int := (prompt.length : Int) - numCtx
      let promptStart := keep + discard
      if promptStart ≥ prompt.length then .error .promptRemoved
      else .ok (prompt.take keep.toNat ++ prompt.drop promptStart.toNat, keep.toNat)
    else .ok (prompt, keep.toNat)

/-- the scripted language model: a function of exactly the exposed history, order independent -/
def nextTok (vocab eosMod : Nat) (vis : List (Tok × Int)) : Tok :=
  let h : Int := (vis.foldl (fun acc e => acc + ((e.1 : Int) + 1) * (31 * e.2 + 17)) 0) % 1000003
  if eosMod > 0 && h % (eosMod : Int) = 0 then vocab - 1
  else (h % ((vocab : Int) - 1)).toNat

/-- observations of one processBatch call -/
structure StepObs where
  batch : List BTok := []
  outs : List (Nat × Tok) := []          -- (sequence id, sampled token) per batch output
  resps : List (Nat × Str) := []         -- (request index, text sent)
  dones : List (Nat × Nat) := []         -- (request index, done reason)
deriving Repr

def setSeq (seqs : List (Option Seq)) (i : Nat) (v : Option Seq) : List (Option Seq) := seqs.set i v

/-- removeSequence: flushPending (ASCII), release the slot -/
def removeSequence (sv : Server) (o : StepObs) (i : Nat) (sq : Seq) (reason : Nat) : Server × StepObs :=
  let joined := sq.pendingResp.flatten
  let o := if joined.isEmpty then o else { o with resps := o.resps ++ [(i, joined)] }
  let o := { o with dones := o.dones ++ [(i, reason)] }
  ({ sv with cache := { sv.cache with slots := setSlot sv.cache.slots sq.slot fun s => { s with inUse := false } },
             seqs := setSeq sv.seqs i none }, o)

structure P1 where
  cache : Cache
  seq : Seq
  batch : List BTok
  outs : List Nat            -- batch.Outputs
  resume : Option Nat
deriving Repr

/-- one input goes into the batch: position = cached + pending length, `iBatch`/Outputs bookkeeping,
    `seq.pendingInputs = append(seq.pendingInputs, inp)` -/
def addInput (st : P1) (c : Cache) (sq : Seq) (inp : Tok) (i : Nat) : P1 :=
  let sl := getSlot c.slots sq.slot
  let batch := st.batch ++ [⟨inp, sl.inputs.length + sq.pending.length, sl.id⟩]
  let outs := if i + 1 = sq.inputs.length then st.outs ++ [batch.length - 1] else st.outs
  { st with cache := c, batch := batch, outs := outs,
            seq := { sq with iBatch := st.outs.length, pending := sq.pending ++ [inp] } }

/-- the inner `for i, inp := range seq.inputs` of processBatch (over the slice as it was when the
    loop started; `st.seq.inputs` is the field, which the reprocess path replaces) -/
def innerLoop (batchSize seqIdx : Nat) : List Tok → Nat → P1 → Except Fail P1
  | [], _, st => pure st
  | inp :: rest, i, st =>
    if st.batch.length + 1 > batchSize then
      pure (if st.seq.pending.isEmpty && st.resume.isNone then { st with resume := some seqIdx } else st)
    else
      let sl := getSlot st.cache.slots st.seq.slot
      if sl.inputs.length + st.seq.pending.length + 1 > st.cache.numCtx then
        if !st.seq.pending.isEmpty then pure st
        else match shiftCacheSlot st.cache st.seq.slot st.seq.numKeep with
          | .errKeep => throw Fail.keepExceeds
          | .reprocess c ins =>
            -- `continue`: goes on with the NEXT element of the old slice
            innerLoop batchSize seqIdx rest (i + 1)
              { st with cache := c, seq := { st.seq with inputs := ins ++ st.seq.inputs } }
          | .ok c => innerLoop batchSize seqIdx rest (i + 1) (addInput st c st.seq inp i)
      else innerLoop batchSize seqIdx rest (i + 1) (addInput st st.cache st.seq inp i)

structure Ph1 where
  sv : Server
  obs : StepObs
  outs : List Nat
  resume : Option Nat
  seqIdx : Nat
deriving Repr

/-- the outer `for range s.seqs` of processBatch (batch assembly) -/
def phase1 : Nat → Ph1 → Except Fail Ph1
  | 0, st => pure st
  | k + 1, st =>
    let n := st.sv.seqs.length
    let seqIdx := (st.seqIdx + 1) % n
    let st := { st with seqIdx := seqIdx }
    match st.sv.seqs.getD seqIdx none with
    | none => phase1 k st
    | some sq =>
      if sq.numPredict > 0 && (sq.numPredicted : Int) ≥ sq.numPredict then
        let r := removeSequence st.sv st.obs seqIdx sq 1
        phase1 k { st with sv := r.1, obs := r.2 }
      else do
        let p ← innerLoop st.sv.batchSize seqIdx sq.inputs 0
          { cache := st.sv.cache, seq := sq, batch := st.obs.batch, outs := st.outs, resume := st.resume }
        let sq' := { p.seq with inputs := p.seq.inputs.drop p.seq.pending.length }
        phase1 k { st with sv := { st.sv with cache := p.cache, seqs := setSeq st.sv.seqs seqIdx (some sq') },
                           obs := { st.obs with batch := p.batch }, outs := p.outs, resume := p.resume }

def decodeTok (t : Tok) : Str := [Char.ofNat (97 + t)]

/-- the length the stop handling of processBatch cuts the slot's record to (`tokenLen`): one more than is
    cached (the last token was not submitted to Decode), minus the pieces TruncateStop removed, minus one if a
    piece was cut in the middle (or, "as defense-in-depth", if no piece was removed at all) -/
def stopTokenLen (recLen origLen newLen : Nat) (trunc : Bool) : Int :=
  let tokenLen : Int := (recLen : Int) + 1 - ((origLen : Int) - newLen)
  if trunc || origLen = newLen then tokenLen - 1 else tokenLen

/-- `seq.cache.Inputs = append(seq.cache.Inputs, seq.pendingInputs...)` (only when there is something pending) -/
def appendPending (sv : Server) (sq : Seq) : Server :=
  if sq.pending.isEmpty then sv else
    { sv with cache := { sv.cache with slots := setSlot sv.cache.slots sq.slot fun s => { s with inputs := s.inputs ++ sq.pending } } }

/-- the body of the per-sequence loop after Forward, for the live sequence `sq` at entry `i` -/
def phase3Seq (logits : List Tok) (i : Nat) (sv : Server) (o : StepObs) (sq : Seq) : Server × StepObs :=
  -- pending inputs are now in the cache
  let sv := appendPending sv sq
  let sq := { sq with pending := [] }
  if !sq.inputs.isEmpty then
    ({ sv with seqs := setSeq sv.seqs i (some sq) }, o)
  else
    let sq := { sq with numPredicted := sq.numPredicted + 1 }
    let token := logits.getD sq.iBatch 0
    if token = sv.vocab - 1 then
      removeSequence sv o i sq 0
    else
      let sq := { sq with inputs := [token], pendingResp := sq.pendingResp ++ [decodeTok token] }
      let sequence := sq.pendingResp.flatten
      match findStop sv.stopEarliest sequence sq.stops with
      | some stop =>
        let origLen := sq.pendingResp.length
        let tr := truncateStop sq.pendingResp stop
        let newLen := tr.1.length
        let sl := getSlot sv.cache.slots sq.slot
        let tokenLen := stopTokenLen sl.inputs.length origLen newLen tr.2
        let sv := { sv with cache := { sv.cache with slots := setSlot sv.cache.slots sq.slot fun s => { s with inputs := s.inputs.take tokenLen.toNat } } }
        removeSequence sv o i { sq with pendingResp := tr.1 } 0
      | none =>
        if containsStopSuffix sequence sq.stops then
          ({ sv with seqs := setSeq sv.seqs i (some sq) }, o)
        else
          let o := if sequence.isEmpty then o else { o with resps := o.resps ++ [(i, sequence)] }
          let sq := { sq with pendingResp := [] }
          ({ sv with seqs := setSeq sv.seqs i (some sq) }, o)

/-- the per-sequence loop after Forward -/
def phase3 (logits : List Tok) : Nat → Nat → Server → StepObs → Server × StepObs
  | 0, _, sv, o => (sv, o)
  | k + 1, i, sv, o =>
    match sv.seqs.getD i none with
    | none => phase3 logits k (i + 1) sv o
    | some sq =>
      let r := phase3Seq logits i sv o sq
      phase3 logits k (i + 1) r.1 r.2

/-- the entries of sequence `s`: metadata position, key-row token, key-row position, in location order -/
def seqEntries (cells : List Cell) (s : Nat) : List (Int × Tok × Int) :=
  (cells.filter (·.has s)).map fun c => (c.pos, c.tok, c.dpos)

/-- is `cs` a relocation of `cells0` as far as the sequences `0 … n-1` are concerned: every sequence keeps
    exactly its entries (up to order) and every position is a non-negative int32 — what a defrag may do -/
def relocOK (cells0 cs : List Cell) (n : Nat) : Bool :=
  cs.all (fun c => decide (0 ≤ c.pos ∧ c.pos < maxI32)) &&
    (List.range n).all fun s => (seqEntries cs s).isPerm (seqEntries cells0 s)

/-- processBatch.  `adopt` is the cell layout the harness observed after a defrag (used only when
    no run of free cells is long enough; placement is C06's subject).  The layout is only adopted if it is
    a relocation of the model's own cells (`relocOK`); anything else is reported as `badHint` (and shows up
    as an L1 disagreement), so the theorems about processBatch need no assumption about the hint. -/
def processBatch (sv : Server) (adopt : Option (List Cell)) : Except Fail (Server × StepObs) := do
  let n := sv.seqs.length
  let start := (sv.nextSeq + n - 1) % n
  let p ← phase1 n { sv := sv, obs := {}, outs := [], resume := none, seqIdx := start }
  let sv := { p.sv with nextSeq := match p.resume with | some r => r | none => p.seqIdx + 1 }
  let batch := p.obs.batch
  if batch.isEmpty then pure (sv, p.obs)
  else
    -- model.Forward: StartForward (+ defrag), Put, Get
    let cells0 := evict sv.cache.window sv.cache.cells batch
    let (cells, loc) ←
      match findStartLoc cells0 batch.length with
      | some loc => (match adopt with
                     | none => pure (cells0, loc)
                     | some _ => throw Fail.badHint)
      | none =>
        match adopt with
        | none => throw Fail.kvFull
        | some cs =>
          if !relocOK cells0 cs sv.cache.slots.length then throw Fail.badHint else
          match findStartLoc cs batch.length with
          | some loc => pure (cs, loc)
          | none => throw Fail.kvFull
    let cells := store cells loc batch
    let sv := { sv with cache := { sv.cache with cells := cells } }
    let logits := p.outs.map fun bi =>
      let b := batch.getD bi ⟨0, 0, 0⟩
      nextTok sv.vocab sv.eosMod (visibleW sv.cache.window cells b.seq b.pos)
    let o := { p.obs with outs := p.outs.zip logits |>.map fun (bi, t) => ((batch.getD bi ⟨0, 0, 0⟩).seq, t) }
    pure (phase3 logits n 0 sv o)

/-! ## request histories -/

inductive Event
  | req (keep : Int) (numPredict : Int) (stops : List Str) (prompt : List Tok)
  | step (adopt : Option (List Cell))
  | busy (prompt : List Tok)
deriving Repr

/-- `Causal.Init`: number of cells.  `perSeqBatch = false`: the tree's `maxSequences*window + maxBatch`
    (finding F-SWA-capacity); `true`: the proposed `maxSequences*(window + maxBatch)`. -/
def capacityV (perSeqBatch : Bool) (parallel ctx batch : Nat) (window : Option Nat) : Nat :=
  match window with
  | none => parallel * ctx
  | some W => if ctx < W then parallel * ctx
              else if perSeqBatch then parallel * (W + batch) else parallel * W + batch

def capacity (parallel ctx batch : Nat) (window : Option Nat) : Nat := capacityV false parallel ctx batch window

def mkServer (resetEnd : Int) (parallel ctx batch : Nat) (multi canShift : Bool) (vocab eosMod : Nat)
    (window : Option Nat := none) (perSeqBatch : Bool := false) : Server :=
  { cache := { numCtx := ctx, multiUser := multi, canShift := canShift, resetEnd := resetEnd,
               slots := (List.range parallel).map fun i => ⟨i, [], false, 0⟩,
               cells := List.replicate (capacityV perSeqBatch parallel ctx batch window) Cell.free,
               window := window },
    seqs := List.replicate parallel none, nextSeq := 0, batchSize := batch, vocab := vocab, eosMod := eosMod }

/-- what one event of a history reports (formatted by the oracle) -/
inductive EvOut
  | reqErrNewSeq | reqErrNoIndex | reqErrLoad
  | reqOk (i slotId rest : Nat)
  | busyPanic | busyErr | busyOk
  | idle | badHint | stepErr
  | stepOk (n : Nat) (o : StepObs)
deriving Repr

/-- one event of a request history on the server state; `none` = the history ended (processBatch
    returned an error: `run()` panics).  `req` is the admission code of `completion`: NewSequence, the first
    free entry of `s.seqs`, LoadCacheSlot, the new Sequence.  This is the function the oracle runs. -/
def runEvent (sv : Server) (now : Nat) : Event → EvOut × Option Server
  | .req keep np stops prompt =>
    match newSequence sv.cache.numCtx prompt keep with
    | .error _ => (.reqErrNewSeq, some sv)
    | .ok (inputs, numKeep) =>
      match sv.seqs.findIdx? (·.isNone) with
      | none => (.reqErrNoIndex, some sv)
      | some i =>
        match loadCacheSlot sv.cache inputs now (canResumeV sv.crCounted sv.cache.window) with
        | .error _ => (.reqErrLoad, some sv)
        | .ok (c, si, rest) =>
          let sq : Seq := { inputs := rest, pending := [], slot := si, numPredict := np, numPredicted := 0,
                            numKeep := numKeep, stops := stops, pendingResp := [], iBatch := 0 }
          (.reqOk i (getSlot c.slots si).id rest.length, some { sv with cache := c, seqs := sv.seqs.set i (some sq) })
  | .busy prompt =>
    match loadCacheSlot sv.cache prompt now (canResumeV sv.crCounted sv.cache.window) with
    | .error .nilDeref => (.busyPanic, some sv)
    | .error _ => (.busyErr, some sv)
    | .ok (c, _, _) => (.busyOk, some { sv with cache := c })
  | .step adopt =>
    if sv.seqs.all (·.isNone) then (.idle, some sv) else
    match processBatch sv adopt with
    | .error .badHint => (.badHint, none)
    | .error _ => (.stepErr, none)
    | .ok (sv', o) => (.stepOk sv'.seqs.length o, some sv')

/-- the server state after a whole history (`none`: processBatch failed somewhere); time = event index,
    as in the driver -/
def runEvents (sv : Server) : List Event → Nat → Option Server
  | [], _ => some sv
  | e :: es, now =>
    match (runEvent sv now e).2 with
    | none => none
    | some sv' => runEvents sv' es (now + 1)

/-! ## runner/llamarunner/cache.go

  The slot bookkeeping of the llama.cpp runner is the same Go over `[]input` (records only; its KV
  cache is llama.cpp's, reached through cgo: modelled, not verified — the KV calls are assumed to do
  what their names say).  `findLongestCacheSlot` / `findBestCacheSlot` / `countCommonPrefix` /
  `ShiftDiscard` are the functions above (`findSlot` on a cache without cells). -/

/-- llamarunner `LoadCacheSlot(prompt, cachePrompt)` on the records -/
def llLoad (c : Cache) (prompt : List Tok) (now : Nat) (cachePrompt : Bool) :
    Except Fail (Cache × Nat × List Tok) :=
  match findSlot c prompt now with
  | .error e => .error e
  | .ok (c1, i, numPast) =>
    let numPast := if cachePrompt then numPast else 0
    loadTail c1 i numPast prompt now (fun _ _ _ => true)

/-- llamarunner `ShiftCacheSlot`: `canShift` = `KvCacheCanShift()` and the `KvCacheSeqRm` succeeds -/
def llShift (c : Cache) (i : Nat) (numKeep : Nat) : ShiftRes :=
  if numKeep ≥ c.numCtx then .errKeep
  else
    let sl := getSlot c.slots i
    let discard := shiftDiscard c.numCtx sl.inputs.length numKeep
    if discard = 0 then .ok c
    else
      let newInputs := sl.inputs.take numKeep ++ sl.inputs.drop (numKeep + discard)
      if c.canShift then .ok { c with slots := setSlot c.slots i fun s => { s with inputs := newInputs } }
      else .reprocess { c with slots := setSlot c.slots i fun s => { s with inputs := [] } } newInputs

inductive LLEvent
  | load (cachePrompt : Bool) (prompt : List Tok)
  | dec (slot : Nat) (toks : List Tok)      -- Decode + `seq.cache.Inputs = append(seq.cache.Inputs, pending...)`
  | shift (slot keep : Nat)
  | cut (slot k : Nat)                      -- stop handling: `Inputs = Inputs[:k]`, slot released
  | rel (slot : Nat)
deriving Repr

end OllamaVerif.Runner
