/-
  Executable model of the content-addressable disk cache
  (`server/internal/cache/blob/{cache,chunked,digest}.go`, `server/internal/internal/names/name.go`).

  * a file is `Option Bytes` (`none` = no directory entry); SHA-256 is an UNINTERPRETED parameter
    `hash : Bytes → Digest` of every definition (the oracle instantiates it with `Sha256.sha256`);
  * primitive file effects `openCreate trunc | pwrite off bytes | truncate n | remove | replace | close`;
  * `copyLoop` = `io.Copy(checkWriter, src)` as the list of `pwrite`s it issues for a source-reader script
    (chunks, then `eof | err`; "more bytes than expected" is a script whose chunks exceed the size);
  * `copyNamedEffs` = `copyNamedFile`: stat (the ONLY read of the file), same-size shortcut, `O_TRUNC` only when
    the existing file is longer, in-place writes from offset 0 (no temp file), `Truncate(0)` on any failure;
  * `Put / Import / Get / Link / Unlink / Resolve / Chunked+Chunker.Put` on a `Disk`;
  * crash = `Cut`: any prefix of an effect list with the last `pwrite` cut at any byte;
  * concurrency = `Sys`/`exec`: any interleaving of several writers' effect lists on one file, each
    writer's list being fixed at the moment of its own `stat`.

  The model mirrors the code that exists, defects included (F8, F9, zero-length files, chunk holes).
  Not modelled (documented in notes/C08.md): `f.Close()` errors (and the `os.Remove` they trigger), I/O errors
  of the destination file, negative sizes, the 1 MiB read limit of `Resolve`, mtime (`Chtimes`).
-/
import OllamaVerif.Model.Bytes
namespace OllamaVerif.BlobCache
open OllamaVerif

abbrev Digest := Bytes
/-- `none` = the name does not exist -/
abbrev FileSt := Option Bytes

/-! ## primitive effects on one file name -/

inductive Eff
  | openCreate (trunc : Bool)      -- open(O_CREATE [|O_TRUNC])
  | openRead                       -- open(O_RDONLY) + read (readAndSum): no effect on the file, but a kill point
  | pwrite (off : Nat) (bs : Bytes) -- write of `bs` at byte offset `off`
  | truncate (n : Nat)             -- ftruncate
  | remove                         -- unlink
  | replace (bs : Bytes)           -- rename(2) of a completely written temp file onto the name
  | close
  deriving DecidableEq, Repr

def zeros (n : Nat) : Bytes := List.replicate n 0

/-- POSIX write at an offset: overwrites in place, extends, zero-fills a gap; a 0-byte write is a no-op -/
def pwriteAt (f : Bytes) (off : Nat) (bs : Bytes) : Bytes :=
  if bs = [] then f
  else
    let g := f ++ zeros (off - f.length)
    g.take off ++ bs ++ g.drop (off + bs.length)

def truncTo (f : Bytes) (n : Nat) : Bytes := f.take n ++ zeros (n - f.length)

def applyEff : Eff → FileSt → FileSt
  | .openCreate _, none => some []
  | .openCreate true, some _ => some []
  | .openCreate false, some f => some f
  | .openRead, s => s
  | .pwrite off bs, some f => some (pwriteAt f off bs)
  | .pwrite _ _, none => none          -- fd of an unlinked inode: invisible under the name
  | .truncate n, some f => some (truncTo f n)
  | .truncate _, none => none
  | .remove, _ => none
  | .replace bs, _ => some bs
  | .close, s => s

def run (es : List Eff) (s : FileSt) : FileSt := es.foldl (fun s e => applyEff e s) s

/-- crash points: `Cut es p` — the process died after issuing `p`, a prefix of `es` whose last
    `pwrite` may have been applied only up to some byte -/
inductive Cut : List Eff → List Eff → Prop
  | stop (es) : Cut es []
  | next (e es p) : Cut es p → Cut (e :: es) (e :: p)
  | torn (off bs es k) : Cut (.pwrite off bs :: es) [.pwrite off (bs.take k)]

/-! ## source readers, results -/

inductive SrcEnd | eof | err
  deriving DecidableEq, Repr

/-- what the `io.Reader` handed to the cache delivers: these chunks, then EOF or an error -/
structure Script where
  chunks : List Bytes
  fin : SrcEnd
  deriving DecidableEq, Repr

def Script.data (s : Script) : Bytes := s.chunks.flatten

inductive Res
  | ok
  | underfoot      -- "file content changed underfoot": digest of the complete stream ≠ expected
  | exceeds        -- "content exceeds expected size"
  | srcErr         -- the source reader's own error
  | short          -- io.ErrUnexpectedEOF
  | notExist       -- fs.ErrNotExist
  | invalidName
  | invalidDigest
  | sizeMismatch   -- Import: "expected %d bytes, got %d"
  | tooLarge       -- readAndSum with proposed_fixes/C08-F28.patch: the file exceeds the read limit
  | negSize        -- copyNamedFile with proposed_fixes/C08-F29.patch: negative size refused
  deriving DecidableEq, Repr

/-- `io.Copy(cw, src)` with `cw = checkWriter{d, size, w = file at offset base}`:
    the writes issued and the outcome.  `seen` = the bytes hashed and written so far (`cw.n = seen.length`).
    A chunk is written only if it keeps the total below `size`, or brings it to exactly `size` with the
    digest of the whole stream equal to `d`. -/
def copyLoop (hash : Bytes → Digest) (d : Digest) (size base : Nat) :
    Bytes → List Bytes → SrcEnd → List Eff × Res
  | seen, [], .eof => ([], if seen.length < size then .short else .ok)
  | _, [], .err => ([], .srcErr)
  | seen, c :: cs, fin =>
    if c = [] then copyLoop hash d size base seen cs fin
    else if seen.length + c.length = size ∧ hash (seen ++ c) ≠ d then ([], .underfoot)
    else if seen.length + c.length > size then ([], .exceeds)
    else
      let r := copyLoop hash d size base (seen ++ c) cs fin
      (.pwrite (base + seen.length) c :: r.1, r.2)

/-- everything `copyNamedFile` does after its `os.Stat` (which decided `trunc`) -/
def afterStat (hash : Bytes → Digest) (trunc : Bool) (d : Digest) (size : Nat) (s : Script) :
    List Eff × Res :=
  if size = 0 then ([.openCreate trunc, .close], .ok)
  else
    let r := copyLoop hash d size 0 [] s.chunks s.fin
    match r.2 with
    | .ok => (.openCreate trunc :: r.1 ++ [.close], .ok)
    | e => (.openCreate trunc :: r.1 ++ [.truncate 0, .close], e)

/-- the `O_TRUNC` decision of `copyNamedFile` -/
def statTrunc (st : FileSt) (size : Nat) : Bool :=
  match st with
  | some f => decide (f.length > size)
  | none => false

/-- `copyNamedFile(name, src, d, size)` on a name whose current state is `st` -/
def copyNamedEffs (hash : Bytes → Digest) (st : FileSt) (d : Digest) (size : Nat) (s : Script) :
    List Eff × Res :=
  if st.map List.length = some size then ([], .ok)   -- "File already exists with correct size. This is good enough."
  else afterStat hash (statTrunc st size) d size s

/-- `copyNamedFile(name, src, d, size)` with a NEGATIVE `size` (round 7; sizes are `int64` in the code).  No file
    has a negative length, so the same-size return is never taken and `info.Size() > size` holds of every existing
    file: it is opened with `O_TRUNC`.  `size == 0` is false; in `checkWriter.Write` the first non-empty chunk has
    `nextSize > size` ("exceeds") ⇒ `Truncate(0)`; a source that delivers nothing and ends with EOF gives
    `n = 0`, `n < size` FALSE ⇒ `nil`: the call answers ok after having emptied the file (finding F29).
    `refuse = true` is proposed_fixes/C08-F29.patch: a negative size is refused before the stat. -/
def copyNamedNegEffs (refuse : Bool) (st : FileSt) (s : Script) : List Eff × Res :=
  if refuse then ([], .negSize)
  else if s.chunks.any (fun c => !c.isEmpty) then ([.openCreate st.isSome, .truncate 0, .close], .exceeds)
  else match s.fin with
    | .eof => ([.openCreate st.isSome, .close], .ok)
    | .err => ([.openCreate st.isSome, .truncate 0, .close], .srcErr)

/-! ## names (`names.Parse`, `IsFullyQualified`, `nameToPath`) — byte strings, as in Go -/

def cutLastAny (s : Bytes) (chars : List UInt8) : Bytes × Bytes × Option UInt8 :=
  let r := s.reverse
  let after := r.takeWhile (fun c => !chars.contains c)
  match r.dropWhile (fun c => !chars.contains c) with
  | [] => ([], s, none)
  | c :: before => (before.reverse, after.reverse, some c)

structure Name where
  h : Bytes := []
  n : Bytes := []
  m : Bytes := []
  t : Bytes := []
  deriving DecidableEq, Repr

def cSlash : UInt8 := 0x2f
def cColon : UInt8 := 0x3a

def parseLoop : Nat → Bytes → Name → Name
  | 0, _, nm => nm
  | fuel + 1, s, nm =>
    match cutLastAny s [cSlash, cColon] with
    | (s', tail, some c) =>
      if c = cColon then parseLoop fuel s' { nm with t := tail }
      else
        let hn := cutLastAny s' [cSlash]
        { nm with h := hn.1, n := hn.2.1, m := tail }
    | (_, tail, none) => { nm with m := tail }

def maxNameLength : Nat := 350 + 1 + 80 + 1 + 80 + 1 + 80

def parseName (s : Bytes) : Name :=
  if s.length > maxNameLength then {} else parseLoop (s.length + 1) s {}

def isAlnumU (c : UInt8) : Bool :=
  (0x41 ≤ c && c ≤ 0x5a) || (0x61 ≤ c && c ≤ 0x7a) || (0x30 ≤ c && c ≤ 0x39) || c == 0x5f

inductive Part | host | ns | model | tag
  deriving DecidableEq

/-- the `switch s[i]` of `isValidPart` for i > 0 -/
def restC (kind : Part) (c : UInt8) : Bool :=
  if c == 0x5f || c == 0x2d then true
  else if c == 0x2e then kind != .ns
  else if c == 0x3a then kind == .host
  else isAlnumU c

def validRest (kind : Part) : Bytes → Bool
  | [] => true
  | c :: cs => restC kind c && validRest kind cs

def Part.ofIdx : Nat → Part
  | 0 => .host | 1 => .ns | 2 => .model | _ => .tag

def Part.maxLen (kind : Part) : Nat := if kind = .host then 350 else 80

def isValidPart (kind : Part) (s : Bytes) : Bool :=
  decide (s.length ≤ kind.maxLen) &&
  match s with
  | [] => true
  | c :: cs => isAlnumU c && validRest kind cs

def Name.isValid (n : Name) : Bool :=
  (n.h.isEmpty || isValidPart .host n.h) && (n.n.isEmpty || isValidPart .ns n.n) &&
  (n.t.isEmpty || isValidPart .tag n.t) && (!n.m.isEmpty && isValidPart .model n.m)

def Name.isFullyQualified (n : Name) : Bool :=
  n.isValid && !n.h.isEmpty && !n.n.isEmpty && !n.m.isEmpty && !n.t.isEmpty

/-- a manifest path relative to `manifests/`: its four components -/
abbrev MPath := List Bytes

def nameToPath (name : Bytes) : Option MPath :=
  let n := parseName name
  if n.isFullyQualified then some [n.h, n.n, n.m, n.t] else none

def lowerB (c : UInt8) : UInt8 := if 0x41 ≤ c && c ≤ 0x5a then c + 0x20 else c

/-- `strings.EqualFold` on the ASCII paths the cache creates -/
def foldEq (a b : MPath) : Bool := a.map (·.map lowerB) == b.map (·.map lowerB)

/-- bytewise lexicographic order of one path component -/
def bytesLt : Bytes → Bytes → Bool
  | [], [] => false
  | [], _ :: _ => true
  | _ :: _, [] => false
  | a :: as, b :: bs => a < b || (a == b && bytesLt as bs)

/-- order of `fs.Glob("manifests/*/*/*/*")`: directory by directory, each sorted by file name -/
def pathLt : MPath → MPath → Bool
  | [], [] => false
  | [], _ :: _ => true
  | _ :: _, [] => false
  | a :: as, b :: bs => bytesLt a b || (a == b && pathLt as bs)

/-! ## the disk -/

structure Disk where
  blob : Digest → FileSt
  /-- manifest files, kept in glob order -/
  mans : List (MPath × Bytes)

def Disk.empty : Disk := ⟨fun _ => none, []⟩

def Disk.setBlob (k : Disk) (d : Digest) (v : FileSt) : Disk :=
  { k with blob := fun d' => if d' = d then v else k.blob d' }

/-- `manifestPath`: the first existing manifest (glob order) equal to the wanted path up to ASCII case,
    otherwise the wanted path itself -/
def manifestPathOf (mans : List (MPath × Bytes)) (want : MPath) : MPath :=
  match mans.find? (fun e => foldEq want e.1) with
  | some e => e.1
  | none => want

def manGet (mans : List (MPath × Bytes)) (p : MPath) : FileSt :=
  (mans.find? (fun e => e.1 == p)).map (·.2)

/-- insert a NEW path at its place in glob order -/
def manInsertNew (p : MPath) (v : Bytes) : List (MPath × Bytes) → List (MPath × Bytes)
  | [] => [(p, v)]
  | e :: es => if pathLt p e.1 then (p, v) :: e :: es else e :: manInsertNew p v es

def manSet (mans : List (MPath × Bytes)) (p : MPath) (v : FileSt) : List (MPath × Bytes) :=
  match v with
  | none => mans.filter (fun e => !(e.1 == p))
  | some b =>
    if mans.any (fun e => e.1 == p) then mans.map (fun e => if e.1 == p then (p, b) else e)
    else manInsertNew p b mans

/-! ## operations -/

inductive Out
  | res (r : Res)
  | digest (d : Digest)
  | entry (size : Nat)
  | unlinked (removed : Bool)
  | pair (r : Res) (hooked : Option (Option Digest × Res))   -- linkR: Link's result, the hooked Resolve's
  | many (rs : List Res)                                     -- session: one result per Chunker.Put
  deriving DecidableEq, Repr

/-- `Put(d, r, size)` -/
def put (hash : Bytes → Digest) (k : Disk) (d : Digest) (size : Nat) (s : Script) : Disk × Res :=
  let r := copyNamedEffs hash (k.blob d) d size s
  (k.setBlob d (run r.1 (k.blob d)), r.2)

/-- `Import(r, size)`: temp file, hash while copying, rename onto the blob name -/
def importEffs (hash : Bytes → Digest) (size : Nat) (s : Script) : Option (Digest × List Eff) × Res :=
  match s.fin with
  | .err => (none, .srcErr)
  | .eof =>
    if s.data.length ≠ size then (none, .sizeMismatch)
    else (some (hash s.data, [.replace s.data]), .ok)

def importB (hash : Bytes → Digest) (k : Disk) (size : Nat) (s : Script) : Disk × Out :=
  match importEffs hash size s with
  | (some (d, es), _) => (k.setBlob d (run es (k.blob d)), .digest d)
  | (none, r) => (k, .res r)

/-- `Get(d)`: stat; a zero-length file counts as absent -/
def getB (k : Disk) (d : Digest) : Out :=
  match k.blob d with
  | none => .res .notExist
  | some f => if f.length = 0 then .res .notExist else .entry f.length

/-- `Link(name, d)`: the blob FILE must open; its bytes are copied IN PLACE over the manifest name with
    `copyNamedFile` (same-size shortcut included).  `fixed = true` is the repaired variant
    (proposed_fixes/C08-F8.patch): nothing happens if the name already holds a manifest that hashes to `d`;
    otherwise the blob is copied (and verified) into a fresh temporary name which is renamed over the link,
    so a refused `Link` leaves the old link alone. -/
def link (hash : Bytes → Digest) (fixed : Bool) (k : Disk) (name : Bytes) (d : Digest) : Disk × Res :=
  match nameToPath name with
  | none => (k, .invalidName)
  | some want =>
    let p := manifestPathOf k.mans want
    match k.blob d with
    | none => (k, .notExist)
    | some f =>
      if fixed then
        if (manGet k.mans p).map hash = some d then (k, .ok)
        else
          let r := copyNamedEffs hash none d f.length ⟨[f], .eof⟩
          match r.2 with
          | .ok => ({ k with mans := manSet k.mans p (run r.1 none) }, .ok)
          | e => (k, e)
      else
        let r := copyNamedEffs hash (manGet k.mans p) d f.length ⟨[f], .eof⟩
        ({ k with mans := manSet k.mans p (run r.1 (manGet k.mans p)) }, r.2)

/-- `Link` with the zero-length refusal of proposed_fixes/C08-F8-zero.patch in front (`zc = true`): after the
    name check and the open, a zero-length blob file is refused with `fs.ErrNotExist` unless `d` is the digest
    of the empty string.  `zc = false` is `link`. -/
def linkZ (hash : Bytes → Digest) (zc fixed : Bool) (k : Disk) (name : Bytes) (d : Digest) : Disk × Res :=
  match nameToPath name with
  | none => (k, .invalidName)
  | some _ =>
    if zc = true ∧ k.blob d = some [] ∧ d ≠ hash [] then (k, .notExist)
    else link hash fixed k name d

/-- What the repaired `Link` (`zc` = with the zero-length refusal) does TO THE MANIFEST FILE of a valid name, as
    effects, given the manifest's and the blob file's current states: `readAndSum` of the manifest (a read), then
    — unless it already hashes to `d` — the blob is copied and verified into a FRESH temporary name (invisible
    under the manifest name) and renamed over the manifest: one atomic `replace`.  Nothing else ever touches the
    manifest file, in particular not on a failed copy. -/
def linkFileEffs (hash : Bytes → Digest) (zc : Bool) (man blob : FileSt) (d : Digest) : List Eff × Res :=
  match blob with
  | none => ([], .notExist)
  | some f =>
    if zc = true ∧ f = [] ∧ d ≠ hash [] then ([], .notExist)
    else if man.map hash = some d then ([.openRead], .ok)
    else
      let r := copyNamedEffs hash none d f.length ⟨[f], .eof⟩
      match r.2 with
      | .ok => ([.openRead, .replace f], .ok)
      | e => ([.openRead], e)

/-- `Unlink(name)` -/
def unlink (k : Disk) (name : Bytes) : Disk × Out :=
  match nameToPath name with
  | none => (k, .res .invalidName)
  | some want =>
    let p := manifestPathOf k.mans want
    match manGet k.mans p with
    | none => (k, .unlinked false)
    | some _ => ({ k with mans := manSet k.mans p none }, .unlinked true)

/-- `ParseDigest`: `sha256[:-]<64 hex digits>` -/
def parseDigest (s : Bytes) : Option Digest :=
  let pre := s.takeWhile (fun c => !(c == cColon || c == 0x2d))
  match s.dropWhile (fun c => !(c == cColon || c == 0x2d)) with
  | [] => none
  | _ :: sum =>
    if pre = [0x73, 0x68, 0x61, 0x32, 0x35, 0x36] ∧ sum.length = 64 then
      unhexAux (sum.map (fun b => Char.ofNat b.toNat)) []
    else none

/-- `splitNameDigest`: cut at the LAST `@` -/
def splitNameDigest (s : Bytes) : Bytes × Bytes :=
  match cutLastAny s [0x40] with
  | (before, after, some _) => (before, after)
  | (_, _, none) => (s, [])

/-- `Resolve(name)`: `…@digest` is parsed and returned; otherwise the manifest FILE is read and hashed, and
    its bytes are stored as a blob under that hash (`PutBytes`) -/
def resolve (hash : Bytes → Digest) (k : Disk) (name : Bytes) : Disk × Out :=
  let nd := splitNameDigest name
  if nd.2 ≠ [] then
    match parseDigest nd.2 with
    | some d => (k, .digest d)
    | none => (k, .res .invalidDigest)
  else
    match nameToPath nd.1 with
    | none => (k, .res .invalidName)
    | some want =>
      match manGet k.mans (manifestPathOf k.mans want) with
      | none => (k, .res .notExist)
      | some data =>
        let pr := put hash k (hash data) data.length ⟨[data], .eof⟩
        match pr.2 with
        | .ok => (pr.1, .digest (hash data))
        | e => (pr.1, .res e)

/-- `Put(d, r, size)` with `size < 0` -/
def putNeg (refuse : Bool) (k : Disk) (d : Digest) (s : Script) : Disk × Res :=
  let r := copyNamedNegEffs refuse (k.blob d) s
  (k.setBlob d (run r.1 (k.blob d)), r.2)

/-- a manifest file written BEHIND THE CACHE'S BACK under the exact spelling of a valid name (a manifest edited by
    hand, a cache inherited from an older version that did not store manifests as blobs — the cases `Resolve`'s
    doc comment names).  It may create a second manifest that differs from an existing one only by case. -/
def edit (k : Disk) (name : Bytes) (data : Bytes) : Disk × Res :=
  match nameToPath name with
  | none => (k, .invalidName)
  | some want => ({ k with mans := manSet k.mans want (some data) }, .ok)

/-- `readAndSum(file, limit)` on a file holding `f`: at most `limit` bytes are read, and only those are hashed.
    `strict = true` is proposed_fixes/C08-F28.patch: a longer file is an error instead of being cut. -/
def readAndSum (hash : Bytes → Digest) (strict : Bool) (lim : Nat) (f : Bytes) : Option (Bytes × Digest) :=
  if strict = true ∧ f.length > lim then none else some (f.take lim, hash (f.take lim))

/-- `Resolve(name)` with the read limit of its `readAndSum(file, 1<<20)` (round 7).  `resolve` above is the same
    function for manifests within the limit (`C08.resolveL_eq_resolve`). -/
def resolveL (hash : Bytes → Digest) (strict : Bool) (lim : Nat) (k : Disk) (name : Bytes) : Disk × Out :=
  let nd := splitNameDigest name
  if nd.2 ≠ [] then
    match parseDigest nd.2 with
    | some d => (k, .digest d)
    | none => (k, .res .invalidDigest)
  else
    match nameToPath nd.1 with
    | none => (k, .res .invalidName)
    | some want =>
      match manGet k.mans (manifestPathOf k.mans want) with
      | none => (k, .res .notExist)
      | some file =>
        match readAndSum hash strict lim file with
        | none => (k, .res .tooLarge)
        | some (data, dg) =>
          let pr := put hash k dg data.length ⟨[data], .eof⟩
          match pr.2 with
          | .ok => (pr.1, .digest dg)
          | e => (pr.1, .res e)

/-- what `io.CopyN(w, r, n)` lets through: `io.LimitReader` cuts the stream at `n` bytes and then
    reports EOF without reading the source again -/
def limitChunks : Nat → List Bytes → SrcEnd → List Bytes × SrcEnd
  | _, [], fin => ([], fin)
  | n, c :: cs, fin =>
    if n = 0 then ([], .eof)
    else if c.length ≥ n then ([c.take n], .eof)
    else
      let r := limitChunks (n - c.length) cs fin
      (c :: r.1, r.2)

/-- `Chunked(d, size)` + one `Chunker.Put(Chunk{start, stop}, cd, r)` + `Close`:
    same-size file ⇒ "pre-validated", nothing is written; otherwise the file is opened WITHOUT truncation and
    the chunk is hash-checked against ITS OWN digest `cd` and written at `start`; nothing is undone on failure -/
def chunkEffs (hash : Bytes → Digest) (st : FileSt) (size start stop : Nat) (cd : Digest)
    (s : Script) : List Eff × Res :=
  if st.map List.length = some size then ([], .ok)
  else
    let n := stop - start + 1
    let lim := limitChunks n s.chunks s.fin
    let r := copyLoop hash cd n start [] lim.1 lim.2
    (.openCreate false :: r.1 ++ [.close], r.2)

def chunk (hash : Bytes → Digest) (k : Disk) (d : Digest) (size start stop : Nat) (cd : Digest)
    (s : Script) : Disk × Res :=
  let r := chunkEffs hash (k.blob d) size start stop cd s
  (k.setBlob d (run r.1 (k.blob d)), r.2)

/-- one `Chunker.Put(Chunk{start, stop}, cd, r)` -/
structure CPut where
  start : Nat
  stop : Nat
  cd : Digest
  s : Script
  deriving Repr

/-- the writes of one `Chunker.Put` on an OPEN chunker (no stat, no open: those happened once, in `Chunked`) -/
def chunkPutEffs (hash : Bytes → Digest) (c : CPut) : List Eff × Res :=
  let n := c.stop - c.start + 1
  let lim := limitChunks n c.s.chunks c.s.fin
  copyLoop hash c.cd n c.start [] lim.1 lim.2

/-- a chunker SESSION (round 7: state reused across calls): one `Chunked(d, size)` — the only stat; a file of that
    size makes every later `Put` a no-op ("pre-validated") — then any number of `Chunker.Put`s on the one open file,
    then `Close`.  `chunkEffs` is the session with a single `Put` (`C08.session_single`). -/
def sessionEffs (hash : Bytes → Digest) (st : FileSt) (size : Nat) (puts : List CPut) : List Eff × List Res :=
  if st.map List.length = some size then ([], puts.map fun _ => .ok)
  else (.openCreate false :: (puts.flatMap fun c => (chunkPutEffs hash c).1) ++ [.close],
        puts.map fun c => (chunkPutEffs hash c).2)

def session (hash : Bytes → Digest) (k : Disk) (d : Digest) (size : Nat) (puts : List CPut) : Disk × List Res :=
  let r := sessionEffs hash (k.blob d) size puts
  (k.setBlob d (run r.1 (k.blob d)), r.2)

inductive Op
  | put (d : Digest) (size : Nat) (s : Script)
  | importB (size : Nat) (s : Script)
  | get (d : Digest)
  | link (name : Bytes) (d : Digest)
  | linkR (name : Bytes) (d : Digest)   -- Link with a Resolve(name) fired between the verified copy and the rename
  | unlink (name : Bytes)
  | resolve (name : Bytes)
  | chunk (d : Digest) (size start stop : Nat) (cd : Digest) (s : Script)
  | putNeg (d : Digest) (s : Script)      -- Put under a negative size
  | edit (name : Bytes) (data : Bytes)    -- manifest file written behind the cache's back
  | session (d : Digest) (size : Nat) (puts : List CPut)   -- Chunked + several Chunker.Put + Close
  deriving Repr

/-- does `testHookBeforeFinalWrite` fire inside `Link(name, d)`?  Iff the copy into the temporary file is reached,
    the blob is not empty and its digest verified; at that moment the manifest has not been touched. -/
def linkRFires (hash : Bytes → Digest) (fixed zc : Bool) (k : Disk) (name : Bytes) (d : Digest) : Bool :=
  match nameToPath name, k.blob d with
  | some want, some f =>
    fixed && !(decide (zc = true ∧ f = [] ∧ d ≠ hash [])) &&
      !(decide ((manGet k.mans (manifestPathOf k.mans want)).map hash = some d)) &&
      !f.isEmpty && decide ((copyNamedEffs hash none d f.length ⟨[f], .eof⟩).2 = .ok)
  | _, _ => false

def stepOp (hash : Bytes → Digest) (fixed zc : Bool) (k : Disk) : Op → Disk × Out
  | .put d size s => let r := put hash k d size s; (r.1, .res r.2)
  | .importB size s => importB hash k size s
  | .get d => (k, getB k d)
  | .link name d => let r := linkZ hash zc fixed k name d; (r.1, .res r.2)
  | .linkR name d =>
    if linkRFires hash fixed zc k name d then
      let rr := resolve hash k name
      let r := linkZ hash zc fixed rr.1 name d
      (r.1, .pair r.2 (some (match rr.2 with
        | .digest dg => (some dg, .ok)
        | .res e => (none, e)
        | _ => (none, .ok))))
    else
      let r := linkZ hash zc fixed k name d
      (r.1, .pair r.2 none)
  | .unlink name => unlink k name
  | .resolve name => resolve hash k name
  | .chunk d size a b cd s => let r := chunk hash k d size a b cd s; (r.1, .res r.2)
  | .putNeg d s => let r := putNeg false k d s; (r.1, .res r.2)
  | .edit name data => let r := edit k name data; (r.1, .res r.2)
  | .session d size puts => let r := session hash k d size puts; (r.1, .many r.2)

def runOps (hash : Bytes → Digest) (fixed zc : Bool) : List Op → Disk → Disk × List Out
  | [], k => (k, [])
  | op :: ops, k =>
    let r := stepOp hash fixed zc k op
    let rest := runOps hash fixed zc ops r.1
    (rest.1, r.2 :: rest.2)

/-- the history step with the two round-7 variant flags: `Resolve` with its read limit (`strict` = C08-F28.patch) and
    the negative-size `Put` (`refuse` = C08-F29.patch); every other operation is `stepOp` -/
def stepOpL (hash : Bytes → Digest) (fixed zc strict refuse : Bool) (lim : Nat) (k : Disk) : Op → Disk × Out
  | .resolve name => resolveL hash strict lim k name
  | .putNeg d s => let r := putNeg refuse k d s; (r.1, .res r.2)
  | op => stepOp hash fixed zc k op

def runOpsL (hash : Bytes → Digest) (fixed zc strict refuse : Bool) (lim : Nat) : List Op → Disk → Disk × List Out
  | [], k => (k, [])
  | op :: ops, k =>
    let r := stepOpL hash fixed zc strict refuse lim k op
    let rest := runOpsL hash fixed zc strict refuse lim ops r.1
    (rest.1, r.2 :: rest.2)

/-! ## crash points as the strace driver enumerates them -/

inductive EffKind | openK | writeK | truncK | renameK | unlinkK | closeK
  deriving DecidableEq, Repr

def Eff.kind : Eff → EffKind
  | .openCreate _ => .openK
  | .openRead => .openK
  | .pwrite _ _ => .writeK
  | .truncate _ => .truncK
  | .replace _ => .renameK
  | .remove => .unlinkK
  | .close => .closeK

/-- the effects issued before the `n`-th (1-based) effect of kind `kd`; `none` if there is no such effect
    (the process is never killed and runs to completion) -/
def prefixBefore (kd : EffKind) : Nat → List Eff → Option (List Eff)
  | _, [] => none
  | n, e :: es =>
    if e.kind = kd then
      if n ≤ 1 then some []
      else (prefixBefore kd (n - 1) es).map (e :: ·)
    else (prefixBefore kd n es).map (e :: ·)

/-! ## concurrent writers of ONE blob file -/

inductive W
  | init (s : Script)                         -- has not called `os.Stat` yet
  | running (pending : List Eff) (res : Res)  -- effect list fixed by its stat; `pending` still to issue
  | done (res : Res)
  | dead                                      -- process died
  deriving Repr

structure Sys where
  file : FileSt
  ws : List W

inductive Ev
  | step (i : Nat)        -- writer `i` performs its next action (stat, or its next effect, or returns)
  | tear (i k : Nat)      -- writer `i` dies; if its next effect is a `pwrite`, only the first `k` bytes land
  deriving Repr

def wstep (hash : Bytes → Digest) (d : Digest) (size : Nat) (w : W) (f : FileSt) : W × FileSt :=
  match w with
  | .init s =>
    if f.map List.length = some size then (.done .ok, f)
    else
      let r := afterStat hash (statTrunc f size) d size s
      (.running r.1 r.2, f)
  | .running [] res => (.done res, f)
  | .running (e :: es) res => (.running es res, applyEff e f)
  | .done r => (.done r, f)
  | .dead => (.dead, f)

def wtear (k : Nat) (w : W) (f : FileSt) : W × FileSt :=
  match w with
  | .running (.pwrite off bs :: _) _ => (.dead, applyEff (.pwrite off (bs.take k)) f)
  | _ => (.dead, f)

def execEv (hash : Bytes → Digest) (d : Digest) (size : Nat) (s : Sys) : Ev → Sys
  | .step i =>
    match s.ws[i]? with
    | none => s
    | some w => let r := wstep hash d size w s.file; ⟨r.2, s.ws.set i r.1⟩
  | .tear i k =>
    match s.ws[i]? with
    | none => s
    | some w => let r := wtear k w s.file; ⟨r.2, s.ws.set i r.1⟩

def exec (hash : Bytes → Digest) (d : Digest) (size : Nat) (evs : List Ev) (s : Sys) : Sys :=
  evs.foldl (execEv hash d size) s

/-! ## the shape of a store's effect list that crash safety rests on -/

/-- an effect reduced to what it does to the file's LENGTH -/
inductive SizeEff
  | openS (trunc : Bool)
  | writeS (off n : Nat)
  | truncS (n : Nat)
  | replaceS (n : Nat)
  | removeS
  | otherS
  deriving DecidableEq, Repr

def Eff.toSize : Eff → SizeEff
  | .openCreate t => .openS t
  | .pwrite off bs => .writeS off bs.length
  | .truncate n => .truncS n
  | .replace bs => .replaceS bs.length
  | .remove => .removeS
  | .openRead => .otherS
  | .close => .otherS

/-- **NoEarlyFull** — "no effect makes the file reach its final size before the last data byte is written":
    walking the list with the file length `len` (0 = absent or empty) and the number `written` of data bytes issued
    so far, after EVERY effect `len = size → written ≥ size`.  A size-only effect before the data
    (`ftruncate(size)` / `fallocate` preallocation) violates it at once.  The same function is evaluated by the
    oracle on the REAL syscall trace of a store (`shape` command). -/
def noEarlyFull (size : Nat) : Nat → Nat → List SizeEff → Bool
  | _, _, [] => true
  | len, written, e :: es =>
    let st : Nat × Nat :=
      match e with
      | .openS true => (0, written)
      | .openS false => (len, written)
      | .writeS off n => (if n = 0 then len else max len (off + n), written + n)
      | .truncS n => (n, written)
      | .replaceS n => (n, written + n)
      | .removeS => (0, written)
      | .otherS => (len, written)
    (decide (st.1 = size → st.2 ≥ size)) && noEarlyFull size st.1 st.2 es

def fileLen (st : FileSt) : Nat := (st.map List.length).getD 0

end OllamaVerif.BlobCache
