/-
  C01 — Scheduler never unloads or closes a runner that a request is still using.
  C02 — Every runner request is answered at most once …            (Properties/C02.lean)
  C11 — Loaded-runner limit, one runner per model, reuse …         (Properties/C11.lean)

  All three are statements about `Model/Sched.lean`: an interleaving transition system with one
  action per lock-protected region / channel operation of server/sched.go.  `Reach v s0 s`
  quantifies over EVERY finite interleaving of requests, completions/cancellations, load results,
  health-check results, timer expiries, explicit unloads and evictions, over any number of models
  and requests.  The theorems below are for `Variant.good` (identity-guarded delete in the expired
  handler + re-validation of the runner in useLoadedRunner); `Tie/C01.lean` states which variant
  /repo's working tree implements (facts regenerated from sched.go on every run).  For upstream's
  pinned variant the statements are FALSE: kernel-checked witness traces below (finding F12).
-/
import OllamaVerif.Proofs.Sched4

namespace OllamaVerif.C01
open OllamaVerif.Sched

abbrev init0 (maxRunners maxQueue defaultSession : Nat) : State := Sched.init maxRunners maxQueue defaultSession

/-- a request "is using" runner `r`: it was handed `r` and its completion has not been processed -/
def uses (s : State) (q : ReqId) (r : Rid) : Prop := q ∈ (s.runners r).holders

/-- **C01 (a)**: in every reachable state, a runner that has been shut down is used by no request. -/
theorem closed_runner_has_no_user {mr mq ds : Nat} {s : State}
    (h : Reach Variant.good (init0 mr mq ds) s) (r : Rid) (hr : r < s.nRunners)
    (hc : (s.runners r).closed = true) : ∀ q, ¬ uses s q r := by
  have hi := reach_inv (inv_init mr mq ds) h
  intro q hq
  have := hi.i4.d r hr hc
  unfold uses at hq; rw [this] at hq; cases hq

theorem closed_releaseHold (s : State) (q : ReqId) (r : Rid) :
    ((releaseHold s q).runners r).closed = (s.runners r).closed := by
  unfold releaseHold
  split
  · rfl
  · simp only [setReq, setRunner, upd]; split <;> simp_all

theorem closed_finishOn (s : State) (r0 r : Rid) :
    ((finishOn s r0).runners r).closed = (s.runners r).closed := by
  unfold finishOn
  simp only []
  (repeat' split) <;> simp only [setRunner, upd, Runner.stopTimer] <;> (repeat' split) <;> simp_all

/-- no action other than the unload region changes `closed`, and that region leaves the ghost
    holder list alone -/
theorem holders_kept_on_close {s s' : State} (a : Act) (hs : step Variant.good s a = some s')
    (r : Rid) (hr : r < s.nRunners) (hopen : (s.runners r).closed = false)
    (hclosed : (s'.runners r).closed = true) : (s'.runners r).holders = (s.runners r).holders := by
  cases a
  case cFin =>
    simp only [step] at hs
    (repeat' split at hs) <;> (try cases hs)
    rw [closed_finishOn, closed_releaseHold, hopen] at hclosed; cases hclosed
  all_goals (simp only [step, triggerExpire, Variant.good] at hs <;> (repeat' split at hs) <;> (try cases hs))
  all_goals (sched_unfold4 <;> grind)

theorem nRunners_mono {v : Variant} {s s' : State} (a : Act) (hs : step v s a = some s') : s.nRunners ≤ s'.nRunners := by
  cases a
  case cFin =>
    simp only [step] at hs
    (repeat' split at hs) <;> (try cases hs)
    unfold finishOn releaseHold
    simp only []
    (repeat' split) <;> simp [setReq, setRunner]
  all_goals (simp only [step, triggerExpire] at hs <;> (repeat' split at hs) <;> (try cases hs))
  all_goals (sched_unfold4 <;> grind)

/-- **C01 (a), step form**: whenever a step shuts runner `r` down, no request was using `r` —
    whatever else is in flight. -/
theorem close_step_only_when_unused {mr mq ds : Nat} {s s' : State}
    (h : Reach Variant.good (init0 mr mq ds) s) (a : Act) (hs : step Variant.good s a = some s')
    (r : Rid) (hr : r < s.nRunners) (hopen : (s.runners r).closed = false)
    (hclosed : (s'.runners r).closed = true) : ∀ q, ¬ uses s q r := by
  have hi' := inv_step a (reach_inv (inv_init mr mq ds) h) hs
  have hr' : r < s'.nRunners := Nat.lt_of_lt_of_le hr (nRunners_mono a hs)
  have h1 := hi'.i4.d r hr' hclosed
  have h2 := holders_kept_on_close a hs r hr hopen hclosed
  intro q hq
  unfold uses at hq
  rw [← h2, h1] at hq; cases hq

/-- **C01 (b)**: a runner is shut down at most once. -/
theorem closed_at_most_once {mr mq ds : Nat} {s : State}
    (h : Reach Variant.good (init0 mr mq ds) s) (r : Rid) (hr : r < s.nRunners) :
    (s.runners r).closeCount ≤ 1 := by
  have := (reach_inv (inv_init mr mq ds) h).i1.cc r hr
  rw [this]; split <;> omega

/-- (b) holds for every variant, the pinned one included (group 1 does not depend on the guards) -/
theorem closed_at_most_once_any_variant {v : Variant} {mr mq ds : Nat} {s : State}
    (h : Reach v (init0 mr mq ds) s) : ∀ r, r < s.nRunners → (s.runners r).closeCount ≤ 1 := by
  have hi : Inv1 s := by
    induction h with
    | init => exact (inv_init mr mq ds).i1
    | step a _ hs ih => exact inv1_step a ih hs
  intro r hr
  rw [hi.cc r hr]; split <;> omega

/-- **C01 (c)**: a step that hands runner `r` to request `q` (its reply changes from "no runner" to
    `r`) never hands out a runner that has been shut down. -/
theorem granted_runner_is_open {mr mq ds : Nat} {s s' : State}
    (h : Reach Variant.good (init0 mr mq ds) s) (a : Act) (hs : step Variant.good s a = some s')
    (q : ReqId) (r : Rid) (hq : q < s.nReqs) (hbefore : (s.reqs q).gotRunner = none)
    (hafter : (s'.reqs q).gotRunner = some r) : (s'.runners r).closed = false := by
  obtain ⟨a1, a2⟩ := (reach_inv (inv_init mr mq ds) h).i1
  obtain ⟨b1, b2, b3, b4⟩ := (reach_inv (inv_init mr mq ds) h).i2
  cases a
  case cFin =>
    simp only [step] at hs
    (repeat' split at hs) <;> (try cases hs)
    exfalso
    revert hafter
    unfold finishOn releaseHold
    simp only []
    (repeat' split) <;> simp only [setReq, setRunner, upd] <;> (repeat' split) <;> simp_all
  all_goals (simp only [step, triggerExpire, Variant.good] at hs <;> (repeat' split at hs) <;> (try cases hs))
  all_goals (sched_unfold4 <;> grind)

/-! ### Witnesses for upstream's pinned variant (finding F12) -/

def fit0 : Fit := {}

/-- F12a, "duplicate expired": a keep-alive expiry races with a new request for the same model.
    The pending loop sees the old runner, the expiry unloads it, `needsReload` asks for a second
    (duplicate) expired event, a new runner `r1` is loaded, and the duplicate event's handler
    deletes `r1` from `loaded` (unconditional `delete(s.loaded, path)`).  A third request then
    starts `r2`; the finish event of the request on `r1` decrements `r2`, which is shut down while
    request 2 uses it. -/
def dupExpiredTrace : List Act := [
  .submit 0 0 none, .pTake, .pLookup fit0, .pLoad true, .loadDone 0 true,
  .done 0, .finishSend 0, .cTakeFinished, .cFin,
  .timerFire 0, .timerCb 0,
  .submit 0 0 none, .pTake, .pLookup fit0,
  .cTakeExpired, .cExp, .cVram,
  .pNeedsReload, .pExpire, .pWaitUnload, .pLookup fit0, .pLoad true, .loadDone 1 true,
  .cTakeExpired, .cExp, .cVram,
  .submit 0 0 none, .pTake, .pLookup fit0, .pLoad true, .loadDone 2 true,
  .done 1, .finishSend 1, .cTakeFinished, .cFin,
  .timerFire 2, .timerCb 2, .cTakeExpired, .cExp]

/-- pinned variant: runner 2 is shut down while request 2 uses it (C01), runner 1 is alive but
    missing from `loaded` and is never shut down (C02 drain), and runners 1 and 2 were alive
    together for model 0 (C11). -/
theorem F12a_pinned_closes_runner_in_use :
    (run Variant.pinned (init0 0 512 1) dupExpiredTrace).map
      (fun s => (s.runners 2).closed && (s.runners 2).holders == [2] && !(s.runners 1).closed && s.loaded.isEmpty)
      = some true := by decide

/-- the good variant cannot even follow the trace: after the duplicate event `r1` is still in
    `loaded`, so the third request reuses it instead of starting a new runner -/
theorem F12a_good_refuses : (run Variant.good (init0 0 512 1) dupExpiredTrace).isNone = true := by decide

/-- F12b, "grant after unload": the keep-alive expiry is handled between `needsReload` (which
    found the runner healthy) and `useLoadedRunner`; the pinned code hands out the runner whose
    `llama` is already nil. -/
def grantAfterUnloadTrace : List Act := [
  .submit 0 0 none, .pTake, .pLookup fit0, .pLoad true, .loadDone 0 true,
  .done 0, .finishSend 0, .cTakeFinished, .cFin,
  .timerFire 0, .timerCb 0,
  .submit 0 0 none, .pTake, .pLookup fit0, .pNeedsReload,
  .cTakeExpired, .cExp,
  .pUse]

theorem F12b_pinned_grants_closed_runner :
    (run Variant.pinned (init0 0 512 1) grantAfterUnloadTrace).map
      (fun s => (s.reqs 1).gotRunner == some 0 && (s.runners 0).closed) = some true := by decide

theorem F12b_good_retries :
    (run Variant.good (init0 0 512 1) grantAfterUnloadTrace).map
      (fun s => (s.reqs 1).gotRunner == none && s.ppc == PPC.eval 1) = some true := by decide

/-- non-vacuity: a reachable state of the good variant with a runner in use -/
example : ∃ s, Reach Variant.good (init0 0 512 1) s ∧ (s.runners 0).holders = [0] ∧ (s.runners 0).closed = false := by
  refine ⟨((run Variant.good (init0 0 512 1) (dupExpiredTrace.take 5)).getD {}), ?_, by decide, by decide⟩
  have h1 := Reach.step (v := Variant.good) (s0 := init0 0 512 1) (.submit 0 0 none) Reach.init rfl
  have h2 := Reach.step .pTake h1 rfl
  have h3 := Reach.step (.pLookup fit0) h2 rfl
  have h4 := Reach.step (.pLoad true) h3 rfl
  have h5 := Reach.step (.loadDone 0 true) h4 rfl
  exact h5

end OllamaVerif.C01
