/-
  C02 — `drain` and `all_answered` LIFTED TO THE BOUNDED MODEL (reviewer item C02-3).

  The two liveness theorems of Properties/C02Drain.lean are about the base model with unbounded event channels; F12d shows
  that with bounded channels a goroutine can park for good.  Here: in every reachable state of the bounded model with /repo's
  parameters in which NO goroutine is parked inside a region and no expireRunner call holds loadedMu, "nothing internal is
  enabled in the bounded model" implies "nothing internal is enabled in the base model" (`stepB_enabled_of_step`: whatever
  the base model can do, the bounded model can do too — as the step itself or by parking the sender on a full channel), so
  `drain_bounded` and `all_answered_bounded` hold.  Complement, stated by the hypotheses: a quiescent bounded state that is
  not drained / not answered has a parked goroutine (the F12d class, `F12d_expiredCh_capacity_wedges`).
-/
import OllamaVerif.Properties.C02Chan
import OllamaVerif.Properties.C02Live
namespace OllamaVerif.C02Chan
open OllamaVerif.Sched OllamaVerif.SchedChan OllamaVerif.C02
set_option linter.unusedSimpArgs false
set_option linter.unusedVariables false

theorem acquire_none_of_free (b : BState) (me : Act) :
    ∀ (ls held : List Lock), (∀ l, l ∈ ls → lockFree b me l = true) → acquire b me ls held = none := by
  intro ls
  induction ls with
  | nil => intro held _; rfl
  | cons l rest ih =>
    intro held h
    simp only [acquire, h l (by simp), if_true]
    exact ih _ (fun l' hl' => h l' (by simp [hl']))

theorem lockFree_clean (b : BState) (me : Act) (hp : b.parked = []) (hu : b.base.unloaders = []) (l : Lock) :
    lockFree b me l = match l with
      | .refMu r => !(b.base.runners r).locked
      | .loadedMu => true := by
  unfold lockFree
  cases l <;> simp [hp, hu]

/-- the refMu an enabled base action takes is not held by a loader / a parked health check -/
theorem profile_locks_unlocked {s s' : State} {a : Act} (hs : step Variant.good s a = some s') :
    ∀ r, Lock.refMu r ∈ (profile Cfg.repo s a).1 → (s.runners r).locked = false := by
  intro r hr
  cases a <;> simp only [profile, Cfg.repo] at hr <;> (try (simp at hr; done))
  all_goals (
    simp only [step] at hs
    (try (repeat' split at hr))
    all_goals (try (simp at hr))
    all_goals (try (repeat' split at hs))
    all_goals (first | (cases hs; done) | skip)
    all_goals (try simp_all))

/-- an action whose region the base model can run has entered its region -/
theorem entered_of_step {s s' : State} {a : Act} (hs : step Variant.good s a = some s') :
    entered Variant.good s a = true := by
  unfold entered
  cases a <;> simp only [takesLocks] <;> (try (simp [hs]; done))
  all_goals (
    simp only [step] at hs ⊢
    simp only [unlockAll, Runner.locked] at hs ⊢
    (try (repeat' split at hs))
    all_goals (first | (cases hs; done) | skip)
    all_goals (try simp_all)
    all_goals (try (repeat' split))
    all_goals (try simp_all))

/-- with nobody parked and no expireRunner call holding loadedMu, whatever the base model can do the bounded model can
    do too (as the step itself, or by parking the sender on a full channel) -/
theorem stepB_enabled_of_step {b : BState} {s' : State} {a : Act} (hp : b.parked = []) (hu : b.base.unloaders = [])
    (hs : step Variant.good b.base a = some s') : (stepB Variant.good Cfg.repo b a).isSome = true := by
  have hacq : acquire b a (profile Cfg.repo b.base a).1 [] = none := by
    apply acquire_none_of_free
    intro l hl
    rw [lockFree_clean b a hp hu]
    cases l with
    | loadedMu => rfl
    | refMu r => simp [profile_locks_unlocked hs r hl]
  have hacq' : acquire b a (profile { expiredOrderFixed := true, idleDrains := true } b.base a).1 [] = none := hacq
  unfold stepB
  simp only [Cfg.repo, entered_of_step hs, hacq', hp, hs]
  simp
  split <;> (try split) <;> simp

/-- **Drain, bounded model**: in every reachable state of the bounded model (/repo's parameters) in which NO goroutine is
    parked inside a region, no expireRunner call holds loadedMu, nothing internal is enabled, every request is done and no
    load is in flight, every started runner is shut down and nothing is loaded.  (Complement: a quiescent state that is not
    drained has a parked goroutine — F12d.) -/
theorem drain_bounded {mr mq ds : Nat} {b : BState} (h : ReachB Variant.good Cfg.repo (initB mr mq ds) b)
    (hp : b.parked = []) (hu : b.base.unloaders = [])
    (hs : ∀ a, isProgress a = true → stepB Variant.good Cfg.repo b a = none)
    (hdone : ∀ q, q < b.base.nReqs → (b.base.reqs q).done = true) (hl : b.base.loaders = []) :
    (∀ r, r < b.base.nRunners → (b.base.runners r).closed = true) ∧ b.base.loaded = [] := by
  have hstuck : Stuck b.base := by
    intro a ha
    cases hst : step Variant.good b.base a with
    | none => rfl
    | some s' =>
      have := stepB_enabled_of_step hp hu hst
      rw [hs a ha] at this
      cases this
  have := drain (reachB_reach h) hstuck hdone hl
  exact ⟨this.1, this.2.1⟩


theorem stuck_of_stuckB {b : BState} (hp : b.parked = []) (hu : b.base.unloaders = [])
    (hs : ∀ a, isProgress a = true → stepB Variant.good Cfg.repo b a = none) : Stuck b.base := by
  intro a ha
  cases hst : step Variant.good b.base a with
  | none => rfl
  | some s' =>
    have := stepB_enabled_of_step hp hu hst
    rw [hs a ha] at this
    cases this

/-- **Every request that can be answered has been answered, bounded model** (hypotheses as `all_answered`, plus: nobody is
    parked inside a region) -/
theorem all_answered_bounded {mr mq ds : Nat} {b : BState} (h : ReachB Variant.good Cfg.repo (initB mr mq ds) b)
    (hp : b.parked = []) (hu : b.base.unloaders = [])
    (hs : ∀ a, isProgress a = true → stepB Variant.good Cfg.repo b a = none)
    (hl : b.base.loaders = []) (hq : 0 < b.base.maxQueue)
    (hheld : ∀ r q, r < b.base.nRunners → q ∈ (b.base.runners r).holders → (b.base.reqs q).done = true) :
    b.base.ppc = .idle ∧ b.base.pendingQ = [] ∧ b.base.delayed = [] ∧
    ∀ q, q < b.base.nReqs → ((b.base.reqs q).replies = 1 ∨
      ((b.base.reqs q).replies = 0 ∧ (b.base.reqs q).dropped = true ∧ (b.base.reqs q).done = true)) :=
  all_answered (reachB_reach h) (stuck_of_stuckB hp hu hs) hl hq hheld

theorem reachB_of_runB {v : Variant} {c : Cfg} {b0 : BState} :
    ∀ (l : List Act) (b1 b : BState), ReachB v c b0 b1 → runB v c b1 l = some b → ReachB v c b0 b := by
  intro l
  induction l with
  | nil => intro b1 b h hr; simp [runB] at hr; subst hr; exact h
  | cons a as ih =>
    intro b1 b h hr
    simp only [runB] at hr
    cases hs : stepB v c b1 a with
    | none => simp [hs] at hr
    | some b2 => simp only [hs] at hr; exact ih b2 b (ReachB.step a h hs) hr

/-- non-vacuity: the drained one-request history runs in the bounded model without anybody parking, and ends in a state in
    which no candidate internal action of the bounded model is enabled -/
theorem drained_trace_runs_bounded :
    (runB Variant.good Cfg.repo (initB 0 512 1) drainedTrace).map
      (fun b => b.parked.isEmpty && b.base.unloaders.isEmpty && b.base.loaders.isEmpty &&
                (candidates b.base).all (fun a => (stepB Variant.good Cfg.repo b a).isNone) &&
                (b.base.runners 0).closed && b.base.loaded.isEmpty) = some true := by decide

end OllamaVerif.C02Chan
