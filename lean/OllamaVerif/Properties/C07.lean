/-
  C07 — prompt caching, slot reuse and context shifting never change what the model sees.

  Property theorems over Model/Runner.lean (helper lemmas in Proofs/Runner.lean).
-/
import OllamaVerif.Proofs.Runner

namespace OllamaVerif.C07
open OllamaVerif OllamaVerif.Runner
set_option linter.unusedSimpArgs false
set_option linter.unusedVariables false

/-! ## slot selection -/

/-- what the slot-selection half of LoadCacheSlot guarantees about its result -/
structure FindSpec (c : Cache) (prompt : List Tok) (c1 : Cache) (i n : Nat) : Prop where
  valid : i < c.slots.length
  free : (getSlot c.slots i).inUse = false
  le : n ≤ prompt.length
  pre : ∀ k, k ≤ n → (getSlot c1.slots i).inputs.take k = prompt.take k
  shape : c1 = c ∨ ∃ li, li < c.slots.length ∧ li ≠ i ∧
            n ≤ (getSlot c.slots li).inputs.length ∧
            c1 = { c with slots := setSlot c.slots i fun s => { s with inputs := (getSlot c.slots li).inputs.take n },
                          cells := copyPrefix c.cells (getSlot c.slots li).id (getSlot c.slots i).id n }

theorem getSlot_setSlot_same (l : List Slot) (i : Nat) (f : Slot → Slot) (h : i < l.length) :
    getSlot (setSlot l i f) i = f (getSlot l i) := by
  have h' : i < (setSlot l i f).length := by simp [setSlot, h]
  rw [getSlot_eq _ _ h', getSlot_eq _ _ h]
  simp [setSlot, List.getElem_modify]

theorem findSlot_spec (c : Cache) (prompt : List Tok) (now : Nat) (c1 : Cache) (i n : Nat)
    (h : findSlot c prompt now = .ok (c1, i, n)) : FindSpec c prompt c1 i n := by
  unfold findSlot at h
  by_cases hm : c.multiUser
  · -- findBestCacheSlot
    simp only [hm, Bool.not_true, Bool.false_eq_true, if_false] at h
    unfold findBest at h
    cases hb : bestLongestGo prompt c.slots 0 none with
    | none => simp [hb] at h
    | some r =>
      obtain ⟨li, longest⟩ := r
      rcases bestLongestGo_spec prompt c.slots 0 none _ hb with hh | ⟨j, hj, hr⟩
      · cases hh
      · simp only [Nat.zero_add, Option.some.injEq, Prod.mk.injEq] at hr
        obtain ⟨rfl, rfl⟩ := hr
        have hls : getSlot c.slots li = c.slots[li] := getSlot_eq _ _ hj
        simp only [hb] at h
        by_cases h1 : (decide (countCommonPrefix c.slots[li].inputs prompt = (getSlot c.slots li).inputs.length) && !(getSlot c.slots li).inUse) = true
        · simp only [h1, if_true, Except.ok.injEq, Prod.mk.injEq] at h
          obtain ⟨rfl, rfl, rfl⟩ := h
          simp only [Bool.and_eq_true, decide_eq_true_eq, Bool.not_eq_true'] at h1
          exact ⟨hj, h1.2, ccp_le_right _ _, fun k hk => by rw [hls]; exact ccp_take _ _ k hk, Or.inl rfl⟩
        · simp only [h1, Bool.false_eq_true, if_false] at h
          cases ho : oldestGo c.slots 0 now none with
          | none => simp [ho] at h
          | some oi =>
            rcases oldestGo_spec c.slots 0 now none _ ho with hh | ⟨j2, hj2, hr2, hfree⟩
            · cases hh
            · simp only [Nat.zero_add, Option.some.injEq] at hr2
              subst hr2
              have hos : getSlot c.slots oi = c.slots[oi] := getSlot_eq _ _ hj2
              simp only [ho] at h
              by_cases h2 : (getSlot c.slots oi).inUse = true
              · simp [h2] at h
              · simp only [h2, Bool.false_eq_true, if_false] at h
                by_cases h3 : (decide (countCommonPrefix c.slots[li].inputs prompt > 0) && (li != oi)) = true
                · simp only [h3, if_true, Except.ok.injEq, Prod.mk.injEq] at h
                  obtain ⟨rfl, rfl, rfl⟩ := h
                  simp only [Bool.and_eq_true, decide_eq_true_eq, bne_iff_ne, ne_eq] at h3
                  refine ⟨hj2, by simpa using h2, ccp_le_right _ _, ?_, Or.inr ⟨li, hj, h3.2, ?_, ?_⟩⟩
                  · intro k hk
                    simp only
                    rw [getSlot_setSlot_same _ _ _ hj2]
                    simp only [hls, List.take_take, Nat.min_eq_left hk]
                    exact ccp_take _ _ k hk
                  · rw [hls]; exact ccp_le_left _ _
                  · simp only [hls, Int.natCast_inj]
                · simp only [h3, Bool.false_eq_true, if_false, Except.ok.injEq, Prod.mk.injEq] at h
                  obtain ⟨rfl, rfl, rfl⟩ := h
                  refine ⟨hj2, by simpa using h2, ccp_le_right _ _, ?_, Or.inl rfl⟩
                  intro k hk
                  simp only [Bool.and_eq_true, decide_eq_true_eq, bne_iff_ne, ne_eq, not_and, Decidable.not_not] at h3
                  by_cases hz : countCommonPrefix c.slots[li].inputs prompt > 0
                  · have := h3 hz; subst this; rw [hls]; exact ccp_take _ _ k hk
                  · have : k = 0 := by omega
                    subst this; simp
  · -- findLongestCacheSlot
    simp only [hm, Bool.not_false, if_true] at h
    unfold findLongest at h
    cases hl : longestGo prompt c.slots 0 none with
    | none => simp [hl] at h
    | some r =>
      rcases longestGo_spec prompt c.slots 0 none _ hl with hh | ⟨j, hj, hr, hfree⟩
      · cases hh
      · simp only [Nat.zero_add, Option.some.injEq] at hr
        subst hr
        simp only [hl, Except.ok.injEq, Prod.mk.injEq] at h
        obtain ⟨rfl, rfl, rfl⟩ := h
        have hls : getSlot c.slots j = c.slots[j] := getSlot_eq _ _ hj
        exact ⟨hj, by rw [hls]; exact hfree, ccp_le_right _ _, fun k hk => by rw [hls]; exact ccp_take _ _ k hk, Or.inl rfl⟩


theorem findSpec_length {c : Cache} {prompt : List Tok} {c1 : Cache} {i n : Nat}
    (h : FindSpec c prompt c1 i n) : c1.slots.length = c.slots.length := by
  rcases h.shape with rfl | ⟨li, _, _, _, rfl⟩
  · rfl
  · simp [setSlot]

/-- the shape of every successful `loadTail` (either branch) -/
theorem loadTail_shape (c : Cache) (i n : Nat) (prompt : List Tok) (now : Nat) (cr : Bool)
    (c' : Cache) (j : Nat) (rest : List Tok) (h : loadTail c i n prompt now cr = .ok (c', j, rest)) :
    ∃ m, m ≤ n ∧ (prompt ≠ [] → n ≤ prompt.length → m < prompt.length) ∧ j = i ∧ rest = prompt.drop m ∧
      c'.slots = setSlot c.slots i (fun s => { s with inUse := true, lastUsed := now, inputs := s.inputs.take m }) := by
  unfold loadTail at h
  simp only at h
  generalize hm1 : (if n = prompt.length then n - 1 else n) = m1 at h
  generalize hm2 : (if (decide (m1 > 0) && !cr) = true then 0 else m1) = m2 at h
  have hm1n : m1 ≤ n := by rw [← hm1]; split <;> omega
  have hm2n : m2 ≤ m1 := by rw [← hm2]; split <;> omega
  have hlt : prompt ≠ [] → n ≤ prompt.length → m1 < prompt.length := by
    intro hp hn
    have : 0 < prompt.length := List.length_pos_iff.mpr hp
    rw [← hm1]; split <;> omega
  split at h
  · simp only [Except.ok.injEq, Prod.mk.injEq] at h
    obtain ⟨rfl, rfl, rfl⟩ := h
    exact ⟨m2, by omega, fun hp hn => by have := hlt hp hn; omega, rfl, rfl, rfl⟩
  · split at h
    · simp only [Except.ok.injEq, Prod.mk.injEq] at h
      obtain ⟨rfl, rfl, rfl⟩ := h
      exact ⟨0, by omega, fun hp hn => List.length_pos_iff.mpr hp, rfl, rfl, rfl⟩
    · cases h

theorem load_split (c : Cache) (prompt : List Tok) (now : Nat) (cr : Bool) (c' : Cache) (i : Nat)
    (rest : List Tok) (h : loadCacheSlot c prompt now cr = .ok (c', i, rest)) :
    ∃ c1 i0 n, findSlot c prompt now = .ok (c1, i0, n) ∧ loadTail c1 i0 n prompt now cr = .ok (c', i, rest) := by
  unfold loadCacheSlot at h
  split at h
  · cases h
  · next c1 i0 n hf => exact ⟨c1, i0, n, hf, h⟩

/-- **A slot in use is never given to a second request.**  Whenever LoadCacheSlot succeeds (either
    policy, any cache contents, any CanResume answer), the slot it returns exists and was not in use. -/
theorem slot_exclusive (c : Cache) (prompt : List Tok) (now : Nat) (cr : Bool) (c' : Cache) (i : Nat)
    (rest : List Tok) (h : loadCacheSlot c prompt now cr = .ok (c', i, rest)) :
    ∃ hi : i < c.slots.length, c.slots[i].inUse = false := by
  obtain ⟨c1, i0, n, hf, ht⟩ := load_split c prompt now cr c' i rest h
  have sp := findSlot_spec c prompt now c1 i0 n hf
  obtain ⟨m, _, _, rfl, _, _⟩ := loadTail_shape c1 i0 n prompt now cr c' i rest ht
  exact ⟨sp.valid, by rw [← getSlot_eq _ _ sp.valid]; exact sp.free⟩

/-- **No free slot, no load.**  If every slot is in use, LoadCacheSlot does not succeed (the single-user
    policy returns "no available cache slots"; the multi-user policy dereferences nil — F22). -/
theorem no_free_slot_no_load (c : Cache) (prompt : List Tok) (now : Nat) (cr : Bool)
    (hall : ∀ sl ∈ c.slots, sl.inUse = true) :
    ∀ r, loadCacheSlot c prompt now cr ≠ .ok r := by
  intro r h
  obtain ⟨c', i, rest⟩ := r
  obtain ⟨hi, hfree⟩ := slot_exclusive c prompt now cr c' i rest h
  have := hall _ (List.getElem_mem hi)
  rw [this] at hfree; cases hfree

/-- **The reused prefix is a prefix of the new prompt, and something is left to process.**  After a
    successful LoadCacheSlot the slot's record followed by the remaining inputs is exactly the prompt,
    and at least one input remains. -/
theorem prefix_reuse_sound (c : Cache) (prompt : List Tok) (now : Nat) (cr : Bool) (c' : Cache) (i : Nat)
    (rest : List Tok) (hp : prompt ≠ []) (h : loadCacheSlot c prompt now cr = .ok (c', i, rest)) :
    (getSlot c'.slots i).inputs ++ rest = prompt ∧ rest ≠ [] ∧ (getSlot c'.slots i).inUse = true := by
  obtain ⟨c1, i0, n, hf, ht⟩ := load_split c prompt now cr c' i rest h
  have sp := findSlot_spec c prompt now c1 i0 n hf
  obtain ⟨m, hmn, hlt, rfl, rfl, hs⟩ := loadTail_shape c1 i0 n prompt now cr c' i rest ht
  have hi1 : i < c1.slots.length := by rw [findSpec_length sp]; exact sp.valid
  rw [hs, getSlot_setSlot_same _ _ _ hi1]
  simp only
  rw [sp.pre m hmn, List.take_append_drop]
  refine ⟨rfl, ?_, trivial⟩
  have := hlt hp sp.le
  intro hnil
  have : (prompt.drop m).length = 0 := by rw [hnil]; rfl
  simp only [List.length_drop] at this
  omega

end OllamaVerif.C07
