/-
  C07 — prompt caching, slot reuse and context shifting never change what the model sees.

  Property theorems over Model/Runner.lean (helper lemmas in Proofs/Runner.lean).
-/
import OllamaVerif.Proofs.Runner

namespace OllamaVerif.C07
open OllamaVerif OllamaVerif.Runner
set_option linter.unusedSimpArgs false
set_option linter.unusedVariables false

/-! ## slot selection -/

/-- what the slot-selection half of LoadCacheSlot guarantees about its result -/
structure FindSpec (c : Cache) (prompt : List Tok) (c1 : Cache) (i n : Nat) : Prop where
  valid : i < c.slots.length
  free : (getSlot c.slots i).inUse = false
  le : n ≤ prompt.length
  pre : ∀ k, k ≤ n → (getSlot c1.slots i).inputs.take k = prompt.take k
  shape : c1 = c ∨ ∃ li, li < c.slots.length ∧ li ≠ i ∧
            n ≤ (getSlot c.slots li).inputs.length ∧
            c1 = { c with slots := setSlot c.slots i fun s => { s with inputs := (getSlot c.slots li).inputs.take n },
                          cells := copyPrefix c.cells (getSlot c.slots li).id (getSlot c.slots i).id n }

theorem getSlot_setSlot_same (l : List Slot) (i : Nat) (f : Slot → Slot) (h : i < l.length) :
    getSlot (setSlot l i f) i = f (getSlot l i) := by
  have h' : i < (setSlot l i f).length := by simp [setSlot, h]
  rw [getSlot_eq _ _ h', getSlot_eq _ _ h]
  simp [setSlot, List.getElem_modify]

theorem findSlot_spec (c : Cache) (prompt : List Tok) (now : Nat) (c1 : Cache) (i n : Nat)
    (h : findSlot c prompt now = .ok (c1, i, n)) : FindSpec c prompt c1 i n := by
  unfold findSlot at h
  by_cases hm : c.multiUser
  · -- findBestCacheSlot
    simp only [hm, Bool.not_true, Bool.false_eq_true, if_false] at h
    unfold findBest at h
    cases hb : bestLongestGo prompt c.slots 0 none with
    | none => simp [hb] at h
    | some r =>
      obtain ⟨li, longest⟩ := r
      rcases bestLongestGo_spec prompt c.slots 0 none _ hb with hh | ⟨j, hj, hr⟩
      · cases hh
      · simp only [Nat.zero_add, Option.some.injEq, Prod.mk.injEq] at hr
        obtain ⟨rfl, rfl⟩ := hr
        have hls : getSlot c.slots li = c.slots[li] := getSlot_eq _ _ hj
        simp only [hb] at h
        by_cases h1 : (decide (countCommonPrefix c.slots[li].inputs prompt = (getSlot c.slots li).inputs.length) && !(getSlot c.slots li).inUse) = true
        · simp only [h1, if_true, Except.ok.injEq, Prod.mk.injEq] at h
          obtain ⟨rfl, rfl, rfl⟩ := h
          simp only [Bool.and_eq_true, decide_eq_true_eq, Bool.not_eq_true'] at h1
          exact ⟨hj, h1.2, ccp_le_right _ _, fun k hk => by rw [hls]; exact ccp_take _ _ k hk, Or.inl rfl⟩
        · simp only [h1, Bool.false_eq_true, if_false] at h
          cases ho : oldestGo c.slots 0 now none with
          | none => simp [ho] at h
          | some oi =>
            rcases oldestGo_spec c.slots 0 now none _ ho with hh | ⟨j2, hj2, hr2, hfree⟩
            · cases hh
            · simp only [Nat.zero_add, Option.some.injEq] at hr2
              subst hr2
              have hos : getSlot c.slots oi = c.slots[oi] := getSlot_eq _ _ hj2
              simp only [ho] at h
              by_cases h2 : (getSlot c.slots oi).inUse = true
              · simp [h2] at h
              · simp only [h2, Bool.false_eq_true, if_false] at h
                by_cases h3 : (decide (countCommonPrefix c.slots[li].inputs prompt > 0) && (li != oi)) = true
                · simp only [h3, if_true, Except.ok.injEq, Prod.mk.injEq] at h
                  obtain ⟨rfl, rfl, rfl⟩ := h
                  simp only [Bool.and_eq_true, decide_eq_true_eq, bne_iff_ne, ne_eq] at h3
                  refine ⟨hj2, by simpa using h2, ccp_le_right _ _, ?_, Or.inr ⟨li, hj, h3.2, ?_, ?_⟩⟩
                  · intro k hk
                    simp only
                    rw [getSlot_setSlot_same _ _ _ hj2]
                    simp only [hls, List.take_take, Nat.min_eq_left hk]
                    exact ccp_take _ _ k hk
                  · rw [hls]; exact ccp_le_left _ _
                  · simp only [hls, Int.natCast_inj]
                · simp only [h3, Bool.false_eq_true, if_false, Except.ok.injEq, Prod.mk.injEq] at h
                  obtain ⟨rfl, rfl, rfl⟩ := h
                  refine ⟨hj2, by simpa using h2, ccp_le_right _ _, ?_, Or.inl rfl⟩
                  intro k hk
                  simp only [Bool.and_eq_true, decide_eq_true_eq, bne_iff_ne, ne_eq, not_and, Decidable.not_not] at h3
                  by_cases hz : countCommonPrefix c.slots[li].inputs prompt > 0
                  · have := h3 hz; subst this; rw [hls]; exact ccp_take _ _ k hk
                  · have : k = 0 := by omega
                    subst this; simp
  · -- findLongestCacheSlot
    simp only [hm, Bool.not_false, if_true] at h
    unfold findLongest at h
    cases hl : longestGo prompt c.slots 0 none with
    | none => simp [hl] at h
    | some r =>
      rcases longestGo_spec prompt c.slots 0 none _ hl with hh | ⟨j, hj, hr, hfree⟩
      · cases hh
      · simp only [Nat.zero_add, Option.some.injEq] at hr
        subst hr
        simp only [hl, Except.ok.injEq, Prod.mk.injEq] at h
        obtain ⟨rfl, rfl, rfl⟩ := h
        have hls : getSlot c.slots j = c.slots[j] := getSlot_eq _ _ hj
        exact ⟨hj, by rw [hls]; exact hfree, ccp_le_right _ _, fun k hk => by rw [hls]; exact ccp_take _ _ k hk, Or.inl rfl⟩


theorem findSpec_length {c : Cache} {prompt : List Tok} {c1 : Cache} {i n : Nat}
    (h : FindSpec c prompt c1 i n) : c1.slots.length = c.slots.length := by
  rcases h.shape with rfl | ⟨li, _, _, _, rfl⟩
  · rfl
  · simp [setSlot]

/-- the shape of every successful `loadTail` (either branch) -/
theorem loadTail_shape (c : Cache) (i n : Nat) (prompt : List Tok) (now : Nat) (cr : CanRes)
    (c' : Cache) (j : Nat) (rest : List Tok) (h : loadTail c i n prompt now cr = .ok (c', j, rest)) :
    ∃ m, m ≤ n ∧ (prompt ≠ [] → n ≤ prompt.length → m < prompt.length) ∧ j = i ∧ rest = prompt.drop m ∧
      c'.slots = setSlot c.slots i (fun s => { s with inUse := true, lastUsed := now, inputs := s.inputs.take m }) := by
  unfold loadTail at h
  simp only at h
  generalize hm1 : (if n = prompt.length then n - 1 else n) = m1 at h
  generalize hm2 : (if (decide (m1 > 0) && !cr c.cells (getSlot c.slots i).id m1) = true then 0 else m1) = m2 at h
  have hm1n : m1 ≤ n := by rw [← hm1]; split <;> omega
  have hm2n : m2 ≤ m1 := by rw [← hm2]; split <;> omega
  have hlt : prompt ≠ [] → n ≤ prompt.length → m1 < prompt.length := by
    intro hp hn
    have : 0 < prompt.length := List.length_pos_iff.mpr hp
    rw [← hm1]; split <;> omega
  split at h
  · simp only [Except.ok.injEq, Prod.mk.injEq] at h
    obtain ⟨rfl, rfl, rfl⟩ := h
    exact ⟨m2, by omega, fun hp hn => by have := hlt hp hn; omega, rfl, rfl, rfl⟩
  · split at h
    · simp only [Except.ok.injEq, Prod.mk.injEq] at h
      obtain ⟨rfl, rfl, rfl⟩ := h
      exact ⟨0, by omega, fun hp hn => List.length_pos_iff.mpr hp, rfl, rfl, rfl⟩
    · cases h

theorem load_split (c : Cache) (prompt : List Tok) (now : Nat) (cr : CanRes) (c' : Cache) (i : Nat)
    (rest : List Tok) (h : loadCacheSlot c prompt now cr = .ok (c', i, rest)) :
    ∃ c1 i0 n, findSlot c prompt now = .ok (c1, i0, n) ∧ loadTail c1 i0 n prompt now cr = .ok (c', i, rest) := by
  unfold loadCacheSlot at h
  split at h
  · cases h
  · next c1 i0 n hf => exact ⟨c1, i0, n, hf, h⟩

/-- **A slot in use is never given to a second request.**  Whenever LoadCacheSlot succeeds (either
    policy, any cache contents, any CanResume answer), the slot it returns exists and was not in use. -/
theorem slot_exclusive (c : Cache) (prompt : List Tok) (now : Nat) (cr : CanRes) (c' : Cache) (i : Nat)
    (rest : List Tok) (h : loadCacheSlot c prompt now cr = .ok (c', i, rest)) :
    ∃ hi : i < c.slots.length, c.slots[i].inUse = false := by
  obtain ⟨c1, i0, n, hf, ht⟩ := load_split c prompt now cr c' i rest h
  have sp := findSlot_spec c prompt now c1 i0 n hf
  obtain ⟨m, _, _, rfl, _, _⟩ := loadTail_shape c1 i0 n prompt now cr c' i rest ht
  exact ⟨sp.valid, by rw [← getSlot_eq _ _ sp.valid]; exact sp.free⟩

/-- **No free slot, no load.**  If every slot is in use, LoadCacheSlot does not succeed (the single-user
    policy returns "no available cache slots"; the multi-user policy dereferences nil — F22). -/
theorem no_free_slot_no_load (c : Cache) (prompt : List Tok) (now : Nat) (cr : CanRes)
    (hall : ∀ sl ∈ c.slots, sl.inUse = true) :
    ∀ r, loadCacheSlot c prompt now cr ≠ .ok r := by
  intro r h
  obtain ⟨c', i, rest⟩ := r
  obtain ⟨hi, hfree⟩ := slot_exclusive c prompt now cr c' i rest h
  have := hall _ (List.getElem_mem hi)
  rw [this] at hfree; cases hfree

/-- **The reused prefix is a prefix of the new prompt, and something is left to process.**  After a
    successful LoadCacheSlot the slot's record followed by the remaining inputs is exactly the prompt,
    and at least one input remains. -/
theorem prefix_reuse_sound (c : Cache) (prompt : List Tok) (now : Nat) (cr : CanRes) (c' : Cache) (i : Nat)
    (rest : List Tok) (hp : prompt ≠ []) (h : loadCacheSlot c prompt now cr = .ok (c', i, rest)) :
    (getSlot c'.slots i).inputs ++ rest = prompt ∧ rest ≠ [] ∧ (getSlot c'.slots i).inUse = true := by
  obtain ⟨c1, i0, n, hf, ht⟩ := load_split c prompt now cr c' i rest h
  have sp := findSlot_spec c prompt now c1 i0 n hf
  obtain ⟨m, hmn, hlt, rfl, rfl, hs⟩ := loadTail_shape c1 i0 n prompt now cr c' i rest ht
  have hi1 : i < c1.slots.length := by rw [findSpec_length sp]; exact sp.valid
  rw [hs, getSlot_setSlot_same _ _ _ hi1]
  simp only
  rw [sp.pre m hmn, List.take_append_drop]
  refine ⟨rfl, ?_, trivial⟩
  have := hlt hp sp.le
  intro hnil
  have : (prompt.drop m).length = 0 := by rw [hnil]; rfl
  simp only [List.length_drop] at this
  omega


/-! ## Coherent: the cache holds exactly what the records say -/

/-- the entries of the slot's sequence at positions below the record length are exactly the recorded
    inputs, input `k` at position `k` with its key row roped to `k`; a slot in use has nothing beyond
    (a released slot may: the stop handling cuts the record without touching the cache, and the next
    LoadCacheSlot erases from `numPast` on) -/
def SlotOK (cells : List Cell) (sl : Slot) : Prop :=
  ((view cells sl.id).filter (fun x => decide (x.1 < (sl.inputs.length : Int)))).Perm (canon sl.inputs)
  ∧ (sl.inUse = true → ∀ x ∈ view cells sl.id, x.1 < (sl.inputs.length : Int))

def Coherent (c : Cache) : Prop :=
  PosBound c.cells ∧ ∀ j, ∀ hj : j < c.slots.length, c.slots[j].id = j ∧ SlotOK c.cells c.slots[j]

theorem SlotOK_perm (cells cells' : List Cell) (sl : Slot)
    (hp : (view cells' sl.id).Perm (view cells sl.id)) (h : SlotOK cells sl) : SlotOK cells' sl :=
  ⟨(hp.filter _).trans h.1, fun hu x hx => h.2 hu x (hp.mem_iff.mp hx)⟩

theorem coherent_update (c : Cache) (hc : Coherent c) (i : Nat) (hi : i < c.slots.length)
    (f : Slot → Slot) (cells' : List Cell) (hid : (f c.slots[i]).id = i) (hb : PosBound cells')
    (hother : ∀ t, t ≠ i → (view cells' t).Perm (view c.cells t))
    (hself : SlotOK cells' (f c.slots[i])) :
    Coherent { c with slots := setSlot c.slots i f, cells := cells' } := by
  refine ⟨hb, fun j hj => ?_⟩
  have hj' : j < c.slots.length := by simpa [setSlot] using hj
  simp only [setSlot, List.getElem_modify]
  by_cases hij : i = j
  · subst hij; simp only [if_true]; exact ⟨hid, hself⟩
  · simp only [hij, if_false]
    obtain ⟨h1, h2⟩ := hc.2 j hj'
    refine ⟨h1, SlotOK_perm c.cells cells' _ ?_ h2⟩
    rw [h1]; exact hother j (fun h => hij h.symm)

/-- cutting a coherent view at `n ≤ len` gives the canonical view of the first `n` inputs -/
theorem cut_perm (V : List (Int × Tok × Int)) (inputs : List Tok) (n : Nat) (hn : n ≤ inputs.length)
    (h : (V.filter (fun x => decide (x.1 < (inputs.length : Int)))).Perm (canon inputs)) :
    (V.filter (fun x => decide (x.1 < (n : Int)))).Perm (canon (inputs.take n)) := by
  have h2 := h.filter (fun x => decide (x.1 < (n : Int)))
  rw [canon_filter_lt, List.filter_filter] at h2
  have : (fun x : Int × Tok × Int => (decide (x.1 < (n : Int)) && decide (x.1 < (inputs.length : Int)))) =
      (fun x => decide (x.1 < (n : Int))) := by
    funext x
    by_cases hx : x.1 < (n : Int)
    · have : x.1 < (inputs.length : Int) := by omega
      simp [hx, this]
    · simp [hx]
  rw [this] at h2
  exact h2

theorem slotOK_cut (cells : List Cell) (sl : Slot) (n : Nat) (u : Bool) (lu : Nat)
    (hn : n ≤ sl.inputs.length) (h : SlotOK cells sl)
    (cells' : List Cell) (hV : view cells' sl.id = (view cells sl.id).filter (fun x => decide (x.1 < (n : Int)))) :
    SlotOK cells' { sl with inUse := u, lastUsed := lu, inputs := sl.inputs.take n } := by
  have hl : (sl.inputs.take n).length = n := by simp [List.length_take]; omega
  refine ⟨?_, ?_⟩
  · simp only [hl, hV, List.filter_filter, Bool.and_self]
    exact cut_perm _ _ n hn h.1
  · intro _ x hx
    simp only [hV] at hx
    simp only [hl]
    have := (List.mem_filter.mp hx).2
    simpa using this

/-- the fork of findBestCacheSlot (and the no-fork cases) keep the cache coherent -/
theorem coherent_find (c : Cache) (hc : Coherent c) (prompt : List Tok) (c1 : Cache) (i n : Nat)
    (sp : FindSpec c prompt c1 i n) : Coherent c1 := by
  rcases sp.shape with rfl | ⟨li, hli, hne, hnl, rfl⟩
  · exact hc
  · have hi := sp.valid
    obtain ⟨hidl, hokl⟩ := hc.2 li hli
    obtain ⟨hidi, _⟩ := hc.2 i hi
    rw [getSlot_eq _ _ hli] at hnl
    rw [getSlot_eq _ _ hli, getSlot_eq _ _ hi, hidl, hidi]
    apply coherent_update c hc i hi _ _ hidi (copy_bound _ _ _ _ hc.1)
    · intro t ht; rw [copy_view_other _ _ _ _ ht]
    · have hV := copy_view_dst li i (n : Int) hne c.cells
      have hl : (c.slots[li].inputs.take n).length = n := by simp [List.length_take]; omega
      refine ⟨?_, ?_⟩
      · simp only [hidi, hV, hl, List.filter_filter, Bool.and_self]
        have := cut_perm _ _ n hnl hokl.1
        rw [hidl] at this; exact this
      · intro _ x hx
        simp only [hidi, hV] at hx
        simp only [hl]
        simpa using (List.mem_filter.mp hx).2

theorem loadTail_ok (c : Cache) (i n : Nat) (prompt : List Tok) (now : Nat) (cr : CanRes) (hb : PosBound c.cells)
    (c' : Cache) (j : Nat) (rest : List Tok) (h : loadTail c i n prompt now cr = .ok (c', j, rest)) :
    ∃ m, m ≤ n ∧
      c' = { c with cells := (remove c.canShift c.cells (getSlot c.slots i).id (m : Int) maxI32).1,
                    slots := setSlot c.slots i fun s => { s with inUse := true, lastUsed := now, inputs := s.inputs.take m } } := by
  unfold loadTail at h
  simp only at h
  generalize hm1 : (if n = prompt.length then n - 1 else n) = m1 at h
  generalize hm2 : (if (decide (m1 > 0) && !cr c.cells (getSlot c.slots i).id m1) = true then 0 else m1) = m2 at h
  have hm1n : m1 ≤ n := by rw [← hm1]; split <;> omega
  have hm2n : m2 ≤ m1 := by rw [← hm2]; split <;> omega
  have hrc := (remove_clear c.canShift c.cells (getSlot c.slots i).id (m2 : Int) hb).1
  simp only [hrc, Except.ok.injEq, Prod.mk.injEq] at h
  exact ⟨m2, by omega, h.1.symm⟩

theorem coherent_loadTail (c : Cache) (hc : Coherent c) (i n : Nat) (hi : i < c.slots.length)
    (hn : n ≤ (getSlot c.slots i).inputs.length) (prompt : List Tok) (now : Nat) (cr : CanRes)
    (c' : Cache) (j : Nat) (rest : List Tok) (h : loadTail c i n prompt now cr = .ok (c', j, rest)) :
    Coherent c' := by
  obtain ⟨m, hmn, rfl⟩ := loadTail_ok c i n prompt now cr hc.1 c' j rest h
  obtain ⟨hid, hok⟩ := hc.2 i hi
  rw [getSlot_eq _ _ hi] at hn ⊢
  rw [hid]
  have hrc := remove_clear c.canShift c.cells i (m : Int) hc.1
  apply coherent_update c hc i hi _ _ hid (remove_bound _ _ _ _ _ hc.1 (Int.natCast_nonneg _) (Or.inl rfl))
  · intro t ht; rw [remove_other _ _ _ _ ht]
  · apply slotOK_cut c.cells c.slots[i] m true now (by omega) hok
    rw [hid]; exact hrc.2

/-- one token batch of one sequence stored by Forward and appended to the record -/
def forward (c : Cache) (i : Nat) (new : List Tok) (loc : Nat) : Cache :=
  let sl := getSlot c.slots i
  { c with cells := store c.cells loc (mkBatch sl.id sl.inputs.length new),
           slots := setSlot c.slots i fun s => { s with inputs := s.inputs ++ new } }

theorem coherent_forward (c : Cache) (hc : Coherent c) (i : Nat) (hi : i < c.slots.length)
    (new : List Tok) (loc : Nat) (hu : (getSlot c.slots i).inUse = true)
    (hfree : ∀ x ∈ (c.cells.drop loc).take new.length, x.seqs = [])
    (hpos : ((getSlot c.slots i).inputs.length : Int) + new.length < maxI32) :
    Coherent (forward c i new loc) := by
  obtain ⟨hid, hok⟩ := hc.2 i hi
  unfold forward
  simp only
  rw [getSlot_eq _ _ hi] at hu hpos ⊢
  rw [hid]
  have hfree' : ∀ x ∈ (c.cells.drop loc).take (mkBatch i c.slots[i].inputs.length new).length, x.seqs = [] := by
    rw [mkBatch_length]; exact hfree
  apply coherent_update c hc i hi _ _ hid
  · apply store_bound _ _ _ hc.1
    intro t ht
    have := mkBatch_pos _ _ _ t ht
    omega
  · intro t ht
    have := store_view c.cells loc (mkBatch i c.slots[i].inputs.length new) t hfree'
    rw [mkBatch_view] at this
    simpa [ht] using this
  · have hsv := store_view c.cells loc (mkBatch i c.slots[i].inputs.length new) i hfree'
    rw [mkBatch_view] at hsv
    simp only [if_true] at hsv
    have hall : ∀ x ∈ view c.cells i, x.1 < (c.slots[i].inputs.length : Int) := by
      have := hok.2 hu; rw [hid] at this; exact this
    have hV : (view c.cells i).Perm (canon c.slots[i].inputs) := by
      have := hok.1
      rw [hid, filter_all _ _ (fun x hx => by simpa using hall x hx)] at this
      exact this
    have hnew : (view (store c.cells loc (mkBatch i c.slots[i].inputs.length new)) i).Perm
        (canon (c.slots[i].inputs ++ new)) := by
      refine hsv.trans ?_
      unfold canon
      rw [canonFrom_append, Nat.zero_add]
      exact List.Perm.append_right _ hV
    have hall' : ∀ x ∈ view (store c.cells loc (mkBatch i c.slots[i].inputs.length new)) i,
        x.1 < ((c.slots[i].inputs ++ new).length : Int) := by
      intro x hx
      have := canonFrom_mem 0 _ x (hnew.mem_iff.mp hx)
      omega
    refine ⟨?_, ?_⟩
    · simp only [hid]
      rw [filter_all _ _ (fun x hx => by simpa using hall' x hx)]
      exact hnew
    · intro _; simp only [hid]; exact hall'

/-- ShiftCacheSlot keeps the cache coherent: always on its success path; on its failure path when the
    reset really clears the sequence (`resetEnd = MaxInt32`, the repaired source) -/
theorem coherent_shift (c : Cache) (hc : Coherent c) (i keep : Nat) (hi : i < c.slots.length)
    (hu : (getSlot c.slots i).inUse = true)
    (hlen : ((getSlot c.slots i).inputs.length : Int) < maxI32) (c' : Cache)
    (h : shiftCacheSlot c i keep = .ok c' ∨ (c.resetEnd = maxI32 ∧ ∃ ins, shiftCacheSlot c i keep = .reprocess c' ins)) :
    Coherent c' := by
  obtain ⟨hid, hok⟩ := hc.2 i hi
  unfold shiftCacheSlot at h
  by_cases hk : keep ≥ c.numCtx
  · simp [hk] at h
  · simp only [hk, if_false] at h
    rw [getSlot_eq _ _ hi] at h hu hlen
    rw [hid] at h
    generalize hd : shiftDiscard c.numCtx c.slots[i].inputs.length keep = d at h
    by_cases hd0 : d = 0
    · simp only [hd0, if_true] at h
      rcases h with h | ⟨_, ins, h⟩
      · cases h; exact hc
      · cases h
    · simp only [hd0, if_false] at h
      have hle : keep + d ≤ c.slots[i].inputs.length := by
        rcases shiftDiscard_le c.numCtx c.slots[i].inputs.length keep (by omega) with h1 | h1
        · rw [hd] at h1; exact h1
        · rw [hd] at h1; exact absurd h1 hd0
      have hall : ∀ x ∈ view c.cells i, x.1 < (c.slots[i].inputs.length : Int) := by
        have := hok.2 hu; rw [hid] at this; exact this
      have hV : (view c.cells i).Perm (canon c.slots[i].inputs) := by
        have := hok.1
        rw [hid, filter_all _ _ (fun x hx => by simpa using hall x hx)] at this
        exact this
      have hbnd := remove_bound c.canShift c.cells i (keep : Int) ((keep : Int) + (d : Int)) hc.1
        (Int.natCast_nonneg _) (Or.inr (by omega))
      cases hr : (remove c.canShift c.cells i (keep : Int) ((keep : Int) + (d : Int))).2 with
      | none =>
        simp only [hr] at h
        rcases h with h | ⟨_, ins, h⟩
        · simp only [ShiftRes.ok.injEq] at h
          subst h
          have hself := remove_shift_self c.canShift c.cells i (keep : Int) ((keep : Int) + (d : Int))
            (by omega) (by unfold maxI32 at *; omega) hr
          have hoff : ((keep : Int) - ((keep : Int) + (d : Int))) = -(d : Int) := by omega
          rw [hoff] at hself
          have hnew : (view (remove c.canShift c.cells i (keep : Int) ((keep : Int) + (d : Int))).1 i).Perm
              (canon (c.slots[i].inputs.take keep ++ c.slots[i].inputs.drop (keep + d))) := by
            rw [hself, ← canon_shift _ _ _ hle]
            exact hV.filterMap _
          have hall' : ∀ x ∈ view (remove c.canShift c.cells i (keep : Int) ((keep : Int) + (d : Int))).1 i,
              x.1 < ((c.slots[i].inputs.take keep ++ c.slots[i].inputs.drop (keep + d)).length : Int) := by
            intro x hx
            have := canonFrom_mem 0 _ x (hnew.mem_iff.mp hx)
            omega
          apply coherent_update c hc i hi _ _ hid hbnd
          · intro t ht; rw [remove_other _ _ _ _ ht]
          · refine ⟨?_, ?_⟩
            · simp only [hid]
              rw [filter_all _ _ (fun x hx => by simpa using hall' x hx)]
              exact hnew
            · intro _; simp only [hid]; exact hall'
        · cases h
      | some e =>
        simp only [hr] at h
        rcases h with h | ⟨hre, ins, h⟩
        · cases h
        · simp only [ShiftRes.reprocess.injEq] at h
          obtain ⟨rfl, _⟩ := h
          rw [hre]
          have hrc := remove_clear c.canShift _ i (0 : Int) hbnd
          apply coherent_update c hc i hi _ _ hid
            (remove_bound _ _ _ _ _ hbnd (by omega) (Or.inl rfl))
          · intro t ht; rw [remove_other _ _ _ _ ht, remove_other _ _ _ _ ht]
          · have hnil : view (remove c.canShift (remove c.canShift c.cells i (keep : Int) ((keep : Int) + (d : Int))).1 i 0 maxI32).1 i = [] := by
              rw [hrc.2]
              apply filter_none
              intro x hx
              have := (view_pos_bound _ i hbnd x hx).1
              simp only [decide_eq_false_iff_not]; omega
            refine ⟨?_, ?_⟩
            · simp only [hid, hnil]; exact List.Perm.refl _
            · intro _ x hx; simp only [hid, hnil] at hx; cases hx

/-- the end of a request: the stop handling cuts the record to `k` inputs (`k ≥ len`: plain release)
    and the slot is released; the KV cache is not touched -/
def finish (c : Cache) (i k : Nat) : Cache :=
  { c with slots := setSlot c.slots i fun s => { s with inputs := s.inputs.take k, inUse := false } }

theorem take_length_take {α} (l : List α) (k : Nat) : l.take (l.take k).length = l.take k := by
  by_cases hk : k ≤ l.length
  · simp [List.length_take, Nat.min_eq_left hk]
  · have h1 : l.take k = l := List.take_of_length_le (by omega)
    rw [h1, List.take_of_length_le (Nat.le_refl _)]

theorem coherent_finish (c : Cache) (hc : Coherent c) (i k : Nat) (hi : i < c.slots.length) :
    Coherent (finish c i k) := by
  obtain ⟨hid, hok⟩ := hc.2 i hi
  unfold finish
  have := coherent_update c hc i hi (fun s => { s with inputs := s.inputs.take k, inUse := false }) c.cells hid hc.1
    (fun t _ => List.Perm.refl _) ?_
  · simpa using this
  · refine ⟨?_, fun h => by cases h⟩
    simp only
    have hn : (c.slots[i].inputs.take k).length ≤ c.slots[i].inputs.length := by
      simp [List.length_take]; omega
    have := cut_perm (view c.cells c.slots[i].id) c.slots[i].inputs _ hn hok.1
    rw [take_length_take] at this
    exact this

/-! ## request histories as sequences of cache operations -/

/-- One thing the runner does to (slot records, KV cache).  `allowFail` says whether a ShiftCacheSlot
    that takes its failure path (ErrReprocessInputs) is part of the alphabet. -/
inductive Step (allowFail : Bool) : Cache → Cache → Prop
  /-- LoadCacheSlot for a new request (any prompt, time, CanResume answer, either policy) -/
  | load (c : Cache) (prompt : List Tok) (now : Nat) (cr : CanRes) (c' : Cache) (i : Nat) (rest : List Tok) :
      loadCacheSlot c prompt now cr = .ok (c', i, rest) → Step allowFail c c'
  /-- Forward of `new` for the request owning slot `i` (positions = record length + k, any free
      placement), followed by the append to the record -/
  | forward (c : Cache) (i : Nat) (new : List Tok) (loc : Nat) :
      i < c.slots.length → (getSlot c.slots i).inUse = true →
      (∀ x ∈ (c.cells.drop loc).take new.length, x.seqs = []) →
      ((getSlot c.slots i).inputs.length : Int) + new.length < maxI32 → Step allowFail c (forward c i new loc)
  /-- ShiftCacheSlot, success path (also `discard = 0`) -/
  | shiftOk (c : Cache) (i keep : Nat) (c' : Cache) :
      i < c.slots.length → (getSlot c.slots i).inUse = true →
      ((getSlot c.slots i).inputs.length : Int) < maxI32 →
      shiftCacheSlot c i keep = .ok c' → Step allowFail c c'
  /-- ShiftCacheSlot, failure path: the sequence is reset and `ins` is handed back for reprocessing -/
  | shiftFailed (c : Cache) (i keep : Nat) (c' : Cache) (ins : List Tok) :
      allowFail = true →
      i < c.slots.length → (getSlot c.slots i).inUse = true →
      ((getSlot c.slots i).inputs.length : Int) < maxI32 →
      shiftCacheSlot c i keep = .reprocess c' ins → Step allowFail c c'
  /-- end of a request (EOS, numPredict, stop string with its cut of the record) -/
  | finish (c : Cache) (i k : Nat) : i < c.slots.length → Step allowFail c (finish c i k)
  /-- defrag: any relocation that keeps every sequence's entries (C06's obligation) -/
  | relocate (c : Cache) (cells' : List Cell) :
      (∀ s, (view cells' s).Perm (view c.cells s)) → PosBound cells' → Step allowFail c { c with cells := cells' }

inductive Steps (allowFail : Bool) : Cache → Cache → Prop
  | refl (c : Cache) : Steps allowFail c c
  | tail (a b c : Cache) : Steps allowFail a b → Step allowFail b c → Steps allowFail a c

theorem shift_resetEnd (c : Cache) (i keep : Nat) (c' : Cache)
    (h : shiftCacheSlot c i keep = .ok c' ∨ ∃ ins, shiftCacheSlot c i keep = .reprocess c' ins) :
    c'.resetEnd = c.resetEnd := by
  unfold shiftCacheSlot at h
  simp only at h
  split at h
  · rcases h with h | ⟨_, h⟩ <;> cases h
  · split at h
    · rcases h with h | ⟨_, h⟩
      · cases h; rfl
      · cases h
    · split at h
      · rcases h with h | ⟨_, h⟩
        · cases h
        · cases h; rfl
      · rcases h with h | ⟨_, h⟩
        · cases h; rfl
        · cases h

theorem load_coherent (c : Cache) (hc : Coherent c) (prompt : List Tok) (now : Nat) (cr : CanRes) (c' : Cache)
    (i : Nat) (rest : List Tok) (h : loadCacheSlot c prompt now cr = .ok (c', i, rest)) :
    Coherent c' ∧ c'.resetEnd = c.resetEnd := by
  obtain ⟨c1, i0, n, hf, ht⟩ := load_split c prompt now cr c' i rest h
  have sp := findSlot_spec c prompt now c1 i0 n hf
  have hc1 := coherent_find c hc prompt c1 i0 n sp
  have hi1 : i0 < c1.slots.length := by rw [findSpec_length sp]; exact sp.valid
  have hn : n ≤ (getSlot c1.slots i0).inputs.length := by
    have h1 := sp.pre n (Nat.le_refl _)
    have h2 : ((getSlot c1.slots i0).inputs.take n).length = (prompt.take n).length := by rw [h1]
    simp only [List.length_take] at h2
    have := sp.le
    omega
  refine ⟨coherent_loadTail c1 hc1 i0 n hi1 hn prompt now cr c' i rest ht, ?_⟩
  obtain ⟨m, _, rfl⟩ := loadTail_ok c1 i0 n prompt now cr hc1.1 c' i rest ht
  rcases sp.shape with rfl | ⟨li, _, _, _, rfl⟩ <;> rfl

/-- one step preserves coherence; a failed shift does only when its reset clears the sequence -/
theorem coherent_step (af : Bool) (c c' : Cache) (hc : Coherent c) (hs : Step af c c')
    (hg : af = true → c.resetEnd = maxI32) : Coherent c' ∧ c'.resetEnd = c.resetEnd := by
  match hs with
  | .load _ prompt now cr _ i rest h => exact load_coherent c hc prompt now cr c' i rest h
  | .forward _ i new loc hi hu hfree hpos => exact ⟨coherent_forward c hc i hi new loc hu hfree hpos, rfl⟩
  | .shiftOk _ i keep _ hi hu hlen h =>
    exact ⟨coherent_shift c hc i keep hi hu hlen c' (Or.inl h), shift_resetEnd c i keep c' (Or.inl h)⟩
  | .shiftFailed _ i keep _ ins haf hi hu hlen h =>
    exact ⟨coherent_shift c hc i keep hi hu hlen c' (Or.inr ⟨hg haf, ins, h⟩),
      shift_resetEnd c i keep c' (Or.inr ⟨ins, h⟩)⟩
  | .finish _ i k hi => exact ⟨coherent_finish c hc i k hi, rfl⟩
  | .relocate _ cells' hp hb =>
    refine ⟨⟨hb, fun j hj => ?_⟩, rfl⟩
    obtain ⟨h1, h2⟩ := hc.2 j hj
    exact ⟨h1, SlotOK_perm c.cells cells' _ (hp _) h2⟩

/-- **Coherent is an invariant of every request history (repaired failure path).**  For every
    configuration (slots, context size, policy, with or without shiftFn) and every finite sequence of
    loads, forwards, successful AND failed context shifts, request ends and relocations, starting from
    any coherent cache whose failed-shift reset is `Remove(id, 0, MaxInt32)`: the cache stays coherent. -/
theorem coherent_invariant (c0 c : Cache) (h0 : Coherent c0) (hfix : c0.resetEnd = maxI32)
    (hs : Steps true c0 c) : Coherent c := by
  suffices h : Coherent c ∧ c.resetEnd = maxI32 from h.1
  induction hs with
  | refl => exact ⟨h0, hfix⟩
  | tail b c _ hstep ih =>
    obtain ⟨hb, hr⟩ := ih
    obtain ⟨h1, h2⟩ := coherent_step true b c hb hstep (fun _ => hr)
    exact ⟨h1, h2.trans hr⟩

/-- **Partial (pinned source, `Remove(id, 0, -1)` or any other reset).**  Guard: no ShiftCacheSlot of
    the history takes its failure path (decidable per step: `shiftCacheSlot c i keep` is not a
    `.reprocess`).  What is missing is exactly the failure path: see `F3_pinned_reset_leaves_stale_entries`. -/
theorem coherent_invariant_partial (c0 c : Cache) (h0 : Coherent c0) (hs : Steps false c0 c) : Coherent c := by
  induction hs with
  | refl => exact h0
  | tail b c _ hstep ih => exact (coherent_step false b c ih hstep (fun h => by cases h)).1

/-- a brand-new runner is coherent (plain or sliding-window cache) -/
theorem coherent_init (resetEnd : Int) (parallel ctx batch : Nat) (multi canShift : Bool) (vocab eosMod : Nat)
    (window : Option Nat := none) (perSeqBatch : Bool := false) :
    Coherent (mkServer resetEnd parallel ctx batch multi canShift vocab eosMod window perSeqBatch).cache := by
  unfold mkServer
  generalize capacityV perSeqBatch parallel ctx batch window = cap
  refine ⟨?_, fun j hj => ?_⟩
  · intro x hx
    simp only [List.mem_replicate] at hx
    rw [hx.2]; unfold Cell.free maxI32; simp
  · simp only [List.length_map, List.length_range] at hj
    simp only [List.getElem_map, List.getElem_range]
    refine ⟨trivial, ?_, ?_⟩
    · have : view (List.replicate cap Cell.free) j = [] := by
        apply view_free
        intro x hx
        simp only [List.mem_replicate] at hx
        rw [hx.2]; rfl
      simp only [this]; exact List.Perm.refl _
    · intro h; cases h

/-! ## what the model sees -/

theorem visible_eq_view (cells : List Cell) (s : Nat) (p : Int) :
    visible cells s p = ((view cells s).filter (fun x => decide (x.1 ≤ p))).map (fun x => (x.2.1, x.2.2)) := by
  induction cells with
  | nil => rfl
  | cons c cs ih =>
    unfold visible at ih ⊢
    rw [view_cons]
    by_cases h1 : c.has s
    · by_cases h2 : c.pos ≤ p
      · have : c.key.1 ≤ p := h2
        simp [List.filter_cons, h1, h2, this, ih, Cell.key]
      · have : ¬ c.key.1 ≤ p := h2
        simp [List.filter_cons, h1, h2, this, ih]
    · simp [List.filter_cons, h1, ih]

/-- the history exposed to a batch token at position `p`, for a record `eff` stored coherently -/
def idealHistory (eff : List Tok) (p : Int) : List (Tok × Int) :=
  ((canon eff).filter (fun x => decide (x.1 ≤ p))).map (fun x => (x.2.1, x.2.2))

/-- In a coherent cache, what Forward exposes to the tokens it stores for slot `i` is exactly the
    effective input (record ++ new) up to the token's position, each input at its own position —
    whatever prefixes were reused, forked or shifted before. -/
theorem forward_exposes (c : Cache) (hc : Coherent c) (i : Nat) (hi : i < c.slots.length)
    (new : List Tok) (loc : Nat) (hu : (getSlot c.slots i).inUse = true)
    (hfree : ∀ x ∈ (c.cells.drop loc).take new.length, x.seqs = [])
    (hpos : ((getSlot c.slots i).inputs.length : Int) + new.length < maxI32) (p : Int) :
    (visible (forward c i new loc).cells i p).Perm (idealHistory ((getSlot c.slots i).inputs ++ new) p) := by
  have hc' := coherent_forward c hc i hi new loc hu hfree hpos
  have hi' : i < (forward c i new loc).slots.length := by simp [forward, setSlot, hi]
  obtain ⟨hid', hok'⟩ := hc'.2 i hi'
  have hslot : (forward c i new loc).slots[i] = { c.slots[i] with inputs := c.slots[i].inputs ++ new } := by
    simp [forward, setSlot, List.getElem_modify]
  rw [getSlot_eq _ _ hi] at hu ⊢
  rw [hslot] at hid' hok'
  simp only at hid'
  have hall := hok'.2 hu
  have hV := hok'.1
  simp only [hid'] at hall hV
  rw [filter_all _ _ (fun x hx => by simpa using hall x hx)] at hV
  rw [visible_eq_view]
  unfold idealHistory
  exact (hV.filter _).map _

/-- **Fresh-runner equivalence (stated on what the model is shown).**  Take any coherent cache `c`
    (reached through any history: reuse, fork, shifts) and any coherent `fresh` cache in which slot
    `i`'s record is empty (a brand-new runner, or one that erased everything).  Processing `new` on top
    of the record in `c` exposes to every batch token, up to order, exactly the key rows that `fresh`
    exposes when it processes the whole effective input `record ++ new` from position 0.  The scripted
    model's next token is a function of this multiset, so the generated tokens coincide. After a context
    shift the effective input is the shifted record (coherent_invariant covers the shift itself). -/
theorem fresh_equiv (c fresh : Cache) (hc : Coherent c) (hf : Coherent fresh) (i : Nat)
    (hi : i < c.slots.length) (hif : i < fresh.slots.length)
    (new : List Tok) (loc locf : Nat)
    (hu : (getSlot c.slots i).inUse = true) (huf : (getSlot fresh.slots i).inUse = true)
    (hempty : (getSlot fresh.slots i).inputs = [])
    (hfree : ∀ x ∈ (c.cells.drop loc).take new.length, x.seqs = [])
    (hfreef : ∀ x ∈ (fresh.cells.drop locf).take ((getSlot c.slots i).inputs ++ new).length, x.seqs = [])
    (hpos : ((getSlot c.slots i).inputs.length : Int) + new.length < maxI32) (p : Int) :
    (visible (forward c i new loc).cells i p).Perm
      (visible (forward fresh i ((getSlot c.slots i).inputs ++ new) locf).cells i p) := by
  have h1 := forward_exposes c hc i hi new loc hu hfree hpos p
  have h2 := forward_exposes fresh hf i hif ((getSlot c.slots i).inputs ++ new) locf huf hfreef
    (by rw [hempty]; simp only [List.length_nil, List.length_append]; omega) p
  rw [hempty, List.nil_append] at h2
  exact h1.trans h2.symm

theorem foldl_hash_perm (g : Tok × Int → Int) (l1 l2 : List (Tok × Int)) (h : l1.Perm l2) :
    ∀ a : Int, l1.foldl (fun acc e => acc + g e) a = l2.foldl (fun acc e => acc + g e) a := by
  induction h with
  | nil => intro a; rfl
  | cons x _ ih => intro a; simp only [List.foldl_cons]; exact ih _
  | swap x y l =>
    intro a
    simp only [List.foldl_cons]
    have : a + g y + g x = a + g x + g y := by omega
    rw [this]
  | trans _ _ ih1 ih2 => intro a; rw [ih1, ih2]

/-- the scripted language model only depends on the multiset of exposed key rows -/
theorem nextTok_perm (vocab eosMod : Nat) (l1 l2 : List (Tok × Int)) (h : l1.Perm l2) :
    nextTok vocab eosMod l1 = nextTok vocab eosMod l2 := by
  unfold nextTok
  rw [foldl_hash_perm (fun e => ((e.1 : Int) + 1) * (31 * e.2 + 17)) l1 l2 h 0]

/-- **Fresh-runner equivalence, token level.**  The token the model produces for a batch position in
    the cached run equals the token it produces in a fresh runner that processes the whole effective
    input from position 0 (hypotheses as in `fresh_equiv`). -/
theorem fresh_equiv_tokens (vocab eosMod : Nat) (c fresh : Cache) (hc : Coherent c) (hf : Coherent fresh) (i : Nat)
    (hi : i < c.slots.length) (hif : i < fresh.slots.length)
    (new : List Tok) (loc locf : Nat)
    (hu : (getSlot c.slots i).inUse = true) (huf : (getSlot fresh.slots i).inUse = true)
    (hempty : (getSlot fresh.slots i).inputs = [])
    (hfree : ∀ x ∈ (c.cells.drop loc).take new.length, x.seqs = [])
    (hfreef : ∀ x ∈ (fresh.cells.drop locf).take ((getSlot c.slots i).inputs ++ new).length, x.seqs = [])
    (hpos : ((getSlot c.slots i).inputs.length : Int) + new.length < maxI32) (p : Int) :
    nextTok vocab eosMod (visible (forward c i new loc).cells i p) =
      nextTok vocab eosMod (visible (forward fresh i ((getSlot c.slots i).inputs ++ new) locf).cells i p) :=
  nextTok_perm _ _ _ _ (fresh_equiv c fresh hc hf i hi hif new loc locf hu huf hempty hfree hfreef hpos p)

/-! ## finding F3: the pinned failure path of ShiftCacheSlot -/

/-- One slot, context 4, no shiftFn.  A 4-input prompt fills the context; the shift fails
    (ErrNotSupported after the metadata was already moved); the reset `Remove(id, 0, resetEnd)` runs; the
    two kept inputs are reprocessed.  Returns what the second reprocessed token (position 1) is shown,
    and the length of the record. -/
def f3Trace (resetEnd : Int) : List (Tok × Int) × Nat :=
  let c0 := (mkServer resetEnd 1 4 1 false false 3 0).cache
  match loadCacheSlot c0 [1, 1, 1, 1] 1 (fun _ _ _ => true) with
  | .ok (c1, i, rest) =>
    let c2 := forward c1 i rest 0
    match shiftCacheSlot c2 i 0 with
    | .reprocess c3 ins =>
      let c4 := forward c3 i ins 0
      (visible c4.cells 0 1, (getSlot c4.slots i).inputs.length)
    | _ => ([], 99)
  | _ => ([], 98)

/-- **Witness of finding F3.**  With the pinned reset `Remove(id, 0, -1)` nothing is removed and every
    position moves up by one: the reprocessed token at position 1 is shown three entries (one stale key
    row, still roped to position 2) although the record holds two inputs.  With `math.MaxInt32` it is
    shown exactly the two recorded inputs. -/
theorem F3_pinned_reset_leaves_stale_entries :
    f3Trace (-1) = ([(1, 0), (1, 1), (1, 2)], 2) ∧ f3Trace maxI32 = ([(1, 0), (1, 1)], 2) := by decide

/-- non-vacuity: the hypotheses of the invariant and of `forward_exposes` are met by a real history
    (new runner, load, forward of the whole prompt) -/
example : ∃ c1 i rest,
    loadCacheSlot (mkServer maxI32 2 8 4 true true 5 0).cache [1, 2, 3] 1 (fun _ _ _ => true) = .ok (c1, i, rest) ∧
    Steps true (mkServer maxI32 2 8 4 true true 5 0).cache (forward c1 i rest 0) := by
  refine ⟨_, _, _, rfl, ?_⟩
  refine .tail _ _ _ (.tail _ _ _ (.refl _) (.load _ [1, 2, 3] 1 (fun _ _ _ => true) _ _ _ rfl)) (.forward _ _ _ _ ?_ ?_ ?_ ?_)
  · decide
  · decide
  · decide
  · decide

/-! ## records of different slots never share storage

  In the model a record is a value, so this holds by construction; it is stated because the Go code
  can break it (a fork that aliases `longestSlot.Inputs[:longest]` instead of copying it lets the forked
  request's appends overwrite the source slot's record: seeded change C07-D).  The tie is the
  `record-aliasing` monitors on the real slots of both runners and the exact L1 comparison of every
  record after every event. -/

theorem getSlot_setSlot_other (l : List Slot) (i j : Nat) (f : Slot → Slot) (h : j ≠ i) :
    getSlot (setSlot l i f) j = getSlot l j := by
  unfold getSlot setSlot
  rw [List.getD_eq_getElem?_getD, List.getD_eq_getElem?_getD, List.getElem?_modify]
  have : ¬ i = j := fun e => h e.symm
  cases l[j]? <;> simp [this]

/-- Forward + append on slot `i` leaves every other slot (record, ownership, age) unchanged. -/
theorem forward_other_records (c : Cache) (i j : Nat) (new : List Tok) (loc : Nat) (h : j ≠ i) :
    getSlot (forward c i new loc).slots j = getSlot c.slots j := by
  unfold forward; exact getSlot_setSlot_other _ _ _ _ h

/-- LoadCacheSlot (either policy, fork included: the fork's destination IS the returned slot) leaves
    every other slot unchanged — in particular the source of a fork keeps its whole record. -/
theorem load_other_records (c : Cache) (prompt : List Tok) (now : Nat) (cr : CanRes) (c' : Cache) (i : Nat)
    (rest : List Tok) (h : loadCacheSlot c prompt now cr = .ok (c', i, rest)) (j : Nat) (hj : j ≠ i) :
    getSlot c'.slots j = getSlot c.slots j := by
  obtain ⟨c1, i0, n, hf, ht⟩ := load_split c prompt now cr c' i rest h
  have sp := findSlot_spec c prompt now c1 i0 n hf
  obtain ⟨m, _, _, rfl, _, hs⟩ := loadTail_shape c1 i0 n prompt now cr c' i rest ht
  rw [hs, getSlot_setSlot_other _ _ _ _ hj]
  rcases sp.shape with rfl | ⟨li, _, _, _, rfl⟩
  · rfl
  · exact getSlot_setSlot_other _ _ _ _ hj

/-- ShiftCacheSlot (success or failure path) leaves every other slot unchanged. -/
theorem shift_other_records (c : Cache) (i keep : Nat) (c' : Cache)
    (h : shiftCacheSlot c i keep = .ok c' ∨ ∃ ins, shiftCacheSlot c i keep = .reprocess c' ins)
    (j : Nat) (hj : j ≠ i) : getSlot c'.slots j = getSlot c.slots j := by
  unfold shiftCacheSlot at h
  simp only at h
  split at h
  · rcases h with h | ⟨_, h⟩ <;> cases h
  · split at h
    · rcases h with h | ⟨_, h⟩
      · cases h; rfl
      · cases h
    · split at h
      · rcases h with h | ⟨_, h⟩
        · cases h
        · cases h; exact getSlot_setSlot_other _ _ _ _ hj
      · rcases h with h | ⟨_, h⟩
        · cases h; exact getSlot_setSlot_other _ _ _ _ hj
        · cases h

/-- the same for the llama.cpp runner's bookkeeping (records only) -/
theorem llLoad_other_records (c : Cache) (prompt : List Tok) (now : Nat) (cp : Bool) (c' : Cache) (i : Nat)
    (rest : List Tok) (h : llLoad c prompt now cp = .ok (c', i, rest)) (j : Nat) (hj : j ≠ i) :
    getSlot c'.slots j = getSlot c.slots j := by
  unfold llLoad at h
  split at h
  · cases h
  · next c1 i0 n hf =>
    have sp := findSlot_spec c prompt now c1 i0 n hf
    obtain ⟨m, _, _, rfl, _, hs⟩ := loadTail_shape c1 i0 _ prompt now _ c' i rest h
    rw [hs, getSlot_setSlot_other _ _ _ _ hj]
    rcases sp.shape with rfl | ⟨li, _, _, _, rfl⟩
    · rfl
    · exact getSlot_setSlot_other _ _ _ _ hj

/-- llamarunner: the reused prefix is a prefix of the prompt and one input is left (cachePrompt or not) -/
theorem llLoad_prefix_sound (c : Cache) (prompt : List Tok) (now : Nat) (cp : Bool) (c' : Cache) (i : Nat)
    (rest : List Tok) (hp : prompt ≠ []) (h : llLoad c prompt now cp = .ok (c', i, rest)) :
    (getSlot c'.slots i).inputs ++ rest = prompt ∧ rest ≠ [] ∧
      ∃ hi : i < c.slots.length, c.slots[i].inUse = false := by
  unfold llLoad at h
  split at h
  · cases h
  · next c1 i0 n hf =>
    have sp := findSlot_spec c prompt now c1 i0 n hf
    obtain ⟨m, hmn, hlt, rfl, rfl, hs⟩ := loadTail_shape c1 i0 _ prompt now _ c' i rest h
    have hi1 : i < c1.slots.length := by rw [findSpec_length sp]; exact sp.valid
    have hn' : (if cp = true then n else 0) ≤ n := by split <;> omega
    rw [hs, getSlot_setSlot_same _ _ _ hi1]
    simp only
    rw [sp.pre m (by omega), List.take_append_drop]
    refine ⟨rfl, ?_, sp.valid, by rw [← getSlot_eq _ _ sp.valid]; exact sp.free⟩
    have := hlt hp (by have := sp.le; omega)
    intro hnil
    have : (prompt.drop m).length = 0 := by rw [hnil]; rfl
    simp only [List.length_drop] at this
    omega

/-! ## sliding window: the leave-one / CanResume ordering -/

/-- positions held by sequence `s` -/
def positions (cells : List Cell) (s : Nat) : List Int := (cells.filter (·.has s)).map (·.pos)

/-- every position is held at most once -/
def PosUnique (P : List Int) : Prop := ∀ q : Int, (P.filter (fun x => x == q)).length ≤ 1

def cnt (P : List Int) (lo : Int) (n : Nat) : Nat := (P.filter fun x => decide (lo ≤ x) && decide (x < lo + n)).length

theorem cnt_succ (P : List Int) (lo : Int) (n : Nat) :
    cnt P lo (n + 1) = cnt P lo n + (P.filter (fun x => x == lo + n)).length := by
  unfold cnt
  have hc : ((n + 1 : Nat) : Int) = (n : Int) + 1 := by omega
  rw [hc]
  induction P with
  | nil => rfl
  | cons x xs ih =>
    simp only [List.filter_cons]
    by_cases h1 : lo ≤ x
    · by_cases h2 : x < lo + n
      · have h3 : x < lo + ((n : Int) + 1) := by omega
        have h4 : ¬ x = lo + n := by omega
        simp only [h1, h2, h3, h4, decide_true, decide_false, Bool.and_self, if_true, beq_iff_eq, if_false,
          List.length_cons]
        omega
      · by_cases h5 : x = lo + n
        · subst h5
          have h3 : lo + (n : Int) < lo + ((n : Int) + 1) := by omega
          simp only [h1, h2, h3, decide_true, decide_false, Bool.and_self, Bool.and_false, Bool.and_true,
            if_true, beq_iff_eq, if_false, List.length_cons, Bool.false_eq_true]
          omega
        · have h3 : ¬ x < lo + ((n : Int) + 1) := by omega
          simp only [h1, h2, h3, h5, decide_true, decide_false, Bool.and_self, Bool.and_false, Bool.and_true,
            if_true, beq_iff_eq, if_false, List.length_cons, Bool.false_eq_true]
          omega
    · have h4 : ¬ x = lo + n := by omega
      simp only [h1, h4, decide_true, decide_false, Bool.false_and, if_true, beq_iff_eq, if_false,
        Bool.false_eq_true]
      omega

theorem cnt_le (P : List Int) (hu : PosUnique P) (lo : Int) (n : Nat) : cnt P lo n ≤ n := by
  induction n with
  | zero =>
    unfold cnt
    have : P.filter (fun x => decide (lo ≤ x) && decide (x < lo + (0 : Nat))) = [] := by
      apply List.filter_eq_nil_iff.mpr
      intro x _; simp only [Bool.and_eq_true, decide_eq_true_eq]; omega
    simp [this]
  | succ n ih => rw [cnt_succ]; have := hu (lo + n); omega

/-- counting as many entries as the range is long, with no duplicates, means every position is there -/
theorem cnt_full (P : List Int) (hu : PosUnique P) (lo : Int) (n : Nat) (h : cnt P lo n = n) :
    ∀ k : Nat, k < n → lo + k ∈ P := by
  induction n with
  | zero => intro k hk; omega
  | succ n ih =>
    rw [cnt_succ] at h
    have h1 := cnt_le P hu lo n
    have h2 := hu (lo + n)
    have h3 : cnt P lo n = n := by omega
    have h4 : (P.filter (fun x => x == lo + n)).length = 1 := by omega
    intro k hk
    by_cases hkn : k = n
    · subst hkn
      have : P.filter (fun x => x == lo + k) ≠ [] := by
        intro hnil; rw [hnil] at h4; cases h4
      obtain ⟨x, hx⟩ := List.exists_mem_of_ne_nil _ this
      have := List.mem_filter.mp hx
      have hxe : x = lo + k := by simpa using this.2
      rw [← hxe]; exact this.1
    · exact ih h3 k (by omega)

theorem have_eq (cells : List Cell) (s : Nat) (lo hi : Int) :
    (cells.filter fun c => c.has s && decide (lo ≤ c.pos) && decide (c.pos < hi)).length =
      ((positions cells s).filter fun x => decide (lo ≤ x) && decide (x < hi)).length := by
  unfold positions
  induction cells with
  | nil => rfl
  | cons c cs ih =>
    by_cases h1 : c.has s
    · by_cases h2 : (decide (lo ≤ c.pos) && decide (c.pos < hi)) = true
      · simp [List.filter_cons, h1, h2, ih]
      · simp [List.filter_cons, h1, h2, ih]
    · simp [List.filter_cons, h1, ih]

/-- **`CanResume` is sound** (tree version, with the presence count): if it answers yes for position
    `p` then every position of the window `[max 0 (p - W), p)` is held by the sequence. -/
theorem canResume_sound (W : Nat) (cells : List Cell) (s p : Nat) (hu : PosUnique (positions cells s))
    (h : canResume (some W) cells s p = true) :
    ∀ q : Int, max 0 ((p : Int) - W) ≤ q → q < p → q ∈ positions cells s := by
  unfold canResume canResumeV at h
  simp only at h
  split at h
  · cases h
  · next p0 rest hps =>
    split at h
    · cases h
    · split at h
      · cases h
      · simp only [Bool.not_true, Bool.false_eq_true, if_false, decide_eq_true_eq] at h
        have hlo : max 0 ((p : Int) - W) ≤ (p : Int) := by omega
        generalize hws : max 0 ((p : Int) - W) = lo at h hlo ⊢
        have hcnt := have_eq cells s lo (p : Int)
        have hn : lo + (((p : Int) - lo).toNat : Int) = p := by omega
        have hc : cnt (positions cells s) lo ((p : Int) - lo).toNat = ((p : Int) - lo).toNat := by
          unfold cnt
          rw [hn, ← hcnt]
          omega
        intro q hq1 hq2
        have := cnt_full _ hu lo _ hc (q - lo).toNat (by omega)
        have hq : lo + ((q - lo).toNat : Int) = q := by omega
        rw [hq] at this
        exact this

theorem positions_eq_view (cells : List Cell) (s : Nat) :
    positions cells s = (view cells s).map (·.1) := by
  unfold positions view
  rw [List.map_map]; rfl

/-- **The leave-one / CanResume ordering.**  LoadCacheSlot on a sliding-window cache (window `W`,
    the tree's `CanResume`, asked for the position that is really resumed, i.e. AFTER the "leave one
    input" decrement): the record is cut to `m` inputs, processing continues with `prompt.drop m` at
    position `m`, and every position of the window `[max 0 (m - W), m)` — all that the next batch's
    tokens (positions `≥ m`) can need from the cache — is held by the slot's sequence.
    (Asking CanResume before the decrement, as seeded change C07-B does, breaks exactly this: the
    answer is about `[m+1-W, m+1)` and position `m - W` may already have slid out.) -/
theorem load_window_present (c : Cache) (W i n : Nat) (prompt : List Tok) (now : Nat)
    (hb : PosBound c.cells) (hu : PosUnique (positions c.cells (getSlot c.slots i).id))
    (c' : Cache) (j : Nat) (rest : List Tok)
    (h : loadTail c i n prompt now (canResume (some W)) = .ok (c', j, rest)) :
    ∃ m, m ≤ n ∧ rest = prompt.drop m ∧
      c'.slots = setSlot c.slots i (fun s => { s with inUse := true, lastUsed := now, inputs := s.inputs.take m }) ∧
      ∀ q : Int, max 0 ((m : Int) - W) ≤ q → q < m → q ∈ positions c'.cells (getSlot c.slots i).id := by
  unfold loadTail at h
  simp only at h
  generalize hm1 : (if n = prompt.length then n - 1 else n) = m1 at h
  have hm1n : m1 ≤ n := by rw [← hm1]; split <;> omega
  by_cases hcond : (decide (m1 > 0) && !canResume (some W) c.cells (getSlot c.slots i).id m1) = true
  · -- cannot resume: everything is erased, nothing is needed
    simp only [hcond, if_true] at h
    have hrc := (remove_clear c.canShift c.cells (getSlot c.slots i).id ((0 : Nat) : Int) hb).1
    simp only [hrc, Except.ok.injEq, Prod.mk.injEq] at h
    obtain ⟨rfl, _, rfl⟩ := h
    exact ⟨0, by omega, rfl, rfl, fun q h1 h2 => by omega⟩
  · simp only [hcond, if_false, Bool.false_eq_true] at h
    have hrc := remove_clear c.canShift c.cells (getSlot c.slots i).id (m1 : Int) hb
    simp only [hrc.1, Except.ok.injEq, Prod.mk.injEq] at h
    obtain ⟨rfl, _, rfl⟩ := h
    refine ⟨m1, hm1n, rfl, rfl, ?_⟩
    intro q hq1 hq2
    simp only
    have hm0 : m1 > 0 := by omega
    have hcr : canResume (some W) c.cells (getSlot c.slots i).id m1 = true := by
      cases hc : canResume (some W) c.cells (getSlot c.slots i).id m1 with
      | true => rfl
      | false => simp [hm0, hc] at hcond
    have hin := canResume_sound W c.cells _ m1 hu hcr q hq1 hq2
    rw [positions_eq_view] at hin ⊢
    rw [hrc.2]
    obtain ⟨x, hx, hxq⟩ := List.mem_map.mp hin
    exact List.mem_map.mpr ⟨x, List.mem_filter.mpr ⟨hx, by simp only [decide_eq_true_eq]; omega⟩, hxq⟩

/-- why the order matters (seeded change C07-B): window 4, the sequence holds positions 4‥8 (3 has slid
    out).  Resuming at 8 is fine, resuming at 7 is not — a CanResume answer for 8 says nothing about 7. -/
theorem canResume_not_monotone :
    let cells := [4, 5, 6, 7, 8].map fun p : Int => (⟨p, [0], 1, p⟩ : Cell)
    canResume (some 4) cells 0 8 = true ∧ canResume (some 4) cells 0 7 = false ∧
      (3 : Int) ∉ positions cells 0 := by decide

end OllamaVerif.C07
