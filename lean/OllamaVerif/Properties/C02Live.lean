/-
  C02 — the hypotheses of the two liveness theorems (`drain`, `all_answered`) are satisfiable by non-trivial histories,
  and the theorems are instantiated on them (reviewer finding: `Stuck` was never shown to hold of any state but `init`).

    `drained_state_is_stuck` / `drained_state_reachable` / `drain_instance`      one request, keep-alive expiry
    `evicted_state_is_stuck` / `evicted_state_reachable` / `all_answered_instance`  two models, OLLAMA_MAX_LOADED_MODELS=1:
        the second request waits for the first runner's unload (`waitUnload` on the path), both get exactly one reply
    `dropped_witness`   a request cancelled while queued is skipped: zero replies for ever (its caller had gone away)
    `stuck_but_unanswered_when_holder_runs`  hypothesis `hheld` of `all_answered` is necessary: while the holder of the
        victim has not finished, the state is stuck with request 1 unanswered (the property's proviso)

  Both liveness theorems are statements about the UNBOUNDED base model; with bounded channels a goroutine can park for
  good inside a region (Properties/C02Chan.lean, `F12d_expiredCh_capacity_wedges`: known finding F12d on /repo's tree with
  OLLAMA_MAX_QUEUE = 1), in which case the base projection is not `Stuck` and the theorems are silent.
-/
import OllamaVerif.Properties.C02Drain
import OllamaVerif.Properties.C01Bridge

namespace OllamaVerif.C02
open OllamaVerif.Sched

def sDrained : State := (run Variant.good (Sched.init 0 512 1) drainedTrace).getD {}

theorem drained_state_is_stuck : Stuck sDrained := by
  have hp : sDrained.ppc = .idle := by decide
  have hc : sDrained.cpc = .idle := by decide
  have h1 : sDrained.pendingQ = [] := by decide
  have h2 : sDrained.finishedQ = [] := by decide
  have h3 : sDrained.expiredQ = [] := by decide
  have h4 : sDrained.unloadedQ = 0 := by decide
  have h5 : sDrained.requeuers = [] := by decide
  have h6 : sDrained.delayed = [] := by decide
  have h7 : sDrained.finishWaiters = [] := by decide
  have h8 : sDrained.timerCbs = [] := by decide
  have h9 : sDrained.unloaders = [] := by decide
  have h10 : sDrained.unloadCalls = [] := by decide
  have h11 : sDrained.nRunners = 1 := by decide
  have h12 : (sDrained.runners 0).timerArmed = false := by decide
  intro a ha
  cases a <;> simp [isProgress] at ha <;> simp [step, hp, hc, h1, h2, h3, h4, h5, h6, h7, h8, h9, h10, h11]
  all_goals (try (intro h; subst h; exact h12))

theorem drained_state_reachable : Reach Variant.good (Sched.init 0 512 1) sDrained := by
  cases hr : run Variant.good (Sched.init 0 512 1) drainedTrace with
  | none => exact absurd hr (by decide)
  | some s =>
    have : sDrained = s := by unfold sDrained; rw [hr]; rfl
    rw [this]
    exact OllamaVerif.C01.reach_of_run _ _ _ Reach.init hr

/-- `drain` applied to a one-request history: the runner is shut down and nothing is loaded -/
theorem drain_instance : (sDrained.runners 0).closed = true ∧ sDrained.loaded = [] := by
  have h := drain drained_state_reachable drained_state_is_stuck
    (by intro q hq; have : sDrained.nReqs = 1 := by decide
        have hq0 : q = 0 := by omega
        subst hq0; decide)
    (by decide)
  exact ⟨h.1 0 (by decide), h.2.1⟩

/-- two models, OLLAMA_MAX_LOADED_MODELS = 1: request 1 makes the scheduler expire runner 0 and waits for its unload -/
def evictTrace : List Act := [
  .submit 0 0 none, .submit 1 0 none, .pTake, .pLookup {}, .pLoad true, .loadDone 0 true,
  .pTake, .pLookup {}, .pExpire, .done 0, .finishSend 0, .cTakeFinished, .cFin, .cTakeExpired, .cExp, .cVram,
  .pWaitUnload, .pLookup {}, .pLoad true, .loadDone 1 true, .done 1, .finishSend 1, .cTakeFinished, .cFin,
  .timerFire 1, .timerCb 1, .cTakeExpired, .cExp, .cVram, .pDrainUnloaded]

def sEvicted : State := (run Variant.good (Sched.init 1 512 1) evictTrace).getD {}

theorem evicted_state_is_stuck : Stuck sEvicted := by
  have hp : sEvicted.ppc = .idle := by decide
  have hc : sEvicted.cpc = .idle := by decide
  have h1 : sEvicted.pendingQ = [] := by decide
  have h2 : sEvicted.finishedQ = [] := by decide
  have h3 : sEvicted.expiredQ = [] := by decide
  have h4 : sEvicted.unloadedQ = 0 := by decide
  have h5 : sEvicted.requeuers = [] := by decide
  have h6 : sEvicted.delayed = [] := by decide
  have h7 : sEvicted.finishWaiters = [] := by decide
  have h8 : sEvicted.timerCbs = [] := by decide
  have h9 : sEvicted.unloaders = [] := by decide
  have h10 : sEvicted.unloadCalls = [] := by decide
  have h11 : sEvicted.nRunners = 2 := by decide
  have h12 : (sEvicted.runners 0).timerArmed = false := by decide
  have h13 : (sEvicted.runners 1).timerArmed = false := by decide
  intro a ha
  cases a <;> simp [isProgress] at ha <;> simp [step, hp, hc, h1, h2, h3, h4, h5, h6, h7, h8, h9, h10, h11]
  case timerFire r =>
    intro (h : r < 2)
    have hr : r = 0 ∨ r = 1 := by
      match r, h with
      | 0, _ => left; rfl
      | 1, _ => right; rfl
      | n + 2, hn => exact absurd hn (by simp)
    rcases hr with h0 | h0 <;> subst h0
    · exact h12
    · exact h13

theorem evicted_state_reachable : Reach Variant.good (Sched.init 1 512 1) sEvicted := by
  cases hr : run Variant.good (Sched.init 1 512 1) evictTrace with
  | none => exact absurd hr (by decide)
  | some s =>
    have : sEvicted = s := by unfold sEvicted; rw [hr]; rfl
    rw [this]
    exact OllamaVerif.C01.reach_of_run _ _ _ Reach.init hr

/-- `all_answered` applied to the eviction history: both requests have exactly one reply -/
theorem all_answered_instance : (sEvicted.reqs 0).replies = 1 ∧ (sEvicted.reqs 1).replies = 1 ∧ sEvicted.ppc = .idle := by
  have h := all_answered evicted_state_reachable evicted_state_is_stuck (by decide) (by decide)
    (by intro r q hr hq
        have hn : sEvicted.nRunners = 2 := by decide
        have h0 : (sEvicted.runners 0).holders = [] := by decide
        have h1 : (sEvicted.runners 1).holders = [] := by decide
        have : r = 0 ∨ r = 1 := by omega
        rcases this with h | h <;> subst h <;> simp_all)
  refine ⟨by decide, by decide, h.1⟩

/-- the proviso "provided … the requests ahead of it eventually complete" is necessary: while request 0 still holds the
    victim, nothing internal is enabled (candidate actions), request 1 is unanswered and the pending loop waits -/
theorem stuck_but_unanswered_when_holder_runs :
    (run Variant.good (Sched.init 1 512 1) (evictTrace.take 9)).map
      (fun s => (s.ppc, (s.reqs 1).replies, (s.reqs 0).done, (s.runners 0).holders,
                 ([Act.pTake, .pDrainUnloaded, .pLookup {}, .pNeedsReload, .pUse, .pExpire, .pWaitUnload, .pLoad true,
                   .cTakeFinished, .cFin, .cTakeExpired, .cExp, .cVram, .requeue 0, .timerCb 0, .timerFire 0,
                   .finishSend 0, .finishSend 1, .delayedRequeue 1].all (fun a => (step Variant.good s a).isNone)))) =
      some (.waitUnload 1 0, 0, false, [0], true) := by decide

/-- a request cancelled while still queued is skipped by the pending loop: no reply, ever (its caller has gone away;
    `never_lost` counts it as `dropped`) -/
theorem dropped_witness :
    (run Variant.good (Sched.init 0 512 1) [.submit 0 0 none, .done 0, .pTake]).map
      (fun s => ((s.reqs 0).dropped, (s.reqs 0).replies, s.ppc)) = some (true, 0, .idle) := by decide

end OllamaVerif.C02
