/-
  C09 — the chunksums response parser (Model/RegistryChunksums.lean): whatever text the registry
  streams, every entry the client takes from it is a 32-byte digest with a range 0 ≤ start ≤ end.
-/
import OllamaVerif.Model.RegistryChunksums
namespace OllamaVerif.C09
open OllamaVerif OllamaVerif.Registry.Chunksums

theorem cutDash_left_no_dash : ∀ (w l r : Bytes), cutDash w = some (l, r) → ∀ b ∈ l, b ≠ 45 := by
  intro w
  induction w with
  | nil => intro l r h; simp [cutDash] at h
  | cons a as ih =>
    intro l r h
    unfold cutDash at h
    split at h
    · simp only [Option.some.injEq, Prod.mk.injEq] at h; obtain ⟨rfl, _⟩ := h; intro b hb; cases hb
    · rename_i hne
      split at h
      · cases h
      · rename_i l' r' hc
        simp only [Option.some.injEq, Prod.mk.injEq] at h
        obtain ⟨rfl, _⟩ := h
        intro b hb
        rcases List.mem_cons.mp hb with rfl | hb
        · intro h45; subst h45; simp at hne
        · exact ih l' r' hc b hb

theorem bind_nonneg (o : Option Nat) (v : Int)
    (h : (o.bind fun n => if n < 2 ^ 63 then some (Int.ofNat n) else none) = some v) : 0 ≤ v := by
  cases o with
  | none => simp at h
  | some n =>
    simp only [Option.bind_some] at h
    split at h
    · injection h with h; rw [← h]; exact Int.natCast_nonneg n
    · cases h

theorem parseInt64_nonneg_of_no_dash (w : Bytes) (h : ∀ b ∈ w, b ≠ 45) (v : Int) (hv : parseInt64 w = some v) :
    0 ≤ v := by
  unfold parseInt64 at hv
  split at hv
  · exact bind_nonneg _ v hv
  · exact absurd rfl (h 45 (by simp))
  · exact bind_nonneg _ v hv

/-- **A parsed range is a range.**  Whatever the registry writes after the digest, the chunk
    `parseChunk` accepts has `0 ≤ start ≤ end` — so every chunk of a served plan has at least one
    byte (`End − Start + 1 ≥ 1`) and never a negative offset. -/
theorem parseChunk_valid (w : Bytes) (s e : Int) (h : parseChunk w = some (s, e)) : 0 ≤ s ∧ s ≤ e := by
  unfold parseChunk at h
  split at h
  · cases h
  · rename_i l r hc
    split at h
    · rename_i s' e' hs he
      split at h
      · rename_i hle
        simp only [Option.some.injEq, Prod.mk.injEq] at h
        obtain ⟨rfl, rfl⟩ := h
        exact ⟨parseInt64_nonneg_of_no_dash l (cutDash_left_no_dash w l r hc) s' hs, hle⟩
      · cases h
    · cases h

theorem hexDecode_length : ∀ (n : Nat) (x r : Bytes), x.length ≤ n → hexDecode x = some r → r.length * 2 = x.length := by
  intro n
  induction n with
  | zero =>
    intro x r hn h
    have : x = [] := List.length_eq_zero_iff.mp (Nat.le_zero.mp hn)
    subst this; simp [hexDecode] at h; subst h; rfl
  | succ n ih =>
    intro x r hn h
    match x, h with
    | [], h => simp [hexDecode] at h; subst h; rfl
    | [_], h => simp [hexDecode] at h
    | a :: b :: rest, h =>
      unfold hexDecode at h
      split at h
      · rename_i x' y' r' _ _ hr
        simp only [Option.some.injEq] at h; subst h
        have := ih rest r' (by simp at hn; omega) hr
        simp; omega
      · cases h

theorem parseDigest_length (w d : Bytes) (h : parseDigest w = some d) : d.length = 32 := by
  unfold parseDigest at h
  split at h
  · cases h
  · rename_i p sum _
    split at h
    · rename_i hc
      simp only [Bool.and_eq_true, beq_iff_eq] at hc
      have := hexDecode_length sum.length sum d (Nat.le_refl _) h
      omega
    · cases h

/-- **Every entry the client takes from a chunksums body is well formed** (any body, also one that
    breaks off or turns into garbage): a 32-byte digest and a range with `0 ≤ start ≤ end`. -/
theorem parseEntries_valid : ∀ (n : Nat) (ws : List Bytes), ws.length ≤ n →
    ∀ x ∈ (parseEntries ws).1, x.1.length = 32 ∧ 0 ≤ x.2.1 ∧ x.2.1 ≤ x.2.2 := by
  intro n
  induction n with
  | zero =>
    intro ws hn x hx
    have : ws = [] := List.length_eq_zero_iff.mp (Nat.le_zero.mp hn)
    subst this; simp [parseEntries] at hx
  | succ n ih =>
    intro ws hn x hx
    match ws, hx with
    | [], hx => simp [parseEntries] at hx
    | [d], hx =>
      unfold parseEntries at hx
      split at hx <;> simp at hx
    | d :: r :: rest, hx =>
      unfold parseEntries at hx
      split at hx
      · simp at hx
      · rename_i dg hd
        split at hx
        · simp at hx
        · rename_i s e hc
          simp only [List.mem_cons] at hx
          rcases hx with rfl | hx
          · exact ⟨parseDigest_length d dg hd, parseChunk_valid r s e hc⟩
          · exact ih rest (by simp at hn; omega) x hx

theorem parseBody_valid (body : Bytes) :
    ∀ x ∈ (parseBody body).1, x.1.length = 32 ∧ 0 ≤ x.2.1 ∧ x.2.1 ≤ x.2.2 :=
  parseEntries_valid _ _ (Nat.le_refl _)

/-- "sha256:" followed by 63 zeros and one more hex digit -/
def digestWord (sep last : UInt8) : Bytes := sha256Word ++ [sep] ++ List.replicate 63 48 ++ [last]

/-- non-vacuity: two good lines (CRLF and a tab as separators, `sha256-` form, upper-case hex, a `+`
    sign), then a range with start > end: two entries, then the stream of entries stops -/
example :
    parseBody (digestWord 58 49 ++ [32, 48, 45, 52, 13, 10] ++          -- "sha256:0…01 0-4\r\n"
               digestWord 45 70 ++ [9, 53, 45, 43, 57, 10] ++           -- "sha256-0…0F\t5-+9\n"
               digestWord 58 50 ++ [32, 55, 45, 51]) =                  -- "sha256:0…02 7-3"
      ([(List.replicate 31 0 ++ [1], 0, 4), (List.replicate 31 0 ++ [15], 5, 9)], .invalidRange) := by decide

/-- a digest of the wrong length, and a digest without a range -/
example : (parseBody (sha256Word ++ [58, 48, 49])).2 = .invalidDigest ∧
    (parseBody (digestWord 58 49)).2 = .missingRange ∧ (parseBody [32, 10, 9]) = ([], .clean) := by decide

end OllamaVerif.C09
