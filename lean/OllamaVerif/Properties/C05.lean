/-
  C05 — GGUF written by Ollama decodes to the same metadata, tensors and tensor bytes.

  Property theorems (kept apart from the helper lemmas in Proofs/Gguf.lean).
-/
import OllamaVerif.Proofs.Gguf
import OllamaVerif.Proofs.GgufRoundTrip
import OllamaVerif.Proofs.GgufCreate
import OllamaVerif.Proofs.GgufSort
import OllamaVerif.Proofs.GgufFull
import OllamaVerif.Proofs.GgufShift

namespace OllamaVerif.C05
open OllamaVerif OllamaVerif.Gguf

/-- the (aligned) start of the tensor data section, as the decoder computes it -/
def dataBase (align : Nat) (head : Bytes) : Nat := head.length + padding head.length align

/-- **Tensor bytes at their declared, aligned location.**  For every key/value list and every
    tensor list (any count, any kind, any size residue), if the writer succeeds then every
    tensor's bytes are found at `dataBase + declaredOffset`, and both are multiples of the
    alignment. -/
theorem bytes_at_declared_offset (kvs : List (Bytes × KVal)) (ts : List TIn) (file : Bytes)
    (align : Nat) (halign : alignmentIn kvs = .ok align) (hpos : 0 < align)
    (henc : encode false kvs ts = .ok file) (hwf : ∀ t ∈ ts, WfT t) :
    let head := encHead false align kvs ts
    dataBase align head % align = 0 ∧
    ∀ t o, (t, o) ∈ ts.zip (offsets false align ts 0) →
      o % align = 0 ∧ slice file (dataBase align head + o) t.data.length = t.data := by
  intro head
  have hbase : dataBase align head % align = 0 := padding_aligned _ _ hpos
  refine ⟨hbase, ?_⟩
  intro t o hmem
  have hfile : file = head ++ encData align ts head.length := by
    unfold encode at henc
    simp only [writerAlignment_lenient _ _ halign, bind, Except.bind] at henc
    split at henc
    · cases henc
    · simp only [pure, Except.pure] at henc
      injection henc with h; exact h.symm
  have hinv : head.length + padding head.length align
      = dataBase align head + (0 + padding 0 align) := by
    simp [dataBase, padding]
  obtain ⟨hle, hsl⟩ := encData_slice align (dataBase align head) hbase ts head.length 0 hinv hwf t o hmem
  refine ⟨offsets_aligned align hpos ts 0 o (List.of_mem_zip hmem).2, ?_⟩
  rw [hfile, slice_append_right _ _ _ _ (by omega)]
  exact hsl

/-- **Witness of finding F1 (pinned upstream accumulator).**  Three 4-byte F32 tensors: the
    pinned accumulator declares offsets 0, 32, 32 (the third aliases the second); the repaired
    one declares 0, 32, 64. -/
def t4 (n : UInt8) : TIn := ⟨[n], 0, [1], [n, n, n, n]⟩

theorem F1_pinned_offsets_alias :
    offsets true 32 [t4 1, t4 2, t4 3] 0 = [0, 32, 32] ∧
    offsets false 32 [t4 1, t4 2, t4 3] 0 = [0, 32, 64] := by decide

/-- non-vacuity: the hypotheses of `bytes_at_declared_offset` are met by a concrete input -/
example : alignmentIn [] = .ok 32 ∧ (∀ t ∈ [t4 1, t4 2, t4 3], WfT t) ∧
    (encode false [] [t4 1, t4 2, t4 3]).isOk = true := by
  refine ⟨rfl, ?_, by decide⟩
  intro t ht
  simp only [List.mem_cons, List.not_mem_nil, or_false] at ht
  rcases ht with rfl | rfl | rfl <;> (unfold WfT; decide)

/-- **Round trip** (re-exported from Proofs/GgufRoundTrip.lean): writing keys/values (given in key
    order, distinct keys, none of them `general.parameter_count`) and tensors and decoding the file
    yields the same keys and values (+ the parameter count), the same tensor names, kinds and
    dimension-reversed shapes with the declared offsets, the aligned data start, and an end offset
    equal to the file length — for every input meeting the size bounds a real file meets (lengths
    and counts below 2^63 / 2^64, element values in range) and every `maxArraySize`. -/
theorem decode_encode (kvs : List (Bytes × KVal)) (ts : List TIn) (file : Bytes) (align : Nat) (maxArraySize : Int)
    (hsorted : sortKVs kvs = kvs) (hnodup : (kvs.map (·.1)).Nodup)
    (hnoparam : ∀ kv ∈ kvs, kv.1 ≠ keyParamCount)
    (hwkv : ∀ kv ∈ kvs, WfKV kv) (hwt : ∀ t ∈ ts, WfTensor t ∧ WfT t)
    (hnk : kvs.length < two64) (hnt : ts.length < two64)
    (halign : alignmentIn kvs = .ok align) (hpos : 0 < align)
    (hoff : ∀ o ∈ offsets false align ts 0, o < two64)
    (henc : encode false kvs ts = .ok file) (hlen : file.length < two63) :
    decode file maxArraySize none
      = .ok ⟨3, kvs.map (fun kv => (kv.1, toVal (if maxArraySize = 0 then 1024 else maxArraySize) kv.2)) ++
                [(keyParamCount, .scalar 10 (sumParameters (infosOf ts (offsets false align ts 0))))],
             infosOf ts (offsets false align ts 0),
             (encHead false align kvs ts).length + padding (encHead false align kvs ts).length align, file.length⟩ :=
  OllamaVerif.Gguf.decode_encode kvs ts file align maxArraySize hsorted hnodup hnoparam hwkv hwt hnk hnt halign hpos
    hoff henc hlen

/-- **Round trip, keys given in any order** (the writer sorts them: `slices.Sort(keys)`): the decoder
    returns the written keys and values in key order (`sortKVs kvs`; for a Go map the order is
    immaterial) followed by the parameter count. -/
theorem decode_encode_any_key_order (kvs : List (Bytes × KVal)) (ts : List TIn) (file : Bytes) (align : Nat)
    (maxArraySize : Int)
    (hnodup : (kvs.map (·.1)).Nodup)
    (hnoparam : ∀ kv ∈ kvs, kv.1 ≠ keyParamCount)
    (hwkv : ∀ kv ∈ kvs, WfKV kv) (hwt : ∀ t ∈ ts, WfTensor t ∧ WfT t)
    (hnk : kvs.length < two64) (hnt : ts.length < two64)
    (halign : alignmentIn kvs = .ok align) (hpos : 0 < align)
    (hoff : ∀ o ∈ offsets false align ts 0, o < two64)
    (henc : encode false kvs ts = .ok file) (hlen : file.length < two63) :
    decode file maxArraySize none
      = .ok ⟨3, (sortKVs kvs).map (fun kv => (kv.1, toVal (if maxArraySize = 0 then 1024 else maxArraySize) kv.2)) ++
                [(keyParamCount, .scalar 10 (sumParameters (infosOf ts (offsets false align ts 0))))],
             infosOf ts (offsets false align ts 0),
             (encHead false align kvs ts).length + padding (encHead false align kvs ts).length align, file.length⟩ :=
  OllamaVerif.Gguf.decode_encode_any_order kvs ts file align maxArraySize hnodup hnoparam hwkv hwt hnk hnt halign hpos
    hoff henc hlen

/-- **The property in one statement, at full strength** (Proofs/GgufFull.lean).  For every key/value list over the
    eight value types the writer supports (keys in any order and distinct — a Go map —, empty strings and arrays
    included, `general.alignment` any non-zero uint32), every tensor list (any count, names, kinds, shapes, size
    residues) and every `maxArraySize`: if the writer produced `file`, the decoder returns a value `d` with
    `RoundTrip`: the written keys and values (as the list in key order and as look-ups; nothing else but the parameter
    count), tensor by tensor the written name, kind and dimension-reversed shape, the written bytes at
    `d.tensorOffset + offset`, that location inside the file and a multiple of the alignment, and
    `d.endOffset = file.length`.
    The only size bound is `file.length < 2^63` (the per-string / per-array / per-count / per-offset bounds of
    `decode_encode_any_key_order` are DERIVED from it: a part of the file is no longer than the file).  What is left
    as hypotheses: Go's types (`TypedVal`, `TypedTensor`), the data-source contract `WfT` (a tensor's `WriterTo` writes
    `Size()` bytes), no written `general.parameter_count` (the decoder overwrites it), alignment ≠ 0. -/
theorem write_decode_full (kvs : List (Bytes × KVal)) (ts : List TIn) (file : Bytes) (align : Nat) (maxArraySize : Int)
    (hnodup : (kvs.map (·.1)).Nodup)
    (hnoparam : ∀ kv ∈ kvs, kv.1 ≠ keyParamCount)
    (htv : ∀ kv ∈ kvs, TypedVal kv.2) (htt : ∀ t ∈ ts, TypedTensor t ∧ WfT t)
    (halign : alignmentIn kvs = .ok align) (hpos : 0 < align)
    (henc : encode false kvs ts = .ok file) (hlen : file.length < two63) :
    ∃ d, decode file maxArraySize none = .ok d ∧
      RoundTrip kvs ts file align (if maxArraySize = 0 then 1024 else maxArraySize) d :=
  OllamaVerif.Gguf.write_decode_full kvs ts file align maxArraySize hnodup hnoparam htv htt halign hpos henc hlen

/-- non-vacuity of `write_decode_full`: keys out of order (the alignment key after `zz`), an empty string, an empty
    array, an array above the default collection limit is not needed for the hypotheses; three tensors whose size (4)
    is not a multiple of the alignment (8) -/
def kvFull : List (Bytes × KVal) :=
  [([122, 122], .str []), (keyAlignment, .u32 8), ([97], .astr []), ([98], .ai32 [4294967295, 0])]

example : (kvFull.map (·.1)).Nodup ∧ (∀ kv ∈ kvFull, kv.1 ≠ keyParamCount ∧ TypedVal kv.2) ∧
    alignmentIn kvFull = .ok 8 ∧ (∀ t ∈ [t4 1, t4 2, t4 3], TypedTensor t ∧ WfT t) ∧
    (encode false kvFull [t4 1, t4 2, t4 3]).isOk = true := by
  refine ⟨by decide, ?_, rfl, ?_, by decide⟩
  · intro kv hkv
    simp only [kvFull, List.mem_cons, List.not_mem_nil, or_false] at hkv
    rcases hkv with rfl | rfl | rfl | rfl
    · exact ⟨by decide, trivial⟩
    · exact ⟨by decide, by unfold TypedVal; decide⟩
    · exact ⟨by decide, trivial⟩
    · refine ⟨by decide, ?_⟩
      intro x hx
      simp only [List.mem_cons, List.not_mem_nil, or_false] at hx
      rcases hx with rfl | rfl <;> decide
  · intro t ht
    simp only [List.mem_cons, List.not_mem_nil, or_false] at ht
    rcases ht with rfl | rfl | rfl <;>
      exact ⟨⟨by decide, by decide, by decide⟩, by unfold WfT; decide⟩

/-- **A written file decoded as the 2nd, 3rd, … model of an upload** (Proofs/GgufShift.lean): with the reader at file
    position `p`, a multiple of the file's alignment (the decoder pads to absolute file offsets), and whatever bytes
    follow the file, the decode succeeds and ends at `p + file.length` — where the next model starts.
    (`Gguf.decode_encode_at_sorted` gives the whole decoded value: same keys, values, tensor infos; data start moved by `p`.) -/
theorem decode_written_file_at (file tail : Bytes) (align p : Nat) (maxArraySize : Int) (hw : Written file align)
    (hp : p % align = 0) (hlen : p + file.length < two63) :
    ∃ d, decodeFrom ⟨file ++ tail, p⟩ maxArraySize none = .ok d ∧ d.endOffset = p + file.length :=
  decode_written_at file tail align p maxArraySize hw hp hlen

/-- **create on several written files uploaded back to back** (`server/create.go ggufLayers`, the use of the end offset
    the property names): two or more non-empty written files, each starting at a multiple of its own alignment: create
    answers with exactly one layer per file; layer i starts where file i starts and is exactly as long as file i
    (`LayersMatch`) — every layer is exactly one model. -/
theorem create_layers_of_written_files (fs : List (Bytes × Nat)) (maxSeek : Nat)
    (h2 : 2 ≤ fs.length) (hpos : ∀ f ∈ fs, 0 < f.1.length)
    (haw : AlignedWritten 0 fs)
    (hlt : (fs.map (·.1)).flatten.length < two63) (hms : (fs.map (·.1)).flatten.length ≤ maxSeek) :
    ∃ out, ggufLayers (fs.map (·.1)).flatten none Guards.tree maxSeek = some (.ok out) ∧
      LayersMatch out (startsFrom 0 (fs.map (·.1))) (fs.map (·.1)) :=
  OllamaVerif.Gguf.create_layers_of_written_files fs maxSeek h2 hpos haw hlt hms

/-- non-vacuity: a file written with alignment 1 (any start is aligned), uploaded twice -/
def kvA1 : List (Bytes × KVal) := [(keyAlignment, .u32 1)]
example : (encode false kvA1 [t4 1]).isOk = true := by decide
example (f : Bytes) (h : encode false kvA1 [t4 1] = .ok f) : AlignedWritten 0 [(f, 1), (f, 1)] := by
  have hw : Written f 1 := ⟨⟨kvA1, [t4 1], by decide, by
    intro kv hkv; simp only [kvA1, List.mem_singleton] at hkv; subst hkv; decide, by
    intro kv hkv; simp only [kvA1, List.mem_singleton] at hkv; subst hkv; unfold TypedVal; decide, by
    intro t ht; simp only [List.mem_singleton] at ht; subst ht
    exact ⟨⟨by decide, by decide, by decide⟩, by unfold WfT; decide⟩, rfl, by decide, h⟩⟩
  exact ⟨hw, Nat.mod_one _, hw, Nat.mod_one _, trivial⟩

/-- **The round trip for the tensor list the caller passed** (the writer sorts the list before writing; `written` is any
    permutation of `ts`): every tensor of the caller's list is found with its name, kind, reversed shape and bytes at an
    aligned location inside the file, and the decoded list has the same length (Proofs/GgufFull.lean). -/
theorem write_decode_caller_list (kvs : List (Bytes × KVal)) (ts written : List TIn) (file : Bytes) (align : Nat)
    (maxArraySize : Int) (hperm : written.Perm ts)
    (hnodup : (kvs.map (·.1)).Nodup)
    (hnoparam : ∀ kv ∈ kvs, kv.1 ≠ keyParamCount)
    (htv : ∀ kv ∈ kvs, TypedVal kv.2) (htt : ∀ t ∈ ts, TypedTensor t ∧ WfT t)
    (halign : alignmentIn kvs = .ok align) (hpos : 0 < align)
    (henc : encode false kvs written = .ok file) (hlen : file.length < two63) :
    ∃ d, decode file maxArraySize none = .ok d ∧ d.endOffset = file.length ∧ d.tensors.length = ts.length ∧
      ∀ t ∈ ts, ∃ (i : Nat) (hi : i < d.tensors.length),
        d.tensors[i].name = t.name ∧ d.tensors[i].kind = t.kind ∧ d.tensors[i].shape = t.shape.reverse ∧
        d.tensors[i].offset % align = 0 ∧
        d.tensorOffset + d.tensors[i].offset + t.data.length ≤ file.length ∧
        slice file (d.tensorOffset + d.tensors[i].offset) t.data.length = t.data :=
  OllamaVerif.Gguf.write_decode_caller_list kvs ts written file align maxArraySize hperm hnodup hnoparam htv htt halign hpos henc hlen

/-! ### finding F1c: the writer accepts a `general.alignment` its own decoder rejects

  `WriteGGUF` reads the alignment with `kv.Uint("general.alignment", 32)`; `keyValue[uint32]` treats a key stored with
  another type as missing, so the file is laid out with 32 and the key is written with its own type; a `uint32(0)` is
  only noticed when a tensor has to be padded.  `Decode` insists on a non-zero uint32.  The guard
  `alignmentIn kvs = .ok align` ∧ `0 < align` of the theorems above excludes exactly these inputs.  The repaired writer
  (`encode … (strict := true)`, proposed_fixes/C05-F1c-writer-alignment.patch) refuses them. -/

/-- the written bytes of a tensorless file (kernel-reducible for the witnesses: `sortKVs` of one pair) -/
def fileOf1 (kv : Bytes × KVal) : Bytes := encHeader 0 1 ++ encKV kv

/-- outcome tests usable with `decide` -/
def okIs (x : Except Err Nat) (n : Nat) : Bool := match x with | .ok a => a == n | .error _ => false
def errIs {α : Type} (x : Except Err α) (e : Err) : Bool := match x with | .error e' => e' == e | .ok _ => false

/-- **Witness F1c (alignment stored as a string)**: the lenient writer succeeds — laying the file out with 32 — and the
    decoder rejects what it wrote; the repaired writer refuses the input. -/
theorem F1c_writer_accepts_what_decoder_rejects :
    okIs (writerAlignment false [(keyAlignment, .str [97, 98, 99])]) 32 = true ∧
    errIs (decode (fileOf1 (keyAlignment, .str [97, 98, 99])) 0 none) (.invalid "alignment type") = true ∧
    errIs (writerAlignment true [(keyAlignment, .str [97, 98, 99])]) (.invalid "general.alignment") = true := by decide

/-- **Witness F1c (alignment `uint32(0)`, no tensors)** -/
theorem F1c_zero_alignment_without_tensors :
    okIs (writerAlignment false [(keyAlignment, .u32 0)]) 0 = true ∧
    errIs (decode (fileOf1 (keyAlignment, .u32 0)) 0 none) (.invalid "alignment zero") = true ∧
    errIs (writerAlignment true [(keyAlignment, .u32 0)]) (.invalid "general.alignment") = true := by decide

/-- `fileOf1` is what `encode` writes for one pair and no tensor -/
theorem fileOf1_is_encode (kv : Bytes × KVal) (a : Nat) (h : writerAlignment false [kv] = .ok a) :
    encode false [kv] [] = .ok (fileOf1 kv) := by
  unfold encode
  rw [h]
  simp [bind, Except.bind, pure, Except.pure, encHead, fileOf1, sortKVs, encTInfos, encData, offsets]

/-- **The round trip for the repaired writer: no alignment hypothesis left.**  If the strict writer produced `file`, the
    decoder returns the `RoundTrip` value for the alignment the key/values ask for. -/
theorem write_decode_full_repaired_writer (kvs : List (Bytes × KVal)) (ts : List TIn) (file : Bytes) (maxArraySize : Int)
    (hnodup : (kvs.map (·.1)).Nodup)
    (hnoparam : ∀ kv ∈ kvs, kv.1 ≠ keyParamCount)
    (htv : ∀ kv ∈ kvs, TypedVal kv.2) (htt : ∀ t ∈ ts, TypedTensor t ∧ WfT t)
    (henc : encode false kvs ts true = .ok file) (hlen : file.length < two63) :
    ∃ align d, alignmentIn kvs = .ok align ∧ 0 < align ∧ decode file maxArraySize none = .ok d ∧
      RoundTrip kvs ts file align (if maxArraySize = 0 then 1024 else maxArraySize) d := by
  obtain ⟨align, ha, hpos, henc'⟩ := encode_strict kvs ts file henc
  obtain ⟨d, hd, hr⟩ := OllamaVerif.Gguf.write_decode_full kvs ts file align maxArraySize hnodup hnoparam htv htt ha hpos henc' hlen
  exact ⟨align, d, ha, hpos, hd, hr⟩

/-- non-vacuity: the strict writer accepts `kvFull` (alignment 8) -/
example : (encode false kvFull [t4 1, t4 2, t4 3] true).isOk = true := by decide

/-- **create on ANY single written file** (restated from `Written`, only bound: file length): one layer, the uploaded blob itself -/
theorem create_takes_any_written_file_whole (file : Bytes) (align : Nat) (hw : Written file align) (hlen : file.length < two63) :
    ∃ d m, decode file 0 none = .ok d ∧ d.endOffset = file.length ∧
      ggufLayers file = some (.ok [⟨0, file.length, true, m, d⟩]) := by
  obtain ⟨d, hd, hend⟩ := decode_written_at file [] align 0 0 hw (Nat.zero_mod _) (by omega)
  simp only [List.append_nil, Nat.zero_add] at hd hend
  obtain ⟨m, hm⟩ := mediaType_all d.kvs
  exact ⟨d, m, hd, hend, ggufLayers_single file none Guards.tree _ d m hd hend (by unfold two63 at *; omega) hm⟩

/-- non-vacuity of `create_layers_of_written_files` with the DEFAULT alignment: a file whose length (96) is a multiple of
    32 — its single F32 tensor has 8 elements — uploaded twice -/
def t32 : TIn := ⟨[116], 0, [8], List.replicate 32 7⟩
def file96 : Bytes := encHeader 1 0 ++ encTInfo t32 0 ++ List.replicate 7 0 ++ t32.data
theorem file96_written : encode false [] [t32] = .ok file96 ∧ file96.length = 96 := by
  refine ⟨?_, by decide⟩
  have hs : sortKVs [] = [] := by simp [sortKVs]
  have hpad : padding 57 32 = 7 := by decide
  have hlen : (encHeader 1 0 ++ encTInfo t32 0).length = 57 := by decide
  unfold encode writerAlignment
  simp only [List.find?_nil, Option.map_none, bind, Except.bind, pure, Except.pure, encHead, hs, List.flatMap_nil,
    List.length_nil, List.length_cons, List.append_nil, offsets, encTInfos, encData]
  rw [if_neg (by decide)]
  have h0 : (0 : Nat) + padding 0 32 = 0 := by decide
  simp only [h0, hlen, hpad, file96, List.append_assoc]

example : AlignedWritten 0 [(file96, 32), (file96, 32)] := by
  have hw : Written file96 32 := by
    refine ⟨⟨[], [t32], by decide, ?_, ?_, ?_, rfl, by decide, file96_written.1⟩⟩
    · intro kv hkv; cases hkv
    · intro kv hkv; cases hkv
    · intro t ht
      simp only [List.mem_singleton] at ht; subst ht
      exact ⟨⟨by decide, by decide, by decide⟩, by unfold WfT; decide⟩
  exact ⟨hw, by decide, hw, by rw [file96_written.2], trivial⟩

/-- the decoded keys are exactly the written keys (as a set) plus the parameter count -/
theorem decoded_keys_are_written_keys (kvs : List (Bytes × KVal)) (k : Bytes) :
    k ∈ (sortKVs kvs).map (·.1) ↔ k ∈ kvs.map (·.1) :=
  ((sortKVs_perm kvs).map (·.1)).mem_iff

/-- corollary: the end offset reported by the decoder equals the file length -/
theorem end_offset_is_file_length (kvs : List (Bytes × KVal)) (ts : List TIn) (file : Bytes) (align : Nat) (maxA : Int)
    (hsorted : sortKVs kvs = kvs) (hnodup : (kvs.map (·.1)).Nodup)
    (hnoparam : ∀ kv ∈ kvs, kv.1 ≠ keyParamCount)
    (hwkv : ∀ kv ∈ kvs, WfKV kv) (hwt : ∀ t ∈ ts, WfTensor t ∧ WfT t)
    (hnk : kvs.length < two64) (hnt : ts.length < two64)
    (halign : alignmentIn kvs = .ok align) (hpos : 0 < align)
    (hoff : ∀ o ∈ offsets false align ts 0, o < two64)
    (henc : encode false kvs ts = .ok file) (hlen : file.length < two63) :
    (decode file maxA none).toOption.map (·.endOffset) = some file.length := by
  rw [OllamaVerif.Gguf.decode_encode kvs ts file align maxA hsorted hnodup hnoparam hwkv hwt hnk hnt halign hpos hoff henc hlen]
  rfl

/-- **What create does with a file Ollama wrote** (`server/create.go ggufLayers`, the use of the end
    offset the property names): the upload is recognised as exactly one model and becomes one layer
    that is the uploaded blob itself — whole file, offset 0, nothing copied or cut. -/
theorem create_takes_written_file_whole (kvs : List (Bytes × KVal)) (ts : List TIn) (file : Bytes) (align : Nat)
    (hsorted : sortKVs kvs = kvs) (hnodup : (kvs.map (·.1)).Nodup)
    (hnoparam : ∀ kv ∈ kvs, kv.1 ≠ keyParamCount)
    (hwkv : ∀ kv ∈ kvs, WfKV kv) (hwt : ∀ t ∈ ts, WfTensor t ∧ WfT t)
    (hnk : kvs.length < two64) (hnt : ts.length < two64)
    (halign : alignmentIn kvs = .ok align) (hpos : 0 < align)
    (hoff : ∀ o ∈ offsets false align ts 0, o < two64)
    (henc : encode false kvs ts = .ok file) (hlen : file.length < two63) :
    ∃ d m, decode file 0 none = .ok d ∧ ggufLayers file = some (.ok [⟨0, file.length, true, m, d⟩]) := by
  have h := OllamaVerif.Gguf.decode_encode kvs ts file align 0 hsorted hnodup hnoparam hwkv hwt hnk hnt halign hpos hoff henc hlen
  simp only [] at h
  obtain ⟨m, hm⟩ := mediaType_all (kvs.map (fun kv => (kv.1, toVal (if (0 : Int) = 0 then 1024 else 0) kv.2)) ++
    [(keyParamCount, .scalar 10 (sumParameters (infosOf ts (offsets false align ts 0))))])
  exact ⟨_, m, h, ggufLayers_single file none Guards.tree _ _ m h rfl (by unfold two63 at *; omega) hm⟩

/-- **Layers of a multi-model upload do not overlap**: whatever the upload holds, each layer create
    cuts out of it ends where or before the next one starts — each layer is its own model's extent
    (upstream copied n instead of n − offset bytes: a layer held its model plus part of the next ones;
    finding F1b, repaired in /repo). -/
theorem create_layers_disjoint (bs : Bytes) (budget : Option Nat) (maxSeek : Nat) (out : List GLayer)
    (h : ggufLayers bs budget Guards.tree maxSeek = some (.ok out)) : Disjoint out :=
  ggufLayers_disjoint bs budget Guards.tree rfl maxSeek out h

/-- non-vacuity of `decode_encode`: two keys (one of them the alignment) and three tensors -/
def kvEx : List (Bytes × KVal) := [(keyAlignment, .u32 32)]

example : sortKVs kvEx = kvEx ∧ (kvEx.map (·.1)).Nodup ∧ alignmentIn kvEx = .ok 32 ∧
    (∀ kv ∈ kvEx, kv.1 ≠ keyParamCount ∧ WfKV kv) ∧
    (∀ t ∈ [t4 1, t4 2, t4 3], WfTensor t ∧ WfT t) := by
  refine ⟨by simp [sortKVs, kvEx], by decide, rfl, ?_, ?_⟩
  · intro kv hkv
    simp only [kvEx, List.mem_singleton] at hkv
    subst hkv
    exact ⟨by decide, by unfold WfKV WfVal; decide⟩
  · intro t ht
    simp only [List.mem_cons, List.not_mem_nil, or_false] at ht
    rcases ht with rfl | rfl | rfl <;>
      exact ⟨⟨by decide, by decide, by decide, by decide⟩, by unfold WfT; decide⟩

end OllamaVerif.C05
