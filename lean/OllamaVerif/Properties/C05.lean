/-
  C05 — GGUF written by Ollama decodes to the same metadata, tensors and tensor bytes.

  Property theorems (kept apart from the helper lemmas in Proofs/Gguf.lean).
-/
import OllamaVerif.Proofs.Gguf

namespace OllamaVerif.C05
open OllamaVerif OllamaVerif.Gguf

/-- the (aligned) start of the tensor data section, as the decoder computes it -/
def dataBase (align : Nat) (head : Bytes) : Nat := head.length + padding head.length align

/-- **Tensor bytes at their declared, aligned location.**  For every key/value list and every
    tensor list (any count, any kind, any size residue), if the writer succeeds then every
    tensor's bytes are found at `dataBase + declaredOffset`, and both are multiples of the
    alignment. -/
theorem bytes_at_declared_offset (kvs : List (Bytes × KVal)) (ts : List TIn) (file : Bytes)
    (align : Nat) (halign : alignmentIn kvs = .ok align) (hpos : 0 < align)
    (henc : encode false kvs ts = .ok file) (hwf : ∀ t ∈ ts, WfT t) :
    let head := encHead false align kvs ts
    dataBase align head % align = 0 ∧
    ∀ t o, (t, o) ∈ ts.zip (offsets false align ts 0) →
      o % align = 0 ∧ slice file (dataBase align head + o) t.data.length = t.data := by
  intro head
  have hbase : dataBase align head % align = 0 := padding_aligned _ _ hpos
  refine ⟨hbase, ?_⟩
  intro t o hmem
  have hfile : file = head ++ encData align ts head.length := by
    unfold encode at henc
    simp only [halign, bind, Except.bind] at henc
    split at henc
    · cases henc
    · simp only [pure, Except.pure] at henc
      injection henc with h; exact h.symm
  have hinv : head.length + padding head.length align
      = dataBase align head + (0 + padding 0 align) := by
    simp [dataBase, padding]
  obtain ⟨hle, hsl⟩ := encData_slice align (dataBase align head) hbase ts head.length 0 hinv hwf t o hmem
  refine ⟨offsets_aligned align hpos ts 0 o (List.of_mem_zip hmem).2, ?_⟩
  rw [hfile, slice_append_right _ _ _ _ (by omega)]
  exact hsl

/-- **Witness of finding F1 (pinned upstream accumulator).**  Three 4-byte F32 tensors: the
    pinned accumulator declares offsets 0, 32, 32 (the third aliases the second); the repaired
    one declares 0, 32, 64. -/
def t4 (n : UInt8) : TIn := ⟨[n], 0, [1], [n, n, n, n]⟩

theorem F1_pinned_offsets_alias :
    offsets true 32 [t4 1, t4 2, t4 3] 0 = [0, 32, 32] ∧
    offsets false 32 [t4 1, t4 2, t4 3] 0 = [0, 32, 64] := by decide

/-- non-vacuity: the hypotheses of `bytes_at_declared_offset` are met by a concrete input -/
example : alignmentIn [] = .ok 32 ∧ (∀ t ∈ [t4 1, t4 2, t4 3], WfT t) ∧
    (encode false [] [t4 1, t4 2, t4 3]).isOk = true := by
  refine ⟨rfl, ?_, by decide⟩
  intro t ht
  simp only [List.mem_cons, List.not_mem_nil, or_false] at ht
  rcases ht with rfl | rfl | rfl <;> (unfold WfT; decide)

end OllamaVerif.C05
